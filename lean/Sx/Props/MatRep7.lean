import Sx.Props.MatRep6

/-! # Layer R — part 7: acceptance of `addSimplex` without the top-order proviso; `relabelSimplex` -/
namespace MatRep
open Flat M2
set_option linter.unusedSectionVars false

theorem pairwise_of_forall {α : Type} {R : α → α → Prop} {l : List α} (h : ∀ a ∈ l, ∀ b ∈ l, R a b) :
    l.Pairwise R := by
  induction l with
  | nil => exact List.Pairwise.nil
  | cons a l ih =>
    exact List.Pairwise.cons (fun b hb => h a List.mem_cons_self b (List.mem_cons_of_mem _ hb))
      (ih (fun a ha b hb => h a (List.mem_cons_of_mem _ ha) b (List.mem_cons_of_mem _ hb)))

/-- `abs r` lists the simplices by ascending order -/
theorem abs_sorted (r : Rep) : (abs r).simps.Pairwise (fun a b => a.order ≤ b.order) := by
  unfold abs
  simp only
  rw [List.pairwise_flatMap]
  constructor
  · intro k _
    apply pairwise_of_forall
    intro a ha b hb
    rw [level_order ha, level_order hb]
  · exact List.Pairwise.imp (fun {a b} hab x hx y hy => by rw [level_order hx, level_order hy]; omega)
      List.pairwise_lt_range

theorem order_le_maxOrder (r : Rep) {t : Simp Name} (ht : t ∈ (abs r).simps) :
    (t.order : Int) ≤ (abs r).maxOrder := by
  unfold Cx.maxOrder
  cases hl : (abs r).simps.getLast? with
  | none =>
    rw [List.getLast?_eq_none_iff] at hl
    rw [hl] at ht; cases ht
  | some s =>
    simp only
    obtain ⟨l, hl'⟩ : ∃ l, (abs r).simps = l ++ [s] := List.getLast?_eq_some_iff.mp hl
    have hsorted := abs_sorted r
    rw [hl'] at hsorted ht
    rw [List.pairwise_append] at hsorted
    rcases List.mem_append.mp ht with h | h
    · have := hsorted.2.2 t h s (by simp)
      exact_mod_cast this
    · simp at h; subst h; exact Int.le_refl _

theorem neg_one_le_maxOrder (c : C) : (-1 : Int) ≤ c.maxOrder := by
  unfold Cx.maxOrder; cases c.simps.getLast? <;> simp

/-- a known simplex has an order Layer A knows about -/
theorem orderOf_le_maxOrder {r : Rep} {f : Name} {j : Nat} (h : r.orderOf? f = some j) :
    (j : Int) ≤ (abs r).maxOrder := by
  unfold Rep.orderOf? at h
  cases hf : r.find? f with
  | none => rw [hf] at h; cases h
  | some p =>
    obtain ⟨k, i⟩ := p
    rw [hf] at h
    simp only [Option.map_some, Option.some.injEq] at h
    subst h
    have : r.simpAt k i f ∈ (abs r).simps := mem_abs.mpr ⟨k, i, (find?_some hf).2, rfl⟩
    exact order_le_maxOrder r this

/-- the guard chain with the maximum order as a parameter -/
def guardG (M : Int) (r : Rep) (fs : List Name) (id : Name) : Option Err :=
  let k := fs.length - 1
  if fs.length = 1 then some .value else
  if r.contains id then some .key else
  if ¬ fs.Nodup then some .key else
  if (k : Int) > M + 1 then some .value else
  if fs.isEmpty then none else
  if fs.any (fun f => !r.contains f) then some .key else
  if fs.any (fun f => r.orderOf? f != some (k - 1)) then some .value else
  if r.hasSimplexWithFaces k fs then some .key else none

theorem guardR_eq_G (r : Rep) (fs : List Name) (id : Name) : guardR r fs id = guardG r.maxOrder r fs id := rfl

theorem guardA_eq_G {r : Rep} (hI : MInv r) (fs : List Name) (id : Name) :
    guardA (abs r) fs id = guardG (abs r).maxOrder r fs id := by
  unfold guardA guardG
  simp only
  rw [contains_abs hI, anyNotContains_abs hI, anyWrongOrder_abs hI, hasFaces_abs]

/-- acceptance does not depend on which of two bounds is used, as long as both bound the orders present -/
theorem guardG_none_iff {M1 M2 : Int} {r : Rep} (h0 : -1 ≤ M1) (h12 : M1 ≤ M2)
    (hord : ∀ f j, r.orderOf? f = some j → (j : Int) ≤ M1) (fs : List Name) (id : Name) :
    guardG M1 r fs id = none ↔ guardG M2 r fs id = none := by
  by_cases hM : ((fs.length - 1 : Nat) : Int) > M1 + 1 ∧ ¬ ((fs.length - 1 : Nat) : Int) > M2 + 1
  · constructor <;> intro h <;> exfalso
    · unfold guardG at h
      simp only at h
      split_ifs at h with h1 h2 h3 h4
      all_goals exact h4 hM.1
    · unfold guardG at h
      simp only at h
      split_ifs at h with h1 h2 h3 h4 h5 h6 h7 h8
      · have : fs = [] := List.isEmpty_iff.mp h5
        subst this
        simp only [List.length_nil] at hM
        omega
      · -- some face exists, it is known, and it has order k - 1 ≤ M1
        have hne : fs ≠ [] := fun he => h5 (by rw [he]; rfl)
        obtain ⟨f, hf⟩ := List.exists_mem_of_ne_nil fs hne
        have h7' : r.orderOf? f = some (fs.length - 1 - 1) := by
          by_contra hne'
          apply h7
          rw [List.any_eq_true]
          exact ⟨f, hf, by simpa using hne'⟩
        have := hord f _ h7'
        have hlen : 2 ≤ fs.length := by
          cases fs with
          | nil => exact absurd rfl hne
          | cons a l => cases l with
            | nil => simp at h1
            | cons b l => simp
        omega
  · have h4 : ((fs.length - 1 : Nat) : Int) > M1 + 1 ↔ ((fs.length - 1 : Nat) : Int) > M2 + 1 := by
      constructor
      · intro h; by_contra h'; exact hM ⟨h, h'⟩
      · intro h; omega
    unfold guardG
    simp only [h4]

/-- **acceptance agrees under `MInv` alone** -/
theorem guard_abs_none {r : Rep} (hI : MInv r) (fs : List Name) (id : Name) :
    guardA (abs r) fs id = none ↔ guardR r fs id = none := by
  rw [guardA_eq_G hI, guardR_eq_G]
  exact guardG_none_iff (neg_one_le_maxOrder _) (maxOrder_abs_le r) (fun f j h => orderOf_le_maxOrder h) fs id

/-- **(1′) acceptance and resulting state agree under `MInv` alone**: a call is accepted by Layer R exactly
when Layer A accepts it, and then the new states correspond.  (Only the *kind* of error can differ when the
top order of `r` is empty.) -/
theorem addSimplex_abs_ok {r : Rep} (hI : MInv r) (fs : List Name) (id : Name) :
    (r.addSimplex fs id).toOption.map abs = ((abs r).addSimplex fs id).toOption := by
  rw [addSimplex_eq, addSimplexA_eq]
  cases hg : guardR r fs id with
  | some e =>
    cases hg' : guardA (abs r) fs id with
    | some e' => rfl
    | none => rw [(guard_abs_none hI fs id).mp hg'] at hg; cases hg
  | none =>
    rw [(guard_abs_none hI fs id).mpr hg]
    obtain ⟨h1, -, hk⟩ := guardR_none hg
    show some (abs (addResult r fs id)) = some (addResultA (abs r) fs id)
    rw [abs_addResult hI id h1 hk]

/-! ## `relabelSimplex` -/

theorem decodeCol_map {names : List Name} (ρ : Name → Name) (B : Mat) (c : Nat) :
    decodeCol (names.map ρ) B c = (decodeCol names B c).map ρ := by
  unfold decodeCol
  rw [List.length_map, List.map_filterMap]
  apply List.filterMap_congr
  intro row _
  rw [List.getElem?_map]
  split_ifs <;> simp

theorem mapIdx_map' {α β γ : Type} (f : α → β) (g : Nat → β → γ) (l : List α) :
    (l.map f).mapIdx g = l.mapIdx (fun i a => g i (f a)) := by
  apply List.ext_getElem?
  intro j
  rw [List.getElem?_mapIdx, List.getElem?_mapIdx, List.getElem?_map]
  cases l[j]? <;> rfl

/-- the renaming `s ↦ q` -/
def rho (s q : Name) : Name → Name := fun n => if n = s then q else n

/-- the state after an accepted `relabelSimplex` of the simplex at `(k, i)` -/
def relabelResult (r : Rep) (k i : Nat) (q : Name) : Rep :=
  { r with indices := r.indices.modify k (fun l => l.set i q) }

section relabel
variable {r : Rep} (hI : MInv r) {s q : Name} {k i : Nat} (hf : r.find? s = some (k, i))
include hI hf

theorem relabel_idx (j : Nat) : (relabelResult r k i q).idx j = (r.idx j).map (rho s q) := by
  obtain ⟨hk, hget⟩ := find?_some hf
  unfold relabelResult Rep.idx
  simp only
  rw [getD_modify]
  have hk' : k < r.indices.length := hk
  by_cases hj : j = k
  · subst hj
    rw [if_pos ⟨rfl, hk'⟩]
    apply List.ext_getElem?
    intro a
    rw [List.getElem?_set, List.getElem?_map]
    have hget' : (r.indices.getD j [])[i]? = some s := hget
    by_cases ha : i = a
    · subst ha
      rw [if_pos rfl, hget', if_pos (List.getElem?_eq_some_iff.mp hget').1]
      simp [rho]
    · rw [if_neg ha]
      cases hx : (r.indices.getD j [])[a]? with
      | none => rfl
      | some x =>
        have : x ≠ s := by
          rintro rfl
          exact ha (hI.uniq _ _ _ _ _ hget hx).2
        simp [rho, this]
  · rw [if_neg (fun hh => hj hh.1)]
    symm
    conv_rhs => rw [← List.map_id (r.indices.getD j [])]
    apply List.map_congr_left
    intro x hx
    have : x ≠ s := by
      rintro rfl
      exact notMem_idx_of_ne hI hf hj hx
    simp [rho, this]

theorem relabel_level (j : Nat) :
    (relabelResult r k i q).level j = (r.level j).map (Simp.map (rho s q)) := by
  unfold Rep.level
  rw [relabel_idx hI hf, mapIdx_map', map_mapIdx']
  apply mapIdx_congr'
  intro a n _
  unfold Rep.simpAt Simp.map Rep.facesAt Rep.basisAt
  simp only [Simp.mk.injEq, true_and]
  rw [relabel_idx hI hf, relabel_idx hI hf]
  have hbd : (relabelResult r k i q).bd j = r.bd j := rfl
  have hbs : (relabelResult r k i q).bs j = r.bs j := rfl
  rw [hbd, hbs, decodeCol_map, decodeCol_map]
  split_ifs <;> exact ⟨rfl, rfl⟩

theorem abs_relabelResult :
    abs (relabelResult r k i q) = (abs r).map (rho s q) := by
  apply cx_ext
  · unfold abs Cx.map
    simp only
    rw [List.map_flatMap]
    have : (relabelResult r k i q).len = r.len := by
      unfold relabelResult Rep.len; simp
    rw [this]
    apply List.flatMap_congr
    intro j _
    exact relabel_level hI hf j
  · rfl

theorem MInv_relabelResult (hq : r.find? q = none) : MInv (relabelResult r k i q) := by
  have hlen : (relabelResult r k i q).len = r.len := by
    unfold relabelResult Rep.len; simp
  have hidxlen : ∀ j, ((relabelResult r k i q).idx j).length = (r.idx j).length := by
    intro j; rw [relabel_idx hI hf, List.length_map]
  have hbd : ∀ j, (relabelResult r k i q).bd j = r.bd j := fun _ => rfl
  have hbs : ∀ j, (relabelResult r k i q).bs j = r.bs j := fun _ => rfl
  refine ⟨?_, ?_, ?_, ?_, ?_, ?_, ?_⟩
  · show r.boundaries.length = (r.indices.modify k _).length
    rw [List.length_modify]; exact hI.lenB
  · show r.bases.length = (r.indices.modify k _).length
    rw [List.length_modify]; exact hI.lenS
  · intro h; rw [hlen] at h; rw [hbd]; exact hI.bd0 h
  · intro j h0 hj; rw [hlen] at hj; rw [hbd, hidxlen, hidxlen]; exact hI.bdShape j h0 hj
  · intro j hj; rw [hlen] at hj; rw [hbs, hidxlen, hidxlen]; exact hI.bsShape j hj
  · intro j hj; rw [hlen] at hj; rw [hbd, hbs]; exact hI.isMk j hj
  · intro j a j' a' x h1 h2
    rw [relabel_idx hI hf, List.getElem?_map] at h1 h2
    cases hy : (r.idx j)[a]? with
    | none => rw [hy] at h1; cases h1
    | some y =>
      cases hy' : (r.idx j')[a']? with
      | none => rw [hy'] at h2; cases h2
      | some y' =>
        rw [hy] at h1; rw [hy'] at h2
        simp only [Option.map_some, Option.some.injEq] at h1 h2
        have hyq : y ≠ q := by
          rintro rfl; exact find?_none hq j (List.mem_of_getElem? hy)
        have hyq' : y' ≠ q := by
          rintro rfl; exact find?_none hq j' (List.mem_of_getElem? hy')
        have : y = y' := by
          unfold rho at h1 h2
          split_ifs at h1 h2 with e1 e2 e2
          · rw [e1, e2]
          · exact absurd (h2.trans h1.symm) hyq'
          · exact absurd (h1.trans h2.symm) hyq
          · rw [h1, h2]
        subst this
        exact hI.uniq _ _ _ _ _ hy hy'

end relabel

theorem relabel_eq (r : Rep) (s q : Name) : r.relabelSimplex s q =
    if r.contains q then .error .value else
    match r.find? s with
    | none => .error .key
    | some (k, i) => .ok (relabelResult r k i q) := rfl

/-- **(2) `relabelSimplex` refines `Cx.relabelSimplex`**: rejected together (Layer A's `none` stands for both
the ValueError and the KeyError), accepted together with corresponding states -/
theorem relabelSimplex_abs {r : Rep} (hI : MInv r) (s q : Name) :
    (r.relabelSimplex s q).toOption.map abs = (abs r).relabelSimplex s q := by
  rw [relabel_eq]
  unfold Cx.relabelSimplex
  rw [contains_abs hI, contains_abs hI]
  by_cases hq : r.contains q = true
  · rw [if_pos hq, if_pos hq]; rfl
  · rw [if_neg hq, if_neg hq]
    unfold Rep.contains
    cases hf : r.find? s with
    | none => rfl
    | some p =>
      obtain ⟨k, i⟩ := p
      simp only [Option.isSome_some, Bool.not_true, Bool.false_eq_true, if_false]
      show some (abs (relabelResult r k i q)) = some ((abs r).map (fun n => if n = s then q else n))
      rw [abs_relabelResult hI hf]; rfl

/-- an accepted `relabelSimplex` preserves the representation invariant -/
theorem relabelSimplex_MInv {r r' : Rep} (hI : MInv r) {s q : Name} (h : r.relabelSimplex s q = .ok r') :
    MInv r' := by
  rw [relabel_eq] at h
  by_cases hq : r.contains q = true
  · rw [if_pos hq] at h; cases h
  · rw [if_neg hq] at h
    have hq' : r.find? q = none := by
      unfold Rep.contains at hq
      cases h' : r.find? q with
      | none => rfl
      | some p => rw [h'] at hq; simp at hq
    cases hf : r.find? s with
    | none => rw [hf] at h; cases h
    | some p =>
      obtain ⟨k, i⟩ := p
      rw [hf] at h
      rw [← Except.ok.inj h]
      exact MInv_relabelResult hI hf hq'

/-- relabelling does not change which orders are inhabited -/
theorem relabelSimplex_TopNE {r r' : Rep} (hI : MInv r) (hT : TopNE r) {s q : Name}
    (h : r.relabelSimplex s q = .ok r') : TopNE r' := by
  rw [relabel_eq] at h
  by_cases hq : r.contains q = true
  · rw [if_pos hq] at h; cases h
  · rw [if_neg hq] at h
    cases hf : r.find? s with
    | none => rw [hf] at h; cases h
    | some p =>
      obtain ⟨k, i⟩ := p
      rw [hf] at h
      rw [← Except.ok.inj h]
      have hlen : (relabelResult r k i q).len = r.len := by
        unfold relabelResult Rep.len; simp
      intro h0
      rw [hlen] at h0 ⊢
      rw [relabel_idx hI hf]
      intro he
      exact hT h0 (List.map_eq_nil_iff.mp he)

end MatRep
