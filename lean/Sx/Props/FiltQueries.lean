import Sx.Model
import Sx.Props.Filtration
import Sx.Props.FiltCopy
import Sx.Props.Copy
import Sx.Props.BettiFam
import Sx.Props.C01
import Mathlib.Tactic.SplitIfs
import Mathlib.Data.List.Forall2

/-! # C14 — the queries on a filtration at index `i` answer as the snapshot taken at `i`

`Sx/Props/Filtration.lean` relates the index-aware queries of `FS` to the *filtered list* `f.visibleC`;
`Sx/Props/FiltCopy.lean` (`snap_spec`) relates `f.visibleC` to the object that `snap()` really builds
(`(f.snap).2 = (copyNew f.visibleC).2`, a new complex filled by `addSimplex` calls). This file closes the
chain: every read-only query the driver answers on a filtration handle is compared with the *same query on
the snapshot object*.

* `twin_queries` — the generic step: two valid complexes that are position by position twins answer every
  structural query alike (listing, membership, counts, maximal order, per-order listing, Euler characteristic,
  order of a simplex; faces and basis of a simplex as permutations; boundary matrices literally);
* `snap_queries` — the C14 family for `s := (f.snap).2`;
* `snap_bop`, `snap_betti` — boundary operators, Smith normal forms and Betti numbers of the snapshot are those
  of the complex seen at the index;
* `snap_index_independent` — the snapshot at `i` is a function of the complex, the births and `i` only.
-/
namespace Flat
open List

/-! ## twins, list level -/

theorem twin_map_name {l1 l2 : List (Simp Name)} (h : Forall₂ Twin l1 l2) :
    l2.map (·.name) = l1.map (·.name) := by
  induction h with
  | nil => rfl
  | cons hab _ ih => simp only [List.map_cons, ih, hab.1]

theorem twin_map_order {l1 l2 : List (Simp Name)} (h : Forall₂ Twin l1 l2) :
    l2.map (·.order) = l1.map (·.order) := by
  induction h with
  | nil => rfl
  | cons hab _ ih => simp only [List.map_cons, ih, hab.2.1]

theorem twin_ofOrder {a a' : C} (hT : Forall₂ Twin a.simps a'.simps) (k : Nat) :
    Forall₂ Twin (a.ofOrder k) (a'.ofOrder k) :=
  forall₂_filter hT (fun x y hxy => by simp only [hxy.2.1])

/-- the maximal order is read off the list of orders -/
theorem maxOrder_of_orders {a a' : C} (h : a'.simps.map (·.order) = a.simps.map (·.order)) :
    a'.maxOrder = a.maxOrder := by
  have h2 := congrArg List.getLast? h
  rw [List.getLast?_map, List.getLast?_map] at h2
  unfold Cx.maxOrder
  cases h1 : a'.simps.getLast? with
  | none =>
    cases h3 : a.simps.getLast? with
    | none => rfl
    | some t => rw [h1, h3] at h2; simp at h2
  | some s =>
    cases h3 : a.simps.getLast? with
    | none => rw [h1, h3] at h2; simp at h2
    | some t =>
      rw [h1, h3] at h2
      simp only [Option.map_some, Option.some.injEq] at h2
      simp only [h2]

/-- looking a name up in two twin complexes: absent in both, or found in both as twins -/
theorem twin_lookup_cases {a a' : C} (hT : Forall₂ Twin a.simps a'.simps) (n : Name) :
    (a.lookup n = none ∧ a'.lookup n = none) ∨
    ∃ x y, a.lookup n = some x ∧ a'.lookup n = some y ∧ x ∈ a.simps ∧ y ∈ a'.simps ∧ Twin x y := by
  have h := forall₂_find? (p := fun s => s.name == n) (q := fun s => s.name == n) hT
    (fun x y hxy => by simp only [hxy.1])
  unfold Cx.lookup
  rcases h with h | ⟨x, y, h1, h2, hxy⟩
  · exact Or.inl h
  · exact Or.inr ⟨x, y, h1, h2, List.mem_of_find?_eq_some h1, List.mem_of_find?_eq_some h2, hxy⟩

theorem forall₂_getElem? {α β : Type} {R : α → β → Prop} {l1 : List α} {l2 : List β} (h : Forall₂ R l1 l2)
    (j : Nat) : (l1[j]? = none ∧ l2[j]? = none) ∨ ∃ x y, l1[j]? = some x ∧ l2[j]? = some y ∧ R x y := by
  induction h generalizing j with
  | nil => exact Or.inl ⟨rfl, rfl⟩
  | @cons a b _ _ hab _ ih =>
    cases j with
    | zero => exact Or.inr ⟨a, b, rfl, rfl, hab⟩
    | succ j => simpa only [List.getElem?_cons_succ] using ih j

/-- **twin complexes have literally the same boundary matrices** (rows and columns are listed in the same
order, and the matrix only asks whether a name is among the faces) -/
theorem twin_bopMat {a a' : C} (hT : Forall₂ Twin a.simps a'.simps) (k : Nat) : bopMat a' k = bopMat a k := by
  have hmax : a'.maxOrder = a.maxOrder := maxOrder_of_orders (twin_map_order hT)
  have hlen : ∀ j, (a'.ofOrder j).length = (a.ofOrder j).length := fun j => (twin_ofOrder hT j).length_eq.symm
  have hrows : (a'.ofOrder (k - 1)).map (·.name) = (a.ofOrder (k - 1)).map (·.name) :=
    twin_map_name (twin_ofOrder hT (k - 1))
  unfold bopMat
  rw [hmax, hlen 0]
  split_ifs
  · rfl
  · rfl
  · simp only [hrows, hlen k]
    congr 1
    funext i j
    rcases forall₂_getElem? (twin_ofOrder hT k) j with ⟨h1, h2⟩ | ⟨x, y, h1, h2, hxy⟩
    · rw [h1, h2]
    · rw [h1, h2]
      cases ((a.ofOrder (k - 1)).map (·.name))[i]? with
      | none => rfl
      | some r =>
        simp only
        rw [Bool.eq_iff_iff, List.contains_iff_mem, List.contains_iff_mem]
        exact hxy.2.2.1 r

/-- **two valid complexes that are twins position by position answer every structural query alike**:
the listing (same order), membership, the number of simplices, the maximal order, the listing of every order
(same order), the counts per order, the Euler characteristic, the order of every name; the faces and the
basis of every name up to the order in which the representation stores them (permutations of repeat-free
lists; both empty for an unknown name) -/
theorem twin_queries {a a' : C} (hI : Inv a) (hI' : Inv a') (hT : Forall₂ Twin a.simps a'.simps) :
    a'.names = a.names ∧
    (∀ n, a'.contains n = a.contains n) ∧
    a'.simps.length = a.simps.length ∧
    a'.maxOrder = a.maxOrder ∧
    (∀ k, (a'.ofOrder k).map (·.name) = (a.ofOrder k).map (·.name)) ∧
    countsOf a' = countsOf a ∧
    euler a' = euler a ∧
    (∀ n, a'.orderOf? n = a.orderOf? n ∧ (a'.facesOf n).Perm (a.facesOf n) ∧
      (a'.basisOf n).Perm (a.basisOf n)) := by
  have hmax : a'.maxOrder = a.maxOrder := maxOrder_of_orders (twin_map_order hT)
  have hcounts : countsOf a' = countsOf a := by
    unfold countsOf
    rw [hmax]
    apply List.map_congr_left
    intro k _
    exact (twin_ofOrder hT k).length_eq.symm
  refine ⟨twin_map_name hT, fun n => (twin_lookup hT n).1, hT.length_eq.symm, hmax,
    fun k => twin_map_name (twin_ofOrder hT k), hcounts, by unfold euler; rw [hcounts], ?_⟩
  intro n
  refine ⟨(twin_lookup hT n).2, ?_⟩
  unfold Cx.facesOf Cx.basisOf
  rcases twin_lookup_cases hT n with ⟨h1, h2⟩ | ⟨x, y, h1, h2, hx, hy, hxy⟩
  · rw [h1, h2]; exact ⟨List.Perm.refl _, List.Perm.refl _⟩
  · rw [h1, h2]
    simp only [Option.map_some, Option.getD_some]
    exact ⟨(List.perm_ext_iff_of_nodup (hI'.faces_len hy).1 (hI.faces_len hx).1).mpr hxy.2.2.1,
      (List.perm_ext_iff_of_nodup (hI'.basis_card hy).1 (hI.basis_card hx).1).mpr hxy.2.2.2⟩

/-! ## C14: the queries on the filtration and on the snapshot -/

/-- the per-order listing of the complex seen at the current index -/
theorem visibleC_ofOrder (f : FS) (k : Nat) :
    f.visibleC.ofOrder k = (f.c.ofOrder k).filter (fun s => f.visible s.name) := by
  unfold Cx.ofOrder FS.visibleC
  simp only [List.filter_filter]
  apply List.filter_congr
  intro s _
  exact Bool.and_comm _ _

/-- **C14** — with the current index of a filtration `f` (satisfying the invariant) at `i = f.index`, let
`s := (f.snap).2` be the object that `snap()` builds (the new complex the driver's `snap` op stores). Then

1. `snap()` succeeds, returns the list it lists, and `s` is a valid plain complex with a fresh name counter;
2. `simplices()` of the filtration is `simplices()` of `s`, **in the same listing order** (no permutation);
3. `containsSimplex(n)` / `n in f` is `n in s`, for every name `n` (known, hidden or unknown);
4. `numberOfSimplices()` is `len(s)`;
5. `numberOfSimplicesOfOrder()` is that of `s` (same list, same length: the zero tail is trimmed);
6. `eulerCharacteristic()` is that of `s`;
7. the maximal order *of the complex seen at the index* is `s.maxOrder()` (what `f.maxOrder()` itself answers
   is a different matter: see the remark after the theorem);
8. for every order `k`: the visible simplices of order `k`, in the listing order of `simplicesOfOrder(k)`, are
   `s.simplicesOfOrder(k)` in the same order (hence `indexOf` of a visible simplex *among the visible ones* is
   its `indexOf` in `s`);
9. for a **visible** `n`: `orderOf(n)` is the same in `f` and in `s`; `faces(n)` and `basisOf(n)` are the same
   **as sets**, stated as permutations of repeat-free lists (equal length, same members). They are *not* in
   general the same lists: the snapshot stores them in its own canonical order (`faces_not_same_list` below);
   Python returns sets, the driver prints them sorted, so nothing observable depends on the stored order;
10. for a name that is **not visible** (hidden at this index, or unknown): it is not in `s`, and `s` answers
   `orderOf` with a KeyError (`none`), `faces`/`basisOf` with nothing. -/
theorem snap_queries {f : FS} (hF : FInv f) :
    f.snap = (.ok f.simplices, (f.snap).2) ∧ Inv (f.snap).2 ∧ (f.snap).2.seq = 0 ∧
    (f.snap).2.names = f.simplices ∧
    (∀ n, (f.snap).2.contains n = f.visible n) ∧
    (f.snap).2.simps.length = f.count ∧
    countsOf (f.snap).2 = f.counts ∧
    euler (f.snap).2 = f.euler ∧
    (f.snap).2.maxOrder = f.visibleC.maxOrder ∧
    (∀ k, ((f.snap).2.ofOrder k).map (·.name) =
      ((f.c.ofOrder k).map (·.name)).filter f.visible) ∧
    (∀ n, f.visible n = true →
      (f.snap).2.orderOf? n = f.c.orderOf? n ∧
      ((f.snap).2.facesOf n).Perm (f.c.facesOf n) ∧ (∀ x, x ∈ (f.snap).2.facesOf n ↔ x ∈ f.c.facesOf n) ∧
      ((f.snap).2.basisOf n).Perm (f.c.basisOf n) ∧ (∀ p, p ∈ (f.snap).2.basisOf n ↔ p ∈ f.c.basisOf n)) ∧
    (∀ n, f.visible n = false →
      (f.snap).2.orderOf? n = none ∧ (f.snap).2.facesOf n = [] ∧ (f.snap).2.basisOf n = []) := by
  obtain ⟨c', hsnap, hI', hseq, hT, -⟩ := snap_spec hF
  have hIv : Inv f.visibleC := (visibleC_spec hF).2.2.1
  obtain ⟨q1, q2, q3, q4, q5, q6, q7, q8⟩ := twin_queries hIv hI' hT
  rw [hsnap]
  simp only
  refine ⟨by rw [simplices_eq], hI', hseq, by rw [q1, simplices_eq],
    fun n => by rw [q2, visible_eq_contains], by rw [q3, count_eq hF], by rw [q6, (counts_eq hF).2],
    by rw [q7, euler_eq hF], q4, ?_, ?_, ?_⟩
  · intro k
    rw [q5, visibleC_ofOrder, List.filter_map]
    rfl
  · intro n hn
    obtain ⟨v1, v2, v3⟩ := visible_same f hn
    obtain ⟨w1, w2, w3⟩ := q8 n
    rw [← v1, ← v2, ← v3]
    exact ⟨w1, w2, fun x => w2.mem_iff, w3, fun p => w3.mem_iff⟩
  · intro n hn
    have hc : c'.contains n = false := by rw [q2, ← visible_eq_contains]; exact hn
    have hl : c'.lookup n = none := by
      unfold Cx.contains at hc
      cases h : c'.lookup n with
      | none => rfl
      | some t => rw [h] at hc; simp at hc
    unfold Cx.orderOf? Cx.facesOf Cx.basisOf
    rw [hl]
    exact ⟨rfl, rfl, rfl⟩

/-! ### remarks on `snap_queries`

* Item 7 and the Python: `Filtration` does **not** override `maxOrder()`; the inherited method answers
  `f.c.maxOrder`, the maximal order over *all* indices (`maxOrder_not_scoped` in Sx/Props/Filtration.lean, a
  recorded known finding). So `f.maxOrder()` may be larger than `s.maxOrder()`; what agrees with the snapshot
  is the maximal order of the complex seen at the index, and the trimmed length of `numberOfSimplicesOfOrder()`
  (item 5) which is `s.maxOrder() + 1`. The two are related by `snap_maxOrder_le`.
* In the same way the driver answers `faces`, `basis`, `order` of a filtration handle from the whole complex
  `f.c` (Python: inherited, `orderOf` only rewrites the message): for a *hidden* simplex the filtration still
  answers while the snapshot raises (item 10; `hidden_order_differs` below is the concrete instance). The
  statement for these three queries is therefore about visible simplices only, as the property says.
* Item 8 and the Python: `simplicesOfOrder(k)` and `indexOf` are inherited too (the driver's `oforder`, `index`
  on a filtration handle read `f.c`), so they list hidden simplices as well; item 8 is about that listing
  *filtered by `in f`*, which is how `numberOfSimplicesOfOrder()` uses it.
* The remaining driver queries on a filtration handle (`max`, `betti`, `bop`, `snf`, `Z`, `cofaces`, `closure`,
  `part`, `swb`, `swf`, `disjoint`, `boundary`, comparisons, `integrate`) all read the whole complex `f.c`: they
  are the inherited, unscoped methods and are outside what C14 can claim (see `snap_betti` for the Betti
  numbers). -/

/-- the maximal order of the snapshot never exceeds what the (unscoped) `maxOrder()` of the filtration
answers, and the trimmed per-order counts have exactly `s.maxOrder + 1` entries -/
theorem snap_maxOrder_le {f : FS} (hF : FInv f) :
    (f.snap).2.maxOrder ≤ f.c.maxOrder ∧ (f.counts.length : Int) = (f.snap).2.maxOrder + 1 := by
  obtain ⟨-, -, -, -, -, -, hc, -, hm, -⟩ := snap_queries hF
  constructor
  · rw [hm]
    cases hl : f.visibleC.simps.getLast? with
    | none =>
      have h1 : f.visibleC.maxOrder = -1 := by unfold Cx.maxOrder; rw [hl]
      have h2 := C01.maxOrder_ge_neg_one f.c
      omega
    | some s =>
      have h1 : f.visibleC.maxOrder = s.order := by unfold Cx.maxOrder; rw [hl]
      have hs : s ∈ f.c.simps := (List.mem_filter.mp (List.mem_of_getLast? hl)).1
      have := maxOrder_ge hF.inv hs
      omega
  · rw [← hc]
    unfold countsOf
    rw [List.length_map, List.length_range]
    have := C01.maxOrder_ge_neg_one (f.snap).2
    omega

/-! ## Betti numbers, boundary operators -/

/-- the boundary operator, and hence the Smith normal form, of every order is literally the same matrix for the
snapshot and for the complex seen at the index -/
theorem snap_bop {f : FS} (hF : FInv f) (k : Nat) :
    bopMat (f.snap).2 k = bopMat f.visibleC k ∧ snfK (f.snap).2 k = snfK f.visibleC k := by
  obtain ⟨c', hsnap, -, -, hT, -⟩ := snap_spec hF
  rw [hsnap]
  simp only
  have h := twin_bopMat hT k
  exact ⟨h, by unfold snfK; rw [h]⟩

/-- the snapshot has the same family of vertex sets as the complex seen at the index -/
theorem snap_family {f : FS} (hF : FInv f) (X : Finset Name) :
    (∃ t ∈ (f.snap).2.simps, t.pts = X) ↔ (∃ s ∈ f.visibleC.simps, s.pts = X) := by
  obtain ⟨c', hsnap, -, -, hT, -⟩ := snap_spec hF
  rw [hsnap]
  simp only
  constructor
  · rintro ⟨t, ht, rfl⟩
    obtain ⟨s, hs, hst⟩ := forall₂_mem_right hT t ht
    exact ⟨s, hs, hst.pts.symm⟩
  · rintro ⟨s, hs, rfl⟩
    obtain ⟨t, ht, hst⟩ := forall₂_mem_left hT s hs
    exact ⟨t, ht, hst.pts⟩

/-- **the Betti numbers of the complex seen at the current index are the Betti numbers of the snapshot**, in
every order `k` (including orders above the top, where both are 0).

Proved through `betti_fam_invariant` (the snapshot and `visibleC` are valid complexes with the same family of
vertex sets); `snap_bop` gives the same conclusion by the literal equality of the boundary matrices.

What this says about the Python. `Filtration` does not override `bettiNumbers`, `boundaryOperator`, `Z` or
`maxOrder`; they are inherited and work on the whole representation, i.e. on `f.c` and not on `f.visibleC`
(recorded known finding, same root as `maxOrder_not_scoped` in Sx/Props/Filtration.lean; the driver's `betti`
query on a filtration handle accordingly evaluates `bettiK f.c`). The theorem therefore does **not** say that
`f.bettiNumbers()` at index `i` equals `f.snap().bettiNumbers()` — that is false in general
(`betti_not_scoped` below: two points at index 0 joined by an edge at index 1; at index 0 the filtration
answers β₀ = 1, the snapshot β₀ = 2). It says that the Betti numbers *of the complex seen at `i`* (the
mathematical object C13 defines, `visibleC`) are what `f.snap().bettiNumbers()` computes, so the snapshot is
the correct way to obtain the homology at an index, and the values obtained that way depend only on the
family of vertex sets visible at `i`. -/
theorem snap_betti {f : FS} (hF : FInv f) (k : Nat) : bettiK (f.snap).2 k = bettiK f.visibleC k := by
  obtain ⟨-, hI', -⟩ := snap_queries hF
  exact betti_fam_invariant hI' (visibleC_spec hF).2.2.1 (snap_family hF) k

/-- at the last index (everything visible) the inherited `bettiNumbers()` and the snapshot agree -/
theorem snap_betti_all {f : FS} (hF : FInv f) (hall : ∀ p ∈ f.births, p.2 ≤ f.index) (k : Nat) :
    bettiK (f.snap).2 k = bettiK f.c k := by
  rw [snap_betti hF]
  have : f.visibleC = f.c := by
    unfold FS.visibleC
    show Cx.mk _ _ = f.c
    have : f.c.simps.filter (fun s => f.visible s.name) = f.c.simps := by
      rw [List.filter_eq_self]
      intro s hs
      rw [hF.visible_of_mem hs, decide_eq_true_eq]
      exact hall _ (hF.birth_of_mem hs).1
    rw [this]
  rw [this]

/-! ## the snapshot at `i` does not depend on where the filtration was before -/

/-- the snapshot at index `i` as a function of the complex, the births and `i` alone -/
def snapAt (c : C) (births : List (Name × Int)) (i : Int) : R (List Name) :=
  copyNew { c with simps := c.simps.filter (fun s =>
    c.contains s.name &&
      (match (births.find? (fun p => p.1 == s.name)).map (·.2) with
       | some b => decide (b ≤ i)
       | none => false)) }

/-- **the snapshot taken after `setIndex i` depends only on the complex, the births and `i`**:
(1) it is `snapAt f.c f.births i`, an expression in which neither the previous index nor the set of existing
indices occurs;
(2) hence any two filtration states with the same complex and births give the same snapshot at `i`;
(3) in particular moving to any index `j` first, or (4) visiting any sequence of indices first, changes
nothing: the indices can be visited in any order. No invariant is needed. -/
theorem snap_index_independent (f : FS) (i : Int) :
    (f.setIndex i).snap = snapAt f.c f.births i ∧
    (∀ g : FS, g.c = f.c → g.births = f.births → (g.setIndex i).snap = (f.setIndex i).snap) ∧
    (∀ j : Int, ((f.setIndex j).setIndex i).snap = (f.setIndex i).snap) ∧
    (∀ js : List Int, ((js.foldl FS.setIndex f).setIndex i).snap = (f.setIndex i).snap) := by
  have h1 : ∀ g : FS, (g.setIndex i).snap = snapAt g.c g.births i := by
    intro g
    obtain ⟨e1, e2, e3, -⟩ := setIndex_fields g i
    unfold FS.snap FS.visibleC snapAt
    rw [e1]
    show copyNew (Cx.mk _ _) = copyNew (Cx.mk _ _)
    congr 2
    apply List.filter_congr
    intro s _
    unfold FS.visible FS.birth?
    rw [e1, e2, e3]
    rfl
  have h2 : ∀ g : FS, g.c = f.c → g.births = f.births → (g.setIndex i).snap = (f.setIndex i).snap := by
    intro g hc hb
    rw [h1 g, h1 f, hc, hb]
  have h4 : ∀ (js : List Int) (g : FS), (js.foldl FS.setIndex g).c = g.c ∧ (js.foldl FS.setIndex g).births = g.births := by
    intro js
    induction js with
    | nil => intro g; exact ⟨rfl, rfl⟩
    | cons j js ih =>
      intro g
      rw [List.foldl_cons]
      obtain ⟨a1, a2⟩ := ih (g.setIndex j)
      obtain ⟨e1, e2, -, -⟩ := setIndex_fields g j
      exact ⟨a1.trans e1, a2.trans e2⟩
  refine ⟨h1 f, h2, ?_, ?_⟩
  · intro j
    obtain ⟨e1, e2, -, -⟩ := setIndex_fields f j
    exact h2 _ e1 e2
  · intro js
    exact h2 _ (h4 js f).1 (h4 js f).2

/-- with the invariant: the snapshot at `i` consists of twins of exactly the simplices born at or before `i`,
whatever the index was before -/
theorem snapAt_spec {f : FS} (hF : FInv f) (i : Int) :
    ∃ c', snapAt f.c f.births i = (.ok ((f.setIndex i).simplices), c') ∧ Inv c' ∧
      (∀ n, c'.contains n = true ↔ ∃ s ∈ f.c.simps, s.name = n ∧ f.birthD n ≤ i) := by
  have hG := setIndex_FInv hF i
  obtain ⟨e1, e2, e3, -⟩ := setIndex_fields f i
  obtain ⟨h1, h2, -, -, h5, -⟩ := snap_queries hG
  rw [(snap_index_independent f i).1] at h1 h2 h5
  refine ⟨_, h1, h2, ?_⟩
  intro n
  rw [h5 n]
  constructor
  · intro hv
    obtain ⟨s, hs, hn⟩ := contains_iff.mp (visible_contains hv)
    rw [e1] at hs
    have := hG.birthD_le_of_visible hv
    rw [setIndex_birthD, e3] at this
    exact ⟨s, hs, hn, this⟩
  · rintro ⟨s, hs, rfl, hb⟩
    have hs' : s ∈ (f.setIndex i).c.simps := by rw [e1]; exact hs
    rw [hG.visible_of_mem hs', setIndex_birthD, e3, decide_eq_true_eq]
    exact hb

/-! ## examples on `exF` (two points born at 0, the edge between them born at 1), at both indices -/

-- the hypothesis of every theorem above
example : FInv exF ∧ FInv (exF.setIndex 1) := ⟨exF_FInv, setIndex_FInv exF_FInv 1⟩

-- index 0: the snapshot holds the two points; every query agrees (both sides evaluated)
example : exF.index = 0 ∧ (exF.snap).2.names = [.u 1, .u 2] ∧ exF.simplices = [.u 1, .u 2] ∧
    (exF.snap).2.contains (.u 12) = false ∧ exF.visible (.u 12) = false ∧
    (exF.snap).2.contains (.u 1) = true ∧ exF.visible (.u 1) = true ∧
    (exF.snap).2.simps.length = 2 ∧ exF.count = 2 ∧
    countsOf (exF.snap).2 = [2] ∧ exF.counts = [2] ∧
    euler (exF.snap).2 = 2 ∧ exF.euler = 2 ∧
    (exF.snap).2.maxOrder = 0 ∧ exF.visibleC.maxOrder = 0 ∧ exF.c.maxOrder = 1 := by decide

-- index 1: the snapshot holds everything
example : (exF.setIndex 1).index = 1 ∧
    ((exF.setIndex 1).snap).2.names = [.u 1, .u 2, .u 12] ∧ (exF.setIndex 1).simplices = [.u 1, .u 2, .u 12] ∧
    ((exF.setIndex 1).snap).2.contains (.u 12) = true ∧ (exF.setIndex 1).visible (.u 12) = true ∧
    ((exF.setIndex 1).snap).2.simps.length = 3 ∧ (exF.setIndex 1).count = 3 ∧
    countsOf ((exF.setIndex 1).snap).2 = [2, 1] ∧ (exF.setIndex 1).counts = [2, 1] ∧
    euler ((exF.setIndex 1).snap).2 = 1 ∧ (exF.setIndex 1).euler = 1 ∧
    ((exF.setIndex 1).snap).2.maxOrder = 1 ∧
    ((exF.setIndex 1).snap).2.orderOf? (.u 12) = some 1 ∧ (exF.setIndex 1).c.orderOf? (.u 12) = some 1 ∧
    ((exF.setIndex 1).snap).2.facesOf (.u 12) = [.u 1, .u 2] ∧ (exF.setIndex 1).c.facesOf (.u 12) = [.u 1, .u 2] ∧
    ((exF.setIndex 1).snap).2.basisOf (.u 12) = [.u 1, .u 2] := by decide

/-- a hidden simplex: the filtration (inherited `orderOf`, `faces`) still answers, the snapshot does not know
it — why item 9 of `snap_queries` is about visible simplices -/
theorem hidden_order_differs : FInv exF ∧ exF.visible (.u 12) = false ∧
    exF.c.orderOf? (.u 12) = some 1 ∧ (exF.snap).2.orderOf? (.u 12) = none :=
  ⟨exF_FInv, by decide, by decide, by decide⟩

-- Betti numbers at the two indices: of the snapshot and of the complex seen at the index
example : (List.range 3).map (bettiK (exF.snap).2) = [2, 0, 0] ∧
    (List.range 3).map (bettiK exF.visibleC) = [2, 0, 0] ∧
    (List.range 3).map (bettiK ((exF.setIndex 1).snap).2) = [1, 0, 0] ∧
    (List.range 3).map (bettiK (exF.setIndex 1).visibleC) = [1, 0, 0] := by decide

/-- **the inherited `bettiNumbers()` is NOT index-aware** (recorded known finding, same root as
`maxOrder_not_scoped`): at index 0 the filtration `exF` satisfies the invariant and shows two isolated points
(β₀ = 2, which is what the snapshot answers), but `bettiNumbers()` evaluated on the filtration object works on
the whole representation and answers β₀ = 1 -/
theorem betti_not_scoped : FInv exF ∧ exF.index = 0 ∧ bettiK exF.c 0 = 1 ∧ bettiK (exF.snap).2 0 = 2 ∧
    bettiK exF.visibleC 0 = 2 :=
  ⟨exF_FInv, by decide, by decide, by decide, by decide⟩

-- index independence: going 0 → 1 → 0, or straight to 0, or from index 7 gives the same snapshot
example : (((exF.setIndex 1).setIndex 0).snap).2.simps = ((exF.setIndex 0).snap).2.simps ∧
    ((([1, 7, -3].foldl FS.setIndex exF).setIndex 1).snap).2.simps = ((exF.setIndex 1).snap).2.simps ∧
    (snapAt exF.c exF.births 1).2.names = [.u 1, .u 2, .u 12] := by decide

/-- a filtration state satisfying the invariant whose edge stores its faces and basis in the order `[u2, u1]`.
`Inv`/`FInv` do not fix the order inside the stored face and basis lists (it is unobservable: Python returns
sets). The model's own mutators always store them in listing order (`canonFaces`, `canonBasis`), so on states
built by the driver the lists may well coincide, but that is not part of the invariant and not proved here;
under the stated hypothesis `FInv f` alone, equality of the lists is false, as this state shows. -/
def exFlip : FS :=
  { c := ⟨[⟨.u 1, 0, [], [.u 1]⟩, ⟨.u 2, 0, [], [.u 2]⟩, ⟨.u 12, 1, [.u 2, .u 1], [.u 2, .u 1]⟩], 0⟩,
    index := 1, births := [(.u 1, 0), (.u 2, 0), (.u 12, 1)], keys := [0, 1] }

/-- **faces and basis agree as sets, not as stored lists**: the snapshot stores them in its own canonical
(listing) order. The hypotheses of `snap_queries` hold for `exFlip`, the edge is visible, and the stored face
and basis lists of the edge differ between the filtration and the snapshot -/
theorem faces_not_same_list : FInv exFlip ∧ exFlip.visible (.u 12) = true ∧
    exFlip.c.facesOf (.u 12) = [.u 2, .u 1] ∧ (exFlip.snap).2.facesOf (.u 12) = [.u 1, .u 2] ∧
    exFlip.c.basisOf (.u 12) = [.u 2, .u 1] ∧ (exFlip.snap).2.basisOf (.u 12) = [.u 1, .u 2] := by
  refine ⟨(FInv_iff_check exFlip).mpr ⟨?_, by decide, by decide⟩, by decide, by decide, by decide, by decide,
    by decide⟩
  exact C01.inv_of_checkInv (by decide)

end Flat
