import Sx.Model
import Sx.Proofs.FlatBasis8
import Sx.Proofs.FlatCount
import Sx.Proofs.FlatDelete2
import Sx.Proofs.FlagCombos
import Mathlib.Tactic.SplitIfs
import Mathlib.Data.Finset.Powerset
import Mathlib.Data.Finset.Card
import Mathlib.Data.List.Basic

/-! # C18 — the generators `k_simplex`, `k_void`, `k_skeleton`, `ring` (and the point generator behind them)

Model reading: a generator applied to a target complex `c` returns `.ok` with the extended complex. "Adds exactly
…" is `Adds c c' B F` (defined first, below): `c'` is valid, contains every simplex of `c` unchanged and in the
same listing order, and the other simplices of `c'` are: exactly one on each non-empty `X ⊆ B` with `F X`,
where `B` is a set of names none of which is a name of `c`. -/
namespace Flat
open Finset

/-! ## Common vocabulary of the generator theorems

`Adds c c' B F`: the complex `c'` is the valid complex `c` plus new simplices whose vertices lie in the set `B`
of *fresh* names (no name of `c`): exactly one new simplex on every `X ⊆ B` with `F X`, nothing else; every
simplex of `c` is still there, unchanged (`Sublist`: same records, same listing order).
`Adds.count_filter` turns this into counts. -/


structure Adds (c c' : C) (B : Finset Name) (F : Finset Name → Prop) : Prop where
  inv0 : Inv c
  inv : Inv c'
  sub : c.simps.Sublist c'.simps
  fresh : ∀ p ∈ B, c.contains p = false
  new : ∀ t ∈ c'.simps, t ∈ c.simps ∨ (t.pts ⊆ B ∧ F t.pts)
  all : ∀ X, X ⊆ B → X.Nonempty → F X → ∃ t ∈ c'.simps, t.pts = X

theorem pts_nonempty {c : C} (hI : Inv c) {t : Simp Name} (ht : t ∈ c.simps) : t.pts.Nonempty := by
  rw [← Finset.card_pos, hI.pts_card ht]; omega

/-- every vertex of a simplex of a valid complex is a name of the complex -/
theorem pts_contained {c : C} (hI : Inv c) {t : Simp Name} (ht : t ∈ c.simps) {p : Name} (hp : p ∈ t.pts) :
    c.contains p = true := by
  rw [Simp.pts, List.mem_toFinset] at hp
  obtain ⟨u, hu, hn, -, -⟩ := hI.basis_point t.order ht rfl p hp
  exact contains_iff.mpr ⟨u, hu, hn⟩

/-- a simplex of `c` has no vertex among fresh names -/
theorem old_disjoint {c : C} (hI : Inv c) {B : Finset Name} (hB : ∀ p ∈ B, c.contains p = false)
    {t : Simp Name} (ht : t ∈ c.simps) : ∀ p ∈ t.pts, p ∉ B := by
  intro p hp hpB
  have := pts_contained hI ht hp
  rw [hB p hpB] at this; cases this

theorem old_not_sub {c : C} (hI : Inv c) {B : Finset Name} (hB : ∀ p ∈ B, c.contains p = false)
    {t : Simp Name} (ht : t ∈ c.simps) : ¬ t.pts ⊆ B := by
  intro hsub
  obtain ⟨p, hp⟩ := pts_nonempty hI ht
  exact old_disjoint hI hB ht p hp (hsub hp)

theorem Adds.old_not_sub {c c' : C} {B : Finset Name} {F : Finset Name → Prop} (h : Adds c c' B F)
    {t : Simp Name} (ht : t ∈ c.simps) : ¬ t.pts ⊆ B := Flat.old_not_sub h.inv0 h.fresh ht

/-- a simplex of `c'` is new iff its vertices are in `B` -/
theorem Adds.new_iff {c c' : C} {B : Finset Name} {F : Finset Name → Prop} (h : Adds c c' B F)
    {t : Simp Name} (ht : t ∈ c'.simps) : t ∉ c.simps ↔ t.pts ⊆ B := by
  constructor
  · intro hn
    rcases h.new t ht with h1 | h1
    · exact absurd h1 hn
    · exact h1.1
  · intro hs hn; exact h.old_not_sub hn hs

theorem Adds.mono {c c' : C} {B : Finset Name} {F G : Finset Name → Prop} (h : Adds c c' B F)
    (hFG : ∀ X, X ⊆ B → X.Nonempty → (F X ↔ G X)) : Adds c c' B G := by
  refine ⟨h.inv0, h.inv, h.sub, h.fresh, ?_, ?_⟩
  · intro t ht
    rcases h.new t ht with h1 | h1
    · exact Or.inl h1
    · exact Or.inr ⟨h1.1, (hFG _ h1.1 (pts_nonempty h.inv ht)).mp h1.2⟩
  · intro X hX hne hG
    exact h.all X hX hne ((hFG X hX hne).mpr hG)

/-- **counting**: for any property `q` of simplices that is determined by the vertex set (`Qs`), the number of
simplices of `c'` with `q` is the number in `c` plus the number of admissible vertex sets with `Qs` -/
theorem Adds.count_filter {c c' : C} {B : Finset Name} {F : Finset Name → Prop} [DecidablePred F]
    (h : Adds c c' B F) (q : Simp Name → Bool) (Qs : Finset Name → Prop) [DecidablePred Qs]
    (hq : ∀ t ∈ c'.simps, q t = true ↔ Qs t.pts) :
    (c'.simps.filter q).length =
      (c.simps.filter q).length + ((B.powerset.filter (fun X => X.Nonempty ∧ F X ∧ Qs X)).card) := by
  classical
  obtain ⟨l, hl⟩ := h.sub.exists_perm_append
  have hnd' : c'.simps.Nodup := List.Nodup.of_map _ h.inv.nodup
  have hndl : (c.simps ++ l).Nodup := hl.nodup_iff.mp hnd'
  rw [List.nodup_append] at hndl
  obtain ⟨-, hlnd, hdisj⟩ := hndl
  have hlmem : ∀ t, t ∈ l ↔ t ∈ c'.simps ∧ t ∉ c.simps := by
    intro t
    constructor
    · intro ht
      exact ⟨hl.symm.subset (List.mem_append_right _ ht), fun hc => hdisj t hc t ht rfl⟩
    · rintro ⟨h1, h2⟩
      rcases List.mem_append.mp (hl.subset h1) with h3 | h3
      · exact absurd h3 h2
      · exact h3
  have hlen : (c'.simps.filter q).length = (c.simps.filter q).length + (l.filter q).length := by
    rw [(hl.filter q).length_eq, List.filter_append, List.length_append]
  rw [hlen]
  congr 1
  have hnd2 : (l.filter q).Nodup := hlnd.filter _
  have hinj : Set.InjOn Simp.pts ((l.filter q).toFinset : Set (Simp Name)) := by
    intro a ha b hb hab
    simp only [Finset.mem_coe, List.mem_toFinset, List.mem_filter] at ha hb
    have ha' := ((hlmem a).mp ha.1).1
    have hb' := ((hlmem b).mp hb.1).1
    apply h.inv.uniq a ha' b hb'
    · have h1 := h.inv.pts_card ha'
      have h2 := h.inv.pts_card hb'
      rw [hab] at h1; omega
    · intro p
      have := Finset.ext_iff.mp hab p
      simpa [Simp.pts] using this
  rw [← List.toFinset_card_of_nodup hnd2, ← Finset.card_image_of_injOn hinj]
  congr 1
  ext X
  simp only [Finset.mem_image, List.mem_toFinset, List.mem_filter, Finset.mem_filter, Finset.mem_powerset]
  constructor
  · rintro ⟨t, ⟨ht, hqt⟩, rfl⟩
    obtain ⟨h1, h2⟩ := (hlmem t).mp ht
    rcases h.new t h1 with h3 | h3
    · exact absurd h3 h2
    · exact ⟨h3.1, pts_nonempty h.inv h1, h3.2, (hq t h1).mp hqt⟩
  · rintro ⟨hXB, hne, hF, hQ⟩
    obtain ⟨t, ht, rfl⟩ := h.all X hXB hne hF
    refine ⟨t, ⟨(hlmem t).mpr ⟨ht, fun hc => h.old_not_sub hc hXB⟩, (hq t ht).mpr hQ⟩, rfl⟩

/-- per order: the new simplices of order `j` are counted by the admissible `(j+1)`-subsets of `B` -/
theorem Adds.count_order {c c' : C} {B : Finset Name} {F : Finset Name → Prop} [DecidablePred F]
    (h : Adds c c' B F) (j : Nat) :
    (c'.ofOrder j).length = (c.ofOrder j).length + ((B.powersetCard (j + 1)).filter F).card := by
  classical
  have := h.count_filter (fun s => s.order == j) (fun X => X.card = j + 1) (by
    intro t ht
    rw [h.inv.pts_card ht]; simp)
  unfold Cx.ofOrder
  rw [this]
  congr 2
  ext X
  simp only [Finset.mem_filter, Finset.mem_powerset, Finset.mem_powersetCard]
  constructor
  · rintro ⟨h1, -, h3, h4⟩; exact ⟨⟨h1, h4⟩, h3⟩
  · rintro ⟨⟨h1, h4⟩, h3⟩
    exact ⟨h1, by rw [← Finset.card_pos]; omega, h3, h4⟩

/-- in total -/
theorem Adds.count_all {c c' : C} {B : Finset Name} {F : Finset Name → Prop} [DecidablePred F]
    (h : Adds c c' B F) :
    c'.simps.length = c.simps.length + ((B.powerset.filter (fun X => X.Nonempty ∧ F X)).card) := by
  classical
  have := h.count_filter (fun _ => true) (fun _ => True) (by intro t ht; simp)
  simp only [List.filter_true, and_true] at this
  exact this

/-- every old simplex is still there, and a simplex of `c'` on old vertices only is old -/
theorem Adds.old_mem {c c' : C} {B : Finset Name} {F : Finset Name → Prop} (h : Adds c c' B F)
    {t : Simp Name} (ht : t ∈ c.simps) : t ∈ c'.simps := h.sub.subset ht


/-- the record of a point named `p` -/
def ptS (p : Name) : Simp Name := ⟨p, 0, [], [p]⟩

theorem ptS_pts (p : Name) : (ptS p).pts = {p} := by simp [Simp.pts, ptS]

/-! ## genPoints -/

/-- the name generated for one basis point -/
def genName (id : Option Name) (c : C) : Name × C :=
  match id with
  | some i => newSimplexAvoid c 0 i
  | none => newSimplex c 0

theorem genPoints_succ (id : Option Name) (n : Nat) (c : C) :
    genPoints id (n + 1) c =
      match (genName id c).2.addSimplex [] (genName id c).1 with
      | .error e => .error e
      | .ok c' =>
        match genPoints id n { c' with seq := (genName id c).2.seq } with
        | .error e => .error e
        | .ok (ps, c'') => .ok ((genName id c).1 :: ps, c'') := by
  cases id <;> rfl

theorem genName_spec {c : C} (hI : Inv c) (id : Option Name) :
    c.contains (genName id c).1 = false ∧ id ≠ some (genName id c).1 ∧ (genName id c).2.simps = c.simps := by
  cases id with
  | none =>
    obtain ⟨f1, f2, -⟩ := newSimplex_fresh hI.nodup 0
    exact ⟨f1, by simp, f2⟩
  | some i =>
    obtain ⟨a1, a2, a3⟩ := newSimplexAvoid_spec hI.nodup 0 i
    exact ⟨a1, fun e => a2 (Option.some.inj e).symm, a3⟩

/-- **`genPoints`** always succeeds: it returns `n` distinct names, none a name of `c`, none equal to the
requested `id`, and `c'` is `c` plus exactly these `n` points. -/
theorem genPoints_spec (id : Option Name) : ∀ (n : Nat) (c : C), Inv c →
    ∃ ps c', genPoints id n c = .ok (ps, c') ∧ Inv c' ∧ ps.length = n ∧ ps.Nodup ∧
      (∀ p ∈ ps, c.contains p = false) ∧ (∀ p ∈ ps, id ≠ some p) ∧
      c.simps.Sublist c'.simps ∧ c'.simps.Perm (ps.map ptS ++ c.simps) := by
  intro n
  induction n with
  | zero =>
    intro c hI
    exact ⟨[], c, rfl, hI, rfl, List.nodup_nil, by simp, by simp, List.Sublist.refl _, by simp⟩
  | succ n ih =>
    intro c hI
    obtain ⟨hfr, hne, hs1⟩ := genName_spec hI id
    set nm := (genName id c).1 with hnm
    set c1 := (genName id c).2 with hc1
    have hI1 : Inv c1 := inv_of_simps_eq hs1 hI
    obtain ⟨c2, hadd, hI2, hs2⟩ := addPoint_spec hI1 (b := nm) (by rw [contains_of_simps_eq hs1]; exact hfr)
    have hI3 : Inv ({ c2 with seq := c1.seq } : C) := inv_of_simps_eq (c := c2) rfl hI2
    obtain ⟨ps, c', hgen, hI', hlen, hnd, hfresh, hid, hsub, hperm⟩ := ih _ hI3
    have hs3 : ({ c2 with seq := c1.seq } : C).simps = insertSorted (ptS nm) c.simps := by
      show c2.simps = _
      rw [hs2, hs1]; rfl
    rw [hs3] at hsub hperm
    have hfresh' : ∀ p ∈ ps, ∀ t ∈ insertSorted (ptS nm) c.simps, t.name ≠ p := by
      intro p hp
      have := contains_false_iff.mp (hfresh p hp)
      rw [hs3] at this
      exact this
    refine ⟨nm :: ps, c', ?_, hI', by simp [hlen], ?_, ?_, ?_, ?_, ?_⟩
    · rw [genPoints_succ, hadd]
      simp only
      rw [hgen]
    · rw [List.nodup_cons]
      refine ⟨?_, hnd⟩
      intro hin
      exact hfresh' nm hin (ptS nm) (mem_insertSorted.mpr (Or.inl rfl)) rfl
    · intro p hp
      rcases List.mem_cons.mp hp with rfl | hp
      · exact hfr
      · rw [contains_false_iff]
        intro t ht
        exact hfresh' p hp t (mem_insertSorted.mpr (Or.inr ht))
    · intro p hp
      rcases List.mem_cons.mp hp with rfl | hp
      · exact hne
      · exact hid p hp
    · exact (sublist_insertSorted _ _).trans hsub
    · refine hperm.trans ?_
      rw [List.map_cons, List.cons_append]
      exact (List.Perm.append_left _ (insertSorted_perm _ _)).trans List.perm_middle

/-! ## k_simplex -/

/-- adding one point, with the requested name or a generated one -/
theorem addS_point {c : C} (hI : Inv c) (id : Option Name) (hid : ∀ m, id = some m → c.contains m = false) :
    ∃ n c', addS c [] id = (.ok n, c') ∧ Inv c' ∧ c.contains n = false ∧
      c'.simps = insertSorted (ptS n) c.simps ∧ (∀ m, id = some m → n = m) := by
  cases id with
  | some m =>
    obtain ⟨c', hadd, hI', hs⟩ := addPoint_spec hI (hid m rfl)
    refine ⟨m, c', ?_, hI', hid m rfl, hs, fun m' hm' => (Option.some.inj hm')⟩
    unfold addS
    simp only [hadd]
  | none =>
    obtain ⟨f1, f2, -⟩ := newSimplex_fresh hI.nodup 0
    obtain ⟨c', hadd, hI', hs⟩ := addPoint_spec hI f1
    have e : addS c [] none =
        (match c.addSimplex [] (newSimplex c 0).1 with
         | .ok c' => (.ok (newSimplex c 0).1, { c' with seq := (newSimplex c 0).2.seq })
         | .error e => (.error e, c)) := rfl
    refine ⟨(newSimplex c 0).1, { c' with seq := (newSimplex c 0).2.seq }, ?_,
      inv_of_simps_eq (c := c') rfl hI', f1, hs, fun m hm => by cases hm⟩
    rw [e, hadd]

theorem addSimplexWithBasisQ_eq {c : C} {bs : List Name} {id : Option Name} (h1 : idUsed c id = false)
    (h2 : bs.any (fun b => c.contains b && c.orderOf? b != some 0) = false) (h3 : 2 ≤ bs.length) :
    addSimplexWithBasisQ c bs id = addSimplexWithBasis' c bs id := by
  unfold addSimplexWithBasisQ
  rw [h1, h2]
  match bs, h3 with
  | x :: y :: rest, _ => simp

/-- extending by points only: the shape of the state after `genPoints` -/
theorem adds_points {c c1 : C} {bs : List Name} (hI : Inv c) (hI1 : Inv c1)
    (hfresh : ∀ p ∈ bs, c.contains p = false) (hsub : c.simps.Sublist c1.simps)
    (hperm : c1.simps.Perm (bs.map ptS ++ c.simps)) :
    Adds c c1 bs.toFinset (fun X => X.card = 1) := by
  have hmem : ∀ t, t ∈ c1.simps ↔ (∃ p ∈ bs, t = ptS p) ∨ t ∈ c.simps := by
    intro t
    rw [hperm.mem_iff, List.mem_append, List.mem_map]
    constructor
    · rintro (⟨p, hp, rfl⟩ | h)
      · exact Or.inl ⟨p, hp, rfl⟩
      · exact Or.inr h
    · rintro (⟨p, hp, rfl⟩ | h)
      · exact Or.inl ⟨p, hp, rfl⟩
      · exact Or.inr h
  refine ⟨hI, hI1, hsub, fun p hp => hfresh p (List.mem_toFinset.mp hp), ?_, ?_⟩
  · intro t ht
    rcases (hmem t).mp ht with ⟨p, hp, rfl⟩ | h
    · right
      rw [ptS_pts]
      exact ⟨by simpa using hp, by simp⟩
    · exact Or.inl h
  · intro X hX _ hc
    obtain ⟨p, rfl⟩ := Finset.card_eq_one.mp hc
    have hp : p ∈ bs := List.mem_toFinset.mp (hX (Finset.mem_singleton_self p))
    exact ⟨ptS p, (hmem _).mpr (Or.inl ⟨p, hp, rfl⟩), ptS_pts p⟩

/-- **`k_simplex`**: for a requested name that is unused (or none) the call succeeds; the result is valid,
keeps every simplex of `c` unchanged, and the new simplices are exactly one for each non-empty subset of a set
`B` of `k+1` fresh names; the returned name is that of the simplex on all of `B`, and is `id` when given. -/
theorem kSimplex_spec {c : C} (hI : Inv c) (k : Nat) (id : Option Name)
    (hid : ∀ m, id = some m → c.contains m = false) :
    ∃ n c' B, kSimplex k id c = .ok (n, c') ∧ B.card = k + 1 ∧ Adds c c' B (fun _ => True) ∧
      (∃ t ∈ c'.simps, t.name = n ∧ t.pts = B) ∧ (∀ m, id = some m → n = m) := by
  classical
  unfold kSimplex
  by_cases hk : k = 0
  · subst hk
    rw [if_pos rfl]
    obtain ⟨n, c', hadd, hI', hfr, hs, hidn⟩ := addS_point hI id hid
    rw [hadd]
    simp only
    have hmem : ∀ t, t ∈ c'.simps ↔ t = ptS n ∨ t ∈ c.simps := by
      intro t; rw [hs]; exact mem_insertSorted
    refine ⟨n, c', {n}, rfl, by simp, ⟨hI, hI', ?_, ?_, ?_, ?_⟩, ?_, hidn⟩
    · rw [hs]; exact sublist_insertSorted _ _
    · intro p hp; rw [Finset.mem_singleton] at hp; rw [hp]; exact hfr
    · intro t ht
      rcases (hmem t).mp ht with rfl | h
      · exact Or.inr ⟨by rw [ptS_pts], trivial⟩
      · exact Or.inl h
    · intro X hX hne _
      refine ⟨ptS n, (hmem _).mpr (Or.inl rfl), ?_⟩
      rw [ptS_pts]
      exact (Finset.Nonempty.subset_singleton_iff hne).mp hX |>.symm
    · exact ⟨ptS n, (hmem _).mpr (Or.inl rfl), rfl, ptS_pts n⟩
  · rw [if_neg hk]
    obtain ⟨bs, c1, hgen, hI1, hlen, hnd, hfresh, hidb, hsub1, hperm⟩ := genPoints_spec id (k + 1) c hI
    rw [hgen]
    simp only
    have hA1 := adds_points hI hI1 hfresh hsub1 hperm
    have hptmem : ∀ p ∈ bs, ptS p ∈ c1.simps := by
      intro p hp
      rw [hperm.mem_iff, List.mem_append, List.mem_map]
      exact Or.inl ⟨p, hp, rfl⟩
    have hpt : ∀ b ∈ bs, c1.contains b = true → ∃ t ∈ c1.simps, t.name = b ∧ t.order = 0 :=
      fun b hb _ => ⟨ptS b, hptmem b hb, rfl, rfl⟩
    have h2 : 2 ≤ bs.length := by omega
    have hnone : ¬ ∃ t ∈ c1.simps, t.pts = bs.toFinset := by
      rintro ⟨t, ht, htp⟩
      rcases hA1.new t ht with h | ⟨-, h⟩
      · exact hA1.old_not_sub h (by rw [htp])
      · rw [htp, List.toFinset_card_of_nodup hnd] at h; omega
    have hid1 : ∀ n, id = some n → c1.contains n = false ∧ n ∉ bs := by
      intro n hn
      have hnb : n ∉ bs := fun hin => hidb n hin hn
      refine ⟨?_, hnb⟩
      rw [contains_false_iff]
      intro t ht htn
      rw [hperm.mem_iff, List.mem_append, List.mem_map] at ht
      rcases ht with ⟨p, hp, rfl⟩ | h
      · exact hnb (htn ▸ hp)
      · have := contains_false_iff.mp (hid n hn) t h
        exact this htn
    have g1 : idUsed c1 id = false := by
      cases hidc : id with
      | none => rfl
      | some n => exact (hid1 n hidc).1
    have g2 : (bs.any (fun b => c1.contains b && c1.orderOf? b != some 0)) = false := by
      rw [List.any_eq_false]
      intro b hb
      have := orderOf_of_mem hI1 (hptmem b hb)
      have e : (ptS b).name = b := rfl
      rw [e] at this
      rw [this]; simp [ptS]
    rw [addSimplexWithBasisQ_eq g1 g2 h2]
    obtain ⟨n, c2, hrun, hI2, hsub2, hnm, hidn, hnew2⟩ :=
      addSimplexWithBasis_spec hI1 hnd h2 hpt hnone id hid1
    rw [hrun]
    simp only
    refine ⟨n, c2, bs.toFinset, rfl, by rw [List.toFinset_card_of_nodup hnd, hlen], ⟨hI, hI2, ?_, ?_, ?_, ?_⟩,
      hnm, hidn⟩
    · exact hsub1.trans hsub2
    · exact hA1.fresh
    · intro t ht
      rcases hnew2 t ht with h | h
      · rcases hA1.new t h with h' | h'
        · exact Or.inl h'
        · exact Or.inr ⟨h'.1, trivial⟩
      · exact Or.inr ⟨h, trivial⟩
    · intro X hX hne _
      obtain ⟨t, ht, -, htp⟩ := hnm
      exact hI2.subset_simplex ht (htp ▸ hX) hne

/-- the numbers behind `k_simplex`: `C(k+1, j+1)` new simplices of order `j`, `2^(k+1) - 1` in total -/
theorem full_counts {c c' : C} {B : Finset Name} (h : Adds c c' B (fun _ => True)) :
    (∀ j, (c'.ofOrder j).length = (c.ofOrder j).length + B.card.choose (j + 1)) ∧
    c'.simps.length = c.simps.length + (2 ^ B.card - 1) := by
  classical
  constructor
  · intro j
    rw [h.count_order j, Finset.filter_true_of_mem (fun _ _ => trivial), Finset.card_powersetCard]
  · rw [h.count_all]
    congr 1
    have : B.powerset.filter (fun X => X.Nonempty ∧ True) = B.powerset.erase ∅ := by
      ext X
      simp only [Finset.mem_filter, Finset.mem_powerset, and_true, Finset.mem_erase,
        Finset.nonempty_iff_ne_empty]
      tauto
    rw [this, Finset.card_erase_of_mem (Finset.empty_mem_powerset B), Finset.card_powerset]

theorem kSimplex_counts {c : C} (hI : Inv c) (k : Nat) (id : Option Name)
    (hid : ∀ m, id = some m → c.contains m = false) :
    ∃ n c', kSimplex k id c = .ok (n, c') ∧
      (∀ j, (c'.ofOrder j).length = (c.ofOrder j).length + (k + 1).choose (j + 1)) ∧
      c'.simps.length = c.simps.length + (2 ^ (k + 1) - 1) := by
  obtain ⟨n, c', B, hrun, hB, hA, -, -⟩ := kSimplex_spec hI k id hid
  have := full_counts hA
  rw [hB] at this
  exact ⟨n, c', hrun, this⟩

/-! ## k_void -/

/-- **`k_void`**: succeeds; the result is valid, keeps every simplex of `c` unchanged, and the new simplices are
exactly one for each non-empty *proper* subset of a set `B` of `k+2` fresh names (the boundary of a
`(k+1)`-simplex): the deletion removes exactly the top simplex just created. -/
theorem kVoid_spec {c : C} (hI : Inv c) (k : Nat) :
    ∃ c' B, kVoid k c = .ok c' ∧ B.card = k + 2 ∧ Adds c c' B (fun X => X ≠ B) := by
  classical
  obtain ⟨n, d, B, hrun, hB, hA, ⟨top, htop, htn, htp⟩, -⟩ := kSimplex_spec hI (k + 1) none (fun m hm => by cases hm)
  have hId := hA.inv
  have htopo : top.order = k + 1 := by
    have := hId.pts_card htop
    rw [htp, hB] at this; omega
  -- a simplex of `d` on all of `B` is the top simplex
  have huniq : ∀ t ∈ d.simps, B ⊆ t.pts → t = top := by
    intro t ht hsub
    have hnew : t.pts ⊆ B := by
      rcases hA.new t ht with h | h
      · exfalso
        obtain ⟨p, hp⟩ : B.Nonempty := by rw [← Finset.card_pos]; omega
        exact old_disjoint hI hA.fresh h p (hsub hp) hp
      · exact h.1
    have heq : t.pts = top.pts := by rw [htp]; exact Finset.Subset.antisymm hnew hsub
    apply hId.uniq t ht top htop
    · have h1 := hId.pts_card ht
      have h2 := hId.pts_card htop
      rw [heq] at h1; omega
    · intro p
      have := Finset.ext_iff.mp heq p
      simpa [Simp.pts] using this
  have htopnew : top ∉ c.simps := fun h => hA.old_not_sub h (by rw [htp])
  -- the search finds the top simplex
  have hfind : ((d.ofOrder (k + 1)).map (·.name)).find?
      (fun s => !((c.ofOrder (k + 1)).map (·.name)).contains s) = some n := by
    have hpred : ∀ t ∈ d.simps, t.order = k + 1 →
        (!((c.ofOrder (k + 1)).map (·.name)).contains t.name) = true → t = top := by
      intro t ht hto hp
      apply huniq t ht
      rcases hA.new t ht with h | h
      · exfalso
        simp only [Bool.not_eq_true', ← Bool.not_eq_true, List.contains_iff_mem] at hp
        apply hp
        exact List.mem_map.mpr ⟨t, by unfold Cx.ofOrder; rw [List.mem_filter]; exact ⟨h, by simpa using hto⟩, rfl⟩
      · have hc : t.pts.card = B.card := by rw [hId.pts_card ht, hB, hto]
        rw [Finset.eq_of_subset_of_card_le h.1 (by omega)]
    have hnp : (!((c.ofOrder (k + 1)).map (·.name)).contains n) = true := by
      simp only [Bool.not_eq_true', ← Bool.not_eq_true, List.contains_iff_mem]
      intro hin
      obtain ⟨t, ht, htn'⟩ := List.mem_map.mp hin
      unfold Cx.ofOrder at ht
      rw [List.mem_filter] at ht
      have : t = top := hId.name_inj (hA.sub.subset ht.1) htop (htn'.trans htn.symm)
      exact htopnew (this ▸ ht.1)
    cases hf : ((d.ofOrder (k + 1)).map (·.name)).find?
        (fun s => !((c.ofOrder (k + 1)).map (·.name)).contains s) with
    | none =>
      exfalso
      have := List.find?_eq_none.mp hf n (List.mem_map.mpr ⟨top, by
        unfold Cx.ofOrder; rw [List.mem_filter]; exact ⟨htop, by simpa using htopo⟩, htn⟩)
      exact this hnp
    | some s =>
      have h1 := List.mem_of_find?_eq_some hf
      have h2 := List.find?_some hf
      obtain ⟨t, ht, rfl⟩ := List.mem_map.mp h1
      unfold Cx.ofOrder at ht
      rw [List.mem_filter] at ht
      have := hpred t ht.1 (by simpa using ht.2) h2
      rw [this, htn]
  obtain ⟨d', hdel, hId', hd'⟩ := deleteSimplex_spec hId htop
  rw [htn] at hdel
  have hmem' : ∀ t, t ∈ d'.simps ↔ t ∈ d.simps ∧ t ≠ top := by
    intro t
    rw [hd']
    simp only [List.mem_filter, decide_eq_true_eq]
    constructor
    · rintro ⟨h1, h2⟩
      exact ⟨h1, fun e => h2 (by rw [e])⟩
    · rintro ⟨h1, h2⟩
      exact ⟨h1, fun hs => h2 (huniq t h1 (htp ▸ hs))⟩
  refine ⟨d', B, ?_, hB, ⟨hI, hId', ?_, hA.fresh, ?_, ?_⟩⟩
  · unfold kVoid
    simp only [hrun, hfind, hdel, Option.getD_some]
  · rw [hd']
    have : c.simps.filter (fun t => decide (¬ top.pts ⊆ t.pts)) = c.simps := by
      rw [List.filter_eq_self]
      intro t ht
      simp only [decide_eq_true_eq]
      intro hs
      exact htopnew ((huniq t (hA.sub.subset ht) (htp ▸ hs)) ▸ ht)
    rw [← this]
    exact hA.sub.filter _
  · intro t ht
    obtain ⟨h1, h2⟩ := (hmem' t).mp ht
    rcases hA.new t h1 with h | h
    · exact Or.inl h
    · refine Or.inr ⟨h.1, fun e => h2 (huniq t h1 (by rw [e]))⟩
  · intro X hX hne hXB
    obtain ⟨t, ht, rfl⟩ := hA.all X hX hne trivial
    refine ⟨t, (hmem' t).mpr ⟨ht, fun e => hXB (by rw [e, htp])⟩, rfl⟩

/-- the numbers behind `k_void k`: `C(k+2, j+1)` new simplices of each order `j ≤ k`, none of a higher order
(in particular none of order `k+1`), `2^(k+2) - 2` in total -/
theorem void_counts {c c' : C} {B : Finset Name} (h : Adds c c' B (fun X => X ≠ B)) :
    (∀ j, j + 1 < B.card → (c'.ofOrder j).length = (c.ofOrder j).length + B.card.choose (j + 1)) ∧
    (∀ j, B.card ≤ j + 1 → (c'.ofOrder j).length = (c.ofOrder j).length) ∧
    c'.simps.length = c.simps.length + (2 ^ B.card - 2) := by
  classical
  refine ⟨?_, ?_, ?_⟩
  · intro j hj
    rw [h.count_order j, Finset.filter_true_of_mem, Finset.card_powersetCard]
    intro X hX e
    rw [Finset.mem_powersetCard, e] at hX
    omega
  · intro j hj
    rw [h.count_order j, Finset.filter_false_of_mem, Finset.card_empty, Nat.add_zero]
    intro X hX
    rw [Finset.mem_powersetCard] at hX
    simp only [ne_eq, Decidable.not_not]
    exact Finset.eq_of_subset_of_card_le hX.1 (by omega)
  · rw [h.count_all]
    congr 1
    by_cases hB : B = ∅
    · subst hB
      simp
    · have : B.powerset.filter (fun X => X.Nonempty ∧ X ≠ B) = (B.powerset.erase ∅).erase B := by
        ext X
        simp only [Finset.mem_filter, Finset.mem_powerset, Finset.mem_erase, Finset.nonempty_iff_ne_empty]
        tauto
      rw [this, Finset.card_erase_of_mem, Finset.card_erase_of_mem (Finset.empty_mem_powerset B),
        Finset.card_powerset]
      · omega
      · rw [Finset.mem_erase]
        exact ⟨hB, Finset.mem_powerset_self B⟩

theorem kVoid_counts {c : C} (hI : Inv c) (k : Nat) :
    ∃ c', kVoid k c = .ok c' ∧
      (∀ j, j ≤ k → (c'.ofOrder j).length = (c.ofOrder j).length + (k + 2).choose (j + 1)) ∧
      (∀ j, k < j → (c'.ofOrder j).length = (c.ofOrder j).length) ∧
      c'.simps.length = c.simps.length + (2 ^ (k + 2) - 2) := by
  obtain ⟨c', B, hrun, hB, hA⟩ := kVoid_spec hI k
  obtain ⟨h1, h2, h3⟩ := void_counts hA
  rw [hB] at h1 h2 h3
  exact ⟨c', hrun, fun j hj => h1 j (by omega), fun j hj => h2 j (by omega), h3⟩

/-! ## the two loops shared by `k_skeleton` and `ring`: generated points, then edges -/

/-- the point loop of `k_skeleton` / `ring` -/
def genStep (acc : Except Err (List Name × C)) (_ : Nat) : Except Err (List Name × C) :=
  match acc with
  | .error e => .error e
  | .ok (ss, c) =>
    match addS c [] none with
    | (.ok n, c') => .ok (ss ++ [n], c')
    | (.error e, _) => .error e

theorem genLoop_spec : ∀ (l : List Nat) (acc : List Name) (c : C), Inv c →
    ∃ ss c', l.foldl genStep (.ok (acc, c)) = .ok (acc ++ ss, c') ∧ Inv c' ∧ ss.length = l.length ∧ ss.Nodup ∧
      (∀ p ∈ ss, c.contains p = false) ∧ c.simps.Sublist c'.simps ∧
      c'.simps.Perm (ss.map ptS ++ c.simps) := by
  intro l
  induction l with
  | nil =>
    intro acc c hI
    exact ⟨[], c, by simp, hI, rfl, List.nodup_nil, by simp, List.Sublist.refl _, by simp⟩
  | cons x l ih =>
    intro acc c hI
    obtain ⟨n, c1, hadd, hI1, hfr, hs1, -⟩ := addS_point hI none (fun m hm => by cases hm)
    obtain ⟨ss, c', hrun, hI', hlen, hnd, hfresh, hsub, hperm⟩ := ih (acc ++ [n]) c1 hI1
    rw [hs1] at hsub hperm
    have hfresh' : ∀ p ∈ ss, ∀ t ∈ insertSorted (ptS n) c.simps, t.name ≠ p := by
      intro p hp
      have := contains_false_iff.mp (hfresh p hp)
      rw [hs1] at this
      exact this
    refine ⟨n :: ss, c', ?_, hI', by simp [hlen], ?_, ?_, ?_, ?_⟩
    · rw [List.foldl_cons]
      have : genStep (.ok (acc, c)) x = .ok (acc ++ [n], c1) := by
        unfold genStep; simp only [hadd]
      rw [this, hrun]
      simp
    · rw [List.nodup_cons]
      refine ⟨?_, hnd⟩
      intro hin
      exact hfresh' n hin (ptS n) (mem_insertSorted.mpr (Or.inl rfl)) rfl
    · intro p hp
      rcases List.mem_cons.mp hp with rfl | hp
      · exact hfr
      · rw [contains_false_iff]
        intro t ht
        exact hfresh' p hp t (mem_insertSorted.mpr (Or.inr ht))
    · exact (sublist_insertSorted _ _).trans hsub
    · refine hperm.trans ?_
      rw [List.map_cons, List.cons_append]
      exact (List.Perm.append_left _ (insertSorted_perm _ _)).trans List.perm_middle

/-- adding the edge between two existing points that are not yet joined, with a generated name -/
theorem addS_edge {c : C} (hI : Inv c) {a b : Name} (hab : a ≠ b) (ha : ptS a ∈ c.simps)
    (hb : ptS b ∈ c.simps) (hnone : ¬ ∃ t ∈ c.simps, t.pts = {a, b}) :
    ∃ n c', addS c [a, b] none = (.ok n, c') ∧ Inv c' ∧ c.simps.Sublist c'.simps ∧
      (∃ t ∈ c'.simps, t.pts = {a, b}) ∧ (∀ t ∈ c'.simps, t ∈ c.simps ∨ t.pts = {a, b}) := by
  classical
  have hset : ([a, b] : List Name).toFinset = {a, b} := by simp
  obtain ⟨f1, -, -⟩ := newSimplex_fresh hI.nodup 1
  have hfs : List.Forall₂ (Names c) [a, b] (dropOne [a, b]) := by
    show List.Forall₂ (Names c) [a, b] [[a], [b]]
    exact List.Forall₂.cons ⟨ptS a, ha, rfl, by simp [ptS_pts]⟩
      (List.Forall₂.cons ⟨ptS b, hb, rfl, by simp [ptS_pts]⟩ List.Forall₂.nil)
  obtain ⟨c', hadd, hI', hsub, ⟨t, ht, -, htp⟩, hnew, -, -⟩ :=
    finalAdd hI (p := [a, b]) (by simp [hab]) (by simp) hfs f1 (by rw [hset]; exact hnone)
  have e : addS c [a, b] none =
      (match c.addSimplex [a, b] (newSimplex c 1).1 with
       | .ok c' => (.ok (newSimplex c 1).1, { c' with seq := (newSimplex c 1).2.seq })
       | .error e => (.error e, c)) := rfl
  refine ⟨_, { c' with seq := (newSimplex c 1).2.seq }, by rw [e, hadd],
    inv_of_simps_eq (c := c') rfl hI', hsub, ⟨t, ht, by rw [htp, hset]⟩, ?_⟩
  intro u hu
  rcases hnew u hu with h | h
  · exact Or.inl h
  · exact Or.inr (by rw [h, hset])

/-- one edge request: join the two named points -/
def edgeStep (acc : Except Err C) (e : Name × Name) : Except Err C :=
  match acc with
  | .error e => .error e
  | .ok c =>
    match addS c [e.1, e.2] none with
    | (.ok _, c') => .ok c'
    | (.error e, _) => .error e

theorem edgesLoop_spec : ∀ (L : List (Name × Name)) (c : C), Inv c →
    (∀ e ∈ L, ptS e.1 ∈ c.simps ∧ ptS e.2 ∈ c.simps ∧ e.1 ≠ e.2) →
    L.Pairwise (fun e f => ({e.1, e.2} : Finset Name) ≠ {f.1, f.2}) →
    (∀ e ∈ L, ¬ ∃ t ∈ c.simps, t.pts = {e.1, e.2}) →
    ∃ c', L.foldl edgeStep (.ok c) = .ok c' ∧ Inv c' ∧ c.simps.Sublist c'.simps ∧
      (∀ e ∈ L, ∃ t ∈ c'.simps, t.pts = {e.1, e.2}) ∧
      (∀ t ∈ c'.simps, t ∈ c.simps ∨ ∃ e ∈ L, t.pts = {e.1, e.2}) := by
  intro L
  induction L with
  | nil =>
    intro c hI _ _ _
    exact ⟨c, rfl, hI, List.Sublist.refl _, by simp, fun t ht => Or.inl ht⟩
  | cons e L ih =>
    intro c hI hpts hpw hnone
    rw [List.pairwise_cons] at hpw
    obtain ⟨h1, h2, h3⟩ := hpts e List.mem_cons_self
    obtain ⟨n, c1, hadd, hI1, hsub1, hex1, hnew1⟩ := addS_edge hI h3 h1 h2 (hnone e List.mem_cons_self)
    obtain ⟨c', hrun, hI', hsub, hex, hnew⟩ := ih c1 hI1
      (by
        intro f hf
        obtain ⟨g1, g2, g3⟩ := hpts f (List.mem_cons_of_mem _ hf)
        exact ⟨hsub1.subset g1, hsub1.subset g2, g3⟩)
      hpw.2
      (by
        rintro f hf ⟨t, ht, htp⟩
        rcases hnew1 t ht with h | h
        · exact hnone f (List.mem_cons_of_mem _ hf) ⟨t, h, htp⟩
        · exact hpw.1 f hf (h.symm.trans htp))
    refine ⟨c', ?_, hI', hsub1.trans hsub, ?_, ?_⟩
    · rw [List.foldl_cons]
      have : edgeStep (.ok c) e = .ok c1 := by
        unfold edgeStep; simp only [hadd]
      rw [this, hrun]
    · intro f hf
      rcases List.mem_cons.mp hf with rfl | hf
      · obtain ⟨t, ht, htp⟩ := hex1
        exact ⟨t, hsub.subset ht, htp⟩
      · exact hex f hf
    · intro t ht
      rcases hnew t ht with h | ⟨f, hf, h⟩
      · rcases hnew1 t h with h' | h'
        · exact Or.inl h'
        · exact Or.inr ⟨e, List.mem_cons_self, h'⟩
      · exact Or.inr ⟨f, List.mem_cons_of_mem _ hf, h⟩

theorem foldl_congr_mem {α β : Type} {f g : α → β → α} : ∀ (l : List β) (a : α),
    (∀ a, ∀ x ∈ l, f a x = g a x) → l.foldl f a = l.foldl g a := by
  intro l
  induction l with
  | nil => intro a _; rfl
  | cons x l ih =>
    intro a h
    rw [List.foldl_cons, List.foldl_cons, h a x List.mem_cons_self]
    exact ih _ (fun a y hy => h a y (List.mem_cons_of_mem _ hy))

/-- points then edges: the common conclusion. `E` lists the edges as pairs of (distinct, new) points,
no two entries with the same ends. -/
theorem points_edges {c c1 : C} {ss : List Name} (hA : Adds c c1 ss.toFinset (fun X => X.card = 1))
    (hpm : ∀ p ∈ ss, ptS p ∈ c1.simps) (E : List (Name × Name))
    (hE : ∀ e ∈ E, e.1 ∈ ss ∧ e.2 ∈ ss ∧ e.1 ≠ e.2)
    (hpw : E.Pairwise (fun e f => ({e.1, e.2} : Finset Name) ≠ {f.1, f.2})) :
    ∃ c', E.foldl edgeStep (.ok c1) = .ok c' ∧
      Adds c c' ss.toFinset (fun X => X.card = 1 ∨ ∃ e ∈ E, X = {e.1, e.2}) := by
  classical
  obtain ⟨c', hrun, hI', hsub, hex, hnew⟩ := edgesLoop_spec E c1 hA.inv
    (fun e he => ⟨hpm _ (hE e he).1, hpm _ (hE e he).2.1, (hE e he).2.2⟩) hpw
    (by
      rintro e he ⟨t, ht, htp⟩
      rcases hA.new t ht with h | ⟨-, h⟩
      · apply hA.old_not_sub h
        rw [htp]
        intro x hx
        simp only [Finset.mem_insert, Finset.mem_singleton] at hx
        rcases hx with rfl | rfl
        · exact List.mem_toFinset.mpr (hE e he).1
        · exact List.mem_toFinset.mpr (hE e he).2.1
      · rw [htp, Finset.card_pair (hE e he).2.2] at h; omega)
  refine ⟨c', hrun, hA.inv0, hI', hA.sub.trans hsub, hA.fresh, ?_, ?_⟩
  · intro t ht
    rcases hnew t ht with h | ⟨e, he, h⟩
    · rcases hA.new t h with h' | h'
      · exact Or.inl h'
      · exact Or.inr ⟨h'.1, Or.inl h'.2⟩
    · right
      refine ⟨?_, Or.inr ⟨e, he, h⟩⟩
      rw [h]
      intro x hx
      simp only [Finset.mem_insert, Finset.mem_singleton] at hx
      rcases hx with rfl | rfl
      · exact List.mem_toFinset.mpr (hE e he).1
      · exact List.mem_toFinset.mpr (hE e he).2.1
  · intro X hX hne hF
    rcases hF with h | ⟨e, he, rfl⟩
    · obtain ⟨t, ht, htp⟩ := hA.all X hX hne h
      exact ⟨t, hsub.subset ht, htp⟩
    · exact hex e he

/-! ## k_skeleton -/

def skelEdgeStep (acc : Except Err C) (p : List Name) : Except Err C :=
  match acc with
  | .error e => .error e
  | .ok c =>
    match addS c p none with
    | (.ok _, c') => .ok c'
    | (.error e, _) => .error e

theorem kSkeleton_eq (k : Nat) (c : C) :
    kSkeleton k c =
      match (List.range (k + 1)).foldl genStep (.ok ([], c)) with
      | .error e => .error e
      | .ok (ss, c1) => (combosL 2 ss).foldl skelEdgeStep (.ok c1) := rfl

def toPair (p : List Name) : Name × Name :=
  match p with
  | [a, b] => (a, b)
  | _ => (.u 0, .u 0)

theorem skelEdgeStep_eq (acc : Except Err C) {p : List Name} (hp : p.length = 2) :
    skelEdgeStep acc p = edgeStep acc (toPair p) := by
  obtain ⟨a, b, rfl⟩ := List.length_eq_two.mp hp
  cases acc <;> rfl

/-- different combinations of a repeat-free list are different as sets -/
theorem combosL_pairwise : ∀ (L : List Name) (n : Nat), L.Nodup →
    (combosL n L).Pairwise (fun p q => p.toFinset ≠ q.toFinset) := by
  intro L
  induction L with
  | nil =>
    intro n _
    cases n <;> simp [combosL]
  | cons x xs ih =>
    intro n hnd
    rw [List.nodup_cons] at hnd
    cases n with
    | zero => simp [combosL]
    | succ n =>
      simp only [combosL]
      rw [List.pairwise_append]
      refine ⟨?_, ih (n + 1) hnd.2, ?_⟩
      · rw [List.pairwise_map]
        apply (ih n hnd.2).imp_of_mem
        intro p q hp hq hpq heq
        apply hpq
        have hxp : x ∉ p := fun h => hnd.1 ((combosL_mem.mp hp).1.subset h)
        have hxq : x ∉ q := fun h => hnd.1 ((combosL_mem.mp hq).1.subset h)
        ext z
        have := Finset.ext_iff.mp heq z
        simp only [List.toFinset_cons, Finset.mem_insert, List.mem_toFinset] at this ⊢
        by_cases hz : z = x
        · subst hz
          exact ⟨fun h => absurd h hxp, fun h => absurd h hxq⟩
        · constructor
          · intro h; rcases this.mp (Or.inr h) with e | e
            · exact absurd e hz
            · exact e
          · intro h; rcases this.mpr (Or.inr h) with e | e
            · exact absurd e hz
            · exact e
      · intro p hp q hq heq
        obtain ⟨p', -, rfl⟩ := List.mem_map.mp hp
        have : x ∈ (x :: p').toFinset := by simp
        rw [heq, List.mem_toFinset] at this
        exact hnd.1 ((combosL_mem.mp hq).1.subset this)

/-- **`k_skeleton`**: succeeds; the result is valid, keeps every simplex of `c` unchanged, and the new simplices
are exactly: one point for each member of a set `B` of `k+1` fresh names and one edge on every pair of them. -/
theorem kSkeleton_spec {c : C} (hI : Inv c) (k : Nat) :
    ∃ c' B, kSkeleton k c = .ok c' ∧ B.card = k + 1 ∧ Adds c c' B (fun X => X.card = 1 ∨ X.card = 2) := by
  classical
  obtain ⟨ss, c1, hgen, hI1, hlen, hnd, hfresh, hsub1, hperm⟩ := genLoop_spec (List.range (k + 1)) [] c hI
  rw [List.nil_append] at hgen
  have hA1 := adds_points hI hI1 hfresh hsub1 hperm
  have hpm : ∀ p ∈ ss, ptS p ∈ c1.simps := by
    intro p hp
    rw [hperm.mem_iff, List.mem_append, List.mem_map]
    exact Or.inl ⟨p, hp, rfl⟩
  -- the members of `combosL 2 ss`
  have hcomb : ∀ p ∈ combosL 2 ss, ∃ a b, p = [a, b] ∧ a ∈ ss ∧ b ∈ ss ∧ a ≠ b := by
    intro p hp
    obtain ⟨hs, hl⟩ := combosL_mem.mp hp
    obtain ⟨a, b, rfl⟩ := List.length_eq_two.mp hl
    have := hnd.sublist hs
    refine ⟨a, b, rfl, hs.subset (by simp), hs.subset (by simp), ?_⟩
    intro e; subst e; simp at this
  obtain ⟨c', hrun, hA⟩ := points_edges hA1 hpm ((combosL 2 ss).map toPair)
    (by
      intro e he
      obtain ⟨p, hp, rfl⟩ := List.mem_map.mp he
      obtain ⟨a, b, rfl, h1, h2, h3⟩ := hcomb p hp
      exact ⟨h1, h2, h3⟩)
    (by
      rw [List.pairwise_map]
      apply (combosL_pairwise ss 2 hnd).imp_of_mem
      intro p q hp hq hpq
      obtain ⟨a, b, rfl, -⟩ := hcomb p hp
      obtain ⟨a', b', rfl, -⟩ := hcomb q hq
      simpa [toPair] using hpq)
  refine ⟨c', ss.toFinset, ?_, by rw [List.toFinset_card_of_nodup hnd, hlen, List.length_range], ?_⟩
  · rw [kSkeleton_eq, hgen]
    simp only
    rw [foldl_congr_mem (g := fun acc p => edgeStep acc (toPair p)) _ _
      (fun a p hp => skelEdgeStep_eq a (combosL_mem.mp hp).2), ← hrun, List.foldl_map]
  · apply hA.mono
    intro X hX _
    constructor
    · rintro (h | ⟨e, he, rfl⟩)
      · exact Or.inl h
      · obtain ⟨p, hp, rfl⟩ := List.mem_map.mp he
        obtain ⟨a, b, rfl, -, -, hab⟩ := hcomb p hp
        exact Or.inr (Finset.card_pair hab)
    · rintro (h | h)
      · exact Or.inl h
      · right
        have hfnd : (ss.filter (fun x => x ∈ X)).Nodup := hnd.filter _
        have hfset : (ss.filter (fun x => x ∈ X)).toFinset = X := by
          ext z
          simp only [List.mem_toFinset, List.mem_filter, decide_eq_true_eq]
          exact ⟨fun hz => hz.2, fun hz => ⟨List.mem_toFinset.mp (hX hz), hz⟩⟩
        have hmem : ss.filter (fun x => x ∈ X) ∈ combosL 2 ss := by
          rw [combosL_mem]
          refine ⟨List.filter_sublist, ?_⟩
          rw [← List.toFinset_card_of_nodup hfnd, hfset, h]
        obtain ⟨a, b, hp, -⟩ := hcomb _ hmem
        refine ⟨toPair (ss.filter (fun x => x ∈ X)), List.mem_map.mpr ⟨_, hmem, rfl⟩, ?_⟩
        rw [hp] at hfset ⊢
        rw [← hfset]
        simp [toPair]

/-- the numbers behind `k_skeleton`: `|B|` new points, `C(|B|, 2)` new edges, nothing of higher order -/
theorem skel_counts {c c' : C} {B : Finset Name} (h : Adds c c' B (fun X => X.card = 1 ∨ X.card = 2)) :
    (c'.ofOrder 0).length = (c.ofOrder 0).length + B.card ∧
    (c'.ofOrder 1).length = (c.ofOrder 1).length + B.card.choose 2 ∧
    (∀ j, 2 ≤ j → (c'.ofOrder j).length = (c.ofOrder j).length) := by
  classical
  refine ⟨?_, ?_, ?_⟩
  · rw [h.count_order 0, Finset.filter_true_of_mem, Finset.card_powersetCard, Nat.choose_one_right]
    intro X hX
    exact Or.inl (Finset.mem_powersetCard.mp hX).2
  · rw [h.count_order 1, Finset.filter_true_of_mem, Finset.card_powersetCard]
    intro X hX
    exact Or.inr (Finset.mem_powersetCard.mp hX).2
  · intro j hj
    rw [h.count_order j, Finset.filter_false_of_mem, Finset.card_empty, Nat.add_zero]
    intro X hX
    have := (Finset.mem_powersetCard.mp hX).2
    omega

theorem kSkeleton_counts {c : C} (hI : Inv c) (k : Nat) :
    ∃ c', kSkeleton k c = .ok c' ∧ Inv c' ∧ c.simps.Sublist c'.simps ∧
      (c'.ofOrder 0).length = (c.ofOrder 0).length + (k + 1) ∧
      (c'.ofOrder 1).length = (c.ofOrder 1).length + (k + 1).choose 2 ∧
      (∀ j, 2 ≤ j → (c'.ofOrder j).length = (c.ofOrder j).length) := by
  obtain ⟨c', B, hrun, hB, hA⟩ := kSkeleton_spec hI k
  have := skel_counts hA
  rw [hB] at this
  exact ⟨c', hrun, hA.inv, hA.sub, this⟩

/-! ## ring -/

def ringEdges (n : Nat) : List (Nat × Nat) := (List.range (n - 1)).map (fun i => (i, i + 1)) ++ [(n - 1, 0)]

def ringStep (ss : List Name) (acc : Except Err C) (ij : Nat × Nat) : Except Err C :=
  match acc with
  | .error e => .error e
  | .ok c =>
    match ss[ij.1]?, ss[ij.2]? with
    | some p, some q =>
      match addS c [p, q] none with
      | (.ok _, c') => .ok c'
      | (.error e, _) => .error e
    | _, _ => .error .key

theorem ring_eq (n : Nat) (c : C) :
    ring n c =
      if n ≤ 2 then .error .value else
      match (List.range n).foldl genStep (.ok ([], c)) with
      | .error e => .error e
      | .ok (ss, c1) => (ringEdges n).foldl (ringStep ss) (.ok c1) := rfl

/-- the successor position on a cycle of length `n` -/
def nxt (n i : Nat) : Nat := if i + 1 < n then i + 1 else 0

/-- the name at position `i` -/
def nmOf (ps : List Name) (i : Nat) : Name := (ps[i]?).getD (.u 0)

theorem ringEdges_eq {n : Nat} (hn : 1 ≤ n) : ringEdges n = (List.range n).map (fun i => (i, nxt n i)) := by
  obtain ⟨m, rfl⟩ : ∃ m, n = m + 1 := ⟨n - 1, by omega⟩
  unfold ringEdges
  rw [List.range_succ, List.map_append]
  simp only [Nat.add_sub_cancel, List.map_cons, List.map_nil]
  congr 1
  · apply List.map_congr_left
    intro i hi
    rw [List.mem_range] at hi
    simp [nxt, hi]
  · simp [nxt]

theorem nmOf_get {ps : List Name} {i : Nat} (hi : i < ps.length) : ps[i]? = some (nmOf ps i) := by
  unfold nmOf
  rw [List.getElem?_eq_getElem hi]; rfl

theorem nmOf_mem {ps : List Name} {i : Nat} (hi : i < ps.length) : nmOf ps i ∈ ps :=
  List.mem_of_getElem? (nmOf_get hi)

theorem nmOf_inj {ps : List Name} (hnd : ps.Nodup) {i j : Nat} (hi : i < ps.length) (hj : j < ps.length)
    (h : nmOf ps i = nmOf ps j) : i = j :=
  (List.getElem?_inj hi hnd).mp (by rw [nmOf_get hi, nmOf_get hj, h])

theorem ringStep_eq (ss : List Name) (acc : Except Err C) {ij : Nat × Nat} (h1 : ij.1 < ss.length)
    (h2 : ij.2 < ss.length) : ringStep ss acc ij = edgeStep acc (nmOf ss ij.1, nmOf ss ij.2) := by
  unfold ringStep edgeStep
  cases acc with
  | error e => rfl
  | ok c => simp only [nmOf_get h1, nmOf_get h2]

/-- the vertex set of the `i`-th edge of the cycle -/
def ringEdge (ps : List Name) (n i : Nat) : Finset Name := {nmOf ps i, nmOf ps (nxt n i)}

theorem nxt_lt {n : Nat} (hn : 1 ≤ n) (i : Nat) : nxt n i < n := by
  unfold nxt; split_ifs <;> omega

theorem ringEdge_inj {ps : List Name} (hnd : ps.Nodup) {n : Nat} (hn : 3 ≤ n) (hlen : ps.length = n)
    {i i' : Nat} (hi : i < n) (hi' : i' < n) (h : ringEdge ps n i = ringEdge ps n i') : i = i' := by
  have hx := nxt_lt (show 1 ≤ n by omega) i
  have hx' := nxt_lt (show 1 ≤ n by omega) i'
  have h1 : nmOf ps i ∈ ringEdge ps n i' := h ▸ (by simp [ringEdge])
  have h2 : nmOf ps i' ∈ ringEdge ps n i := h ▸ (by simp [ringEdge])
  simp only [ringEdge, Finset.mem_insert, Finset.mem_singleton] at h1 h2
  have e1 : i = i' ∨ i = nxt n i' := by
    rcases h1 with e | e
    · exact Or.inl (nmOf_inj hnd (by omega) (by omega) e)
    · exact Or.inr (nmOf_inj hnd (by omega) (by omega) e)
  have e2 : i' = i ∨ i' = nxt n i := by
    rcases h2 with e | e
    · exact Or.inl (nmOf_inj hnd (by omega) (by omega) e)
    · exact Or.inr (nmOf_inj hnd (by omega) (by omega) e)
  unfold nxt at e1 e2
  split_ifs at e1 e2 <;> omega

theorem ringEdge_card {ps : List Name} (hnd : ps.Nodup) {n : Nat} (hn : 2 ≤ n) (hlen : ps.length = n)
    {i : Nat} (hi : i < n) : nmOf ps i ≠ nmOf ps (nxt n i) := by
  intro e
  have hx := nxt_lt (show 1 ≤ n by omega) i
  have := nmOf_inj hnd (by omega) (by omega) e
  unfold nxt at this
  split_ifs at this <;> omega

/-- the new simplices of `ring`: the points, and the edges of one cycle through them in listing order -/
def ringF (ps : List Name) (n : Nat) (X : Finset Name) : Prop :=
  X.card = 1 ∨ ∃ i, i < n ∧ X = ringEdge ps n i

/-- **`ring`** for `n ≥ 3`: succeeds; the result is valid, keeps every simplex of `c` unchanged, and the new
simplices are exactly: one point for each of `n` distinct fresh names `ps` and the `n` edges
`{ps[i], ps[i+1 mod n]}` of one cycle. -/
theorem ring_spec {c : C} (hI : Inv c) {n : Nat} (hn : 3 ≤ n) :
    ∃ c' ps, ring n c = .ok c' ∧ ps.length = n ∧ ps.Nodup ∧ Adds c c' ps.toFinset (ringF ps n) := by
  classical
  obtain ⟨ss, c1, hgen, hI1, hlen, hnd, hfresh, hsub1, hperm⟩ := genLoop_spec (List.range n) [] c hI
  rw [List.nil_append] at hgen
  rw [List.length_range] at hlen
  have hA1 := adds_points hI hI1 hfresh hsub1 hperm
  have hpm : ∀ p ∈ ss, ptS p ∈ c1.simps := by
    intro p hp
    rw [hperm.mem_iff, List.mem_append, List.mem_map]
    exact Or.inl ⟨p, hp, rfl⟩
  obtain ⟨c', hrun, hA⟩ := points_edges hA1 hpm
    ((List.range n).map (fun i => (nmOf ss i, nmOf ss (nxt n i))))
    (by
      intro e he
      obtain ⟨i, hi, rfl⟩ := List.mem_map.mp he
      rw [List.mem_range] at hi
      have hx := nxt_lt (show 1 ≤ n by omega) i
      exact ⟨nmOf_mem (by omega), nmOf_mem (by omega), ringEdge_card hnd (by omega) hlen hi⟩)
    (by
      rw [List.pairwise_map]
      apply (List.pairwise_lt_range (n := n)).imp_of_mem
      intro i i' hi hi' hlt heq
      rw [List.mem_range] at hi hi'
      have := ringEdge_inj hnd hn hlen hi hi' heq
      omega)
  refine ⟨c', ss, ?_, hlen, hnd, ?_⟩
  · rw [ring_eq, if_neg (by omega), hgen]
    simp only
    rw [foldl_congr_mem (g := fun acc ij => edgeStep acc (nmOf ss ij.1, nmOf ss ij.2)) _ _ (by
      intro a ij hij
      rw [ringEdges_eq (by omega)] at hij
      obtain ⟨i, hi, rfl⟩ := List.mem_map.mp hij
      rw [List.mem_range] at hi
      have hx := nxt_lt (show 1 ≤ n by omega) i
      exact ringStep_eq ss a (by simp only; omega) (by simp only; omega)),
      ringEdges_eq (by omega), ← hrun, List.foldl_map, List.foldl_map]
  · apply hA.mono
    intro X _ _
    unfold ringF
    constructor
    · rintro (h | ⟨e, he, rfl⟩)
      · exact Or.inl h
      · obtain ⟨i, hi, rfl⟩ := List.mem_map.mp he
        exact Or.inr ⟨i, List.mem_range.mp hi, rfl⟩
    · rintro (h | ⟨i, hi, rfl⟩)
      · exact Or.inl h
      · exact Or.inr ⟨_, List.mem_map.mpr ⟨i, List.mem_range.mpr hi, rfl⟩, rfl⟩

/-- `ring` rejects fewer than three points -/
theorem ring_small (c : C) {n : Nat} (hn : n ≤ 2) : ring n c = .error .value := by
  rw [ring_eq, if_pos hn]

/-- the numbers behind `ring`: `n` new points, `n` new edges, nothing of higher order, and every new point lies
in exactly two edges of the result (so the new edges form one cycle through the new points) -/
theorem ring_counts {c c' : C} {ps : List Name} {n : Nat} (hn : 3 ≤ n) (hlen : ps.length = n) (hnd : ps.Nodup)
    (h : Adds c c' ps.toFinset (ringF ps n)) :
    (c'.ofOrder 0).length = (c.ofOrder 0).length + n ∧
    (c'.ofOrder 1).length = (c.ofOrder 1).length + n ∧
    (∀ j, 2 ≤ j → (c'.ofOrder j).length = (c.ofOrder j).length) ∧
    (∀ p ∈ ps, ((c'.ofOrder 1).filter (fun e => e.basis.contains p)).length = 2) := by
  classical
  have hBc : ps.toFinset.card = n := by rw [List.toFinset_card_of_nodup hnd, hlen]
  have hsubB : ∀ i, i < n → ringEdge ps n i ⊆ ps.toFinset := by
    intro i hi x hx
    have hx' := nxt_lt (show 1 ≤ n by omega) i
    simp only [ringEdge, Finset.mem_insert, Finset.mem_singleton] at hx
    rcases hx with rfl | rfl <;> exact List.mem_toFinset.mpr (nmOf_mem (by omega))
  have hcard2 : ∀ i, i < n → (ringEdge ps n i).card = 2 := fun i hi =>
    Finset.card_pair (ringEdge_card hnd (by omega) hlen hi)
  have hinj : ∀ S : Finset Nat, S ⊆ Finset.range n → Set.InjOn (ringEdge ps n) (S : Set Nat) := by
    intro S hS i hi i' hi' heq
    exact ringEdge_inj hnd hn hlen (Finset.mem_range.mp (hS hi)) (Finset.mem_range.mp (hS hi')) heq
  refine ⟨?_, ?_, ?_, ?_⟩
  · rw [h.count_order 0, Finset.filter_true_of_mem, Finset.card_powersetCard, Nat.choose_one_right, hBc]
    intro X hX
    exact Or.inl (Finset.mem_powersetCard.mp hX).2
  · rw [h.count_order 1]
    congr 1
    have : (ps.toFinset.powersetCard 2).filter (ringF ps n) = (Finset.range n).image (ringEdge ps n) := by
      ext X
      simp only [Finset.mem_filter, Finset.mem_powersetCard, Finset.mem_image, Finset.mem_range]
      constructor
      · rintro ⟨⟨-, hc⟩, hF | ⟨i, hi, rfl⟩⟩
        · omega
        · exact ⟨i, hi, rfl⟩
      · rintro ⟨i, hi, rfl⟩
        exact ⟨⟨hsubB i hi, hcard2 i hi⟩, Or.inr ⟨i, hi, rfl⟩⟩
    rw [this, Finset.card_image_of_injOn (hinj _ (Finset.Subset.refl _)), Finset.card_range]
  · intro j hj
    rw [h.count_order j, Finset.filter_false_of_mem, Finset.card_empty, Nat.add_zero]
    intro X hX hF
    have hc := (Finset.mem_powersetCard.mp hX).2
    rcases hF with hF | ⟨i, hi, rfl⟩
    · omega
    · rw [hcard2 i hi] at hc; omega
  · intro p hp
    obtain ⟨m, hm⟩ := List.getElem?_of_mem hp
    have hml : m < n := hlen ▸ (List.getElem?_eq_some_iff.mp hm).1
    have hpm : p = nmOf ps m := by unfold nmOf; rw [hm]; rfl
    have hcf := h.count_filter (fun s => s.basis.contains p && s.order == 1)
      (fun X => X.card = 2 ∧ p ∈ X) (by
        intro t ht
        have := h.inv.pts_card ht
        simp only [Bool.and_eq_true, List.contains_iff_mem, beq_iff_eq, Simp.pts, List.mem_toFinset] at this ⊢
        constructor
        · rintro ⟨h1, h2⟩; exact ⟨by omega, h1⟩
        · rintro ⟨h1, h2⟩; exact ⟨h2, by omega⟩)
    have hold : c.simps.filter (fun s => s.basis.contains p && s.order == 1) = [] := by
      rw [List.filter_eq_nil_iff]
      intro t ht hq
      simp only [Bool.and_eq_true, List.contains_iff_mem] at hq
      exact old_disjoint h.inv0 h.fresh ht p (by rw [Simp.pts, List.mem_toFinset]; exact hq.1)
        (List.mem_toFinset.mpr hp)
    unfold Cx.ofOrder
    rw [List.filter_filter, hcf, hold, List.length_nil, Nat.zero_add]
    have hset : ps.toFinset.powerset.filter
        (fun X => X.Nonempty ∧ ringF ps n X ∧ X.card = 2 ∧ p ∈ X) =
        ((Finset.range n).filter (fun i => i = m ∨ nxt n i = m)).image (ringEdge ps n) := by
      ext X
      simp only [Finset.mem_filter, Finset.mem_powerset, Finset.mem_image, Finset.mem_range]
      constructor
      · rintro ⟨-, -, hF | ⟨i, hi, rfl⟩, hc, hpX⟩
        · omega
        · refine ⟨i, ⟨hi, ?_⟩, rfl⟩
          have hx' := nxt_lt (show 1 ≤ n by omega) i
          simp only [ringEdge, Finset.mem_insert, Finset.mem_singleton] at hpX
          rw [hpm] at hpX
          rcases hpX with e | e
          · exact Or.inl (nmOf_inj hnd (by omega) (by omega) e).symm
          · exact Or.inr (nmOf_inj hnd (by omega) (by omega) e).symm
      · rintro ⟨i, ⟨hi, hor⟩, rfl⟩
        refine ⟨hsubB i hi, ?_, Or.inr ⟨i, hi, rfl⟩, hcard2 i hi, ?_⟩
        · rw [← Finset.card_pos, hcard2 i hi]; omega
        · rw [hpm]
          simp only [ringEdge, Finset.mem_insert, Finset.mem_singleton]
          rcases hor with e | e
          · exact Or.inl (by rw [e])
          · exact Or.inr (by rw [e])
    rw [hset, Finset.card_image_of_injOn (hinj _ (Finset.filter_subset _ _))]
    have hfil : (Finset.range n).filter (fun i => i = m ∨ nxt n i = m) =
        {m, if m = 0 then n - 1 else m - 1} := by
      ext i
      rw [Finset.mem_filter, Finset.mem_range, Finset.mem_insert, Finset.mem_singleton]
      unfold nxt
      split_ifs <;> omega
    rw [hfil, Finset.card_pair]
    split_ifs <;> omega

theorem ring_counts' {c : C} (hI : Inv c) {n : Nat} (hn : 3 ≤ n) :
    ∃ (c' : C) (ps : List Name), ring n c = .ok c' ∧ Inv c' ∧ c.simps.Sublist c'.simps ∧ ps.length = n ∧ ps.Nodup ∧
      (∀ p ∈ ps, c.contains p = false) ∧
      (c'.ofOrder 0).length = (c.ofOrder 0).length + n ∧
      (c'.ofOrder 1).length = (c.ofOrder 1).length + n ∧
      (∀ j, 2 ≤ j → (c'.ofOrder j).length = (c.ofOrder j).length) ∧
      (∀ p ∈ ps, ((c'.ofOrder 1).filter (fun e => e.basis.contains p)).length = 2) := by
  obtain ⟨c', ps, hrun, hlen, hnd, hA⟩ := ring_spec hI hn
  obtain ⟨h1, h2, h3, h4⟩ := ring_counts hn hlen hnd hA
  exact ⟨c', ps, hrun, hA.inv, hA.sub, hlen, hnd, fun p hp => hA.fresh p (List.mem_toFinset.mpr hp),
    h1, h2, h3, h4⟩

/-! ## non-vacuity: a hollow triangle as the target complex -/

/-- the hollow triangle produced by `k_void(1)` on the empty complex -/
def exV : C := (kVoid 1 emptyC).toOption.getD emptyC

theorem gen_inv_emptyC : Inv emptyC := by
  refine ⟨List.Pairwise.nil, List.nodup_nil, ?_, ?_, ?_⟩ <;> intro s hs <;> cases hs

theorem exV_inv : Inv exV := by
  obtain ⟨c', B, hrun, -, hA⟩ := kVoid_spec gen_inv_emptyC 1
  have : exV = c' := by unfold exV; rw [hrun]; rfl
  rw [this]; exact hA.inv

example : exV.simps.map (·.basis) =
    [[.auto 0 0], [.auto 0 1], [.auto 0 2], [.auto 0 0, .auto 0 1], [.auto 0 0, .auto 0 2],
     [.auto 0 1, .auto 0 2]] := by rfl

-- `genPoints`: hypothesis `Inv exV`; two points avoiding the requested name `0d7` (the first candidate)
example : Inv exV ∧ (genPoints (some (.auto 0 7)) 2 exV).toOption.map (·.1) = some [.auto 0 8, .auto 0 9] :=
  ⟨exV_inv, by rfl⟩

-- `k_simplex`: hypotheses `Inv exV`, the requested name `u 5` is unused
example : Inv exV ∧ (∀ m, some (Name.u 5) = some m → exV.contains m = false) :=
  ⟨exV_inv, fun m hm => by cases hm; rfl⟩

example : (kSimplex 1 (some (.u 5)) exV).toOption.map (fun r => (r.1, r.2.simps.map (·.basis))) =
    some (.u 5, [[.auto 0 0], [.auto 0 1], [.auto 0 2], [.auto 0 7], [.auto 0 8], [.auto 0 0, .auto 0 1],
      [.auto 0 0, .auto 0 2], [.auto 0 1, .auto 0 2], [.auto 0 7, .auto 0 8]]) := by rfl

-- `k_void`, `k_skeleton`, `ring`: hypothesis `Inv exV` (and `3 ≤ 4`)
example : (kVoid 1 exV).toOption.map (fun r => (r.ofOrder 0).length) = some 6 ∧
    (kVoid 1 exV).toOption.map (fun r => (r.ofOrder 1).length) = some 6 ∧
    (kVoid 1 exV).toOption.map (fun r => (r.ofOrder 2).length) = some 0 := by
  refine ⟨by rfl, by rfl, by rfl⟩

example : (kSkeleton 3 exV).toOption.map (fun r => ((r.ofOrder 0).length, (r.ofOrder 1).length)) =
    some (3 + 4, 3 + 6) := by rfl

example : (ring 4 exV).toOption.map (fun r => ((r.ofOrder 0).length, (r.ofOrder 1).length)) =
    some (3 + 4, 3 + 4) ∧ ring 2 exV = .error .value := ⟨by rfl, rfl⟩

end Flat

