import Sx.Props.GenBetti

/-! finite Betti tables, part D (see GenBetti.lean) -/
namespace Flat.GenBetti
open Flat
set_option maxRecDepth 100000

theorem ring_betti_3 : (List.range 3).map (bettiK (rg 3)) = [1,1,0] ∧ euler (rg 3) = 0 := by decide +kernel
theorem ring_betti_4 : (List.range 3).map (bettiK (rg 4)) = [1,1,0] ∧ euler (rg 4) = 0 := by decide +kernel
theorem ring_betti_5 : (List.range 3).map (bettiK (rg 5)) = [1,1,0] ∧ euler (rg 5) = 0 := by decide +kernel
theorem ring_betti_6 : (List.range 3).map (bettiK (rg 6)) = [1,1,0] ∧ euler (rg 6) = 0 := by decide +kernel
theorem ring_betti_7 : (List.range 3).map (bettiK (rg 7)) = [1,1,0] ∧ euler (rg 7) = 0 := by decide +kernel
theorem ring_betti_8 : (List.range 3).map (bettiK (rg 8)) = [1,1,0] ∧ euler (rg 8) = 0 := by decide +kernel
theorem ring_betti_9 : (List.range 3).map (bettiK (rg 9)) = [1,1,0] ∧ euler (rg 9) = 0 := by decide +kernel
theorem ring_betti_10 : (List.range 3).map (bettiK (rg 10)) = [1,1,0] ∧ euler (rg 10) = 0 := by decide +kernel
theorem ring_betti_11 : (List.range 3).map (bettiK (rg 11)) = [1,1,0] ∧ euler (rg 11) = 0 := by decide +kernel
theorem ring_betti_12 : (List.range 3).map (bettiK (rg 12)) = [1,1,0] ∧ euler (rg 12) = 0 := by decide +kernel

end Flat.GenBetti
