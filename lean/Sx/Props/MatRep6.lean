import Sx.Props.MatRep4
import Sx.Props.MatRep5

/-! # Layer R — part 6: `addSimplex` refines `Cx.addSimplex` -/
namespace MatRep
open Flat M2
set_option linter.unusedSectionVars false

theorem cx_ext {c d : C} (h1 : c.simps = d.simps) (h2 : c.seq = d.seq) : c = d := by
  cases c; cases d; simp only at h1 h2; rw [h1, h2]

/-! ## the guards agree -/

theorem anyNotContains_abs {r : Rep} (hI : MInv r) (fs : List Name) :
    fs.any (fun f => !(abs r).contains f) = fs.any (fun f => !r.contains f) := by
  congr 1; funext f; rw [contains_abs hI]

theorem anyWrongOrder_abs {r : Rep} (hI : MInv r) (fs : List Name) (o : Option Nat) :
    fs.any (fun f => (abs r).orderOf? f != o) = fs.any (fun f => r.orderOf? f != o) := by
  congr 1; funext f; rw [orderOf_abs hI]

theorem hasFaces_abs (r : Rep) (k : Nat) (fs : List Name) :
    ((abs r).ofOrder k).any (fun s => setEqB s.faces fs) = r.hasSimplexWithFaces k fs := by
  rw [ofOrder_abs]
  unfold Rep.level Rep.hasSimplexWithFaces
  apply any_mapIdx
  intro j hj; rfl

/-! ## the result of an accepted call -/

/-- the state an accepted `addSimplex` produces -/
def addResult (r : Rep) (fs : List Name) (id : Name) : Rep :=
  if fs.isEmpty then (prep r (fs.length - 1)).addPoint id
  else (prep r (fs.length - 1)).addHigher (fs.length - 1) fs id

/-- the Layer-A state an accepted `Cx.addSimplex` produces -/
def addResultA (c : C) (fs : List Name) (id : Name) : C :=
  if fs.isEmpty then { c with simps := insertSorted ⟨id, 0, [], [id]⟩ c.simps }
  else { c with simps := insertSorted ⟨id, fs.length - 1, canonFaces c (fs.length - 1) fs, canonBasis c fs⟩ c.simps }

theorem abs_addResult {r : Rep} (hI : MInv r) {fs : List Name} (id : Name) (h1 : fs.length ≠ 1)
    (hk : fs.length - 1 ≤ r.len) : abs (addResult r fs id) = addResultA (abs r) fs id := by
  unfold addResult addResultA
  by_cases he : fs.isEmpty = true
  · rw [if_pos he, if_pos he]
    have : fs = [] := List.isEmpty_iff.mp he
    subst this
    exact cx_ext (abs_addPoint hI id) (addPoint_seq hI id)
  · rw [if_neg he, if_neg he]
    have hk1 : 0 < fs.length - 1 := by
      cases fs with
      | nil => simp at he
      | cons a l => cases l with
        | nil => simp at h1
        | cons b l => simp
    exact cx_ext (abs_addHigher hI hk hk1 fs id) (addHigher_seq hI hk hk1 fs id)

theorem MInv_addResult {r : Rep} (hI : MInv r) {fs : List Name} {id : Name} (h1 : fs.length ≠ 1)
    (hk : fs.length - 1 ≤ r.len) (hid : r.contains id = false) : MInv (addResult r fs id) := by
  have hid' : r.find? id = none := by
    unfold Rep.contains at hid
    cases h : r.find? id with
    | none => rfl
    | some p => rw [h] at hid; cases hid
  unfold addResult
  by_cases he : fs.isEmpty = true
  · rw [if_pos he]
    have : fs = [] := List.isEmpty_iff.mp he
    subst this
    exact MInv_addPoint hI id hid'
  · rw [if_neg he]
    have hk1 : 0 < fs.length - 1 := by
      cases fs with
      | nil => simp at he
      | cons a l => cases l with
        | nil => simp at h1
        | cons b l => simp
    exact MInv_addHigher hI hk hk1 fs id hid'

/-! ## guard chain and result, separated -/

/-- the guard chain of `Rep.addSimplex`: the error raised, or `none` when the call is accepted -/
def guardR (r : Rep) (fs : List Name) (id : Name) : Option Err :=
  let k := fs.length - 1
  if fs.length = 1 then some .value else
  if r.contains id then some .key else
  if ¬ fs.Nodup then some .key else
  if (k : Int) > r.maxOrder + 1 then some .value else
  if fs.isEmpty then none else
  if fs.any (fun f => !r.contains f) then some .key else
  if fs.any (fun f => r.orderOf? f != some (k - 1)) then some .value else
  if r.hasSimplexWithFaces k fs then some .key else none

/-- the guard chain of `Cx.addSimplex` -/
def guardA (c : C) (fs : List Name) (id : Name) : Option Err :=
  let k := fs.length - 1
  if fs.length = 1 then some .value else
  if c.contains id then some .key else
  if ¬ fs.Nodup then some .key else
  if (k : Int) > c.maxOrder + 1 then some .value else
  if fs.isEmpty then none else
  if fs.any (fun f => !c.contains f) then some .key else
  if fs.any (fun f => c.orderOf? f != some (k - 1)) then some .value else
  if (c.ofOrder k).any (fun s => setEqB s.faces fs) then some .key else none

theorem addSimplex_eq (r : Rep) (fs : List Name) (id : Name) :
    r.addSimplex fs id = match guardR r fs id with
      | some e => .error e
      | none => .ok (addResult r fs id) := by
  unfold Rep.addSimplex guardR addResult prep
  simp only
  split_ifs <;> rfl

theorem addSimplexA_eq (c : C) (fs : List Name) (id : Name) :
    c.addSimplex fs id = match guardA c fs id with
      | some e => .error e
      | none => .ok (addResultA c fs id) := by
  unfold Cx.addSimplex guardA addResultA
  simp only
  split_ifs <;> rfl

/-- what an accepted call has checked -/
theorem guardR_none {r : Rep} {fs : List Name} {id : Name} (h : guardR r fs id = none) :
    fs.length ≠ 1 ∧ r.contains id = false ∧ fs.length - 1 ≤ r.len := by
  unfold guardR at h
  simp only at h
  split_ifs at h with h1 h2 h3 h4
  all_goals exact ⟨h1, by simpa using h2, by unfold Rep.maxOrder at h4; unfold Rep.len; omega⟩

/-- with the same maximum order the two guard chains are the same function of the state -/
theorem guard_abs {r : Rep} (hI : MInv r) (hmax : (abs r).maxOrder = r.maxOrder) (fs : List Name) (id : Name) :
    guardA (abs r) fs id = guardR r fs id := by
  unfold guardA guardR
  simp only
  rw [contains_abs hI, hmax, anyNotContains_abs hI, anyWrongOrder_abs hI, hasFaces_abs]

/-! ## the theorems with equal maximum orders -/

/-- **(1) `addSimplex` refines `Cx.addSimplex`**: the same error, or the same resulting Layer-A state —
provided the two layers agree on the maximum order (i.e. the top order of `r` is inhabited, `TopNE`;
see `maxOrder_abs`).  Without that proviso the *error kind* can differ (see `add_errkind_counterexample`
in `Sx/Props/MatRep.lean`); acceptance and the resulting state never do (`addSimplex_abs_ok`). -/
theorem addSimplex_abs {r : Rep} (hI : MInv r) (hmax : (abs r).maxOrder = r.maxOrder)
    (fs : List Name) (id : Name) : (r.addSimplex fs id).map abs = (abs r).addSimplex fs id := by
  rw [addSimplex_eq, addSimplexA_eq, guard_abs hI hmax]
  cases hg : guardR r fs id with
  | some e => rfl
  | none =>
    obtain ⟨h1, -, hk⟩ := guardR_none hg
    show Except.ok (abs (addResult r fs id)) = Except.ok (addResultA (abs r) fs id)
    rw [abs_addResult hI id h1 hk]

/-- an accepted `addSimplex` preserves the representation invariant -/
theorem addSimplex_MInv {r r' : Rep} (hI : MInv r) {fs : List Name} {id : Name}
    (h : r.addSimplex fs id = .ok r') : MInv r' := by
  rw [addSimplex_eq] at h
  cases hg : guardR r fs id with
  | some e => rw [hg] at h; cases h
  | none =>
    rw [hg] at h
    obtain ⟨h1, h2, hk⟩ := guardR_none hg
    rw [← Except.ok.inj h]
    exact MInv_addResult hI h1 hk h2

theorem addResult_len {r : Rep} (hI : MInv r) {fs : List Name} (id : Name) (h1 : fs.length ≠ 1)
    (hk : fs.length - 1 ≤ r.len) : (addResult r fs id).len = max r.len (fs.length - 1 + 1) := by
  unfold addResult
  by_cases he : fs.isEmpty = true
  · rw [if_pos he]
    have : fs = [] := List.isEmpty_iff.mp he
    subst this
    exact addPoint_len hI id
  · rw [if_neg he]
    have hk1 : 0 < fs.length - 1 := by
      cases fs with
      | nil => simp at he
      | cons a l => cases l with
        | nil => simp at h1
        | cons b l => simp
    exact addHigher_len hI hk hk1 fs id

theorem addResult_idx {r : Rep} (hI : MInv r) {fs : List Name} (id : Name) (h1 : fs.length ≠ 1)
    (hk : fs.length - 1 ≤ r.len) (j : Nat) :
    (addResult r fs id).idx j = if j = fs.length - 1 then r.idx (fs.length - 1) ++ [id] else r.idx j := by
  unfold addResult
  by_cases he : fs.isEmpty = true
  · rw [if_pos he]
    have : fs = [] := List.isEmpty_iff.mp he
    subst this
    exact addPoint_idx hI id j
  · rw [if_neg he]
    have hk1 : 0 < fs.length - 1 := by
      cases fs with
      | nil => simp at he
      | cons a l => cases l with
        | nil => simp at h1
        | cons b l => simp
    exact addHigher_idx hI hk hk1 fs id j

/-- an accepted `addSimplex` keeps the top order inhabited -/
theorem addSimplex_TopNE {r r' : Rep} (hI : MInv r) (hT : TopNE r) {fs : List Name} {id : Name}
    (h : r.addSimplex fs id = .ok r') : TopNE r' := by
  rw [addSimplex_eq] at h
  cases hg : guardR r fs id with
  | some e => rw [hg] at h; cases h
  | none =>
    rw [hg] at h
    obtain ⟨h1, h2, hk⟩ := guardR_none hg
    rw [← Except.ok.inj h]
    intro _
    rw [addResult_len hI id h1 hk, addResult_idx hI id h1 hk]
    split_ifs with hj
    · simp
    · have hlt : fs.length - 1 + 1 < r.len := by omega
      have := hT (by omega)
      have e : max r.len (fs.length - 1 + 1) = r.len := by omega
      rw [e]; exact this

end MatRep
