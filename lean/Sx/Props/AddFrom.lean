import Sx.Model
import Sx.Props.Common
import Sx.Props.Copy
import Sx.Props.Relabel
import Sx.Proofs.FlagAdd
import Sx.Proofs.FlatBasis8
import Mathlib.Tactic.SplitIfs

/-! # C02 / C15 — `addSimplicesFrom(c, rename)`: adding a renamed copy of another complex

Model reading. `addSimplicesFrom(c, rename)` = `addFrom d src ρ`: the simplices of `src` are visited in listing
order (points first); each is added to `d` under the name `ρ s.name` with the faces `s.faces.map ρ`; the loop
stops at the first exception and keeps what it has added (the Python code is not atomic either).

* `addFrom_spec`: under the contract (`ρ` injective on the names of `src`, no new name in use in `d`) the call
  succeeds and `d` is extended exactly by the renamed copies of the simplices of `src`.
* `addFrom_prefix` / `addFrom_inv`: with NO hypothesis on `ρ`, whatever happens, the resulting state is `d`
  extended by the renamed copies of a prefix of `src` and is a valid complex (a collision of names is detected
  before anything wrong is stored).
* `addFrom_reject`: a new name `ρ s ≠ s` already in use in `d` makes the call raise. -/
namespace Flat
open List

/-- `t` is `s` renamed through `ρ`, up to the order inside the face and basis lists -/
def RTwin (ρ : Name → Name) (s t : Simp Name) : Prop :=
  t.name = ρ s.name ∧ t.order = s.order ∧ (∀ f, f ∈ t.faces ↔ f ∈ s.faces.map ρ) ∧
    (∀ p, p ∈ t.basis ↔ p ∈ s.basis.map ρ)

theorem RTwin.pts {ρ : Name → Name} {s t : Simp Name} (h : RTwin ρ s t) : t.pts = (s.basis.map ρ).toFinset := by
  ext p; simp only [Simp.pts, List.mem_toFinset]; exact h.2.2.2 p

/-- with the identity renaming a renamed twin is a twin -/
theorem RTwin.id_iff {s t : Simp Name} : RTwin id s t ↔ Twin s t := by
  unfold RTwin Twin; simp

/-! ## elementary facts about one `addSimplex` call (no invariant needed) -/

theorem af_addSimplex_shape {c c' : C} {fs : List Name} {n : Name} (h : c.addSimplex fs n = .ok c') :
    ∃ t, c'.simps = insertSorted t c.simps ∧ t.name = n ∧ c'.seq = c.seq := by
  unfold Cx.addSimplex at h
  simp only at h
  split_ifs at h <;> cases h <;> exact ⟨_, rfl, rfl, rfl⟩

theorem af_addSimplex_used (c : C) (fs : List Name) {n : Name} (h : c.contains n = true) :
    ∃ e, c.addSimplex fs n = .error e := by
  unfold Cx.addSimplex
  simp only
  split_ifs <;> exact ⟨_, rfl⟩

theorem addFromLoop_cons (ρ : Name → Name) (d : C) (acc : List Name) (s : Simp Name) (rest : List (Simp Name)) :
    addFromLoop ρ d acc (s :: rest) =
      if (s.name != ρ s.name && d.contains (ρ s.name)) = true then (.error .value, d) else
      match d.addSimplex (s.faces.map ρ) (ρ s.name) with
      | .ok d' => addFromLoop ρ d' (acc ++ [ρ s.name]) rest
      | .error e => (.error e, d) := rfl

/-! ## the loop invariant -/

/-- the state `dc` reached after the prefix `P` of `src` has been carried over to `d` -/
structure AFInv (ρ : Name → Name) (d : C) (P : List (Simp Name)) (dc : C) : Prop where
  inv : Inv dc
  sub : d.simps.Sublist dc.simps
  seq : dc.seq = d.seq
  len : dc.simps.length = d.simps.length + P.length
  inj : ∀ u ∈ P, ∀ v ∈ P, ρ u.name = ρ v.name → u = v
  fresh : ∀ u ∈ P, d.contains (ρ u.name) = false
  fwd : ∀ u ∈ P, ∃ t ∈ dc.simps, RTwin ρ u t
  bwd : ∀ t ∈ dc.simps, t ∈ d.simps ∨ ∃ u ∈ P, RTwin ρ u t

theorem AFInv.init {ρ : Name → Name} {d : C} (hId : Inv d) : AFInv ρ d [] d :=
  ⟨hId, List.Sublist.refl _, rfl, by simp, (by intro u hu; cases hu), (by intro u hu; cases hu),
    (by intro u hu; cases hu), fun t ht => Or.inl ht⟩

/-- extending the invariant by one simplex -/
theorem AFInv.extend {ρ : Name → Name} {d : C} {P : List (Simp Name)} {dc d1 : C} {s t : Simp Name}
    (hA : AFInv ρ d P dc) (hI1 : Inv d1) (hs1 : d1.simps = insertSorted t dc.simps) (hseq : d1.seq = dc.seq)
    (htw : RTwin ρ s t) (hfr : dc.contains (ρ s.name) = false) :
    AFInv ρ d (P ++ [s]) d1 := by
  have hfr' : ∀ x ∈ dc.simps, x.name ≠ ρ s.name := contains_false_iff.mp hfr
  have hne : ∀ u ∈ P, ρ u.name ≠ ρ s.name := by
    intro u hu he
    obtain ⟨x, hx, hxt⟩ := hA.fwd u hu
    exact hfr' x hx (hxt.1.trans he)
  have hmem : ∀ x, x ∈ d1.simps ↔ x = t ∨ x ∈ dc.simps := fun x => by rw [hs1]; exact mem_insertSorted
  refine ⟨hI1, hA.sub.trans (by rw [hs1]; exact sublist_insertSorted _ _), hseq.trans hA.seq, ?_, ?_, ?_, ?_, ?_⟩
  · rw [hs1, (insertSorted_perm t dc.simps).length_eq, List.length_cons, hA.len, List.length_append]
    simp; omega
  · intro u hu v hv he
    rcases List.mem_append.mp hu with hu1 | hu2 <;> rcases List.mem_append.mp hv with hv1 | hv2
    · exact hA.inj u hu1 v hv1 he
    · rw [List.mem_singleton.mp hv2] at he; exact absurd he (hne u hu1)
    · rw [List.mem_singleton.mp hu2] at he; exact absurd he.symm (hne v hv1)
    · rw [List.mem_singleton.mp hu2, List.mem_singleton.mp hv2]
  · intro u hu
    rcases List.mem_append.mp hu with hu1 | hu2
    · exact hA.fresh u hu1
    · rw [List.mem_singleton.mp hu2, contains_false_iff]
      intro x hx; exact hfr' x (hA.sub.subset hx)
  · intro u hu
    rcases List.mem_append.mp hu with hu1 | hu2
    · obtain ⟨x, hx, hxt⟩ := hA.fwd u hu1
      exact ⟨x, (hmem x).mpr (Or.inr hx), hxt⟩
    · rw [List.mem_singleton.mp hu2]
      exact ⟨t, (hmem t).mpr (Or.inl rfl), htw⟩
  · intro x hx
    rcases (hmem x).mp hx with rfl | hx
    · exact Or.inr ⟨s, by simp, htw⟩
    · rcases hA.bwd x hx with h | ⟨u, hu, hxt⟩
      · exact Or.inl h
      · exact Or.inr ⟨u, List.mem_append_left _ hu, hxt⟩

/-! ## one step of the loop -/

/-- if the new name is unused, the addition succeeds and the invariant extends - whatever `ρ` is: all the
earlier steps have succeeded, so `ρ` is injective on the names seen so far and these are the only names that
occur in the faces and the basis of `s` -/
theorem addFrom_step {ρ : Name → Name} {d src : C} (hId : Inv d) (hIs : Inv src) {P R : List (Simp Name)}
    {s : Simp Name} {dc : C} (hPR : src.simps = P ++ s :: R) (hA : AFInv ρ d P dc)
    (hfr : dc.contains (ρ s.name) = false) :
    ∃ d1, dc.addSimplex (s.faces.map ρ) (ρ s.name) = .ok d1 ∧ AFInv ρ d (P ++ [s]) d1 := by
  classical
  have hsa : s ∈ src.simps := by rw [hPR]; simp
  have hPa : ∀ u ∈ P, u ∈ src.simps := fun u hu => by rw [hPR]; exact List.mem_append_left _ hu
  have hsorted := hIs.sorted
  rw [hPR, List.pairwise_append] at hsorted
  -- everything of lower order has already been carried over
  have hlow : ∀ w ∈ src.simps, w.order < s.order → w ∈ P := by
    intro w hw hlt
    rw [hPR] at hw
    rcases List.mem_append.mp hw with h | h
    · exact h
    · exfalso
      rcases List.mem_cons.mp h with rfl | h'
      · omega
      · have := (List.pairwise_cons.mp hsorted.2.1).1 w h'
        omega
  have hsP : s ∉ P := by
    have hand : src.simps.Nodup := List.Nodup.of_map _ hIs.nodup
    rw [hPR] at hand
    intro hin
    exact (List.nodup_append.mp hand).2.2 s hin s List.mem_cons_self rfl
  rcases Nat.eq_zero_or_pos s.order with h0 | hpos
  · -- a point
    obtain ⟨hf0, hb0⟩ := hIs.point s hsa h0
    obtain ⟨d1, hadd, hI1, hs1⟩ := addPoint_spec hA.inv hfr
    refine ⟨d1, by rw [hf0]; exact hadd, ?_⟩
    obtain ⟨t', -, -, hseq⟩ := af_addSimplex_shape hadd
    refine hA.extend hI1 hs1 hseq ?_ hfr
    exact ⟨rfl, h0.symm, by simp [hf0], by simp [hb0]⟩
  · -- a higher simplex: all its faces and points are earlier simplices of `src`, hence have twins in `dc`
    obtain ⟨fn, fl, fex, bn, bl, biff⟩ := hIs.higher s hsa hpos
    -- injectivity of `ρ` on names of members of `P`
    have hinjN : ∀ a b, (∃ u ∈ P, u.name = a) → (∃ v ∈ P, v.name = b) → ρ a = ρ b → a = b := by
      rintro a b ⟨u, hu, rfl⟩ ⟨v, hv, rfl⟩ he
      rw [hA.inj u hu v hv he]
    have hfaceP : ∀ x : Simp Name, x ∈ src.simps → x.order = s.order → ∀ f ∈ x.faces,
        ∃ u ∈ P, u.name = f ∧ u.order + 1 = s.order := by
      intro x hx hxo f hf
      obtain ⟨-, -, fexx, -⟩ := hIs.higher x hx (by omega)
      obtain ⟨u, hu, hun, huo⟩ := fexx f hf
      exact ⟨u, hlow u hu (by omega), hun, by omega⟩
    have hbasisP : ∀ p ∈ s.basis, ∃ u ∈ P, u.name = p := by
      intro p hp
      obtain ⟨q, hq, hqn, hq0, -⟩ := hIs.basis_point s.order hsa rfl p hp
      exact ⟨q, hlow q hq (by omega), hqn⟩
    have hfsnd : (s.faces.map ρ).Nodup := by
      apply List.Nodup.map_on _ fn
      intro a ha b hb he
      obtain ⟨u, hu, hun, -⟩ := hfaceP s hsa rfl a ha
      obtain ⟨v, hv, hvn, -⟩ := hfaceP s hsa rfl b hb
      exact hinjN a b ⟨u, hu, hun⟩ ⟨v, hv, hvn⟩ he
    have hbsnd : (s.basis.map ρ).Nodup := by
      apply List.Nodup.map_on _ bn
      intro a ha b hb he
      exact hinjN a b (hbasisP a ha) (hbasisP b hb) he
    have hfaceTwin : ∀ g ∈ s.faces, ∃ u ∈ P, u.name = g ∧ u.order + 1 = s.order ∧ ∃ t ∈ dc.simps, RTwin ρ u t := by
      intro g hg
      obtain ⟨u, hu, hun, huo⟩ := hfaceP s hsa rfl g hg
      exact ⟨u, hu, hun, huo, hA.fwd u hu⟩
    obtain ⟨d1, fs', bs, hadd, hI1, hs1, hfs, hbs, hseq⟩ := addFacets (cN := dc) (fs := s.faces.map ρ)
      (nm := ρ s.name) (k := s.order) (B := (s.basis.map ρ).toFinset) hA.inv hpos hfsnd
      (by rw [List.length_map, fl])
      (by
        intro f hf
        obtain ⟨g, hg, rfl⟩ := List.mem_map.mp hf
        obtain ⟨u, hu, hun, huo, t, ht, htw⟩ := hfaceTwin g hg
        refine ⟨t, ht, by rw [htw.1, hun], by rw [htw.2.1]; omega, ?_⟩
        rw [htw.pts]
        intro p hp
        rw [List.mem_toFinset] at hp ⊢
        obtain ⟨y, hy, rfl⟩ := List.mem_map.mp hp
        exact List.mem_map.mpr ⟨y, (biff y).mpr ⟨g, hg, u, hPa u hu, hun, hy⟩, rfl⟩)
      (by
        intro x hx
        rw [List.mem_toFinset] at hx
        obtain ⟨y, hy, rfl⟩ := List.mem_map.mp hx
        obtain ⟨g, hg, w, hw, hwn, hyw⟩ := (biff y).mp hy
        obtain ⟨u, hu, hun, -, t, ht, htw⟩ := hfaceTwin g hg
        have : u = w := hIs.name_inj (hPa u hu) hw (hun.trans hwn.symm)
        subst this
        refine ⟨ρ g, List.mem_map.mpr ⟨g, hg, rfl⟩, t, ht, by rw [htw.1, hun], ?_⟩
        rw [htw.pts, List.mem_toFinset]
        exact List.mem_map.mpr ⟨y, hyw, rfl⟩)
      (by rw [List.toFinset_card_of_nodup hbsnd, List.length_map, bl])
      hfr
      (by
        intro t ht
        by_contra hcon
        have heq : setEqB t.faces (s.faces.map ρ) = true := by simpa using hcon
        have heq' := setEqB_iff.mp heq
        unfold Cx.ofOrder at ht
        rw [List.mem_filter] at ht
        obtain ⟨ht1, ht2⟩ := ht
        have hto : t.order = s.order := by simpa using ht2
        obtain ⟨g, hg⟩ : ∃ g, g ∈ s.faces := List.exists_mem_of_length_pos (by omega)
        rcases hA.bwd t ht1 with hold | ⟨u, hu, hut⟩
        · -- an old simplex: its faces are names of `d`, but `ρ g` is not
          obtain ⟨u, hu, hun, -⟩ := hfaceP s hsa rfl g hg
          have hin : ρ g ∈ t.faces := by
            have := Finset.ext_iff.mp heq' (ρ g)
            simp only [List.mem_toFinset] at this
            exact this.mpr (List.mem_map.mpr ⟨g, hg, rfl⟩)
          obtain ⟨w, hw, hwn⟩ := (hId.faces_are_names hold).1 (ρ g) hin
          have := hA.fresh u hu
          rw [hun, contains_false_iff] at this
          exact this w hw hwn
        · -- a copy of an earlier simplex `u`: then `u` and `s` have the same faces, so `u = s`
          have hua := hPa u hu
          have huo : u.order = s.order := hut.2.1.symm.trans hto
          have hfeq : ∀ f, f ∈ u.faces ↔ f ∈ s.faces := by
            intro f
            have key : ∀ x, x ∈ u.faces.map ρ ↔ x ∈ s.faces.map ρ := by
              intro x
              have := Finset.ext_iff.mp heq' x
              simp only [List.mem_toFinset] at this
              exact (hut.2.2.1 x).symm.trans this
            constructor
            · intro hf
              obtain ⟨g', hg', he⟩ := List.mem_map.mp ((key (ρ f)).mp (List.mem_map.mpr ⟨f, hf, rfl⟩))
              obtain ⟨a, ha, han, -⟩ := hfaceP u hua huo f hf
              obtain ⟨b, hb, hbn, -⟩ := hfaceP s hsa rfl g' hg'
              rw [← hinjN g' f ⟨b, hb, hbn⟩ ⟨a, ha, han⟩ he]; exact hg'
            · intro hf
              obtain ⟨g', hg', he⟩ := List.mem_map.mp ((key (ρ f)).mpr (List.mem_map.mpr ⟨f, hf, rfl⟩))
              obtain ⟨a, ha, han, -⟩ := hfaceP s hsa rfl f hf
              obtain ⟨b, hb, hbn, -⟩ := hfaceP u hua huo g' hg'
              rw [← hinjN g' f ⟨b, hb, hbn⟩ ⟨a, ha, han⟩ he]; exact hg'
          obtain ⟨-, -, -, -, -, biffu⟩ := hIs.higher u hua (by omega)
          have : u = s := by
            apply hIs.uniq u hua s hsa huo
            intro p
            rw [biffu p, biff p]
            constructor
            · rintro ⟨f, hf, r⟩; exact ⟨f, (hfeq f).mp hf, r⟩
            · rintro ⟨f, hf, r⟩; exact ⟨f, (hfeq f).mpr hf, r⟩
          exact hsP (this ▸ hu))
    refine ⟨d1, hadd, hA.extend hI1 hs1 hseq ?_ hfr⟩
    refine ⟨rfl, rfl, ?_, ?_⟩
    · intro f
      have := Finset.ext_iff.mp hfs f
      simpa only [List.mem_toFinset] using this
    · intro p
      have := Finset.ext_iff.mp hbs p
      simpa only [List.mem_toFinset] using this

/-! ## the whole loop -/

/-- the loop of `addSimplicesFrom`, started after a prefix `P` of `src` has been carried over: it either runs
to the end, or stops at the first simplex `s` whose new name is in use (in `d` or among the names given so far),
with the copies of the simplices before `s` in place. No hypothesis on `ρ`. -/
theorem addFromLoop_gen {ρ : Name → Name} {d src : C} (hId : Inv d) (hIs : Inv src) :
    ∀ (R P : List (Simp Name)) (dc : C) (acc : List Name), src.simps = P ++ R → AFInv ρ d P dc →
      ∃ P' R', src.simps = P' ++ R' ∧ AFInv ρ d P' (addFromLoop ρ dc acc R).2 ∧
        ((R' = [] ∧ (addFromLoop ρ dc acc R).1 = .ok (acc ++ R.map (fun s => ρ s.name))) ∨
         (∃ s R'', R' = s :: R'' ∧ (addFromLoop ρ dc acc R).2.contains (ρ s.name) = true ∧
            (addFromLoop ρ dc acc R).1 = .error (if s.name = ρ s.name then .key else .value))) := by
  intro R
  induction R with
  | nil =>
    intro P dc acc hPR hA
    exact ⟨P, [], hPR, hA, Or.inl ⟨rfl, by rw [addFromLoop]; simp⟩⟩
  | cons s R ih =>
    intro P dc acc hPR hA
    rw [addFromLoop_cons]
    by_cases hc : dc.contains (ρ s.name) = true
    · -- the new name is in use: the loop stops here
      by_cases hne : s.name = ρ s.name
      · have hb : (s.name != ρ s.name) = false := by rw [← hne]; exact bne_self_eq_false _
        have hg : ¬ (s.name != ρ s.name && dc.contains (ρ s.name)) = true := by rw [hb]; simp
        rw [if_neg hg]
        have herr : dc.addSimplex (s.faces.map ρ) (ρ s.name) = .error .key := by
          have hsa : s ∈ src.simps := by rw [hPR]; simp
          have hl : (s.faces.map ρ).length ≠ 1 := by
            rw [List.length_map]
            rcases Nat.eq_zero_or_pos s.order with h0 | hpos
            · rw [(hIs.point s hsa h0).1]; simp
            · have := (hIs.higher s hsa hpos).2.1; omega
          unfold Cx.addSimplex
          simp only
          rw [if_neg hl, if_pos hc]
        rw [herr]
        exact ⟨P, s :: R, hPR, hA, Or.inr ⟨s, R, rfl, hc, by rw [if_pos hne]⟩⟩
      · have hg : (s.name != ρ s.name && dc.contains (ρ s.name)) = true := by simp [hne, hc]
        rw [if_pos hg]
        exact ⟨P, s :: R, hPR, hA, Or.inr ⟨s, R, rfl, hc, by rw [if_neg hne]⟩⟩
    · have hfr : dc.contains (ρ s.name) = false := by simpa using hc
      have hg : ¬ (s.name != ρ s.name && dc.contains (ρ s.name)) = true := by simp [hfr]
      rw [if_neg hg]
      obtain ⟨d1, hadd, hA1⟩ := addFrom_step hId hIs hPR hA hfr
      rw [hadd]
      simp only
      obtain ⟨P', R', h1, h2, h3⟩ := ih (P ++ [s]) d1 (acc ++ [ρ s.name]) (by rw [hPR]; simp) hA1
      refine ⟨P', R', h1, h2, ?_⟩
      rcases h3 with ⟨e1, e2⟩ | h3
      · exact Or.inl ⟨e1, by rw [e2]; simp⟩
      · exact Or.inr h3

/-- **(every prefix is a valid complex)** whatever the renaming, `addSimplicesFrom` leaves the receiver as a
valid complex: the old simplices untouched and in the same relative order, plus the renamed copies of a prefix
`P` of the source; the call either succeeded (`P` is all of `src`) or stopped with `KeyError`/`ValueError` at
the first simplex whose new name was in use at that moment. The name counter is not touched. -/
theorem addFrom_prefix {d src : C} (hId : Inv d) (hIs : Inv src) (ρ : Name → Name) :
    ∃ P R, src.simps = P ++ R ∧ Inv (addFrom d src ρ).2 ∧ (addFrom d src ρ).2.seq = d.seq ∧
      d.simps.Sublist (addFrom d src ρ).2.simps ∧
      (addFrom d src ρ).2.simps.length = d.simps.length + P.length ∧
      (∀ u ∈ P, ∀ v ∈ P, ρ u.name = ρ v.name → u = v) ∧ (∀ u ∈ P, ρ u.name ∉ d.names) ∧
      (∀ u ∈ P, ∃ t ∈ (addFrom d src ρ).2.simps, RTwin ρ u t) ∧
      (∀ t ∈ (addFrom d src ρ).2.simps, t ∈ d.simps ∨ ∃ u ∈ P, RTwin ρ u t) ∧
      ((R = [] ∧ (addFrom d src ρ).1 = .ok (src.names.map ρ)) ∨
       (∃ s R', R = s :: R' ∧ (addFrom d src ρ).2.contains (ρ s.name) = true ∧
          (addFrom d src ρ).1 = .error (if s.name = ρ s.name then .key else .value))) := by
  obtain ⟨P, R, h1, hA, h3⟩ := addFromLoop_gen (ρ := ρ) hId hIs src.simps [] d [] (by simp) (AFInv.init hId)
  refine ⟨P, R, h1, hA.inv, hA.seq, hA.sub, hA.len, hA.inj,
    fun u hu => contains_false_iff_names.mp (hA.fresh u hu), hA.fwd, hA.bwd, ?_⟩
  unfold addFrom
  rcases h3 with ⟨e1, e2⟩ | h3
  · exact Or.inl ⟨e1, by rw [e2]; simp [Cx.names, List.map_map, Function.comp_def]⟩
  · exact Or.inr h3

/-- a (partially or wholly) applied or rejected `addSimplicesFrom` preserves the invariant -/
theorem addFrom_inv {d src : C} (hId : Inv d) (hIs : Inv src) (ρ : Name → Name) : Inv (addFrom d src ρ).2 := by
  obtain ⟨P, R, -, h, -⟩ := addFrom_prefix hId hIs ρ; exact h

/-- **`addSimplicesFrom(c, rename)`** (C02/C15): for valid `d` and `src` and a renaming `ρ` that is injective on
the names of `src` and whose values on them are not names of `d`, the call succeeds, returns the new names in
listing order, does not touch the name counter, and yields a valid complex `d'` in which every old simplex is
unchanged and in the same relative order (`Sublist`) and the new simplices are exactly the renamed copies of the
simplices of `src`: for every simplex `s` of `src` a simplex named `ρ s.name` of the same order whose faces are
`s.faces.map ρ` and whose basis is `s.basis.map ρ` (as sets), and nothing else. -/
theorem addFrom_spec {d src : C} (hId : Inv d) (hIs : Inv src) {ρ : Name → Name}
    (hinj : ∀ a ∈ src.names, ∀ b ∈ src.names, ρ a = ρ b → a = b)
    (hfresh : ∀ a ∈ src.names, ρ a ∉ d.names) :
    ∃ d', addFrom d src ρ = (.ok (src.names.map ρ), d') ∧ Inv d' ∧ d'.seq = d.seq ∧
      d.simps.Sublist d'.simps ∧ d'.simps.length = d.simps.length + src.simps.length ∧
      (∀ s ∈ src.simps, ∃ t ∈ d'.simps, RTwin ρ s t) ∧
      (∀ t ∈ d'.simps, t ∈ d.simps ∨ ∃ s ∈ src.simps, RTwin ρ s t) := by
  obtain ⟨P, R, h1, hI, hseq, hsub, hlen, -, -, hfwd, hbwd, hres⟩ := addFrom_prefix hId hIs ρ
  rcases hres with ⟨e1, e2⟩ | ⟨s, R', e1, hc, -⟩
  · subst e1
    rw [List.append_nil] at h1
    rw [← h1] at hlen hfwd hbwd
    exact ⟨(addFrom d src ρ).2, by rw [← e2], hI, hseq, hsub, hlen, hfwd, hbwd⟩
  · -- the stop is impossible under the contract
    exfalso
    subst e1
    have hsa : s ∈ src.simps := by rw [h1]; simp
    have hsn : s.name ∈ src.names := List.mem_map.mpr ⟨s, hsa, rfl⟩
    obtain ⟨t, ht, htn⟩ := contains_iff.mp hc
    rcases hbwd t ht with hold | ⟨u, hu, hut⟩
    · exact hfresh _ hsn (htn ▸ List.mem_map.mpr ⟨t, hold, rfl⟩)
    · have hua : u ∈ src.simps := by rw [h1]; exact List.mem_append_left _ hu
      have hun : u.name ∈ src.names := List.mem_map.mpr ⟨u, hua, rfl⟩
      have : u.name = s.name := hinj _ hun _ hsn (hut.1.symm.trans htn)
      have hus : u = s := hIs.name_inj hua hsa this
      have hand : src.simps.Nodup := List.Nodup.of_map _ hIs.nodup
      rw [h1] at hand
      exact (List.nodup_append.mp hand).2.2 u hu s List.mem_cons_self hus

/-- in `addFrom_spec` the stored lists are the renamed lists up to a permutation (no repeats on either side) -/
theorem addFrom_spec_perm {src : C} (hIs : Inv src) {ρ : Name → Name}
    (hinj : ∀ a ∈ src.names, ∀ b ∈ src.names, ρ a = ρ b → a = b) {d' : C} (hI' : Inv d')
    {s t : Simp Name} (hs : s ∈ src.simps) (ht : t ∈ d'.simps) (htw : RTwin ρ s t) :
    t.faces.Perm (s.faces.map ρ) ∧ t.basis.Perm (s.basis.map ρ) := by
  obtain ⟨hfN, hbN⟩ := hIs.faces_are_names hs
  have nm : ∀ a, (∃ u ∈ src.simps, u.name = a) → a ∈ src.names := by
    rintro a ⟨u, hu, rfl⟩; exact List.mem_map.mpr ⟨u, hu, rfl⟩
  refine ⟨?_, ?_⟩
  · refine (List.perm_ext_iff_of_nodup (hI'.faces_len ht).1 ?_).mpr htw.2.2.1
    exact List.Nodup.map_on (fun a ha b hb he => hinj a (nm a (hfN a ha)) b (nm b (hfN b hb)) he)
      (hIs.faces_len hs).1
  · refine (List.perm_ext_iff_of_nodup (hI'.basis_card ht).1 ?_).mpr htw.2.2.2
    exact List.Nodup.map_on (fun a ha b hb he => hinj a (nm a (hbN a ha)) b (nm b (hbN b hb)) he)
      (hIs.basis_card hs).1

/-! ## rejection -/

theorem addFromLoop_sublist (ρ : Name → Name) : ∀ (R : List (Simp Name)) (dc : C) (acc : List Name),
    dc.simps.Sublist (addFromLoop ρ dc acc R).2.simps := by
  intro R
  induction R with
  | nil => intro dc acc; simp [addFromLoop]
  | cons s R ih =>
    intro dc acc
    rw [addFromLoop_cons]
    split_ifs
    · exact List.Sublist.refl _
    · cases hadd : dc.addSimplex (s.faces.map ρ) (ρ s.name) with
      | error e => exact List.Sublist.refl _
      | ok d1 =>
        simp only
        obtain ⟨t, ht, -, -⟩ := af_addSimplex_shape hadd
        exact (by rw [ht]; exact sublist_insertSorted _ _ : dc.simps.Sublist d1.simps).trans (ih d1 _)

theorem addFromLoop_reject (ρ : Name → Name) : ∀ (R : List (Simp Name)) (dc : C) (acc : List Name),
    (∃ s ∈ R, ρ s.name ≠ s.name ∧ dc.contains (ρ s.name) = true) →
    ∃ e, (addFromLoop ρ dc acc R).1 = .error e := by
  intro R
  induction R with
  | nil => rintro dc acc ⟨s, hs, -⟩; cases hs
  | cons s R ih =>
    rintro dc acc ⟨s0, hs0, hne, hc⟩
    rw [addFromLoop_cons]
    split_ifs with hg
    · exact ⟨_, rfl⟩
    · cases hadd : dc.addSimplex (s.faces.map ρ) (ρ s.name) with
      | error e => exact ⟨e, rfl⟩
      | ok d1 =>
        simp only
        rcases List.mem_cons.mp hs0 with rfl | hs0'
        · exfalso; apply hg; simp [hc, Ne.symm hne]
        · apply ih
          refine ⟨s0, hs0', hne, ?_⟩
          obtain ⟨t, ht, -, -⟩ := af_addSimplex_shape hadd
          obtain ⟨x, hx, hxn⟩ := contains_iff.mp hc
          exact contains_iff.mpr ⟨x, by rw [ht]; exact mem_insertSorted.mpr (Or.inr hx), hxn⟩

/-- **rejection** (no hypothesis on the complexes): if a simplex of `src` would be renamed (`ρ s ≠ s`) to a name
in use in `d`, the call raises. It is not atomic (as in the Python code): the simplices listed before the
offending one may have been added; the old simplices are still there, unchanged and in the same order. -/
theorem addFrom_reject (d src : C) (ρ : Name → Name) (h : ∃ a ∈ src.names, ρ a ≠ a ∧ ρ a ∈ d.names) :
    (∃ e, (addFrom d src ρ).1 = .error e) ∧ d.simps.Sublist (addFrom d src ρ).2.simps := by
  refine ⟨?_, addFromLoop_sublist ρ _ _ _⟩
  obtain ⟨a, ha, hne, hin⟩ := h
  obtain ⟨s, hs, rfl⟩ := List.mem_map.mp ha
  exact addFromLoop_reject ρ _ _ _ ⟨s, hs, hne, contains_iff_names.mpr hin⟩

/-- the same for valid complexes, with what is left behind: a valid complex made of `d` and the renamed copies
of the simplices of `src` listed before the first one whose new name is in use -/
theorem addFrom_reject_inv {d src : C} (hId : Inv d) (hIs : Inv src) (ρ : Name → Name)
    (h : ∃ a ∈ src.names, ρ a ∈ d.names) :
    (∃ e, (addFrom d src ρ).1 = .error e) ∧ Inv (addFrom d src ρ).2 ∧
      d.simps.Sublist (addFrom d src ρ).2.simps := by
  obtain ⟨P, R, h1, hI, -, hsub, -, -, hfr, -, -, hres⟩ := addFrom_prefix hId hIs ρ
  refine ⟨?_, hI, hsub⟩
  rcases hres with ⟨e1, -⟩ | ⟨s, R', -, -, e⟩
  · -- the loop cannot have reached the end: every name it gives is unused in `d`
    exfalso
    subst e1
    rw [List.append_nil] at h1
    obtain ⟨a, ha, hin⟩ := h
    obtain ⟨u, hu, rfl⟩ := List.mem_map.mp ha
    exact hfr u (h1 ▸ hu) hin
  · exact ⟨_, e⟩

/-! ## non-vacuity -/

/-- the renaming `u k ↦ u (k + 1000)` (injective on all names) -/
def shift1000 : Name → Name
  | .u k => .u (k + 1000)
  | n => n

-- `addFrom_spec`: the path `exB` (5 simplices) is added to the triangle `exA` (7 simplices) under new names
example : Inv exA ∧ Inv exB ∧ (∀ a ∈ exB.names, ∀ b ∈ exB.names, shift1000 a = shift1000 b → a = b) ∧
    (∀ a ∈ exB.names, shift1000 a ∉ exA.names) ∧
    (addFrom exA exB shift1000).1 = .ok [.u 1002, .u 1003, .u 1004, .u 1023, .u 1034] ∧
    (addFrom exA exB shift1000).2.simps.length = 12 :=
  ⟨exA_inv, exB_inv, by decide, by decide, rfl, rfl⟩

-- `addFrom_reject` / `addFrom_prefix`: `u4 ↦ u1` clashes with a point of `exA`; the call raises ValueError after
-- the copies of `u2`, `u3` (renamed out of the way) have been added: 9 simplices, still a valid complex
example : (∃ a ∈ exB.names, renameOf [(.u 2, .u 102), (.u 3, .u 103), (.u 4, .u 1)] a ≠ a ∧
      renameOf [(.u 2, .u 102), (.u 3, .u 103), (.u 4, .u 1)] a ∈ exA.names) ∧
    (addFrom exA exB (renameOf [(.u 2, .u 102), (.u 3, .u 103), (.u 4, .u 1)])).1 = .error .value ∧
    (addFrom exA exB (renameOf [(.u 2, .u 102), (.u 3, .u 103), (.u 4, .u 1)])).2.simps.length = 9 ∧
    Inv (addFrom exA exB (renameOf [(.u 2, .u 102), (.u 3, .u 103), (.u 4, .u 1)])).2 :=
  ⟨⟨.u 4, by decide, by decide, by decide⟩, rfl, rfl, addFrom_inv exA_inv exB_inv _⟩

-- the identity renaming onto a complex sharing names: KeyError at the first simplex, nothing added
example : (addFrom exA exB id).1 = .error .key ∧ (addFrom exA exB id).2.simps = exA.simps := ⟨rfl, rfl⟩

end Flat
