import Sx.Model
import Sx.Props.Filtration
import Sx.Props.FiltCopy
import Sx.Props.C01
import Mathlib.Tactic.SplitIfs

/-! # C13 — every reachable filtration

`Sx/Props/Filtration.lean` proves that each mutator of the filtration model `FS` keeps the invariant `FInv`,
one mutator at a time. Here the per-call theorems are assembled into the statement of C13 about *histories*:

* `FOp` — the state-changing calls the driver makes on an `FS`; `FS.step` — the state after one call (the state
  component the model function returns, also when the call raises); `FOp.inContract` — what the caller has to
  guarantee for the call; `RunOK f ops` — every call of the history is in contract in the state in which it is
  made;
* `step_FInv`, `run_FInv`, `reachable_FInv` (+ the prefix form) — every state reachable from `newFS i0` satisfies
  `FInv`;
* corollaries for every reachable state: the complex seen at the current index is a valid closed complex
  (`reachable_visible_inv`), the complexes seen at `i ≤ j` are nested (`reachable_mono`), and
  `delete_star`: deleting a simplex removes exactly its star, at every index, and nothing else changes. -/
namespace Flat

/-! ## operations, steps, contracts, runs -/

/-- the state-changing calls on a filtration. The first nine are the ones named in C13; `deleteBasis`,
`deleteMany`, `restrict` are the three other deleting calls that the driver (`W.structOp` in
Sx/Model/World.lean) forwards to a filtration object through `FS.afterDelete`. -/
inductive FOp
  | setIndex (i : Int)
  | addByFaces (fs : List Name) (id : Option Name)
  | addByBasis (bs : List Name) (id : Option Name)
  | delete (s : Name)
  | next
  | prev
  | toMin
  | toMax
  | iterate
  | deleteBasis (bs : List Name)
  | deleteMany (ss : List Name)
  | restrict (bs : List Name)

/-- what `W.structOp` does to the filtration part of an object: the structural result `r` of the plain-complex
function, `none` = the call raised and nothing changed -/
def FS.structStep (f : FS) (r : Option C) : FS :=
  match r with
  | none => f
  | some c' => f.afterDelete c'

/-- the state after one call: the state component the model function returns (for the `Option`-valued
`FS.delete`, which returns no state when it raises, the unchanged input state) -/
def FS.step (f : FS) : FOp → FS
  | .setIndex i => f.setIndex i
  | .addByFaces fs id => (f.addByFaces fs id).2
  | .addByBasis bs id => (f.addByBasis bs id).2
  | .delete s => (f.delete s).getD f
  | .next => (f.next).2
  | .prev => (f.prev).2
  | .toMin => (f.toMin).2
  | .toMax => (f.toMax).2
  | .iterate => (f.iterate).2
  | .deleteBasis bs => f.structStep (deleteSimplexWithBasis f.c bs)
  | .deleteMany ss => f.structStep (some (deleteSimplices f.c ss))
  | .restrict bs => f.structStep (restrictBasisTo f.c bs)

/-- the by-basis contract: every simplex that already exists in the filtration (at whatever index) and whose
basis lies inside `bs` is visible at the current index. This is the second conjunct of
`FS.basisCallModelled`, the only part of it that `addByBasis_FInv` uses. -/
def FS.basisFacesVisible (f : FS) (bs : List Name) : Bool :=
  f.c.simps.all (fun s => !subsetB s.basis bs || f.visible s.name)

/-- the caller's obligation for a call made in state `f`:
* `addByFaces fs id` (`Filtration.addSimplex(fs, id)`): the call leaves a well-formed complex. This is the
  hypothesis of `addByFaces_FInv`, and it is the weakest possible one, since `FInv` of the new state contains
  it. For the Python caller it is implied (`inContract_of_faces`) by the contract of
  `SimplicialComplex.addSimplex` (`Flat.InContract`: the faces given are the facets of ONE simplex, i.e. they
  span exactly `len(fs)` points); a call that is rejected satisfies it for free (`inContract_of_rejected`).
* `addByBasis bs id` (`Filtration.addSimplexWithBasis(bs, id)`): `basisFacesVisible` - the caller does not
  add by basis a simplex one of whose faces exists in the filtration but only at a later index than the
  current one (the inherited method would silently re-use that face, born later than its new coface). It is
  implied (`inContract_of_modelled`) by `basisCallModelled`, the hypothesis of `addByBasis_FInv` and the
  condition under which the driver runs the call at all.
* every other call: nothing. -/
def FOp.inContract (f : FS) : FOp → Prop
  | .addByFaces fs id => Inv (f.addByFaces fs id).2.c
  | .addByBasis bs _ => f.basisFacesVisible bs = true
  | _ => True

/-- every call of the history is in contract in the state in which it is made -/
def RunOK : FS → List FOp → Prop
  | _, [] => True
  | f, op :: ops => op.inContract f ∧ RunOK (f.step op) ops

/-! ### sufficient conditions for the contract, in the caller's terms -/

/-- the contract of `SimplicialComplex.addSimplex` is enough -/
theorem inContract_of_faces {f : FS} (hF : FInv f) {fs : List Name} (id : Option Name)
    (hc : InContract f.c fs) : (FOp.addByFaces fs id).inContract f :=
  (addByFaces_FInv_contract hF fs id hc).inv

/-- a rejected `addSimplex` is always in contract -/
theorem inContract_of_rejected {f : FS} (hF : FInv f) {fs : List Name} {id : Option Name} {e : Err}
    (h : (f.addByFaces fs id).1 = .error e) : (FOp.addByFaces fs id).inContract f := by
  show Inv (f.addByFaces fs id).2.c
  rcases addByFaces_cases f fs id with h' | ⟨n, c', -, -, h'⟩
  · rw [h']; exact hF.inv
  · rw [h'] at h; cases h

/-- the calls the driver models are in contract -/
theorem inContract_of_modelled {f : FS} {bs : List Name} {id : Option Name}
    (hm : f.basisCallModelled bs id = true) : (FOp.addByBasis bs id).inContract f := by
  unfold FS.basisCallModelled at hm
  rw [Bool.and_eq_true] at hm
  exact hm.2

/-! ## every call preserves the invariant -/

/-- `addByBasis_FInv` under the weaker hypothesis `basisFacesVisible` -/
theorem addByBasis_FInv' {f : FS} (hF : FInv f) (bs : List Name) (id : Option Name)
    (hm : f.basisFacesVisible bs = true) : FInv (f.addByBasis bs id).2 := by
  unfold FS.addByBasis
  cases hadd : addSimplexWithBasisQ f.c bs id with
  | mk r c' =>
    cases r with
    | error e => exact hF
    | ok n =>
      simp only []
      obtain ⟨hI', hsub, hnew⟩ := addSimplexWithBasisQ_ok hF.inv hadd
      apply register_FInv hF hI' hsub
      intro t ht htnew x hx hxold
      rcases hnew t ht with h | h | h
      · rw [contains_iff.mpr ⟨t, h, rfl⟩] at htnew; cases htnew
      · rw [h] at hx; simp at hx
      · obtain ⟨u, hu, hun⟩ := contains_iff.mp hxold
        have hu' := hsub u hu
        have hpos : 0 < t.order := by
          rcases Nat.eq_zero_or_pos t.order with h0 | h'
          · rw [(hI'.point t ht h0).1] at hx; simp at hx
          · exact h'
        have hfac := (hI'.faces_are_facets ht hu' hpos).mp (hun ▸ hx)
        have hsb : subsetB u.basis bs = true := by
          unfold subsetB
          rw [List.all_eq_true]
          intro p hp
          have : p ∈ bs.toFinset := h (hfac.2 (List.mem_toFinset.mpr hp))
          simpa using this
        unfold FS.basisFacesVisible at hm
        have hv := List.all_eq_true.mp hm u hu
        rw [hsb] at hv
        simp only [Bool.not_true, Bool.false_or] at hv
        rw [← hun]
        exact hF.birthD_le_of_visible hv

/-- moving the current index (to whatever value) does not touch the invariant -/
theorem FInv.withIndex {f : FS} (hF : FInv f) (j : Int) : FInv { f with index := j } :=
  hF.congr rfl rfl (fun _ h => h) hF.keysNodup

theorem next_FInv {f : FS} (hF : FInv f) : FInv (f.next).2 := by
  unfold FS.next
  simp only []
  split
  · exact hF
  · split
    · exact hF
    · exact hF.withIndex _

theorem prev_FInv {f : FS} (hF : FInv f) : FInv (f.prev).2 := by
  unfold FS.prev
  simp only []
  split
  · exact hF
  · split
    · exact hF
    · exact hF.withIndex _

theorem toMin_FInv {f : FS} (hF : FInv f) : FInv (f.toMin).2 := by
  unfold FS.toMin
  split
  · exact hF
  · exact setIndex_FInv hF _

theorem toMax_FInv {f : FS} (hF : FInv f) : FInv (f.toMax).2 := by
  unfold FS.toMax
  split
  · exact hF
  · exact setIndex_FInv hF _

theorem iterate_FInv {f : FS} (hF : FInv f) : FInv (f.iterate).2 := by
  rw [iterate_def]
  have key : ∀ (l : List Int) (acc : List C × FS), FInv acc.2 → FInv (l.foldl iterStep acc).2 := by
    intro l
    induction l with
    | nil => intro acc h; exact h
    | cons x xs ih =>
      intro acc h
      rw [List.foldl_cons]
      apply ih
      unfold iterStep
      exact setIndex_FInv (setIndex_FInv h _) _
  exact key _ _ hF

/-- a structural deletion that yields a valid sub-list of the simplices keeps the invariant -/
theorem structStep_FInv {f : FS} (hF : FInv f) {r : Option C}
    (hr : ∀ c', r = some c' → Inv c' ∧ ∀ s ∈ c'.simps, s ∈ f.c.simps) : FInv (f.structStep r) := by
  unfold FS.structStep
  cases r with
  | none => exact hF
  | some c' => exact afterDelete_FInv hF (hr c' rfl).1 (hr c' rfl).2

/-- `deleteSimplex` keeps a sub-list of the simplices -/
theorem deleteSimplex_sub {c c' : C} (hI : Inv c) {s : Name} (h : deleteSimplex c s = some c') :
    Inv c' ∧ ∀ u ∈ c'.simps, u ∈ c.simps := by
  by_cases hc : c.contains s = true
  · obtain ⟨t, ht, rfl⟩ := contains_iff.mp hc
    obtain ⟨c'', hd, hI', hc''⟩ := deleteSimplex_spec hI ht
    rw [h] at hd
    injection hd with hd; subst hd
    refine ⟨hI', fun u hu => ?_⟩
    rw [hc''] at hu
    exact (List.mem_filter.mp hu).1
  · rw [deleteSimplex_unknown c s (by simpa using hc)] at h; cases h

theorem deleteSimplices_sub : ∀ (ss : List Name) {c : C}, Inv c →
    ∀ u ∈ (deleteSimplices c ss).simps, u ∈ c.simps := by
  intro ss
  induction ss with
  | nil => intro c _ u hu; exact hu
  | cons s ss ih =>
    intro c hI u hu
    unfold deleteSimplices at hu
    split_ifs at hu
    · cases hd : deleteSimplex c s with
      | none => rw [hd] at hu; exact ih hI u hu
      | some c' =>
        rw [hd] at hu
        obtain ⟨hI', hsub⟩ := deleteSimplex_sub hI hd
        exact hsub u (ih hI' u hu)
    · exact ih hI u hu

theorem restrictBasisTo_sub {c c' : C} (hI : Inv c) {bs : List Name} (h : restrictBasisTo c bs = some c') :
    Inv c' ∧ ∀ u ∈ c'.simps, u ∈ c.simps := by
  by_cases hg : (bs.all (fun b => c.orderOf? b == some 0)) = true
  · have hpts : PtsIn c bs := by
      intro b hb
      have := List.all_eq_true.mp hg b hb
      obtain ⟨t, ht, hn, ho, -⟩ := orderOf_some (by simpa using this : c.orderOf? b = some 0)
      exact ⟨t, ht, hn, ho⟩
    obtain ⟨c'', hr, hI', hc''⟩ := restrict_spec hI hpts
    rw [h] at hr
    injection hr with hr; subst hr
    refine ⟨hI', fun u hu => ?_⟩
    rw [hc''] at hu
    exact (List.mem_filter.mp hu).1
  · have : restrictBasisTo c bs = none := by
      unfold restrictBasisTo; simp [hg]
    rw [this] at h; cases h

/-- **C13, one step**: every call made in contract on a filtration satisfying the invariant - accepted or
rejected - leaves a filtration satisfying the invariant -/
theorem step_FInv {f : FS} {op : FOp} (hF : FInv f) (hc : op.inContract f) : FInv (f.step op) := by
  cases op with
  | setIndex i => exact setIndex_FInv hF i
  | addByFaces fs id => exact addByFaces_FInv hF fs id hc
  | addByBasis bs id => exact addByBasis_FInv' hF bs id hc
  | delete s =>
    show FInv ((f.delete s).getD f)
    cases hd : f.delete s with
    | none => exact hF
    | some f' => exact delete_FInv hF hd
  | next => exact next_FInv hF
  | prev => exact prev_FInv hF
  | toMin => exact toMin_FInv hF
  | toMax => exact toMax_FInv hF
  | iterate => exact iterate_FInv hF
  | deleteBasis bs =>
    show FInv (f.structStep (deleteSimplexWithBasis f.c bs))
    apply structStep_FInv hF
    intro c' h
    unfold deleteSimplexWithBasis at h
    cases hs : simplexWithBasis f.c bs with
    | none => rw [hs] at h; cases h
    | some s => rw [hs] at h; exact deleteSimplex_sub hF.inv h
  | deleteMany ss =>
    show FInv (f.structStep (some (deleteSimplices f.c ss)))
    apply structStep_FInv hF
    intro c' h
    injection h with h; subst h
    exact ⟨C01.deleteSimplices_inv ss hF.inv, deleteSimplices_sub ss hF.inv⟩
  | restrict bs =>
    show FInv (f.structStep (restrictBasisTo f.c bs))
    apply structStep_FInv hF
    intro c' h
    exact restrictBasisTo_sub hF.inv h

/-- a history in contract from a filtration satisfying the invariant ends in one -/
theorem run_FInv : ∀ (ops : List FOp) {f : FS}, FInv f → RunOK f ops → FInv (ops.foldl FS.step f) := by
  intro ops
  induction ops with
  | nil => intro f hF _; exact hF
  | cons op ops ih =>
    intro f hF hr
    exact ih (step_FInv hF hr.1) hr.2

/-- **C13**: every filtration reachable from a new one by a history of in-contract calls - indices set to
arbitrary values in any order, simplices added and deleted there, rejected calls included - satisfies the
filtration invariant -/
theorem reachable_FInv (ops : List FOp) (i0 : Int) (hr : RunOK (newFS i0) ops) :
    FInv (ops.foldl FS.step (newFS i0)) :=
  run_FInv ops (newFS_FInv i0) hr

theorem RunOK.take : ∀ {ops : List FOp} {f : FS}, RunOK f ops → ∀ n, RunOK f (ops.take n) := by
  intro ops
  induction ops with
  | nil => intro f _ n; simp [RunOK]
  | cons op ops ih =>
    intro f hr n
    cases n with
    | zero => exact trivial
    | succ n => exact ⟨hr.1, ih hr.2 n⟩

/-- every intermediate state of such a history satisfies the invariant, too -/
theorem reachable_FInv_prefix (ops : List FOp) (i0 : Int) (hr : RunOK (newFS i0) ops) (n : Nat) :
    FInv ((ops.take n).foldl FS.step (newFS i0)) :=
  reachable_FInv _ i0 (hr.take n)

/-! ## corollaries for every reachable state -/

/-- **C13 (a)**: in every reachable state the complex seen at the current index is a valid closed complex,
and it is a sub-complex of the whole representation -/
theorem reachable_visible_inv (ops : List FOp) (i0 : Int) (hr : RunOK (newFS i0) ops) :
    Inv (ops.foldl FS.step (newFS i0)).visibleC ∧
    Flat.le (ops.foldl FS.step (newFS i0)).visibleC (ops.foldl FS.step (newFS i0)).c = true :=
  let h := visibleC_spec (reachable_FInv ops i0 hr)
  ⟨h.2.2.1, h.2.2.2.1⟩

/-- what is visible at `i` is visible at every `j ≥ i` -/
theorem visible_setIndex_mono (f : FS) {i j : Int} (hij : i ≤ j) (n : Name)
    (h : (f.setIndex i).visible n = true) : (f.setIndex j).visible n = true := by
  rw [visible_setIndex] at h ⊢
  rw [Bool.and_eq_true] at h ⊢
  refine ⟨h.1, ?_⟩
  cases hb : f.birth? n with
  | none => rw [hb] at h; exact h.2
  | some b =>
    have h2 := h.2
    rw [hb] at h2
    simp only [decide_eq_true_eq] at h2 ⊢
    omega

/-- the complexes seen at `i ≤ j` (any filtration state): the list of simplices at `i` is a sub-list of the
one at `j`, with the very same records (name, order, faces, basis) in the same listing order -/
theorem visibleC_sublist (f : FS) {i j : Int} (hij : i ≤ j) :
    List.Sublist (f.setIndex i).visibleC.simps (f.setIndex j).visibleC.simps := by
  show List.Sublist ((f.setIndex i).c.simps.filter (fun s => (f.setIndex i).visible s.name))
    ((f.setIndex j).c.simps.filter (fun s => (f.setIndex j).visible s.name))
  rw [(setIndex_fields f i).1, (setIndex_fields f j).1]
  exact List.monotone_filter_right _ (fun s hs => visible_setIndex_mono f hij s.name hs)

/-- **C13 (b)**: in every reachable state `f`, for `i ≤ j` the complex seen after `setIndex i` is a
sub-complex of the one seen after `setIndex j`:
(1) in the sense of `<=` on complexes (`Flat.le`, the comparison of Sx/Model/Cmp.lean),
(2) literally - its simplex records are a sub-list of the other's,
(3) both are valid closed complexes,
(4) the plain complexes `snap()` builds at the two indices are nested in the same way. -/
theorem reachable_mono (ops : List FOp) (i0 : Int) (hr : RunOK (newFS i0) ops) {i j : Int} (hij : i ≤ j) :
    Flat.le ((ops.foldl FS.step (newFS i0)).setIndex i).visibleC
      ((ops.foldl FS.step (newFS i0)).setIndex j).visibleC = true ∧
    List.Sublist ((ops.foldl FS.step (newFS i0)).setIndex i).visibleC.simps
      ((ops.foldl FS.step (newFS i0)).setIndex j).visibleC.simps ∧
    Inv ((ops.foldl FS.step (newFS i0)).setIndex i).visibleC ∧
    Inv ((ops.foldl FS.step (newFS i0)).setIndex j).visibleC ∧
    Flat.le ((ops.foldl FS.step (newFS i0)).setIndex i).snap.2
      ((ops.foldl FS.step (newFS i0)).setIndex j).snap.2 = true := by
  have hF := reachable_FInv ops i0 hr
  exact ⟨(visibleC_spec hF).2.2.2.2 i j hij, visibleC_sublist _ hij,
    (visibleC_spec (setIndex_FInv hF i)).2.2.1, (visibleC_spec (setIndex_FInv hF j)).2.2.1,
    snap_mono hF hij⟩

/-! ## deleting a simplex removes its star across all indices -/

/-- **C13 (c)**: if `deleteSimplex(s)` on a filtration satisfying the invariant succeeds, giving `f'`, then
`s` names a simplex `t` of the representation and
(1) the simplex records of `f'` are those of `f` whose basis does not contain the basis of `s`, in the same
    listing order (so the survivors keep order, faces and basis);
(2) the names of `f'` are exactly the names `n` of `f` whose basis does not contain the basis of `s`;
(3) every survivor keeps its birth index;
(4) no other name has a birth entry (in particular none of the deleted ones);
(5) consequently at EVERY index `i`, not only the current one, the complex seen in `f'` is the complex seen
    in `f` minus the star of `s`;
(6) no simplex of the star is visible in `f'` at any index;
(7) the current index is unchanged, no index is created, and an index of `f` disappears exactly when
    something deleted was born there and no survivor was;
(8) `f'` satisfies the invariant. -/
theorem delete_star {f f' : FS} (hF : FInv f) {s : Name} (h : f.delete s = some f') :
    ∃ t ∈ f.c.simps, t.name = s ∧ f.c.basisOf s = t.basis ∧
      f'.c.simps = f.c.simps.filter (fun u => ¬ t.pts ⊆ u.pts) ∧
      (∀ n, n ∈ f'.c.names ↔
        n ∈ f.c.names ∧ ¬ (f.c.basisOf s).toFinset ⊆ (f.c.basisOf n).toFinset) ∧
      (∀ n ∈ f'.c.names, f'.birth? n = f.birth? n) ∧
      (∀ n, n ∉ f'.c.names → f'.birth? n = none) ∧
      (∀ i : Int, (f'.setIndex i).visibleC.simps =
        (f.setIndex i).visibleC.simps.filter (fun u => ¬ t.pts ⊆ u.pts)) ∧
      (∀ (i : Int) (u : Simp Name), u ∈ f.c.simps → t.pts ⊆ u.pts → (f'.setIndex i).visible u.name = false) ∧
      (f'.index = f.index ∧ ∀ k, k ∈ f'.keys ↔ k ∈ f.keys ∧
        ¬ ((∃ p ∈ f.births, p.1 ∉ f'.c.names ∧ p.2 = k) ∧ ¬ ∃ p ∈ f.births, p.1 ∈ f'.c.names ∧ p.2 = k)) ∧
      FInv f' := by
  classical
  have hF' := delete_FInv hF h
  unfold FS.delete at h
  cases hd : deleteSimplex f.c s with
  | none => rw [hd] at h; cases h
  | some c' =>
    rw [hd] at h
    injection h with h
    have hcs : f.c.contains s = true := by
      by_contra hc
      rw [deleteSimplex_unknown f.c s (by simpa using hc)] at hd; cases hd
    obtain ⟨t, ht, hts⟩ := contains_iff.mp hcs
    subst hts
    obtain ⟨c'', hd', hI', hc'⟩ := deleteSimplex_spec hF.inv ht
    rw [hd] at hd'
    injection hd' with hd'; subst hd'
    have hfc : f'.c = c' := by rw [← h]; rfl
    have hfb : f'.births = f.births.filter (fun p => c'.contains p.1) := by rw [← h]; rfl
    have hsimps : f'.c.simps = f.c.simps.filter (fun u => ¬ t.pts ⊆ u.pts) := by rw [hfc, hc']
    have hbasis : f.c.basisOf t.name = t.basis := basisOf_of_mem hF.inv ht
    -- survivors, as simplices
    have hmem : ∀ u, u ∈ f'.c.simps ↔ u ∈ f.c.simps ∧ ¬ t.pts ⊆ u.pts := by
      intro u; rw [hsimps, List.mem_filter]; simp
    have hnames : ∀ n, n ∈ f'.c.names ↔ ∃ u ∈ f.c.simps, u.name = n ∧ ¬ t.pts ⊆ u.pts := by
      intro n
      unfold Cx.names
      rw [List.mem_map]
      constructor
      · rintro ⟨u, hu, hun⟩; exact ⟨u, ((hmem u).mp hu).1, hun, ((hmem u).mp hu).2⟩
      · rintro ⟨u, hu, hun, hns⟩; exact ⟨u, (hmem u).mpr ⟨hu, hns⟩, hun⟩
    have hkeep : ∀ n ∈ f'.c.names, f'.birth? n = f.birth? n := by
      intro n hn
      obtain ⟨u, hu, hun, hns⟩ := (hnames n).mp hn
      obtain ⟨hb1, hb2⟩ := hF.birth_of_mem hu
      rw [hun] at hb1 hb2
      rw [hb2, birth?_eq_some_iff hF'.nodup, hfb, List.mem_filter]
      refine ⟨hb1, ?_⟩
      show c'.contains n = true
      rw [← hfc]
      exact contains_iff.mpr ⟨u, (hmem u).mpr ⟨hu, hns⟩, hun⟩
    have hvis : ∀ (i : Int) (u : Simp Name), u ∈ f'.c.simps →
        (f'.setIndex i).visible u.name = (f.setIndex i).visible u.name := by
      intro i u hu
      rw [visible_setIndex, visible_setIndex, hkeep _ (List.mem_map.mpr ⟨u, hu, rfl⟩),
        contains_iff.mpr ⟨u, hu, rfl⟩, contains_iff.mpr ⟨u, ((hmem u).mp hu).1, rfl⟩]
    refine ⟨t, ht, rfl, hbasis, hsimps, ?_, hkeep, fun n hn => birth?_none_of_not_mem hF' hn, ?_, ?_, ?_, hF'⟩
    · intro n
      rw [hnames n, hbasis]
      constructor
      · rintro ⟨u, hu, hun, hns⟩
        refine ⟨List.mem_map.mpr ⟨u, hu, hun⟩, ?_⟩
        rw [← hun, basisOf_of_mem hF.inv hu]; exact hns
      · rintro ⟨hn, hns⟩
        obtain ⟨u, hu, hun⟩ := List.mem_map.mp hn
        refine ⟨u, hu, hun, ?_⟩
        rw [← hun, basisOf_of_mem hF.inv hu] at hns; exact hns
    · intro i
      show (f'.setIndex i).c.simps.filter (fun u => (f'.setIndex i).visible u.name) =
        ((f.setIndex i).c.simps.filter (fun u => (f.setIndex i).visible u.name)).filter
          (fun u => ¬ t.pts ⊆ u.pts)
      rw [(setIndex_fields f' i).1, (setIndex_fields f i).1, hsimps, List.filter_filter, List.filter_filter]
      apply List.filter_congr
      intro u hu
      by_cases hsub : t.pts ⊆ u.pts
      · simp [hsub]
      · rw [hvis i u ((hmem u).mpr ⟨hu, hsub⟩)]
        simp [hsub]
    · intro i u hu hsub
      rw [visible_setIndex]
      have : f'.c.contains u.name = false := by
        rw [Bool.eq_false_iff]
        intro hc
        obtain ⟨v, hv, hvn⟩ := contains_iff.mp hc
        obtain ⟨hv1, hv2⟩ := (hmem v).mp hv
        have : v = u := hF.inv.name_inj hv1 hu hvn
        exact hv2 (this ▸ hsub)
      rw [this]; rfl
    · refine ⟨by rw [← h]; rfl, ?_⟩
      intro k
      have hfk : f'.keys = f.keys.filter (fun k =>
          !((f.births.filter (fun p => !c'.contains p.1)).any (fun p => p.2 == k) &&
            !(f.births.filter (fun p => c'.contains p.1)).any (fun p => p.2 == k))) := by rw [← h]; rfl
      have hcn : ∀ n, c'.contains n = true ↔ n ∈ f'.c.names := by
        intro n; rw [hfc, contains_iff]; unfold Cx.names; rw [List.mem_map]
      have e1 : (f.births.filter (fun p => !c'.contains p.1)).any (fun p => p.2 == k) = true ↔
          ∃ p ∈ f.births, p.1 ∉ f'.c.names ∧ p.2 = k := by
        rw [List.any_eq_true]
        constructor
        · rintro ⟨p, hp, hpk⟩
          rw [List.mem_filter] at hp
          refine ⟨p, hp.1, ?_, by simpa using hpk⟩
          rw [← hcn]; simpa using hp.2
        · rintro ⟨p, hp, hpn, hpk⟩
          refine ⟨p, List.mem_filter.mpr ⟨hp, ?_⟩, by simpa using hpk⟩
          rw [← hcn] at hpn; simpa using hpn
      have e2 : (f.births.filter (fun p => c'.contains p.1)).any (fun p => p.2 == k) = true ↔
          ∃ p ∈ f.births, p.1 ∈ f'.c.names ∧ p.2 = k := by
        rw [List.any_eq_true]
        constructor
        · rintro ⟨p, hp, hpk⟩
          rw [List.mem_filter] at hp
          exact ⟨p, hp.1, (hcn _).mp hp.2, by simpa using hpk⟩
        · rintro ⟨p, hp, hpn, hpk⟩
          exact ⟨p, List.mem_filter.mpr ⟨hp, (hcn _).mpr hpn⟩, by simpa using hpk⟩
      rw [hfk, List.mem_filter, ← e1, ← e2]
      apply and_congr_right
      intro _
      generalize (f.births.filter (fun p => !c'.contains p.1)).any (fun p => p.2 == k) = A
      generalize (f.births.filter (fun p => c'.contains p.1)).any (fun p => p.2 == k) = B
      cases A <;> cases B <;> simp

/-! ## non-vacuity: a concrete history with its `RunOK` proof -/

/-- `Inv` is decidable through `checkInv` (used only to let `decide` evaluate `RunOK` below) -/
@[reducible] def decInv (c : C) : Decidable (Inv c) := decidable_of_iff _ (C01.checkInv_iff c)

attribute [local instance] decInv

instance FOp.decInContract (f : FS) (op : FOp) : Decidable (op.inContract f) := by
  cases op <;> unfold FOp.inContract <;> infer_instance

instance decRunOK : (f : FS) → (ops : List FOp) → Decidable (RunOK f ops)
  | _, [] => isTrue trivial
  | f, op :: ops => @instDecidableAnd _ _ (FOp.decInContract f op) (decRunOK (f.step op) ops)

/-- twenty-one calls starting from `Filtration(0)`, every kind of operation, the indices visited in the order
0, 5, 2, 7, 1, 7, 5, 0:
an edge `u12` by basis at index 0; the point `u3` at index 5; back to index 2: the point `u4` and the edge
`u14`; at index 7 the triangle `u124` by basis (creating the edge `{u2,u4}` under a generated name);
**delete `u4`** - its star `u4, u14, {u2,u4}, u124` goes, and with it the indices 2 and 7, so that the current
index 7 is no index any more; `setNextIndex` therefore raises (state unchanged); `complexes()` re-creates the
index 7; at index 1 a rejected `addSimplex` (a repeated face); to the maximum index 7, one back to 5; the edge
`u23` at 5; delete several (one unknown); restrict to the point `u2` (index 5 disappears); to the minimum
index; a point with a generated name at index 0; delete by basis. -/
def exHist : List FOp := [
  .addByBasis [.u 1, .u 2] (some (.u 12)),
  .setIndex 5,
  .addByFaces [] (some (.u 3)),
  .setIndex 2,
  .addByFaces [] (some (.u 4)),
  .addByFaces [.u 1, .u 4] (some (.u 14)),
  .setIndex 7,
  .addByBasis [.u 1, .u 2, .u 4] (some (.u 124)),
  .delete (.u 4),
  .next,
  .iterate,
  .setIndex 1,
  .addByFaces [.u 12, .u 12] none,
  .toMax,
  .prev,
  .addByFaces [.u 2, .u 3] (some (.u 23)),
  .deleteMany [.u 1, .u 99],
  .restrict [.u 2],
  .toMin,
  .addByFaces [] none,
  .deleteBasis [.u 2]]

/-- the state after the first `n` calls of the example -/
def exState (n : Nat) : FS := (exHist.take n).foldl FS.step (newFS 0)

/-- the whole history is in contract -/
theorem exRunOK : RunOK (newFS 0) exHist := by decide

/-- so every state along it satisfies the invariant -/
example (n : Nat) : FInv (exState n) := reachable_FInv_prefix exHist 0 exRunOK n

/-- names, births, existing indices and current index before and after the `delete` in the middle, and at
the end -/
example : ((exState 8).c.names, (exState 8).births, (exState 8).keys, (exState 8).index) =
    ([.u 1, .u 2, .u 3, .u 4, .u 12, .u 14, .auto 1 0, .u 124],
     [(.u 1, 0), (.u 2, 0), (.u 12, 0), (.u 3, 5), (.u 4, 2), (.u 14, 2), (.auto 1 0, 7), (.u 124, 7)],
     [0, 5, 2, 7], 7) := by decide
example : ((exState 9).c.names, (exState 9).births, (exState 9).keys, (exState 9).index) =
    ([.u 1, .u 2, .u 3, .u 12], [(.u 1, 0), (.u 2, 0), (.u 12, 0), (.u 3, 5)], [0, 5], 7) := by decide
set_option maxRecDepth 4096 in
example : ((exState 21).c.names, (exState 21).births, (exState 21).keys, (exState 21).index) =
    ([.auto 0 1], [(.auto 0 1, 0)], [0, 7, 1], 0) := by decide

/-- the complex seen at the indices 2 and 7 before the delete ... -/
example : ((exState 8).setIndex 2).visibleC.names = [.u 1, .u 2, .u 4, .u 12, .u 14] ∧
    ((exState 8).setIndex 7).visibleC.names = [.u 1, .u 2, .u 3, .u 4, .u 12, .u 14, .auto 1 0, .u 124] := by
  decide
/-- ... and after it: the star of `u4` is gone at both (`delete_star`), `u3` (born at 5) is still invisible at 2 -/
example : ((exState 8).delete (.u 4)).map (fun g => (g.c.names, g.births, g.keys, g.index)) =
    some ((exState 9).c.names, (exState 9).births, (exState 9).keys, (exState 9).index) := by decide
example : ((exState 9).setIndex 2).visibleC.names = [.u 1, .u 2, .u 12] ∧
    ((exState 9).setIndex 7).visibleC.names = [.u 1, .u 2, .u 3, .u 12] := by decide
/-- nested, and not the other way round (`reachable_mono` with `i = 2`, `j = 7`) -/
example : Flat.le ((exState 8).setIndex 2).visibleC ((exState 8).setIndex 7).visibleC = true ∧
    Flat.le ((exState 8).setIndex 7).visibleC ((exState 8).setIndex 2).visibleC = false := by decide

/-- the results of the calls that raise in the example: `setNextIndex` when the current index is no index,
the `addSimplex` with a repeated face -/
example : (exState 9).index ∉ (exState 9).keys ∧ ((exState 9).next).1 = .error .value ∧
    ((exState 12).addByFaces [.u 12, .u 12] none).1 = .error .key := by decide

/-- the contract is not vacuous: adding by basis the edge `{u2, u3}` at index 2, where `u3` (born at 5) is
not visible, is out of contract, and the call would indeed break the invariant (the new edge is born at 2,
before its face `u3`) -/
example : ¬ (FOp.addByBasis [.u 2, .u 3] none).inContract ((exState 9).setIndex 2) ∧
    (((exState 9).setIndex 2).step (.addByBasis [.u 2, .u 3] none)).checkFInv = false := by decide

/-- the same for `addByFaces`: three edges that are not the boundary of one triangle (`u12, u23, u45` span five
points) are accepted by `addSimplex` (the library does not check this) and leave a complex that is not closed;
the call is out of contract -/
def exBad : FS := ([.addByBasis [.u 1, .u 2] (some (.u 12)), .addByBasis [.u 2, .u 3] (some (.u 23)),
  .addByBasis [.u 4, .u 5] (some (.u 45))] : List FOp).foldl FS.step (newFS 0)
example : (exBad.addByFaces [.u 12, .u 23, .u 45] (some (.u 9))).1 = .ok (.u 9) ∧
    ¬ (FOp.addByFaces [.u 12, .u 23, .u 45] (some (.u 9))).inContract exBad ∧
    checkInv (exBad.step (.addByFaces [.u 12, .u 23, .u 45] (some (.u 9)))).c = false := by decide

/-- hypotheses of `delete_star` on the example (`FInv` of the state before the delete, a successful delete) -/
example : FInv (exState 8) ∧ ((exState 8).delete (.u 4)).isSome = true :=
  ⟨reachable_FInv_prefix exHist 0 exRunOK 8, by decide⟩

/-- hypotheses of `inContract_of_faces` / `inContract_of_modelled` on the example -/
example : InContract (exState 5).c [.u 1, .u 4] ∧ (exState 7).basisCallModelled [.u 1, .u 2, .u 4] (some (.u 124)) = true :=
  ⟨Or.inr (by decide), by decide⟩

end Flat
