import Sx.Model
import Sx.Proofs.FlatInv
import Sx.Proofs.RankBridge
import Sx.Props.Homology
import Mathlib.Tactic.SplitIfs
import Mathlib.LinearAlgebra.Matrix.Rank
import Mathlib.LinearAlgebra.FiniteDimensional.Lemmas
import Mathlib.Combinatorics.SimpleGraph.Connectivity.Connected

/-! # C06 (hard clauses) — Betti numbers depend only on the family of vertex sets; `β₀` counts components

Model functions: `bettiK`, `bopMat` (`Sx/Model/Ops.lean`).

* Part 1: `betti_fam_invariant` — two valid complexes with the same family of vertex sets have the same
  Betti numbers in every order.
* Part 2: `betti0_components` — `β₀` of a valid complex is the number of connected components of its
  point/edge graph. -/
open Matrix

namespace Flat
open M2

/-! ## Part 1: the family of vertex sets determines the Betti numbers -/

theorem mem_ofOrder_iff {c : C} {k : Nat} {s : Simp Name} :
    s ∈ c.ofOrder k ↔ s ∈ c.simps ∧ s.order = k := by
  unfold Cx.ofOrder; simp [List.mem_filter]

/-- the vertex sets of the order-`k` simplices -/
def fam (c : C) (k : Nat) : Finset (Finset Name) := ((c.ofOrder k).map Simp.pts).toFinset

/-- under `Inv` the order-`k` part of the family is cut out of the whole family by cardinality -/
theorem mem_fam {c : C} (hI : Inv c) {k : Nat} {X : Finset Name} :
    X ∈ fam c k ↔ (∃ s ∈ c.simps, s.pts = X) ∧ X.card = k + 1 := by
  unfold fam
  rw [List.mem_toFinset, List.mem_map]
  constructor
  · rintro ⟨s, hs, rfl⟩
    obtain ⟨hs1, hs2⟩ := mem_ofOrder_iff.mp hs
    exact ⟨⟨s, hs1, rfl⟩, by rw [hI.pts_card hs1, hs2]⟩
  · rintro ⟨⟨s, hs, rfl⟩, hc⟩
    rw [hI.pts_card hs] at hc
    exact ⟨s, mem_ofOrder_iff.mpr ⟨hs, by omega⟩, rfl⟩

theorem fam_congr {c c' : C} (hI : Inv c) (hI' : Inv c')
    (h : ∀ X : Finset Name, (∃ s ∈ c.simps, s.pts = X) ↔ (∃ s ∈ c'.simps, s.pts = X)) (k : Nat) :
    fam c k = fam c' k := by
  ext X; rw [mem_fam hI, mem_fam hI', h X]

theorem ofOrder_nodup {c : C} (hI : Inv c) (k : Nat) : (c.ofOrder k).Nodup :=
  List.Nodup.of_map _ (hom_names_nodup hI k)

/-- within one order a simplex is determined by its vertex set -/
theorem pts_inj_ofOrder {c : C} (hI : Inv c) {k : Nat} {s t : Simp Name} (hs : s ∈ c.ofOrder k)
    (ht : t ∈ c.ofOrder k) (h : s.pts = t.pts) : s = t := by
  obtain ⟨hs1, hs2⟩ := mem_ofOrder_iff.mp hs
  obtain ⟨ht1, ht2⟩ := mem_ofOrder_iff.mp ht
  apply hI.uniq s hs1 t ht1 (by omega)
  intro p
  have := Finset.ext_iff.mp h p
  simpa [Simp.pts] using this

theorem pts_nodup {c : C} (hI : Inv c) (k : Nat) : ((c.ofOrder k).map Simp.pts).Nodup :=
  List.Nodup.map_on (fun _ hs _ ht h => pts_inj_ofOrder hI hs ht h) (ofOrder_nodup hI k)

/-- the number of order-`k` simplices is the number of vertex sets of size `k+1` -/
theorem ofOrder_length_eq_card {c : C} (hI : Inv c) (k : Nat) : (c.ofOrder k).length = (fam c k).card := by
  unfold fam
  rw [List.toFinset_card_of_nodup (pts_nodup hI k), List.length_map]

/-- listing position ↦ vertex set, a bijection from the positions of the order-`k` listing onto `fam c k` -/
noncomputable def idxEquiv {c : C} (hI : Inv c) (k : Nat) :
    Fin (c.ofOrder k).length ≃ {X // X ∈ fam c k} :=
  Equiv.ofBijective
    (fun i => ⟨((c.ofOrder k)[i]).pts, by
      unfold fam; rw [List.mem_toFinset]; exact List.mem_map_of_mem (List.getElem_mem _)⟩)
    ⟨by
      intro i j h
      have h' : ((c.ofOrder k)[i]).pts = ((c.ofOrder k)[j]).pts := congrArg Subtype.val h
      have := pts_inj_ofOrder hI (List.getElem_mem _) (List.getElem_mem _) h'
      exact Fin.ext ((List.Nodup.getElem_inj_iff (ofOrder_nodup hI k)).mp this),
     by
      rintro ⟨X, hX⟩
      unfold fam at hX
      rw [List.mem_toFinset, List.mem_map] at hX
      obtain ⟨s, hs, rfl⟩ := hX
      obtain ⟨i, hi, rfl⟩ := List.mem_iff_getElem.mp hs
      exact ⟨⟨i, hi⟩, rfl⟩⟩

theorem idxEquiv_val {c : C} (hI : Inv c) (k : Nat) (i : Fin (c.ofOrder k).length) :
    (idxEquiv hI k i).1 = ((c.ofOrder k)[i]).pts := rfl

/-- the inclusion matrix between two families of finite sets: the name-free form of a boundary operator -/
def incl (A B : Finset (Finset Name)) : Matrix {X // X ∈ A} {Y // Y ∈ B} F2 :=
  fun X Y => if X.1 ⊆ Y.1 then 1 else 0

theorem b2f_eq_ite (b : Bool) (P : Prop) [Decidable P] (h : b = true ↔ P) :
    b2f b = if P then 1 else 0 := by
  by_cases hP : P
  · rw [if_pos hP, h.mpr hP]; rfl
  · rw [if_neg hP]
    have : b = false := by cases b <;> simp_all
    rw [this]; rfl

/-- entries of `∂_k` (`k ≥ 1`) inside the `n_{k-1} × n_k` window, also when `k` is above the maximum order
(then the window is empty) -/
theorem bopMat_get_len {c : C} (hI : Inv c) (k : Nat) (hk : 1 ≤ k) (i j : Nat)
    (hi : i < (c.ofOrder (k - 1)).length) (hj : j < (c.ofOrder k).length) :
    (bopMat c k).get i j = ((c.ofOrder k)[j]).faces.contains ((c.ofOrder (k - 1))[i]).name := by
  by_cases hmax : (k : Int) ≤ c.maxOrder
  · exact bopMat_entry_getElem c k hk hmax i j hi hj
  · have := ofOrder_above_max hI (by omega : (k : Int) > c.maxOrder)
    rw [this] at hj; simp at hj

/-- the rank of `∂_k` (`k ≥ 1`) computed in the `n_{k-1} × n_k` window -/
theorem bopRank_eq_len (c : C) (k : Nat) (hk : 1 ≤ k) :
    bopRank c k = (toM (c.ofOrder (k - 1)).length (c.ofOrder k).length (bopMat c k)).rank := by
  by_cases hmax : (k : Int) ≤ c.maxOrder
  · obtain ⟨hm, hn⟩ := (bopMat_shape c k).2.2 (by omega) hmax
    exact toM_rank_cast _ hm hn
  · rw [bopRank_zero c k (Or.inr (by omega))]
    symm
    exact rank_zero_of_get (fun i j _ _ => bopMat_zero c k (Or.inr (by omega)) i j)

/-- **`∂_k` is the inclusion matrix of the vertex sets, up to the listing bijections** -/
theorem toM_bopMat_eq_incl {c : C} (hI : Inv c) (k : Nat) (hk : 1 ≤ k) :
    toM (c.ofOrder (k - 1)).length (c.ofOrder k).length (bopMat c k)
      = (incl (fam c (k - 1)) (fam c k)).submatrix (idxEquiv hI (k - 1)) (idxEquiv hI k) := by
  ext i j
  show b2f ((bopMat c k).get i j) = if (idxEquiv hI (k - 1) i).1 ⊆ (idxEquiv hI k j).1 then 1 else 0
  apply b2f_eq_ite
  rw [idxEquiv_val, idxEquiv_val, bopMat_get_len hI k hk i j i.2 j.2, List.contains_iff_mem]
  obtain ⟨hr1, hr2⟩ := mem_ofOrder_iff.mp (List.getElem_mem i.2)
  obtain ⟨hs1, hs2⟩ := mem_ofOrder_iff.mp (List.getElem_mem j.2)
  simp only [Fin.getElem_fin]
  rw [hI.faces_are_facets hs1 hr1 (by omega)]
  constructor
  · exact fun h => h.2
  · exact fun h => ⟨by omega, h⟩

/-- the rank of `∂_k`, `k ≥ 1`, is the rank of the inclusion matrix of the vertex sets -/
theorem bopRank_eq_incl {c : C} (hI : Inv c) (k : Nat) (hk : 1 ≤ k) :
    bopRank c k = (incl (fam c (k - 1)) (fam c k)).rank := by
  rw [bopRank_eq_len c k hk, toM_bopMat_eq_incl hI k hk, rank_submatrix]

/-- Betti numbers in terms of the family of vertex sets only -/
theorem bettiK_eq_fam {c : C} (hI : Inv c) (k : Nat) :
    bettiK c k = (((fam c k).card : Int) - (if k = 0 then 0 else ((incl (fam c (k - 1)) (fam c k)).rank : Int)))
      - ((incl (fam c k) (fam c (k + 1))).rank : Int) := by
  rw [bettiK_spec_inv hI, ofOrder_length_eq_card hI, bopRank_eq_incl hI (k + 1) (by omega)]
  rw [Nat.add_sub_cancel]
  split_ifs with h0
  · subst h0; rw [bopRank_zero c 0 (Or.inl rfl)]; rfl
  · rw [bopRank_eq_incl hI k (by omega)]

/-- **C06, structure only.** Two valid complexes with the same family of vertex sets have the same Betti
numbers in every order: the numbers depend neither on simplex names, nor on listing/insertion order, nor on
how the complex was reached. -/
theorem betti_fam_invariant {c c' : C} (hI : Inv c) (hI' : Inv c')
    (h : ∀ X : Finset Name, (∃ s ∈ c.simps, s.pts = X) ↔ (∃ s ∈ c'.simps, s.pts = X)) (k : Nat) :
    bettiK c k = bettiK c' k := by
  rw [bettiK_eq_fam hI, bettiK_eq_fam hI', fam_congr hI hI' h k, fam_congr hI hI' h (k - 1),
    fam_congr hI hI' h (k + 1)]

/-- a checkable (list-level) form of the hypothesis of `betti_fam_invariant` -/
theorem same_family_of_lists (c c' : C)
    (h1 : ∀ s ∈ c.simps, ∃ t ∈ c'.simps, (∀ p ∈ s.basis, p ∈ t.basis) ∧ (∀ p ∈ t.basis, p ∈ s.basis))
    (h2 : ∀ s ∈ c'.simps, ∃ t ∈ c.simps, (∀ p ∈ s.basis, p ∈ t.basis) ∧ (∀ p ∈ t.basis, p ∈ s.basis)) :
    ∀ X : Finset Name, (∃ s ∈ c.simps, s.pts = X) ↔ (∃ s ∈ c'.simps, s.pts = X) := by
  have key : ∀ s t : Simp Name, (∀ p ∈ s.basis, p ∈ t.basis) → (∀ p ∈ t.basis, p ∈ s.basis) → t.pts = s.pts := by
    intro s t a b
    ext p
    simp only [Simp.pts, List.mem_toFinset]
    exact ⟨b p, a p⟩
  intro X
  constructor
  · rintro ⟨s, hs, rfl⟩
    obtain ⟨t, ht, a, b⟩ := h1 s hs
    exact ⟨t, ht, key s t a b⟩
  · rintro ⟨s, hs, rfl⟩
    obtain ⟨t, ht, a, b⟩ := h2 s hs
    exact ⟨t, ht, key s t a b⟩

/-- `exH` (two triangles glued along an edge, one filled) built differently: the points listed in the opposite
order, the edges and the triangle under generated names and in another order, faces and bases listed in
another order, another name counter -/
def exH' : C := ⟨[⟨.u 3, 0, [], [.u 3]⟩, ⟨.u 2, 0, [], [.u 2]⟩, ⟨.u 1, 0, [], [.u 1]⟩, ⟨.u 0, 0, [], [.u 0]⟩,
  ⟨.auto 1 0, 1, [.u 3, .u 2], [.u 2, .u 3]⟩, ⟨.auto 1 1, 1, [.u 1, .u 3], [.u 3, .u 1]⟩,
  ⟨.auto 1 2, 1, [.u 2, .u 0], [.u 0, .u 2]⟩, ⟨.auto 1 3, 1, [.u 2, .u 1], [.u 1, .u 2]⟩,
  ⟨.auto 1 4, 1, [.u 1, .u 0], [.u 0, .u 1]⟩,
  ⟨.auto 2 0, 2, [.auto 1 4, .auto 1 2, .auto 1 3], [.u 2, .u 0, .u 1]⟩], 7⟩

theorem exH'_inv : Inv exH' :=
  inv_of_dec exH' (by decide) (by decide) (by decide) (by decide) (by decide)

/-- the hypotheses of `betti_fam_invariant` hold for `exH`, `exH'`, which differ in names and listing order
(and have different boundary matrices) -/
example : Inv exH ∧ Inv exH' ∧
    (∀ X : Finset Name, (∃ s ∈ exH.simps, s.pts = X) ↔ (∃ s ∈ exH'.simps, s.pts = X)) ∧
    exH.simps.map (·.name) ≠ exH'.simps.map (·.name) ∧ (bopMat exH 1).e ≠ (bopMat exH' 1).e :=
  ⟨exH_inv, exH'_inv, same_family_of_lists exH exH' (by decide) (by decide), by decide, by decide⟩

/-- and the conclusion, checked by evaluation on this instance -/
example : (List.range 4).map (bettiK exH) = [1, 1, 0, 0] ∧ (List.range 4).map (bettiK exH') = [1, 1, 0, 0] := by
  decide

end Flat

/-! ## Part 2: `β₀` is the number of connected components

### a general fact: the GF(2) rank of a vertex–edge incidence matrix -/

namespace M2
section graph
variable {V E : Type} [Fintype V] [DecidableEq V]

theorem F2_add_eq_zero (a b : F2) : a + b = 0 ↔ a = b := by revert a b; decide

theorem sum_pair_ite (x : V → F2) (u v : V) (huv : u ≠ v) :
    (Finset.univ.sum fun w => (if w = u ∨ w = v then (1 : F2) else 0) * x w) = x u + x v := by
  have : ∀ w, (if w = u ∨ w = v then (1 : F2) else 0) * x w
      = (if w = u then x w else 0) + (if w = v then x w else 0) := by
    intro w
    by_cases h1 : w = u
    · have : w ≠ v := fun h => huv (h1.symm.trans h)
      simp [h1, huv]
    · by_cases h2 : w = v
      · subst h2; simp [h1]
      · simp [h1, h2]
  simp only [this]
  rw [Finset.sum_add_distrib]
  simp

/-- the kernel of the transposed incidence matrix: the functions constant along edges -/
theorem incidence_ker (G : SimpleGraph V) (M : Matrix V E F2)
    (hM : ∀ e, ∃ u v, G.Adj u v ∧ ∀ w, M w e = if w = u ∨ w = v then 1 else 0)
    (hE : ∀ u v, G.Adj u v → ∃ e, M u e = 1 ∧ M v e = 1) (x : V → F2) :
    Mᵀ.mulVecLin x = 0 ↔ ∀ u v, G.Reachable u v → x u = x v := by
  have hcol : ∀ e u v, G.Adj u v → (∀ w, M w e = if w = u ∨ w = v then 1 else 0) →
      (Mᵀ.mulVecLin x) e = x u + x v := by
    intro e u v hadj hw
    rw [Matrix.mulVecLin_apply, Matrix.mulVec, dotProduct]
    simp only [transpose_apply, hw]
    exact sum_pair_ite x u v hadj.ne
  constructor
  · intro h0
    have hadj : ∀ u v, G.Adj u v → x u = x v := by
      intro u v huv
      obtain ⟨e, he1, he2⟩ := hE u v huv
      obtain ⟨u', v', hadj', hw⟩ := hM e
      have := hcol e u' v' hadj' hw
      rw [h0, Pi.zero_apply] at this
      have hxe : x u' = x v' := (F2_add_eq_zero _ _).mp this.symm
      have hu := hw u; rw [he1] at hu
      have hv := hw v; rw [he2] at hv
      have hu' : u = u' ∨ u = v' := by by_contra hc; rw [if_neg hc] at hu; exact one_ne_zero hu
      have hv' : v = u' ∨ v = v' := by by_contra hc; rw [if_neg hc] at hv; exact one_ne_zero hv
      have hne := huv.ne
      rcases hu' with rfl | rfl <;> rcases hv' with rfl | rfl
      · exact absurd rfl hne
      · exact hxe
      · exact hxe.symm
      · exact absurd rfl hne
    intro u v hr
    rw [SimpleGraph.reachable_iff_reflTransGen] at hr
    induction hr with
    | refl => rfl
    | tail _ hab ih => exact ih.trans (hadj _ _ hab)
  · intro h
    funext e
    obtain ⟨u, v, hadj, hw⟩ := hM e
    rw [hcol e u v hadj hw, Pi.zero_apply, F2_add_eq_zero]
    exact h u v hadj.reachable

/-- **rank of a vertex–edge incidence matrix over GF(2)**: `rank + #components = #vertices` -/
theorem incidence_rank [Fintype E] (G : SimpleGraph V) (M : Matrix V E F2)
    (hM : ∀ e, ∃ u v, G.Adj u v ∧ ∀ w, M w e = if w = u ∨ w = v then 1 else 0)
    (hE : ∀ u v, G.Adj u v → ∃ e, M u e = 1 ∧ M v e = 1) :
    M.rank + Nat.card G.ConnectedComponent = Fintype.card V := by
  let _ : Fintype G.ConnectedComponent := Fintype.ofFinite _
  let φ : (G.ConnectedComponent → F2) →ₗ[F2] (V → F2) := LinearMap.funLeft F2 F2 G.connectedComponentMk
  have hφ : Function.Injective φ :=
    LinearMap.funLeft_injective_of_surjective _ _ _ (Quot.mk_surjective)
  have hrange : LinearMap.range φ = LinearMap.ker Mᵀ.mulVecLin := by
    ext x
    rw [LinearMap.mem_ker, incidence_ker G M hM hE, LinearMap.mem_range]
    constructor
    · rintro ⟨g, rfl⟩ u v hr
      show g (G.connectedComponentMk u) = g (G.connectedComponentMk v)
      rw [SimpleGraph.ConnectedComponent.sound hr]
    · intro h
      refine ⟨fun C => x C.out, ?_⟩
      funext v
      show x (G.connectedComponentMk v).out = x v
      exact h _ _ (SimpleGraph.ConnectedComponent.exact (Quot.out_eq _))
  have h1 := LinearMap.finrank_range_add_finrank_ker (Mᵀ.mulVecLin)
  rw [← hrange, LinearMap.finrank_range_of_inj hφ, Module.finrank_fintype_fun_eq_card,
    Module.finrank_fintype_fun_eq_card] at h1
  rw [← rank_transpose, Nat.card_eq_fintype_card]
  exact h1

end graph
end M2

namespace Flat
open M2

/-! ### the point/edge graph of a complex -/

/-- the points of a complex (names of its order-0 simplices) -/
def pointSet (c : C) : Finset Name := ((c.ofOrder 0).map (·.name)).toFinset

/-- the graph whose vertices are the points of `c`; two distinct points are adjacent when some order-1 simplex
has both in its basis -/
def edgeGraph (c : C) : SimpleGraph {p // p ∈ pointSet c} where
  Adj u v := u ≠ v ∧ ∃ s ∈ c.simps, s.order = 1 ∧ u.1 ∈ s.basis ∧ v.1 ∈ s.basis
  symm := ⟨fun _ _ ⟨hne, s, hs, ho, hu, hv⟩ => ⟨hne.symm, s, hs, ho, hv, hu⟩⟩
  loopless := ⟨fun _ h => h.1 rfl⟩

/-- under `Inv`, adjacency says exactly: `{u, v}` is the vertex set of an order-1 simplex -/
theorem edgeGraph_adj_iff {c : C} (hI : Inv c) (u v : {p // p ∈ pointSet c}) :
    (edgeGraph c).Adj u v ↔ u ≠ v ∧ ∃ s ∈ c.simps, s.order = 1 ∧ s.pts = {u.1, v.1} := by
  constructor
  · rintro ⟨hne, s, hs, ho, hu, hv⟩
    refine ⟨hne, s, hs, ho, ?_⟩
    symm
    apply Finset.eq_of_subset_of_card_le
    · intro p hp
      rw [Finset.mem_insert, Finset.mem_singleton] at hp
      rw [Simp.pts, List.mem_toFinset]
      rcases hp with rfl | rfl <;> assumption
    · rw [hI.pts_card hs, ho, Finset.card_pair (fun h => hne (Subtype.ext h))]
  · rintro ⟨hne, s, hs, ho, hp⟩
    refine ⟨hne, s, hs, ho, ?_, ?_⟩
    · have : u.1 ∈ s.pts := by rw [hp]; simp
      simpa [Simp.pts] using this
    · have : v.1 ∈ s.pts := by rw [hp]; simp
      simpa [Simp.pts] using this

theorem mem_pointSet {c : C} {p : Name} : p ∈ pointSet c ↔ ∃ t ∈ c.simps, t.order = 0 ∧ t.name = p := by
  unfold pointSet
  rw [List.mem_toFinset, List.mem_map]
  constructor
  · rintro ⟨t, ht, rfl⟩; exact ⟨t, (mem_ofOrder_iff.mp ht).1, (mem_ofOrder_iff.mp ht).2, rfl⟩
  · rintro ⟨t, ht, ho, rfl⟩; exact ⟨t, mem_ofOrder_iff.mpr ⟨ht, ho⟩, rfl⟩

theorem pointSet_card {c : C} (hI : Inv c) : (pointSet c).card = (c.ofOrder 0).length := by
  unfold pointSet
  rw [List.toFinset_card_of_nodup (hom_names_nodup hI 0), List.length_map]

/-- listing position ↦ point, a bijection from the positions of the order-0 listing onto the points -/
noncomputable def ptEquiv {c : C} (hI : Inv c) : Fin (c.ofOrder 0).length ≃ {p // p ∈ pointSet c} :=
  Equiv.ofBijective
    (fun i => ⟨((c.ofOrder 0)[i]).name, by
      unfold pointSet; rw [List.mem_toFinset]; exact List.mem_map_of_mem (List.getElem_mem _)⟩)
    ⟨by
      intro i j h
      have h' : ((c.ofOrder 0)[i]).name = ((c.ofOrder 0)[j]).name := congrArg Subtype.val h
      have := hI.name_inj (mem_ofOrder_iff.mp (List.getElem_mem i.2)).1 (mem_ofOrder_iff.mp (List.getElem_mem j.2)).1 h'
      exact Fin.ext ((List.Nodup.getElem_inj_iff (ofOrder_nodup hI 0)).mp this),
     by
      rintro ⟨p, hp⟩
      unfold pointSet at hp
      rw [List.mem_toFinset, List.mem_map] at hp
      obtain ⟨s, hs, rfl⟩ := hp
      obtain ⟨i, hi, rfl⟩ := List.mem_iff_getElem.mp hs
      exact ⟨⟨i, hi⟩, rfl⟩⟩

theorem ptEquiv_val {c : C} (hI : Inv c) (i : Fin (c.ofOrder 0).length) :
    (ptEquiv hI i).1 = ((c.ofOrder 0)[i]).name := rfl

/-- the point × edge incidence matrix with rows indexed by the points themselves -/
def incM (c : C) : Matrix {p // p ∈ pointSet c} (Fin (c.ofOrder 1).length) F2 :=
  fun p j => if p.1 ∈ ((c.ofOrder 1)[j]).basis then 1 else 0

/-- `∂_1` is the incidence matrix of the point/edge graph, up to the listing bijection of the points -/
theorem toM_bopMat_one {c : C} (hI : Inv c) :
    toM (c.ofOrder 0).length (c.ofOrder 1).length (bopMat c 1)
      = (incM c).submatrix (ptEquiv hI) (Equiv.refl _) := by
  ext i j
  show b2f ((bopMat c 1).get i j) = if (ptEquiv hI i).1 ∈ ((c.ofOrder 1)[j]).basis then 1 else 0
  apply b2f_eq_ite
  rw [ptEquiv_val, bopMat_get_len hI 1 (Nat.le_refl 1) i j i.2 j.2, List.contains_iff_mem]
  obtain ⟨hr1, hr2⟩ := mem_ofOrder_iff.mp (List.getElem_mem i.2)
  obtain ⟨hs1, hs2⟩ := mem_ofOrder_iff.mp (List.getElem_mem j.2)
  simp only [Fin.getElem_fin]
  rw [hI.faces_are_facets hs1 hr1 (by omega)]
  have hb := (hI.point _ hr1 hr2).2
  have hsub : ((c.ofOrder 0)[(i : ℕ)]).pts ⊆ ((c.ofOrder 1)[(j : ℕ)]).pts ↔
      ((c.ofOrder 0)[(i : ℕ)]).name ∈ ((c.ofOrder 1)[(j : ℕ)]).basis := by
    simp [Simp.pts, hb]
  rw [hsub]
  constructor
  · exact fun h => h.2
  · exact fun h => ⟨by omega, h⟩

theorem bopRank_one_eq {c : C} (hI : Inv c) : bopRank c 1 = (incM c).rank := by
  rw [bopRank_eq_len c 1 (Nat.le_refl 1), toM_bopMat_one hI, rank_submatrix]

/-- every column of the incidence matrix has exactly two ones, at the two (adjacent) ends of the edge -/
theorem incM_col {c : C} (hI : Inv c) (j : Fin (c.ofOrder 1).length) :
    ∃ u v, (edgeGraph c).Adj u v ∧ ∀ w, incM c w j = if w = u ∨ w = v then 1 else 0 := by
  obtain ⟨hs1, hs2⟩ := mem_ofOrder_iff.mp (List.getElem_mem j.2)
  obtain ⟨hnd, hlen⟩ := hI.basis_card hs1
  rw [hs2] at hlen
  obtain ⟨a, b, hab⟩ : ∃ a b, ((c.ofOrder 1)[(j : ℕ)]).basis = [a, b] := by
    match h : ((c.ofOrder 1)[(j : ℕ)]).basis, hlen with
    | [a, b], _ => exact ⟨a, b, rfl⟩
  have hne : a ≠ b := by rw [hab] at hnd; simpa using hnd
  have hpt : ∀ p ∈ ((c.ofOrder 1)[(j : ℕ)]).basis, p ∈ pointSet c := by
    intro p hp
    obtain ⟨t, ht, hn, ho, -⟩ := hI.basis_point 1 hs1 hs2 p hp
    exact mem_pointSet.mpr ⟨t, ht, ho, hn⟩
  have ha : a ∈ ((c.ofOrder 1)[(j : ℕ)]).basis := by rw [hab]; simp
  have hb : b ∈ ((c.ofOrder 1)[(j : ℕ)]).basis := by rw [hab]; simp
  refine ⟨⟨a, hpt a ha⟩, ⟨b, hpt b hb⟩, ⟨fun h => hne (congrArg Subtype.val h), _, hs1, hs2, ha, hb⟩, ?_⟩
  intro w
  show (if w.1 ∈ ((c.ofOrder 1)[(j : ℕ)]).basis then (1 : F2) else 0) = _
  rw [hab]
  have : w.1 ∈ [a, b] ↔ (w = ⟨a, hpt a ha⟩ ∨ w = ⟨b, hpt b hb⟩) := by
    simp [Subtype.ext_iff]
  simp only [this]

/-- every pair of adjacent points is joined by a column of the incidence matrix -/
theorem incM_adj {c : C} (u v : {p // p ∈ pointSet c}) (h : (edgeGraph c).Adj u v) :
    ∃ j, incM c u j = 1 ∧ incM c v j = 1 := by
  obtain ⟨-, s, hs, ho, hu, hv⟩ := h
  obtain ⟨j, hj, rfl⟩ := List.mem_iff_getElem.mp (mem_ofOrder_iff.mpr ⟨hs, ho⟩)
  exact ⟨⟨j, hj⟩, if_pos hu, if_pos hv⟩

/-- rank of `∂_1` + number of components = number of points -/
theorem bopRank_one_add_components {c : C} (hI : Inv c) :
    bopRank c 1 + Nat.card (edgeGraph c).ConnectedComponent = (c.ofOrder 0).length := by
  rw [bopRank_one_eq hI, incidence_rank (edgeGraph c) (incM c) (incM_col hI) incM_adj, Fintype.card_coe,
    pointSet_card hI]

/-- **C06, `β₀`.** For a valid complex, `bettiNumbers([0])` is the number of connected components of the graph
whose vertices are the points and whose edges are the order-1 simplices. -/
theorem betti0_components {c : C} (hI : Inv c) :
    bettiK c 0 = (Nat.card (edgeGraph c).ConnectedComponent : Int) := by
  have h := bopRank_one_add_components hI
  rw [bettiK_spec_inv hI, bopRank_zero c 0 (Or.inl rfl)]
  simp only [Nat.zero_add]
  omega

/-- the same with `Fintype.card`, for whatever `Fintype` instance is in scope -/
theorem betti0_components_fintype {c : C} (hI : Inv c) [Fintype (edgeGraph c).ConnectedComponent] :
    bettiK c 0 = (Fintype.card (edgeGraph c).ConnectedComponent : Int) := by
  rw [betti0_components hI, Nat.card_eq_fintype_card]

/-! ### corollaries -/

/-- `0 ≤ β₀ ≤ n₀` -/
theorem betti0_le_points {c : C} (hI : Inv c) :
    0 ≤ bettiK c 0 ∧ bettiK c 0 ≤ ((c.ofOrder 0).length : Int) := by
  have h := bopRank_one_add_components hI
  rw [betti0_components hI]
  omega

/-- without order-1 simplices every point is its own component: `β₀ = n₀` -/
theorem betti0_no_edges {c : C} (hI : Inv c) (h : c.ofOrder 1 = []) :
    bettiK c 0 = ((c.ofOrder 0).length : Int) := by
  have hr : bopRank c 1 = 0 := by
    rw [bopRank_eq_len c 1 (Nat.le_refl 1)]
    have := rank_le_width (toM (c.ofOrder (1 - 1)).length (c.ofOrder 1).length (bopMat c 1))
    rw [h] at this ⊢
    simpa using this
  rw [bettiK_spec_inv hI, bopRank_zero c 0 (Or.inl rfl), hr]
  simp


/-! ### non-vacuity -/

/-- seven points; a hollow triangle `{0,1,2}`, an edge `{3,4}`, two isolated points `5`, `6` -/
def exG : C := ⟨[⟨.u 0, 0, [], [.u 0]⟩, ⟨.u 1, 0, [], [.u 1]⟩, ⟨.u 2, 0, [], [.u 2]⟩, ⟨.u 3, 0, [], [.u 3]⟩,
  ⟨.u 4, 0, [], [.u 4]⟩, ⟨.u 5, 0, [], [.u 5]⟩, ⟨.u 6, 0, [], [.u 6]⟩,
  ⟨.u 10, 1, [.u 0, .u 1], [.u 0, .u 1]⟩, ⟨.u 11, 1, [.u 1, .u 2], [.u 1, .u 2]⟩,
  ⟨.u 12, 1, [.u 0, .u 2], [.u 0, .u 2]⟩, ⟨.u 13, 1, [.u 3, .u 4], [.u 3, .u 4]⟩], 0⟩

theorem exG_inv : Inv exG :=
  inv_of_dec exG (by decide) (by decide) (by decide) (by decide) (by decide)

/-- the hypothesis of `betti0_components` holds on `exG`; there `β₀ = 4` by evaluation, so the theorem says
the point/edge graph of `exG` has four components; likewise `exH` is connected -/
example : Inv exG ∧ bettiK exG 0 = 4 ∧ Nat.card (edgeGraph exG).ConnectedComponent = 4 ∧
    Nat.card (edgeGraph exH).ConnectedComponent = 1 := by
  refine ⟨exG_inv, by decide, ?_, ?_⟩
  · have h := betti0_components exG_inv
    rw [show bettiK exG 0 = 4 by decide] at h
    exact_mod_cast h.symm
  · have h := betti0_components exH_inv
    rw [show bettiK exH 0 = 1 by decide] at h
    exact_mod_cast h.symm

/-- `betti0_no_edges`: four bare points -/
example : let c : C := ⟨[⟨.u 0, 0, [], [.u 0]⟩, ⟨.u 1, 0, [], [.u 1]⟩, ⟨.u 2, 0, [], [.u 2]⟩,
      ⟨.u 3, 0, [], [.u 3]⟩], 0⟩
    c.ofOrder 1 = [] ∧ bettiK c 0 = 4 ∧ checkInv c = true := by decide

end Flat

