import Sx.Model
import Sx.Proofs.FlatInv
import Sx.Proofs.FlatBasis5
import Sx.Proofs.FlatRestrict2
import Sx.Proofs.Integrate
import Mathlib.Tactic.SplitIfs
import Mathlib.Data.List.Basic
import Mathlib.Algebra.BigOperators.Group.Finset.Basic

/-! # C19 — Euler characteristic and Euler integration

Model reading: `euler c` is `eulerCharacteristic()` (the alternating sum of the per-order counts the code
computes with a running sign), `levelSet c m l` is `EulerIntegrator.levelSet` (restrict to the points whose
metric exceeds `l`), `integrate c m` is `EulerIntegrator.integrate` (the loop over `range(maxHeight)` that
restricts the *previous* level set again and adds its Euler characteristic; `maxHeight` is the maximum of the
metric over *all* simplex names, 0 for the empty complex).

The metric of the model is a function `m : Name → Int` (the attribute value or the default). Only its values
on the *points* matter (`integrate_minsum`); the values on higher simplices only influence the number of loop
turns, and the surplus turns contribute the empty complex (`integrate_levels`). -/
namespace Flat
open Finset

/-! ## concrete complexes used to show that the hypotheses of the theorems below are satisfiable -/

/-- a decidable (bounded-quantifier) form of `Inv`, to discharge `Inv` on concrete complexes by `decide` -/
def InvD (c : C) : Prop :=
  c.simps.Pairwise (fun a b => a.order ≤ b.order) ∧
  (c.simps.map (·.name)).Nodup ∧
  (∀ s ∈ c.simps, s.order = 0 → s.faces = [] ∧ s.basis = [s.name]) ∧
  (∀ s ∈ c.simps, 0 < s.order →
      s.faces.Nodup ∧ s.faces.length = s.order + 1 ∧
      (∀ f ∈ s.faces, ∃ t ∈ c.simps, t.name = f ∧ t.order + 1 = s.order) ∧
      s.basis.Nodup ∧ s.basis.length = s.order + 1 ∧
      (∀ p ∈ s.basis, ∃ f ∈ s.faces, ∃ t ∈ c.simps, t.name = f ∧ p ∈ t.basis) ∧
      (∀ f ∈ s.faces, ∀ t ∈ c.simps, t.name = f → ∀ p ∈ t.basis, p ∈ s.basis)) ∧
  (∀ s ∈ c.simps, ∀ t ∈ c.simps, s.order = t.order →
      (∀ p ∈ s.basis, p ∈ t.basis) → (∀ p ∈ t.basis, p ∈ s.basis) → s = t)

instance (c : C) : Decidable (InvD c) := by unfold InvD; infer_instance

theorem Inv_of_InvD {c : C} (h : InvD c) : Inv c := by
  obtain ⟨h1, h2, h3, h4, h5⟩ := h
  refine ⟨h1, h2, h3, ?_, ?_⟩
  · intro s hs hpos
    obtain ⟨a1, a2, a3, a4, a5, a6, a7⟩ := h4 s hs hpos
    refine ⟨a1, a2, a3, a4, a5, ?_⟩
    intro p
    constructor
    · exact a6 p
    · rintro ⟨f, hf, t, ht, hn, hp⟩; exact a7 f hf t ht hn p hp
  · intro s hs t ht ho hb
    exact h5 s hs t ht ho (fun p hp => (hb p).mp hp) (fun p hp => (hb p).mpr hp)

/-- a filled triangle `012` with a pendant edge `23` and an isolated point `4` -/
def exE : C := ⟨[⟨.u 0, 0, [], [.u 0]⟩, ⟨.u 1, 0, [], [.u 1]⟩, ⟨.u 2, 0, [], [.u 2]⟩, ⟨.u 3, 0, [], [.u 3]⟩,
    ⟨.u 4, 0, [], [.u 4]⟩,
    ⟨.u 10, 1, [.u 0, .u 1], [.u 0, .u 1]⟩, ⟨.u 11, 1, [.u 0, .u 2], [.u 0, .u 2]⟩,
    ⟨.u 12, 1, [.u 1, .u 2], [.u 1, .u 2]⟩, ⟨.u 13, 1, [.u 2, .u 3], [.u 2, .u 3]⟩,
    ⟨.u 20, 2, [.u 10, .u 11, .u 12], [.u 0, .u 1, .u 2]⟩], 0⟩

/-- heights 3, 2, 2, 1, 5 on the points; a large value on an edge name (it only lengthens the loop) -/
def exM : Name → Int
  | .u 0 => 3 | .u 1 => 2 | .u 2 => 2 | .u 3 => 1 | .u 4 => 5 | .u 13 => 9 | _ => 0

theorem exE_inv : Inv exE := Inv_of_InvD (by decide)
theorem exM_nonneg : ∀ s ∈ exE.simps, s.order = 0 → 0 ≤ exM s.name := by decide

/-- three isolated points -/
def exP : C := ⟨[⟨.u 0, 0, [], [.u 0]⟩, ⟨.u 1, 0, [], [.u 1]⟩, ⟨.u 4, 0, [], [.u 4]⟩], 0⟩
theorem exP_inv : Inv exP := Inv_of_InvD (by decide)

/-- the triangle-with-tail component and the isolated point of `exE` as separate complexes -/
def eulExA : C := ⟨[⟨.u 0, 0, [], [.u 0]⟩, ⟨.u 1, 0, [], [.u 1]⟩, ⟨.u 2, 0, [], [.u 2]⟩, ⟨.u 3, 0, [], [.u 3]⟩,
    ⟨.u 10, 1, [.u 0, .u 1], [.u 0, .u 1]⟩, ⟨.u 11, 1, [.u 0, .u 2], [.u 0, .u 2]⟩,
    ⟨.u 12, 1, [.u 1, .u 2], [.u 1, .u 2]⟩, ⟨.u 13, 1, [.u 2, .u 3], [.u 2, .u 3]⟩,
    ⟨.u 20, 2, [.u 10, .u 11, .u 12], [.u 0, .u 1, .u 2]⟩], 0⟩
def eulExB : C := ⟨[⟨.u 4, 0, [], [.u 4]⟩], 0⟩
theorem eulExA_inv : Inv eulExA := Inv_of_InvD (by decide)
theorem eulExB_inv : Inv eulExB := Inv_of_InvD (by decide)

/-! ## (1) the Euler characteristic is the alternating count of simplices -/

/-- the running-sign loop of `eulerCharacteristic()` computes the alternating sum -/
theorem eul_eulerOfCounts_range (g : Nat → Nat) (N : Nat) :
    eulerOfCounts ((List.range N).map g) = ∑ k ∈ range N, (-1 : Int) ^ k * (g k : Int) := by
  unfold eulerOfCounts
  suffices h : (((List.range N).map g).foldl
      (fun (acc : Int × Int) (n : Nat) => (acc.1 + acc.2 * (n : Int), -acc.2)) (0, 1)) =
      (∑ k ∈ range N, (-1 : Int) ^ k * (g k : Int), (-1 : Int) ^ N) by rw [h]
  induction N with
  | zero => simp
  | succ N ih =>
    rw [List.range_succ, List.map_append, List.foldl_append, ih, Finset.sum_range_succ]
    simp [pow_succ]

/-- counting a list of simplices order by order with signs = summing the signs -/
theorem signed_count (L : List (Simp Name)) (N : Nat) (hN : ∀ s ∈ L, s.order < N) :
    (∑ k ∈ range N, (-1 : Int) ^ k * ((L.filter (fun s => s.order == k)).length : Int)) =
      (L.map (fun s => (-1 : Int) ^ s.order)).sum := by
  induction L with
  | nil => simp
  | cons s L ih =>
    have hs : s.order < N := hN s List.mem_cons_self
    have ih' := ih (fun t ht => hN t (List.mem_cons_of_mem _ ht))
    rw [List.map_cons, List.sum_cons, ← ih']
    have : ∀ k, (((s :: L).filter (fun s => s.order == k)).length : Int) =
        (if k = s.order then 1 else 0) + ((L.filter (fun s => s.order == k)).length : Int) := by
      intro k
      rw [List.filter_cons]
      by_cases h : s.order = k
      · simp [h]; omega
      · have h' : ¬ k = s.order := fun e => h e.symm
        simp [h, h']
    simp only [this, mul_add, Finset.sum_add_distrib]
    congr 1
    simp [Finset.sum_ite_eq', hs]

/-- **`eulerCharacteristic()` = Σ over the simplices of (-1)^order** -/
theorem euler_def {c : C} (hI : Inv c) :
    euler c = (c.simps.map (fun s => (-1 : Int) ^ s.order)).sum := by
  unfold euler countsOf
  rw [eul_eulerOfCounts_range (fun k => (c.ofOrder k).length)]
  apply signed_count
  intro s hs
  have := maxOrder_ge hI hs
  omega

/-- on the example: 5 points - 4 edges + 1 triangle -/
example : euler exE = 2 ∧ (exE.simps.map (fun s => (-1 : Int) ^ s.order)).sum = 2 := by decide
example : euler exE = (exE.simps.map (fun s => (-1 : Int) ^ s.order)).sum := euler_def exE_inv

/-! ## (2) level sets -/

/-- **`levelSet(c, l)` keeps exactly the simplices all of whose points have metric `> l`**, and the result is
again a valid complex. (`restrictBasisTo` cannot fail here: the selected names are points of `c`.) -/
theorem levelSet_spec {c : C} (hI : Inv c) (m : Name → Int) (l : Int) :
    Inv (levelSet c m l) ∧
    levelSet c m l =
      { c with simps := c.simps.filter (fun t => t.basis.all (fun p => decide (m p > l))) } := by
  classical
  set bs := ((c.ofOrder 0).filter (fun s => m s.name > l)).map (·.name) with hbs
  have hmem : ∀ p, p ∈ bs ↔ (∃ s ∈ c.simps, s.order = 0 ∧ s.name = p) ∧ m p > l := by
    intro p
    rw [hbs]
    simp only [Cx.ofOrder, List.mem_map, List.mem_filter, beq_iff_eq, decide_eq_true_eq]
    constructor
    · rintro ⟨s, ⟨⟨hs, h0⟩, hl⟩, rfl⟩; exact ⟨⟨s, hs, h0, rfl⟩, hl⟩
    · rintro ⟨⟨s, hs, h0, rfl⟩, hl⟩; exact ⟨s, ⟨⟨hs, h0⟩, hl⟩, rfl⟩
  have hpts : PtsIn c bs := by
    intro p hp
    obtain ⟨⟨s, hs, h0, hn⟩, -⟩ := (hmem p).mp hp
    exact ⟨s, hs, hn, h0⟩
  obtain ⟨c', h1, hI', hc'⟩ := restrict_spec hI hpts
  have hls : levelSet c m l = c' := by
    unfold levelSet
    simp only
    rw [← hbs, h1, Option.getD_some]
  rw [hls]
  refine ⟨hI', ?_⟩
  rw [hc']
  congr 1
  apply List.filter_congr
  intro t ht
  rw [Bool.eq_iff_iff]
  simp only [decide_eq_true_eq, List.all_eq_true]
  constructor
  · intro hsub p hp
    have : p ∈ bs := List.mem_toFinset.mp (hsub (by rw [Simp.pts, List.mem_toFinset]; exact hp))
    exact ((hmem p).mp this).2
  · intro hall p hp
    rw [Simp.pts, List.mem_toFinset] at hp
    obtain ⟨q, hq, hqn, hq0, -⟩ := hI.basis_point t.order ht rfl p hp
    exact List.mem_toFinset.mpr ((hmem p).mpr ⟨⟨q, hq, hq0, hqn⟩, hall p hp⟩)

/-- membership form of `levelSet_spec` -/
theorem mem_levelSet {c : C} (hI : Inv c) (m : Name → Int) (l : Int) (t : Simp Name) :
    t ∈ (levelSet c m l).simps ↔ t ∈ c.simps ∧ ∀ p ∈ t.pts, l < m p := by
  rw [(levelSet_spec hI m l).2]
  simp [List.mem_filter, Simp.pts]

/-- **the level sets are nested**: restricting the previous level set (what the loop of `integrate` does)
gives the same complex as restricting `c` itself; in particular a higher level set is a sub-list of a lower one -/
theorem levelSet_nested {c : C} (hI : Inv c) (m : Name → Int) {l l' : Int} (h : l ≤ l') :
    levelSet (levelSet c m l) m l' = levelSet c m l' ∧
    (levelSet c m l').simps.Sublist (levelSet c m l).simps := by
  have h1 := levelSet_spec hI m l
  have h2 := (levelSet_spec h1.1 m l').2
  have h3 := (levelSet_spec hI m l').2
  have key : levelSet (levelSet c m l) m l' = levelSet c m l' := by
    rw [h2, h3, h1.2]
    simp only [List.filter_filter]
    congr 1
    apply List.filter_congr
    intro t _
    rw [Bool.eq_iff_iff]
    simp only [Bool.and_eq_true, List.all_eq_true, decide_eq_true_eq]
    constructor
    · exact fun hh => hh.1
    · exact fun hh => ⟨hh, fun p hp => by have := hh p hp; omega⟩
  refine ⟨key, ?_⟩
  rw [← key, h2]
  exact List.filter_sublist

/-- on the example: above level 1 the point `3` (height 1) and its edge `13` have gone; above level 2 only the
points `0` and `4` are left -/
example : (levelSet exE exM 1).simps.map (·.name) = [.u 0, .u 1, .u 2, .u 4, .u 10, .u 11, .u 12, .u 20] ∧
    (levelSet exE exM 2).simps.map (·.name) = [.u 0, .u 4] ∧
    (levelSet (levelSet exE exM 1) exM 2).simps.map (·.name) = [.u 0, .u 4] := by decide
example : levelSet (levelSet exE exM 1) exM 2 = levelSet exE exM 2 := (levelSet_nested exE_inv exM (by decide)).1

/-! ## (3) the integral is the sum of the Euler characteristics of the level sets -/

/-- the loop of `integrate` after `n` turns: the accumulated sum and the current level set -/
theorem integrate_loop {c : C} (hI : Inv c) (m : Name → Int) (n : Nat) :
    (List.range n).foldl (fun (acc : Int × C) (l : Nat) =>
        let ls := levelSet acc.2 m (l : Int)
        (acc.1 + euler ls, ls)) (0, c) =
      (∑ l ∈ range n, euler (levelSet c m (l : Int)),
        match n with
        | 0 => c
        | k + 1 => levelSet c m (k : Int)) := by
  induction n with
  | zero => simp
  | succ n ih =>
    rw [List.range_succ, List.foldl_append, ih, Finset.sum_range_succ]
    cases n with
    | zero => simp
    | succ k =>
      have := (levelSet_nested hI m (l := (k : Int)) (l' := ((k + 1 : Nat) : Int)) (by omega)).1
      simp only [List.foldl_cons, List.foldl_nil, this]

theorem foldl_imax_ge (L : List Int) (a : Int) :
    a ≤ L.foldl max a ∧ ∀ x ∈ L, x ≤ L.foldl max a := by
  induction L generalizing a with
  | nil => simp
  | cons y L ih =>
    rw [List.foldl_cons]
    obtain ⟨h1, h2⟩ := ih (max a y)
    refine ⟨by omega, ?_⟩
    intro x hx
    rcases List.mem_cons.mp hx with rfl | hx
    · omega
    · exact h2 x hx

theorem foldl_imax_le (L : List Int) (a b : Int) (ha : a ≤ b) (hL : ∀ x ∈ L, x ≤ b) :
    L.foldl max a ≤ b := by
  induction L generalizing a with
  | nil => simpa
  | cons y L ih =>
    rw [List.foldl_cons]
    apply ih
    · have := hL y List.mem_cons_self; omega
    · exact fun x hx => hL x (List.mem_cons_of_mem _ hx)

/-- the maximum of the metric over the points, as a number of levels -/
def ptsHeight (c : C) (m : Name → Int) : Nat := (((c.ofOrder 0).map (fun s => m s.name)).foldl max 0).toNat

/-- the `maxHeight` of the code: the maximum of the metric over all simplex names -/
def maxHeight (c : C) (m : Name → Int) : Nat := ((c.names.map m).foldl max 0).toNat

theorem ptsHeight_le_maxHeight (c : C) (m : Name → Int) : ptsHeight c m ≤ maxHeight c m := by
  unfold ptsHeight maxHeight
  apply Int.toNat_le_toNat
  apply foldl_imax_le
  · exact (foldl_imax_ge _ 0).1
  · intro x hx
    obtain ⟨s, hs, rfl⟩ := List.mem_map.mp hx
    apply (foldl_imax_ge _ 0).2
    unfold Cx.names
    unfold Cx.ofOrder at hs
    exact List.mem_map.mpr ⟨s.name, List.mem_map.mpr ⟨s, (List.mem_filter.mp hs).1, rfl⟩, rfl⟩

/-- at and above the height of the highest point the level set is the empty complex -/
theorem levelSet_empty_above {c : C} (hI : Inv c) (m : Name → Int) (l : Nat) (hl : ptsHeight c m ≤ l) :
    (levelSet c m (l : Int)).simps = [] := by
  rw [List.eq_nil_iff_forall_not_mem]
  intro t ht
  obtain ⟨htc, hall⟩ := (mem_levelSet hI m l t).mp ht
  have hne : t.pts.Nonempty := by rw [← Finset.card_pos, hI.pts_card htc]; omega
  obtain ⟨p, hp⟩ := hne
  have hlt := hall p hp
  rw [Simp.pts, List.mem_toFinset] at hp
  obtain ⟨q, hq, hqn, hq0, -⟩ := hI.basis_point t.order htc rfl p hp
  have : m p ≤ ((c.ofOrder 0).map (fun s => m s.name)).foldl max 0 := by
    apply (foldl_imax_ge _ 0).2
    refine List.mem_map.mpr ⟨q, ?_, by rw [hqn]⟩
    unfold Cx.ofOrder
    exact List.mem_filter.mpr ⟨hq, by simp [hq0]⟩
  unfold ptsHeight at hl
  omega

theorem euler_empty_above {c : C} (hI : Inv c) (m : Name → Int) (l : Nat) (hl : ptsHeight c m ≤ l) :
    euler (levelSet c m (l : Int)) = 0 := by
  rw [euler_def (levelSet_spec hI m l).1, levelSet_empty_above hI m l hl]
  rfl

/-- summing the level sets' Euler characteristics over any number of levels that covers the points
is the same as summing up to the height of the highest point -/
theorem levels_trunc {c : C} (hI : Inv c) (m : Name → Int) (N : Nat) (hN : ptsHeight c m ≤ N) :
    ∑ l ∈ range N, euler (levelSet c m (l : Int)) =
    ∑ l ∈ range (ptsHeight c m), euler (levelSet c m (l : Int)) := by
  symm
  apply Finset.sum_subset
  · intro l hl; rw [Finset.mem_range] at hl ⊢; omega
  · intro l _ hl
    rw [Finset.mem_range] at hl
    exact euler_empty_above hI m l (by omega)

/-- **`integrate` = Σ_{l < H} χ(levelSet c l)** with `H` the maximum of the metric over all simplex names (the
code's `maxHeight`), and equally with `H` the maximum over the points only: the levels at or above every point's
metric contribute the empty complex. (No sign condition on the metric is needed for this.) -/
theorem integrate_levels {c : C} (hI : Inv c) (m : Name → Int) :
    integrate c m = ∑ l ∈ range ((c.names.map m).foldl max 0).toNat, euler (levelSet c m (l : Int)) ∧
    integrate c m =
      ∑ l ∈ range (((c.ofOrder 0).map (fun s => m s.name)).foldl max 0).toNat, euler (levelSet c m (l : Int)) := by
  have h1 : integrate c m = ∑ l ∈ range (maxHeight c m), euler (levelSet c m (l : Int)) := by
    unfold integrate
    simp only
    rw [integrate_loop hI m]
    rfl
  exact ⟨h1, by rw [h1]; exact levels_trunc hI m _ (ptsHeight_le_maxHeight c m)⟩

/-- on the example the code's loop runs 9 times (the edge `13` carries the value 9), the points reach up to 5:
χ = 2, 2, 2, 1, 1 for the levels 0 … 4 and 0 afterwards -/
example : ((exE.names.map exM).foldl max 0).toNat = 9 ∧
    (((exE.ofOrder 0).map (fun s => exM s.name)).foldl max 0).toNat = 5 ∧
    integrate exE exM = 8 ∧
    (List.range 9).map (fun l : Nat => euler (levelSet exE exM (l : Int))) = [2, 2, 2, 1, 1, 0, 0, 0, 0] := by decide

/-! ## (4) the integral is the signed sum of the minimum heights -/

/-- the minimum of the metric over a list of points (0 for the empty list, which no simplex has) -/
def minMetric (m : Name → Int) : List Name → Int
  | [] => 0
  | [p] => m p
  | p :: q :: ps => min (m p) (minMetric m (q :: ps))

/-- `minMetric` is the minimum: it is attained and is a lower bound -/
theorem minMetric_spec (m : Name → Int) (b : List Name) (hb : b ≠ []) :
    (∃ p ∈ b, minMetric m b = m p) ∧ ∀ p ∈ b, minMetric m b ≤ m p := by
  induction b with
  | nil => exact absurd rfl hb
  | cons p ps ih =>
    cases ps with
    | nil => simp [minMetric]
    | cons q ps =>
      obtain ⟨⟨r, hr, hre⟩, hle⟩ := ih (by simp)
      rw [minMetric]
      constructor
      · by_cases h : m p ≤ minMetric m (q :: ps)
        · exact ⟨p, List.mem_cons_self, by omega⟩
        · exact ⟨r, List.mem_cons_of_mem _ hr, by omega⟩
      · intro x hx
        rcases List.mem_cons.mp hx with rfl | hx
        · omega
        · have := hle x hx; omega

theorem lt_minMetric_iff (m : Name → Int) (b : List Name) (hb : b ≠ []) (l : Int) :
    l < minMetric m b ↔ ∀ p ∈ b, l < m p := by
  obtain ⟨⟨r, hr, hre⟩, hle⟩ := minMetric_spec m b hb
  constructor
  · intro h p hp; have := hle p hp; omega
  · intro h; have := h r hr; omega

theorem Inv.basis_ne_nil {c : C} (hI : Inv c) {s : Simp Name} (hs : s ∈ c.simps) : s.basis ≠ [] := by
  intro h
  have := (hI.basis_card hs).2
  rw [h] at this
  simp at this

/-- under a metric that is non-negative on the points, the minimum over a simplex is non-negative and at most
the height of the highest point -/
theorem minMetric_bounds {c : C} (hI : Inv c) (m : Name → Int)
    (hm : ∀ s ∈ c.simps, s.order = 0 → 0 ≤ m s.name) {s : Simp Name} (hs : s ∈ c.simps) :
    0 ≤ minMetric m s.basis ∧ (minMetric m s.basis).toNat ≤ ptsHeight c m := by
  obtain ⟨⟨p, hp, hpe⟩, -⟩ := minMetric_spec m s.basis (hI.basis_ne_nil hs)
  obtain ⟨q, hq, hqn, hq0, -⟩ := hI.basis_point s.order hs rfl p hp
  have h0 := hm q hq hq0
  rw [hqn] at h0
  refine ⟨by omega, ?_⟩
  unfold ptsHeight
  apply Int.toNat_le_toNat
  rw [hpe]
  apply (foldl_imax_ge _ 0).2
  refine List.mem_map.mpr ⟨q, ?_, by rw [hqn]⟩
  unfold Cx.ofOrder
  exact List.mem_filter.mpr ⟨hq, by simp [hq0]⟩

/-- the Euler characteristic of a level set as a sum over a filtered finset of the simplices of `c` -/
theorem euler_levelSet_finset {c : C} (hI : Inv c) (m : Name → Int) (l : Nat) :
    euler (levelSet c m (l : Int)) =
      ∑ s ∈ c.simps.toFinset.filter (fun s => l < (minMetric m s.basis).toNat), (-1 : Int) ^ s.order := by
  have hnd : c.simps.Nodup := List.Nodup.of_map _ hI.nodup
  obtain ⟨hI', he⟩ := levelSet_spec hI m l
  rw [euler_def hI', he]
  simp only
  rw [← List.sum_toFinset _ (hnd.filter _), List.toFinset_filter]
  apply Finset.sum_congr _ (fun _ _ => rfl)
  apply Finset.filter_congr
  intro s hs
  rw [List.mem_toFinset] at hs
  have := lt_minMetric_iff m s.basis (hI.basis_ne_nil hs) (l : Int)
  simp only [List.all_eq_true, decide_eq_true_eq, gt_iff_lt]
  rw [← this]
  omega

/-- **`integrate` = Σ over the simplices of (-1)^order · (minimum of the metric over the simplex's points)**,
for a metric that is non-negative on the points of `c` -/
theorem integrate_minsum {c : C} (hI : Inv c) (m : Name → Int)
    (hm : ∀ s ∈ c.simps, s.order = 0 → 0 ≤ m s.name) :
    integrate c m = (c.simps.map (fun s => (-1 : Int) ^ s.order * minMetric m s.basis)).sum := by
  have hnd : c.simps.Nodup := List.Nodup.of_map _ hI.nodup
  rw [(integrate_levels hI m).2]
  simp only [euler_levelSet_finset hI m]
  have := sum_levels c.simps.toFinset (fun s => (-1 : Int) ^ s.order)
    (fun s => (minMetric m s.basis).toNat) (ptsHeight c m)
    (fun s hs => (minMetric_bounds hI m hm (List.mem_toFinset.mp hs)).2)
  unfold ptsHeight at this
  rw [this, List.sum_toFinset _ hnd]
  congr 1
  apply List.map_congr_left
  intro s hs
  have := (minMetric_bounds hI m hm hs).1
  rw [Int.toNat_of_nonneg this]

/-- on the example: 3+2+2+1+5 - (2+2+2+1) + 2 = 8 -/
example : integrate exE exM = 8 ∧
    (exE.simps.map (fun s => (-1 : Int) ^ s.order * minMetric exM s.basis)).sum = 8 := by decide
example : integrate exE exM = (exE.simps.map (fun s => (-1 : Int) ^ s.order * minMetric exM s.basis)).sum :=
  integrate_minsum exE_inv exM exM_nonneg

/-- the sign condition cannot be dropped: a single point of height -2 has integral 0 (the loop does not run) -/
example : integrate eulExB (fun _ => -2) = 0 ∧
    (eulExB.simps.map (fun s => (-1 : Int) ^ s.order * minMetric (fun _ => -2) s.basis)).sum = -2 := by decide

/-! ## (5) corollaries -/

/-- **isolated points**: the integral of a complex without simplices of positive order is the sum of the
metrics of its points -/
theorem integrate_points {c : C} (hI : Inv c) (m : Name → Int)
    (hm : ∀ s ∈ c.simps, s.order = 0 → 0 ≤ m s.name) (h0 : ∀ s ∈ c.simps, s.order = 0) :
    integrate c m = (c.simps.map (fun s => m s.name)).sum := by
  rw [integrate_minsum hI m hm]
  congr 1
  apply List.map_congr_left
  intro s hs
  rw [h0 s hs, (hI.point s hs (h0 s hs)).2]
  simp [minMetric]

example : (∀ s ∈ exP.simps, s.order = 0 → 0 ≤ exM s.name) ∧ (∀ s ∈ exP.simps, s.order = 0) ∧
    integrate exP exM = 10 := by decide
example : integrate exP exM = (exP.simps.map (fun s => exM s.name)).sum :=
  integrate_points exP_inv exM (by decide) (by decide)

/-- **additivity**: if the simplices of `c` are those of `a` together with those of `b` (as lists, up to order;
with `Inv c` this makes `a` and `b` disjoint in names and in points), the integral of `c` is the sum of the
integrals of `a` and `b` -/
theorem integrate_additive {a b c : C} (hIa : Inv a) (hIb : Inv b) (hIc : Inv c)
    (hperm : c.simps.Perm (a.simps ++ b.simps)) (m : Name → Int)
    (hm : ∀ s ∈ c.simps, s.order = 0 → 0 ≤ m s.name) :
    integrate c m = integrate a m + integrate b m := by
  have hma : ∀ s ∈ a.simps, s.order = 0 → 0 ≤ m s.name :=
    fun s hs => hm s (hperm.mem_iff.mpr (List.mem_append_left _ hs))
  have hmb : ∀ s ∈ b.simps, s.order = 0 → 0 ≤ m s.name :=
    fun s hs => hm s (hperm.mem_iff.mpr (List.mem_append_right _ hs))
  rw [integrate_minsum hIc m hm, integrate_minsum hIa m hma, integrate_minsum hIb m hmb,
    ← List.sum_append, ← List.map_append]
  exact (hperm.map _).sum_eq

example : exE.simps.Perm (eulExA.simps ++ eulExB.simps) ∧ integrate exE exM = 8 ∧ integrate eulExA exM = 3 ∧
    integrate eulExB exM = 5 := by decide
example : integrate exE exM = integrate eulExA exM + integrate eulExB exM :=
  integrate_additive eulExA_inv eulExB_inv exE_inv (by decide) exM exM_nonneg

end Flat
