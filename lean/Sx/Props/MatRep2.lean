import Sx.Props.MatRep1

/-! # Layer R — part 2: `forceDeleteSimplex` refines `Cx.forceDelete` and preserves `MInv` -/
namespace MatRep
open Flat M2
set_option linter.unusedSectionVars false

theorem lt_maxOrder_iff (r : Rep) (k : Nat) : (k : Int) < r.maxOrder ↔ k + 1 < r.len := by
  unfold Rep.maxOrder Rep.len; omega
theorem eq_maxOrder_iff (r : Rep) (k : Nat) : (k : Int) = r.maxOrder ↔ k + 1 = r.len := by
  unfold Rep.maxOrder Rep.len; omega
theorem gt_maxOrder_iff (r : Rep) (k : Nat) : (k : Int) > r.maxOrder ↔ r.len ≤ k := by
  unfold Rep.maxOrder Rep.len; omega

theorem mapIdx_congr' {α β : Type} {l : List α} {f g : Nat → α → β}
    (h : ∀ j a, l[j]? = some a → f j a = g j a) : l.mapIdx f = l.mapIdx g := by
  apply List.ext_getElem?
  intro j
  rw [List.getElem?_mapIdx, List.getElem?_mapIdx]
  cases hj : l[j]? with
  | none => rfl
  | some a => simp only [Option.map_some]; rw [h j a hj]

theorem map_mapIdx' {α β γ : Type} (f : Nat → α → β) (g : β → γ) (l : List α) :
    (l.mapIdx f).map g = l.mapIdx (fun i a => g (f i a)) := by
  apply List.ext_getElem?
  intro j
  rw [List.getElem?_map, List.getElem?_mapIdx, List.getElem?_mapIdx]
  cases l[j]? <;> rfl

/-- levels only look at five components of the state -/
theorem level_congr {r1 r2 : Rep} {j : Nat} (h1 : r1.idx j = r2.idx j) (h2 : r1.idx (j - 1) = r2.idx (j - 1))
    (h3 : r1.idx 0 = r2.idx 0) (h4 : r1.bd j = r2.bd j) (h5 : r1.bs j = r2.bs j) :
    r1.level j = r2.level j := by
  unfold Rep.level Rep.simpAt Rep.facesAt Rep.basisAt
  rw [h1, h2, h3, h4, h5]

/-- a name that is not a row name is not in any decoded column -/
theorem filter_ne_decode {names : List Name} {s : Name} (hs : s ∉ names) (B : Mat) (c : Nat) :
    (decodeCol names B c).filter (· != s) = decodeCol names B c := by
  rw [List.filter_eq_self]
  intro x hx
  obtain ⟨i, -, hi⟩ := mem_decodeCol.mp hx
  have : x ∈ names := List.mem_of_getElem? hi
  simp only [bne_iff_ne, ne_eq]
  rintro rfl; exact hs this

/-! ## the state after the matrix edits, before the top order is popped -/

/-- the edits of `forceDeleteSimplex` for the simplex at `(k, i)`, without the final pop -/
def delCore (r : Rep) (k i : Nat) : Rep :=
  let bases1 := r.bases.modify k (fun B => deleteCol B i)
  let bases2 := if k = 0 then bases1.map (fun B => deleteRow B i) else bases1
  let bd1 := if k > 0 then r.boundaries.modify k (fun B => deleteCol B i) else r.boundaries
  let bd2 := if (k : Int) < r.maxOrder then bd1.modify (k + 1) (fun B => deleteRow B i) else bd1
  ⟨r.indices.modify k (fun l => l.eraseIdx i), bd2, bases2, r.seq⟩

/-- "reduce the maximum order by one and delete the now-empty matrices" (and the empty index list) -/
def popTop (r : Rep) (k : Nat) : Rep :=
  ⟨r.indices.eraseIdx k, r.boundaries.eraseIdx k, r.bases.eraseIdx k, r.seq⟩

theorem forceDelete_eq (r : Rep) (s : Name) :
    r.forceDeleteSimplex s = match r.find? s with
      | none => r
      | some (k, i) =>
        if (k : Int) = r.maxOrder ∧ ((delCore r k i).idx k).isEmpty then popTop (delCore r k i) k
        else delCore r k i := by
  unfold Rep.forceDeleteSimplex
  cases r.find? s with
  | none => rfl
  | some p => rfl

section core
variable {r : Rep} (hI : MInv r) {k i : Nat} (hk : k < r.len)
include hI hk

theorem delCore_len : (delCore r k i).len = r.len := by
  unfold delCore Rep.len; simp

theorem delCore_idx (j : Nat) : (delCore r k i).idx j = if j = k then (r.idx k).eraseIdx i else r.idx j := by
  unfold delCore Rep.idx
  simp only
  rw [getD_modify]
  have hk' : k < r.indices.length := hk
  by_cases hj : j = k
  · subst hj; simp [hk']
  · simp [hj]

theorem delCore_bd (j : Nat) : (delCore r k i).bd j =
    if j = k + 1 ∧ k + 1 < r.len then deleteRow (r.bd j) i
    else if j = k ∧ 0 < k then deleteCol (r.bd j) i else r.bd j := by
  have hk' : k < r.boundaries.length := by rw [hI.lenB]; exact hk
  have hb1 : ∀ j, (if k > 0 then r.boundaries.modify k (fun B => deleteCol B i) else r.boundaries).getD j (zeros 0 0)
      = if j = k ∧ 0 < k then deleteCol (r.bd j) i else r.bd j := by
    intro j
    unfold Rep.bd
    by_cases h0 : k > 0
    · rw [if_pos h0, getD_modify]; simp [hk', h0]
    · rw [if_neg h0]; simp [h0]
  have hl1 : (if k > 0 then r.boundaries.modify k (fun B => deleteCol B i) else r.boundaries).length
      = r.len := by
    unfold Rep.len; rw [← hI.lenB]; split_ifs <;> simp
  unfold delCore
  show List.getD (if (k : Int) < r.maxOrder then _ else _) j (zeros 0 0) = _
  by_cases hm : (k : Int) < r.maxOrder
  · rw [if_pos hm, getD_modify, hl1, hb1]
    have := (lt_maxOrder_iff r k).mp hm
    by_cases hj : j = k + 1
    · subst hj
      have : ¬ (k + 1 = k ∧ 0 < k) := by omega
      simp [‹k + 1 < r.len›]
    · simp [hj]
  · rw [if_neg hm, hb1]
    have : ¬ (k + 1 < r.len) := fun h => hm ((lt_maxOrder_iff r k).mpr h)
    simp [this]

theorem delCore_bs (j : Nat) (hj : j < r.len) : (delCore r k i).bs j =
    if k = 0 then deleteRow (if j = k then deleteCol (r.bs j) i else r.bs j) i
    else if j = k then deleteCol (r.bs j) i else r.bs j := by
  have hk' : k < r.bases.length := by rw [hI.lenS]; exact hk
  have hb1 : (r.bases.modify k (fun B => deleteCol B i)).getD j (zeros 0 0)
      = if j = k then deleteCol (r.bs j) i else r.bs j := by
    unfold Rep.bs
    rw [getD_modify]; simp [hk']
  unfold delCore
  show List.getD (if k = 0 then _ else _) j (zeros 0 0) = _
  by_cases h0 : k = 0
  · rw [if_pos h0, if_pos h0, getD_map _ _ _ _ (by rw [List.length_modify, hI.lenS]; exact hj), hb1]
  · rw [if_neg h0, if_neg h0, hb1]

theorem delCore_lenB : (delCore r k i).boundaries.length = r.len := by
  unfold delCore Rep.len
  simp only
  rw [← hI.lenB]
  split_ifs <;> simp

theorem delCore_lenS : (delCore r k i).bases.length = r.len := by
  unfold delCore Rep.len
  simp only
  rw [← hI.lenS]
  split_ifs <;> simp

end core

/-! ## the levels after the edits -/

/-- Layer A's edit of one record in `forceDelete` -/
def strip (s : Name) (t : Simp Name) : Simp Name :=
  { t with faces := t.faces.filter (· != s), basis := t.basis.filter (· != s) }

theorem getElem?_eraseIdx_skip {α : Type} (l : List α) (i j : Nat) : (l.eraseIdx i)[j]? = l[skip i j]? := by
  rw [List.getElem?_eraseIdx]; unfold skip; split_ifs <;> rfl

theorem get_deleteCol {B : Mat} {i r c : Nat} (hr : r < B.m) (hc : c < B.n - 1) :
    (deleteCol B i).get r c = B.get r (skip i c) := by
  unfold deleteCol; rw [get_mk hr hc]; rfl

/-- decoding against the row names with `s` removed, after its row has been deleted -/
theorem decode_row_deleted {names : List Name} {B : Mat} {i c : Nat} {s : Name}
    (hi : names[i]? = some s) (hu : ∀ r, names[r]? = some s → r = i)
    (hm : names.length = B.m) (hc : c < B.n) :
    decodeCol (names.eraseIdx i) (deleteRow B i) c = (decodeCol names B c).filter (· != s) := by
  have hlt : i < B.m := by rw [← hm]; exact (List.getElem?_eq_some_iff.mp hi).1
  rw [decode_deleteRow names B i hm hlt hc, decode_filter_ne hi hu]

section level
variable {r : Rep} (hI : MInv r) {k i : Nat} {s : Name} (hf : r.find? s = some (k, i))
include hI hf

theorem notMem_idx_of_ne {j : Nat} (hj : j ≠ k) : s ∉ r.idx j := by
  intro hm
  obtain ⟨i', hi'⟩ := List.getElem?_of_mem hm
  exact hj (hI.uniq _ _ _ _ _ hi' (find?_some hf).2).1

theorem level_delCore_ne {j : Nat} (hj : j < r.len) (hjk : j ≠ k) :
    (delCore r k i).level j = ((r.level j).filter (fun t => t.name != s)).map (strip s) := by
  obtain ⟨hk, hget⟩ := find?_some hf
  have hu : ∀ i', (r.idx k)[i']? = some s → i' = i := fun i' h => (hI.uniq _ _ _ _ _ h hget).2
  have hfil : (r.level j).filter (fun t => t.name != s) = r.level j := by
    rw [List.filter_eq_self]
    intro t ht
    obtain ⟨i', h1, -⟩ := mem_level.mp ht
    simp only [bne_iff_ne, ne_eq]
    intro hn
    rw [hn] at h1
    exact notMem_idx_of_ne hI hf hjk (List.mem_of_getElem? h1)
  rw [hfil]
  unfold Rep.level
  rw [map_mapIdx', delCore_idx hI hk, if_neg hjk]
  apply mapIdx_congr'
  intro i' a ha
  have hi' : i' < (r.idx j).length := (List.getElem?_eq_some_iff.mp ha).1
  show (delCore r k i).simpAt j i' a = strip s (r.simpAt j i' a)
  unfold Rep.simpAt strip
  simp only [Simp.mk.injEq, true_and]
  constructor
  · -- faces
    unfold Rep.facesAt
    by_cases h0 : j = 0
    · rw [if_pos h0, if_pos h0]; rfl
    · rw [if_neg h0, if_neg h0]
      obtain ⟨hm, hn⟩ := hI.bdShape j (by omega) hj
      by_cases hj1 : j = k + 1
      · subst hj1
        rw [delCore_idx hI hk, delCore_bd hI hk, Nat.add_sub_cancel, if_pos rfl, if_pos ⟨rfl, hj⟩]
        rw [Nat.add_sub_cancel] at hm
        exact decode_row_deleted hget hu hm.symm (by omega)
      · rw [delCore_idx hI hk, delCore_bd hI hk, if_neg (by omega), if_neg (by omega), if_neg (by omega)]
        rw [filter_ne_decode (notMem_idx_of_ne hI hf (by omega))]
  · -- basis
    unfold Rep.basisAt
    obtain ⟨hm, hn⟩ := hI.bsShape j hj
    by_cases h0 : k = 0
    · subst h0
      rw [delCore_idx hI hk, delCore_bs hI hk j hj, if_pos rfl, if_pos rfl, if_neg hjk]
      exact decode_row_deleted hget hu hm.symm (by omega)
    · rw [delCore_idx hI hk, delCore_bs hI hk j hj, if_neg (Ne.symm h0), if_neg h0, if_neg hjk]
      rw [filter_ne_decode (notMem_idx_of_ne hI hf (Ne.symm h0))]

theorem level_delCore_eq :
    (delCore r k i).level k = ((r.level k).filter (fun t => t.name != s)).map (strip s) := by
  obtain ⟨hk, hget⟩ := find?_some hf
  have hu : ∀ i', (r.idx k)[i']? = some s → i' = i := fun i' h => (hI.uniq _ _ _ _ _ h hget).2
  have hilt : i < (r.idx k).length := (List.getElem?_eq_some_iff.mp hget).1
  have hfil : (r.level k).filter (fun t => t.name != s) =
      ((r.idx k).eraseIdx i).mapIdx (fun j a => r.simpAt k (skip i j) a) := by
    unfold Rep.level
    apply filter_mapIdx_erase
    intro j hj
    show ((r.idx k)[j] != s) = (j != i)
    rw [Bool.eq_iff_iff]
    simp only [bne_iff_ne, ne_eq]
    constructor
    · intro h hji; subst hji
      rw [List.getElem?_eq_getElem hj] at hget
      exact h (Option.some.inj hget)
    · intro h hs
      exact h (hu j (by rw [List.getElem?_eq_getElem hj, hs]))
  rw [hfil, map_mapIdx']
  unfold Rep.level
  rw [delCore_idx hI hk, if_pos rfl]
  apply mapIdx_congr'
  intro j a ha
  have hj : j < ((r.idx k).eraseIdx i).length := (List.getElem?_eq_some_iff.mp ha).1
  rw [List.length_eraseIdx, if_pos hilt] at hj
  show (delCore r k i).simpAt k j a = strip s (r.simpAt k (skip i j) a)
  unfold Rep.simpAt strip
  simp only [Simp.mk.injEq, true_and]
  constructor
  · -- faces
    unfold Rep.facesAt
    by_cases h0 : k = 0
    · rw [if_pos h0, if_pos h0]; rfl
    · rw [if_neg h0, if_neg h0]
      obtain ⟨hm, hn⟩ := hI.bdShape k (by omega) hk
      rw [delCore_idx hI hk, delCore_bd hI hk, if_neg (by omega), if_neg (by omega), if_pos ⟨rfl, by omega⟩]
      rw [filter_ne_decode (notMem_idx_of_ne hI hf (by omega))]
      exact decode_deleteCol _ _ _ hm.symm (by omega)
  · -- basis
    unfold Rep.basisAt
    obtain ⟨hm, hn⟩ := hI.bsShape k hk
    by_cases h0 : k = 0
    · subst h0
      rw [delCore_idx hI hk, delCore_bs hI hk 0 hk, if_pos rfl, if_pos rfl, if_pos rfl]
      have hm' : (r.idx 0).length = (deleteCol (r.bs 0) i).m := hm.symm
      have hc' : j < (deleteCol (r.bs 0) i).n := by show j < (r.bs 0).n - 1; omega
      rw [decode_row_deleted hget hu hm' hc']
      congr 1
      apply decodeCol_congr
      intro row hrow
      have h1 : row < (r.bs 0).m := by omega
      have h2 : j < (r.bs 0).n - 1 := by omega
      exact get_deleteCol (i := i) h1 h2
    · rw [delCore_idx hI hk, delCore_bs hI hk k hk, if_neg (Ne.symm h0), if_neg h0, if_pos rfl]
      rw [filter_ne_decode (notMem_idx_of_ne hI hf (Ne.symm h0))]
      exact decode_deleteCol _ _ _ hm.symm (by omega)

/-- every level of the edited state is Layer A's `forceDelete` of the level -/
theorem level_delCore (j : Nat) :
    (delCore r k i).level j = ((r.level j).filter (fun t => t.name != s)).map (strip s) := by
  by_cases hj : j < r.len
  · by_cases hjk : j = k
    · subst hjk; exact level_delCore_eq hI hf
    · exact level_delCore_ne hI hf hj hjk
  · rw [level_oob r (by omega), level_oob _ (by rw [delCore_len hI (find?_some hf).1]; omega)]; rfl

end level

/-! ## refinement and invariant for the edited state -/

theorem abs_delCore {r : Rep} (hI : MInv r) {k i : Nat} {s : Name} (hf : r.find? s = some (k, i)) :
    abs (delCore r k i) = (abs r).forceDelete s := by
  have hs : (abs (delCore r k i)).simps = ((abs r).forceDelete s).simps := by
    unfold abs Cx.forceDelete
    simp only
    rw [delCore_len hI (find?_some hf).1, List.filter_flatMap, List.map_flatMap]
    apply List.flatMap_congr
    intro j _
    exact level_delCore hI hf j
  have hq : (abs (delCore r k i)).seq = ((abs r).forceDelete s).seq := rfl
  cases h1 : abs (delCore r k i) with
  | mk a b =>
    cases h2 : (abs r).forceDelete s with
    | mk a' b' =>
      rw [h1, h2] at hs hq
      simp only at hs hq
      rw [hs, hq]

theorem skip_inj {i a b : Nat} (h : skip i a = skip i b) : a = b := by
  unfold skip at h; split_ifs at h <;> omega

theorem MInv_delCore {r : Rep} (hI : MInv r) {k i : Nat} {s : Name} (hf : r.find? s = some (k, i)) :
    MInv (delCore r k i) := by
  obtain ⟨hk, hget⟩ := find?_some hf
  have hilt : i < (r.idx k).length := (List.getElem?_eq_some_iff.mp hget).1
  have hlen := delCore_len hI hk (i := i)
  have hidxlen : ∀ j, ((delCore r k i).idx j).length = if j = k then (r.idx k).length - 1 else (r.idx j).length := by
    intro j
    rw [delCore_idx hI hk]
    split_ifs with h
    · rw [List.length_eraseIdx, if_pos hilt]
    · rfl
  refine ⟨?_, ?_, ?_, ?_, ?_, ?_, ?_⟩
  · rw [delCore_lenB hI hk]; exact hlen.symm
  · rw [delCore_lenS hI hk]; exact hlen.symm
  · intro h0
    rw [hlen] at h0
    rw [delCore_bd hI hk, if_neg (by omega), if_neg (by omega)]
    exact hI.bd0 h0
  · intro j hj0 hj
    rw [hlen] at hj
    obtain ⟨hm, hn⟩ := hI.bdShape j hj0 hj
    rw [delCore_bd hI hk, hidxlen, hidxlen]
    have e1 : j - 1 = k → (r.idx (j - 1)).length = (r.idx k).length := fun h => by rw [h]
    have e2 : j = k → (r.idx j).length = (r.idx k).length := fun h => by rw [h]
    split_ifs <;> refine ⟨?_, ?_⟩ <;> (try simp only [deleteRow, deleteCol, mk_m, mk_n]) <;> omega
  · intro j hj
    rw [hlen] at hj
    obtain ⟨hm, hn⟩ := hI.bsShape j hj
    rw [delCore_bs hI hk j hj, hidxlen, hidxlen]
    have e1 : 0 = k → (r.idx 0).length = (r.idx k).length := fun h => by rw [h]
    have e2 : j = k → (r.idx j).length = (r.idx k).length := fun h => by rw [h]
    split_ifs <;> refine ⟨?_, ?_⟩ <;> (try simp only [deleteRow, deleteCol, mk_m, mk_n]) <;> omega
  · intro j hj
    rw [hlen] at hj
    obtain ⟨h1, h2⟩ := hI.isMk j hj
    rw [delCore_bd hI hk, delCore_bs hI hk j hj]
    constructor
    · split_ifs
      · exact isMk_mk _ _ _
      · exact isMk_mk _ _ _
      · exact h1
    · split_ifs
      · exact isMk_mk _ _ _
      · exact isMk_mk _ _ _
      · exact isMk_mk _ _ _
      · exact h2
  · intro j a j' a' x h1 h2
    have key : ∀ j a, ((delCore r k i).idx j)[a]? = some x →
        (r.idx j)[if j = k then skip i a else a]? = some x := by
      intro j a h
      rw [delCore_idx hI hk] at h
      split_ifs at h ⊢ with hjk
      · rw [getElem?_eraseIdx_skip] at h; rw [← hjk] at h; exact h
      · exact h
    obtain ⟨e1, e2⟩ := hI.uniq _ _ _ _ _ (key j a h1) (key j' a' h2)
    subst e1
    refine ⟨rfl, ?_⟩
    split_ifs at e2
    · exact skip_inj e2
    · exact e2

/-! ## popping an empty top order -/

section pop
variable {r : Rep} (hI : MInv r) {k : Nat} (hk : r.len = k + 1)
include hI hk

theorem popTop_len : (popTop r k).len = k := by
  unfold popTop Rep.len
  simp only
  rw [List.length_eraseIdx, if_pos (by unfold Rep.len at hk; omega)]
  unfold Rep.len at hk; omega

theorem popTop_idx {j : Nat} (hj : j < k) : (popTop r k).idx j = r.idx j := by
  unfold popTop Rep.idx; exact getD_eraseIdx_last _ _ _ _ hj

theorem popTop_bd {j : Nat} (hj : j < k) : (popTop r k).bd j = r.bd j := by
  unfold popTop Rep.bd; exact getD_eraseIdx_last _ _ _ _ hj

theorem popTop_bs {j : Nat} (hj : j < k) : (popTop r k).bs j = r.bs j := by
  unfold popTop Rep.bs; exact getD_eraseIdx_last _ _ _ _ hj

theorem MInv_popTop : MInv (popTop r k) := by
  have hlen := popTop_len hI hk
  have hl : r.indices.length = k + 1 := hk
  refine ⟨?_, ?_, ?_, ?_, ?_, ?_, ?_⟩
  · unfold popTop; simp only
    rw [List.length_eraseIdx, List.length_eraseIdx, hI.lenB]
  · unfold popTop; simp only
    rw [List.length_eraseIdx, List.length_eraseIdx, hI.lenS]
  · intro h0
    rw [hlen] at h0
    rw [popTop_bd hI hk h0]; exact hI.bd0 (by omega)
  · intro j hj0 hj
    rw [hlen] at hj
    rw [popTop_bd hI hk hj, popTop_idx hI hk hj, popTop_idx hI hk (by omega : j - 1 < k)]
    exact hI.bdShape j hj0 (by omega)
  · intro j hj
    rw [hlen] at hj
    rw [popTop_bs hI hk hj, popTop_idx hI hk hj, popTop_idx hI hk (by omega : 0 < k)]
    exact hI.bsShape j (by omega)
  · intro j hj
    rw [hlen] at hj
    rw [popTop_bs hI hk hj, popTop_bd hI hk hj]
    exact hI.isMk j (by omega)
  · intro j a j' a' x h1 h2
    have hj : j < k := by have := lt_len_of_get h1; omega
    have hj' : j' < k := by have := lt_len_of_get h2; omega
    rw [popTop_idx hI hk hj] at h1
    rw [popTop_idx hI hk hj'] at h2
    exact hI.uniq _ _ _ _ _ h1 h2

theorem abs_popTop (he : r.idx k = []) : abs (popTop r k) = abs r := by
  have hs : (abs (popTop r k)).simps = (abs r).simps := by
    unfold abs
    simp only
    rw [popTop_len hI hk, hk, flatMap_range_succ]
    have : r.level k = [] := by unfold Rep.level; rw [he]; rfl
    rw [this, List.append_nil]
    apply flatMap_range_congr
    intro j hj
    exact level_congr (popTop_idx hI hk hj) (popTop_idx hI hk (by omega)) (popTop_idx hI hk (by omega))
      (popTop_bd hI hk hj) (popTop_bs hI hk hj)
  have hq : (abs (popTop r k)).seq = (abs r).seq := rfl
  cases h1 : abs (popTop r k) with
  | mk a b =>
    cases h2 : abs r with
    | mk a' b' =>
      rw [h1, h2] at hs hq
      simp only at hs hq
      rw [hs, hq]

end pop

/-! ## the theorems -/

/-- **(3) `forceDeleteSimplex` refines Layer A's `forceDelete`** — for every name (an unknown name is left
alone by both layers: it cannot occur in any decoded face or basis list). -/
theorem forceDelete_abs {r : Rep} (hI : MInv r) (s : Name) :
    abs (r.forceDeleteSimplex s) = (abs r).forceDelete s := by
  rw [forceDelete_eq]
  cases hf : r.find? s with
  | none =>
    simp only
    -- nothing to delete at Layer A either
    have hs : ((abs r).forceDelete s).simps = (abs r).simps := by
      unfold Cx.forceDelete
      simp only
      have h1 : (abs r).simps.filter (fun t => t.name != s) = (abs r).simps := by
        rw [List.filter_eq_self]
        intro t ht
        obtain ⟨k, i, h, -⟩ := mem_abs.mp ht
        simp only [bne_iff_ne, ne_eq]
        intro hn; rw [hn] at h
        exact find?_none hf k (List.mem_of_getElem? h)
      rw [h1]
      conv_rhs => rw [← List.map_id (abs r).simps]
      apply List.map_congr_left
      intro t ht
      obtain ⟨k, i, -, h2⟩ := mem_abs.mp ht
      rw [h2]
      show strip s (r.simpAt k i t.name) = _
      unfold strip Rep.simpAt Rep.facesAt Rep.basisAt
      simp only [id, Simp.mk.injEq, true_and]
      constructor
      · split_ifs
        · rfl
        · exact filter_ne_decode (find?_none hf _) _ _
      · exact filter_ne_decode (find?_none hf _) _ _
    cases h2 : (abs r).forceDelete s with
    | mk a' b' =>
      have hq : ((abs r).forceDelete s).seq = (abs r).seq := rfl
      rw [h2] at hs hq
      simp only at hs hq
      cases h1 : abs r with
      | mk a b => rw [h1] at hs hq; simp only at hs hq; rw [hs, hq]
  | some p =>
    obtain ⟨k, i⟩ := p
    simp only
    split_ifs with hpop
    · obtain ⟨h1, h2⟩ := hpop
      have hk := (eq_maxOrder_iff r k).mp h1
      have hlen : (delCore r k i).len = k + 1 := by rw [delCore_len hI (find?_some hf).1]; exact hk.symm
      have he : (delCore r k i).idx k = [] := by simpa using h2
      rw [abs_popTop (MInv_delCore hI hf) hlen he]
      exact abs_delCore hI hf
    · exact abs_delCore hI hf

/-- `forceDeleteSimplex` preserves the representation invariant -/
theorem forceDelete_MInv {r : Rep} (hI : MInv r) (s : Name) : MInv (r.forceDeleteSimplex s) := by
  rw [forceDelete_eq]
  cases hf : r.find? s with
  | none => exact hI
  | some p =>
    obtain ⟨k, i⟩ := p
    simp only
    split_ifs with hpop
    · obtain ⟨h1, h2⟩ := hpop
      have hk := (eq_maxOrder_iff r k).mp h1
      have hlen : (delCore r k i).len = k + 1 := by rw [delCore_len hI (find?_some hf).1]; exact hk.symm
      exact MInv_popTop (MInv_delCore hI hf) hlen
    · exact MInv_delCore hI hf

end MatRep
