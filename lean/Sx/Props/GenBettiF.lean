import Sx.Props.GenBetti

/-! finite Betti tables, part F (see GenBetti.lean) -/
namespace Flat.GenBetti
open Flat
set_option maxRecDepth 100000

theorem lattice_betti_3_1 : (List.range 3).map (bettiK (lt 3 1)) = [1,0,0] ∧ euler (lt 3 1) = 1 ∧ ((lt 3 1).ofOrder 0).length = 3 := by decide +kernel
theorem lattice_betti_3_2 : (List.range 3).map (bettiK (lt 3 2)) = [1,0,0] ∧ euler (lt 3 2) = 1 ∧ ((lt 3 2).ofOrder 0).length = 6 := by decide +kernel
theorem lattice_betti_3_3 : (List.range 3).map (bettiK (lt 3 3)) = [1,0,0] ∧ euler (lt 3 3) = 1 ∧ ((lt 3 3).ofOrder 0).length = 9 := by decide +kernel
theorem lattice_betti_3_4 : (List.range 3).map (bettiK (lt 3 4)) = [1,0,0] ∧ euler (lt 3 4) = 1 ∧ ((lt 3 4).ofOrder 0).length = 12 := by decide +kernel

end Flat.GenBetti
