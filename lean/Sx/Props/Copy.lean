import Sx.Model
import Sx.Props.Common
import Sx.Proofs.Compose2
import Sx.Proofs.FlatCmp
import Sx.Proofs.FlatDelete2
import Mathlib.Tactic.SplitIfs
import Mathlib.Data.List.Forall2

/-! # C09, C10, C16, C17 — copies, comparison operators, composition into a new complex

Model reading. `copy()` = `copyNew a = addFrom emptyC a id`: the simplices of `a` are added one by one, in
listing order, under their own names and with their own faces, to a fresh complex. The copy is therefore `a`
again *up to the order inside the stored face/basis lists* (the new representation stores them in its own
canonical order): `Twin`. `==`, `<`, `<=` are `Flat.eq`, `Flat.lt`, `Flat.le` (structure only).
`compose(c)` into a new complex = `composeNew a b`: copy `a`, then run the compose loop on the copy with the
checks made against `a`. -/
namespace Flat
open List

/-- `t` is `s` up to the order inside the face and basis lists -/
def Twin (s t : Simp Name) : Prop :=
  t.name = s.name ∧ t.order = s.order ∧ (∀ f, f ∈ t.faces ↔ f ∈ s.faces) ∧ (∀ p, p ∈ t.basis ↔ p ∈ s.basis)

theorem Twin.pts {s t : Simp Name} (h : Twin s t) : t.pts = s.pts := by
  ext p; simp only [Simp.pts, List.mem_toFinset]; exact h.2.2.2 p

/-! ## generalities on `Forall₂` -/

theorem forall₂_mem_left {α β : Type} {R : α → β → Prop} {l1 : List α} {l2 : List β} (h : Forall₂ R l1 l2) :
    ∀ x ∈ l1, ∃ y ∈ l2, R x y := by
  induction h with
  | nil => intro x hx; cases hx
  | cons hab _ ih =>
    intro x hx
    rcases List.mem_cons.mp hx with rfl | hx
    · exact ⟨_, List.mem_cons_self, hab⟩
    · obtain ⟨y, hy, hr⟩ := ih x hx; exact ⟨y, List.mem_cons_of_mem _ hy, hr⟩

theorem forall₂_mem_right {α β : Type} {R : α → β → Prop} {l1 : List α} {l2 : List β} (h : Forall₂ R l1 l2) :
    ∀ y ∈ l2, ∃ x ∈ l1, R x y := by
  induction h with
  | nil => intro x hx; cases hx
  | cons hab _ ih =>
    intro y hy
    rcases List.mem_cons.mp hy with rfl | hy
    · exact ⟨_, List.mem_cons_self, hab⟩
    · obtain ⟨x, hx, hr⟩ := ih y hy; exact ⟨x, List.mem_cons_of_mem _ hx, hr⟩

theorem forall₂_imp_mem {α β : Type} {R S : α → β → Prop} {l1 : List α} {l2 : List β} (h : Forall₂ R l1 l2)
    (himp : ∀ x ∈ l1, ∀ y ∈ l2, R x y → S x y) : Forall₂ S l1 l2 := by
  induction h with
  | nil => exact Forall₂.nil
  | cons hab _ ih =>
    refine Forall₂.cons (himp _ List.mem_cons_self _ List.mem_cons_self hab) (ih ?_)
    intro x hx y hy; exact himp x (List.mem_cons_of_mem _ hx) y (List.mem_cons_of_mem _ hy)

theorem forall₂_append_single {α β : Type} {R : α → β → Prop} {l1 : List α} {l2 : List β} {x : α} {y : β}
    (h : Forall₂ R l1 l2) (hxy : R x y) : Forall₂ R (l1 ++ [x]) (l2 ++ [y]) := by
  induction h with
  | nil => exact Forall₂.cons hxy Forall₂.nil
  | cons hab _ ih => exact Forall₂.cons hab ih

theorem forall₂_filter {α β : Type} {R : α → β → Prop} {p : α → Bool} {q : β → Bool} {l1 : List α} {l2 : List β}
    (h : Forall₂ R l1 l2) (hpq : ∀ x y, R x y → p x = q y) : Forall₂ R (l1.filter p) (l2.filter q) := by
  induction h with
  | nil => exact Forall₂.nil
  | @cons a b _ _ hab _ ih =>
    rw [List.filter_cons, List.filter_cons, hpq a b hab]
    cases q b
    · exact ih
    · exact Forall₂.cons hab ih

theorem forall₂_find? {α β : Type} {R : α → β → Prop} {p : α → Bool} {q : β → Bool} {l1 : List α} {l2 : List β}
    (h : Forall₂ R l1 l2) (hpq : ∀ x y, R x y → p x = q y) :
    (l1.find? p = none ∧ l2.find? q = none) ∨ ∃ x y, l1.find? p = some x ∧ l2.find? q = some y ∧ R x y := by
  induction h with
  | nil => exact Or.inl ⟨rfl, rfl⟩
  | @cons a b _ _ hab _ ih =>
    rw [List.find?_cons, List.find?_cons, hpq a b hab]
    cases q b
    · exact ih
    · exact Or.inr ⟨a, b, rfl, rfl, hab⟩

/-! ## appending at the end of the listing -/

theorem insertSorted_of_le {s : Simp Name} {l : List (Simp Name)} (h : ∀ x ∈ l, x.order ≤ s.order) :
    insertSorted s l = l ++ [s] := by
  induction l with
  | nil => rfl
  | cons t ts ih =>
    unfold insertSorted
    rw [if_pos (h t List.mem_cons_self), ih (fun x hx => h x (List.mem_cons_of_mem _ hx))]
    rfl

/-! ## C09: the copy loop -/

/-- the loop of `addSimplicesFrom` with the identity renaming, started after a prefix `P` of `a` has been
carried over to `d`: it runs to the end without an exception, returns the names in listing order, does not
touch the name counter, and `d` ends up as `a` simplex by simplex -/
theorem addFromLoop_id_spec {a : C} (hIa : Inv a) :
    ∀ (R P : List (Simp Name)) (d : C) (acc : List Name), a.simps = P ++ R → Inv d → Forall₂ Twin P d.simps →
      ∃ d', addFromLoop id d acc R = (.ok (acc ++ R.map (·.name)), d') ∧ Inv d' ∧ d'.seq = d.seq ∧
        Forall₂ Twin a.simps d'.simps := by
  classical
  intro R
  induction R with
  | nil =>
    intro P d acc hPR hId hT
    simp only [List.append_nil] at hPR
    exact ⟨d, by simp [addFromLoop], hId, rfl, hPR ▸ hT⟩
  | cons s R ih =>
    intro P d acc hPR hId hT
    have hsa : s ∈ a.simps := by rw [hPR]; simp
    have hPa : ∀ u ∈ P, u ∈ a.simps := fun u hu => by rw [hPR]; exact List.mem_append_left _ hu
    have hand : a.simps.Nodup := List.Nodup.of_map _ hIa.nodup
    have hsP : s ∉ P := by
      rw [hPR] at hand
      intro hin
      exact (List.nodup_append.mp hand).2.2 s hin s List.mem_cons_self rfl
    have hsorted := hIa.sorted
    rw [hPR, List.pairwise_append] at hsorted
    have hPle : ∀ u ∈ P, u.order ≤ s.order := fun u hu => hsorted.2.2 u hu s List.mem_cons_self
    have hdle : ∀ t ∈ d.simps, t.order ≤ s.order := by
      intro t ht
      obtain ⟨u, hu, hut⟩ := forall₂_mem_right hT t ht
      rw [hut.2.1]; exact hPle u hu
    have hPR' : a.simps = (P ++ [s]) ++ R := by rw [hPR]; simp
    have hfresh : d.contains s.name = false := by
      rw [contains_false_iff]
      intro t ht htn
      obtain ⟨u, hu, hut⟩ := forall₂_mem_right hT t ht
      have : u = s := hIa.name_inj (hPa u hu) hsa (hut.1.symm.trans htn)
      exact hsP (this ▸ hu)
    -- the step: the addition succeeds and appends a twin of `s`
    have hstep : ∃ d1 t, d.addSimplex s.faces s.name = .ok d1 ∧ Inv d1 ∧ d1.seq = d.seq ∧
        d1.simps = d.simps ++ [t] ∧ Twin s t := by
      rcases Nat.eq_zero_or_pos s.order with h0 | hpos
      · -- a point
        obtain ⟨hf0, hb0⟩ := hIa.point s hsa h0
        have hadd : d.addSimplex s.faces s.name = .ok { d with simps :=
            (insertSorted ⟨s.name, 0, [], [s.name]⟩ d.simps) } := by
          rw [hf0]
          unfold Cx.addSimplex
          simp only [List.length_nil, List.isEmpty_nil, if_true]
          rw [if_neg (by omega), if_neg (by simp [hfresh]), if_neg (by simp)]
          have : ¬ ((0 - 1 : Nat) : Int) > d.maxOrder + 1 := by
            have : (-1 : Int) ≤ d.maxOrder := by
              unfold Cx.maxOrder; cases d.simps.getLast? <;> simp
            simp; omega
          rw [if_neg this]
        refine ⟨_, ⟨s.name, 0, [], [s.name]⟩, hadd, addSimplex_ok_inv hId (Or.inl hf0) hadd, rfl, ?_, ?_⟩
        · exact insertSorted_of_le (fun x hx => by have := hdle x hx; show x.order ≤ 0; omega)
        · exact ⟨rfl, h0.symm, by simp [hf0], by simp [hb0]⟩
      · -- a higher simplex: all its faces are earlier simplices of `a`, hence have twins in `d`
        obtain ⟨fn, fl, fex, bn, bl, biff⟩ := hIa.higher s hsa hpos
        have hfaceTwin : ∀ f ∈ s.faces, ∃ u ∈ a.simps, u.name = f ∧ u.order + 1 = s.order ∧
            ∃ t ∈ d.simps, Twin u t := by
          intro f hf
          obtain ⟨u, hu, hun, huo⟩ := fex f hf
          refine ⟨u, hu, hun, huo, ?_⟩
          have huP : u ∈ P := by
            rw [hPR] at hu
            rcases List.mem_append.mp hu with h | h
            · exact h
            · exfalso
              rcases List.mem_cons.mp h with rfl | h'
              · omega
              · have := (List.pairwise_cons.mp hsorted.2.1).1 u h'
                omega
          exact forall₂_mem_left hT u huP
        obtain ⟨c'', fs', bs, hadd, hI'', hsimps'', hfs, hbs, hseq⟩ := addFacets (cN := d) (fs := s.faces)
          (nm := s.name) (k := s.order) (B := s.pts) hId hpos fn fl
          (by
            intro f hf
            obtain ⟨u, hu, hun, huo, t, ht, htw⟩ := hfaceTwin f hf
            refine ⟨t, ht, htw.1.trans hun, by rw [htw.2.1]; omega, ?_⟩
            rw [htw.pts]
            exact ((hIa.faces_are_facets hsa hu hpos).mp (hun ▸ hf)).2)
          (by
            intro x hx
            rw [Simp.pts, List.mem_toFinset] at hx
            obtain ⟨f, hf, u, hu, hun, hxu⟩ := (biff x).mp hx
            obtain ⟨u', hu', hun', -, t, ht, htw⟩ := hfaceTwin f hf
            have : u' = u := hIa.name_inj hu' hu (hun'.trans hun.symm)
            subst this
            exact ⟨f, hf, t, ht, htw.1.trans hun, by rw [htw.pts, Simp.pts, List.mem_toFinset]; exact hxu⟩)
          (hIa.pts_card hsa) hfresh
          (by
            intro t ht
            by_contra hcon
            have heq : setEqB t.faces s.faces = true := by simpa using hcon
            unfold Cx.ofOrder at ht
            rw [List.mem_filter] at ht
            obtain ⟨ht1, ht2⟩ := ht
            have hto : t.order = s.order := by simpa using ht2
            obtain ⟨u, hu, hut⟩ := forall₂_mem_right hT t ht1
            have hua := hPa u hu
            have huo : u.order = s.order := hut.2.1.symm.trans hto
            -- `u` and `s` have the same faces, hence the same points, hence are the same simplex
            have hfeq : ∀ f, f ∈ u.faces ↔ f ∈ s.faces := by
              intro f
              have := Finset.ext_iff.mp (setEqB_iff.mp heq) f
              simp only [List.mem_toFinset] at this
              exact (hut.2.2.1 f).symm.trans this
            obtain ⟨-, -, -, -, -, biffu⟩ := hIa.higher u hua (by omega)
            have : u = s := by
              apply hIa.uniq u hua s hsa huo
              intro p
              rw [biffu p, biff p]
              constructor
              · rintro ⟨f, hf, r⟩; exact ⟨f, (hfeq f).mp hf, r⟩
              · rintro ⟨f, hf, r⟩; exact ⟨f, (hfeq f).mpr hf, r⟩
            exact hsP (this ▸ hu))
        refine ⟨c'', ⟨s.name, s.order, fs', bs⟩, hadd, hI'', hseq, ?_, ?_⟩
        · rw [hsimps'']; exact insertSorted_of_le hdle
        · refine ⟨rfl, rfl, ?_, ?_⟩
          · intro f
            have := Finset.ext_iff.mp hfs f
            simpa only [List.mem_toFinset] using this
          · intro p
            have := Finset.ext_iff.mp hbs p
            simpa only [Simp.pts, List.mem_toFinset] using this
    obtain ⟨d1, t, hadd, hI1, hseq1, hsimps1, htw⟩ := hstep
    obtain ⟨d', hrun, hI', hseq', hT'⟩ := ih (P ++ [s]) d1 (acc ++ [s.name]) hPR' hI1
      (by rw [hsimps1]; exact forall₂_append_single hT htw)
    refine ⟨d', ?_, hI', hseq'.trans hseq1, hT'⟩
    unfold addFromLoop
    simp only [id, bne_self_eq_false, Bool.false_and, Bool.false_eq_true, if_false]
    rw [List.map_id, hadd]
    simp only
    rw [hrun]
    simp

/-- **C09 (copy)**: copying a valid complex into a new one always succeeds, returns the names in listing
order, and produces a valid complex with a fresh name counter that is the source simplex by simplex: same
length, and position by position the same name, the same order, the same faces and the same basis points
(as sets: the copy stores them in its own canonical order). -/
theorem copyNew_spec {a : C} (hI : Inv a) :
    ∃ a', copyNew a = (.ok a.names, a') ∧ Inv a' ∧ a'.seq = 0 ∧ Forall₂ Twin a.simps a'.simps := by
  obtain ⟨d', hrun, hI', hseq, hT⟩ := addFromLoop_id_spec hI a.simps [] emptyC [] (by simp) emptyC_inv
    (by exact Forall₂.nil)
  refine ⟨d', ?_, hI', hseq, hT⟩
  unfold copyNew addFrom
  rw [hrun]
  simp [Cx.names]

/-- the same with the stored lists compared as permutations (no repeats on either side) -/
theorem copyNew_perm {a : C} (hI : Inv a) :
    ∃ a', copyNew a = (.ok a.names, a') ∧ Inv a' ∧ a'.seq = 0 ∧
      Forall₂ (fun s t => t.name = s.name ∧ t.order = s.order ∧ t.faces.Perm s.faces ∧ t.basis.Perm s.basis)
        a.simps a'.simps := by
  obtain ⟨a', h1, hI', h3, hT⟩ := copyNew_spec hI
  refine ⟨a', h1, hI', h3, forall₂_imp_mem hT ?_⟩
  intro s hs t ht htw
  refine ⟨htw.1, htw.2.1, ?_, ?_⟩
  · exact (List.perm_ext_iff_of_nodup (hI'.faces_len ht).1 (hI.faces_len hs).1).mpr htw.2.2.1
  · exact (List.perm_ext_iff_of_nodup (hI'.basis_card ht).1 (hI.basis_card hs).1).mpr htw.2.2.2

/-! ## C10: every copy equals its source -/

theorem twin_subSpec {a a' : C} (hT : Forall₂ Twin a.simps a'.simps) :
    SubSpec a a' ∧ SubSpec a' a ∧ a.simps.length = a'.simps.length := by
  refine ⟨?_, ?_, hT.length_eq⟩
  · intro s hs
    obtain ⟨t, ht, htw⟩ := forall₂_mem_left hT s hs
    exact ⟨t, ht, htw.1, htw.2.1, fun f => (htw.2.2.1 f).symm⟩
  · intro t ht
    obtain ⟨s, hs, htw⟩ := forall₂_mem_right hT t ht
    exact ⟨s, hs, htw.1.symm, htw.2.1.symm, htw.2.2.1⟩

/-- **C10 (copy)**: a copy compares equal to its source, in both directions -/
theorem copy_eq {a : C} (hI : Inv a) :
    Flat.eq a (copyNew a).2 = true ∧ Flat.eq (copyNew a).2 a = true := by
  obtain ⟨a', h1, hI', -, hT⟩ := copyNew_spec hI
  rw [h1]
  obtain ⟨s1, s2, hl⟩ := twin_subSpec hT
  exact ⟨(eq_iff hI hI').mpr ⟨s1, hl⟩, (eq_iff hI' hI).mpr ⟨s2, hl.symm⟩⟩

/-- hence also `a ≤ copy`, `copy ≤ a`, and neither `<` -/
theorem copy_le_not_lt {a : C} (hI : Inv a) :
    Flat.le a (copyNew a).2 = true ∧ Flat.le (copyNew a).2 a = true ∧
    Flat.lt a (copyNew a).2 = false ∧ Flat.lt (copyNew a).2 a = false ∧ Flat.ne a (copyNew a).2 = false := by
  obtain ⟨a', h1, hI', -, hT⟩ := copyNew_spec hI
  obtain ⟨e1, e2⟩ := copy_eq hI
  rw [h1] at e1 e2 ⊢
  obtain ⟨s1, s2, hl⟩ := twin_subSpec hT
  refine ⟨(isSub_iff hI hI').mpr s1, (isSub_iff hI' hI).mpr s2, ?_, ?_, ?_⟩
  · unfold Flat.lt; simp [hl]
  · unfold Flat.lt; simp [hl]
  · unfold Flat.ne; simp [e1]

/-! ## C16: `compose` into a new complex -/

theorem twin_lookup {a d0 : C} (hT : Forall₂ Twin a.simps d0.simps) (n : Name) :
    d0.contains n = a.contains n ∧ d0.orderOf? n = a.orderOf? n := by
  have h := forall₂_find? (p := fun s => s.name == n) (q := fun s => s.name == n) hT
    (fun x y hxy => by simp only [hxy.1])
  unfold Cx.contains Cx.orderOf? Cx.lookup
  rcases h with ⟨h1, h2⟩ | ⟨x, y, h1, h2, hxy⟩
  · rw [h1, h2]; exact ⟨rfl, rfl⟩
  · rw [h1, h2]; exact ⟨rfl, by simp [hxy.2.1]⟩

theorem twin_simplexWithBasis {a d0 : C} (hT : Forall₂ Twin a.simps d0.simps) (bs : List Name) :
    simplexWithBasis d0 bs = simplexWithBasis a bs := by
  unfold simplexWithBasis
  have hfun : (fun b => d0.orderOf? b == some 0) = (fun b => a.orderOf? b == some 0) :=
    funext fun b => by rw [(twin_lookup hT b).2]
  rw [hfun]
  split_ifs
  · rfl
  · match bs with
    | [] => rfl
    | [_] => rfl
    | b1 :: b2 :: tl =>
      simp only
      have hF : Forall₂ Twin (a.ofOrder ((b1 :: b2 :: tl).length - 1)) (d0.ofOrder ((b1 :: b2 :: tl).length - 1)) :=
        forall₂_filter hT (fun x y hxy => by simp only [hxy.2.1])
      have h := forall₂_find? (p := fun s => setEqB s.basis (b1 :: b2 :: tl))
        (q := fun s => setEqB s.basis (b1 :: b2 :: tl)) hF
        (fun x y hxy => by
          rw [Bool.eq_iff_iff, setEqB_iff, setEqB_iff]
          have : y.basis.toFinset = x.basis.toFinset := hxy.pts
          rw [this])
      rcases h with ⟨h1, h2⟩ | ⟨x, y, h1, h2, hxy⟩
      · rw [h1, h2]
      · rw [h1, h2]; simp [hxy.1]

/-- the compose loop only consults its first argument through `contains` and `simplexWithBasis` -/
theorem composeLoop_congr {a a' : C} (hc : ∀ n, a'.contains n = a.contains n)
    (hs : ∀ bs, simplexWithBasis a' bs = simplexWithBasis a bs) :
    ∀ (R : List (Simp Name)) (d : C), composeLoop a' d R = composeLoop a d R := by
  intro R
  induction R with
  | nil => intro d; rfl
  | cons s R ih =>
    intro d
    unfold composeLoop
    simp only [hc, hs]
    split_ifs
    · cases simplexWithBasis a s.basis with
      | none => rfl
      | some n => simp only [ih]
    · cases simplexWithBasis a s.basis with
      | some n => rfl
      | none =>
        simp only
        cases d.addSimplex s.faces s.name with
        | error e => rfl
        | ok d' => exact ih d'

theorem twin_compatible {a d0 b : C} (hT : Forall₂ Twin a.simps d0.simps) : Compatible d0 b ↔ Compatible a b := by
  constructor
  · intro h
    refine ⟨?_, ?_⟩
    · intro s hs t ht hn
      obtain ⟨t', ht', htw⟩ := forall₂_mem_left hT t ht
      rw [← htw.pts]; exact h.name_pts s hs t' ht' (htw.1.trans hn)
    · intro s hs t ht hp
      obtain ⟨t', ht', htw⟩ := forall₂_mem_left hT t ht
      rw [← htw.1]; exact h.pts_name s hs t' ht' (htw.pts.trans hp)
  · intro h
    refine ⟨?_, ?_⟩
    · intro s hs t' ht' hn
      obtain ⟨t, ht, htw⟩ := forall₂_mem_right hT t' ht'
      rw [htw.pts]; exact h.name_pts s hs t ht (htw.1.symm.trans hn)
    · intro s hs t' ht' hp
      obtain ⟨t, ht, htw⟩ := forall₂_mem_right hT t' ht'
      rw [htw.1]; exact h.pts_name s hs t ht (htw.pts.symm.trans hp)

theorem addSimplex_seq {c c' : C} {fs : List Name} {id : Name} (h : c.addSimplex fs id = .ok c') :
    c'.seq = c.seq := by
  unfold Cx.addSimplex at h
  simp only at h
  split_ifs at h <;> cases h <;> rfl

theorem composeLoop_seq {a : C} : ∀ (R : List (Simp Name)) (d d' : C), composeLoop a d R = .ok d' → d'.seq = d.seq := by
  intro R
  induction R with
  | nil => intro d d' h; unfold composeLoop at h; injection h with h; rw [h]
  | cons s R ih =>
    intro d d' h
    unfold composeLoop at h
    simp only at h
    split_ifs at h
    · cases hq : simplexWithBasis a s.basis with
      | none => rw [hq] at h; cases h
      | some n =>
        rw [hq] at h; simp only at h
        split_ifs at h
        exact ih d d' h
    · cases hq : simplexWithBasis a s.basis with
      | some n => rw [hq] at h; cases h
      | none =>
        rw [hq] at h; simp only at h
        cases hadd : d.addSimplex s.faces s.name with
        | error e => rw [hadd] at h; cases h
        | ok d1 =>
          rw [hadd] at h
          exact (ih d1 d' h).trans (addSimplex_seq hadd)

/-- `composeNew a b` is `compose` run on the copy of `a` -/
theorem composeNew_eq {a b : C} (hIa : Inv a) :
    ∃ d0, copyNew a = (.ok a.names, d0) ∧ Inv d0 ∧ d0.seq = 0 ∧ Forall₂ Twin a.simps d0.simps ∧
      composeNew a b = compose d0 b := by
  obtain ⟨d0, h1, hI0, hseq, hT⟩ := copyNew_spec hIa
  refine ⟨d0, h1, hI0, hseq, hT, ?_⟩
  unfold composeNew compose
  rw [h1]
  simp only
  exact (composeLoop_congr (fun n => (twin_lookup hT n).1) (twin_simplexWithBasis hT) b.simps d0).symm

/-- **C16 (compose into a new complex)**: `composeNew a b` succeeds exactly when the operands are compatible
(a shared name means the same point set and vice versa); the result is then a valid complex with a fresh name
counter that contains a twin of every simplex of `a` (same name, order, faces, basis), a simplex with the name
and the point set of every simplex of `b`, and nothing else. -/
theorem composeNew_spec {a b : C} (hIa : Inv a) (hIb : Inv b) :
    ((∃ d, composeNew a b = .ok d) ↔ Compatible a b) ∧
    ∀ d, composeNew a b = .ok d →
      Inv d ∧ d.seq = 0 ∧
      (∀ s ∈ a.simps, ∃ t ∈ d.simps, Twin s t) ∧
      (∀ s ∈ b.simps, ∃ t ∈ d.simps, t.name = s.name ∧ t.pts = s.pts ∧ t.order = s.order) ∧
      (∀ t ∈ d.simps, (∃ s ∈ a.simps, Twin s t) ∨
          ∃ s ∈ b.simps, s.name = t.name ∧ s.pts = t.pts ∧ s.order = t.order) := by
  obtain ⟨d0, -, hI0, hseq0, hT, heq⟩ := composeNew_eq (b := b) hIa
  rw [heq]
  refine ⟨(compose_ok_iff hI0 hIb).trans (twin_compatible hT), ?_⟩
  intro d hd
  have hc : Compatible d0 b := (compose_ok_iff hI0 hIb).mp ⟨d, hd⟩
  obtain ⟨d', hd', hId, hsub, hsrc, hdone⟩ := compose_union hI0 hIb hc
  rw [hd] at hd'
  injection hd' with hd'
  subst hd'
  refine ⟨hId, ?_, ?_, ?_, ?_⟩
  · rw [composeLoop_seq b.simps d0 d hd, hseq0]
  · intro s hs
    obtain ⟨t, ht, htw⟩ := forall₂_mem_left hT s hs
    exact ⟨t, hsub.subset ht, htw⟩
  · intro s hs
    obtain ⟨t, ht, h1, h2⟩ := hdone s hs
    refine ⟨t, ht, h1, h2, ?_⟩
    have e1 := hId.pts_card ht; have e2 := hIb.pts_card hs
    rw [h2] at e1; omega
  · intro t ht
    rcases hsrc t ht with h | ⟨s, hs, h1, h2, h3⟩
    · obtain ⟨s, hs, htw⟩ := forall₂_mem_right hT t h
      exact Or.inl ⟨s, hs, htw⟩
    · exact Or.inr ⟨s, hs, h1, h2.symm, h3.symm⟩

/-! ## C17: deletion makes the complex strictly smaller; `==` is symmetric -/

/-- **C17 (strict order)**: deleting any simplex of a valid complex yields a valid complex that is strictly
below the original: `c' < c`, hence also `c' <= c`, `c > c'`, `c' != c` -/
theorem delete_lt {c : C} (hI : Inv c) {n : Name} (hn : c.contains n = true) :
    ∃ c', deleteSimplex c n = some c' ∧ Inv c' ∧ Flat.lt c' c = true ∧ Flat.le c' c = true ∧
      Flat.gt c c' = true ∧ Flat.ne c' c = true := by
  classical
  obtain ⟨s, hs, rfl⟩ := contains_iff.mp hn
  obtain ⟨c', hdel, hI', hc'⟩ := deleteSimplex_spec hI hs
  have hsub : SubSpec c' c := by
    intro t ht
    rw [hc'] at ht
    exact ⟨t, (List.mem_filter.mp ht).1, rfl, rfl, fun _ => Iff.rfl⟩
  have hlen : c'.simps.length < c.simps.length := by
    rw [hc']
    apply List.length_filter_lt_length_iff_exists.mpr
    exact ⟨s, hs, by simp⟩
  have hlt : Flat.lt c' c = true := (lt_iff hI' hI).mpr ⟨hsub, hlen⟩
  refine ⟨c', hdel, hI', hlt, (isSub_iff hI' hI).mpr hsub, hlt, ?_⟩
  unfold Flat.ne Flat.eq
  have : ¬ c'.simps.length = c.simps.length := by omega
  simp [this]

/-- equal complexes have the same names -/
theorem eq_names_perm {a b : C} (ha : Inv a) (hb : Inv b) (h : Flat.eq a b = true) : a.names.Perm b.names := by
  obtain ⟨hsub, hlen⟩ := (eq_iff ha hb).mp h
  have hss : a.names ⊆ b.names := by
    intro n hn
    obtain ⟨s, hs, rfl⟩ := List.mem_map.mp hn
    obtain ⟨t, ht, htn, -⟩ := hsub s hs
    exact List.mem_map.mpr ⟨t, ht, htn⟩
  apply (List.subperm_of_subset ha.nodup hss).perm_of_length_le
  simp [Cx.names, hlen]

/-- **C17 (`==` is symmetric)** -/
theorem eq_symm {a b : C} (ha : Inv a) (hb : Inv b) (h : Flat.eq a b = true) : Flat.eq b a = true := by
  obtain ⟨hsub, hlen⟩ := (eq_iff ha hb).mp h
  have hperm := eq_names_perm ha hb h
  refine (eq_iff hb ha).mpr ⟨?_, hlen.symm⟩
  intro t ht
  have : t.name ∈ a.names := hperm.symm.subset (List.mem_map.mpr ⟨t, ht, rfl⟩)
  obtain ⟨s, hs, hsn⟩ := List.mem_map.mp this
  obtain ⟨t', ht', htn, hto, hf⟩ := hsub s hs
  have : t' = t := hb.name_inj ht' ht (htn.trans hsn)
  subst this
  exact ⟨s, hs, hsn, hto.symm, fun f => (hf f).symm⟩

theorem eq_comm' {a b : C} (ha : Inv a) (hb : Inv b) : Flat.eq a b = Flat.eq b a := by
  rw [Bool.eq_iff_iff]; exact ⟨eq_symm ha hb, eq_symm hb ha⟩

/-- a simplex of one complex whose name is unknown in the other makes them unequal, whichever way round -/
theorem top_differs_ne {a b : C} (ha : Inv a) (hb : Inv b) {t : Simp Name} (ht : t ∈ b.simps)
    (hn : a.contains t.name = false) : Flat.eq a b = false ∧ Flat.eq b a = false ∧ Flat.ne a b = true := by
  have h1 : Flat.eq a b = false := by
    rw [← Bool.not_eq_true]
    intro h
    have : t.name ∈ a.names := (eq_names_perm ha hb h).symm.subset (List.mem_map.mpr ⟨t, ht, rfl⟩)
    obtain ⟨s, hs, hsn⟩ := List.mem_map.mp this
    rw [contains_false_iff] at hn
    exact hn s hs hsn
  refine ⟨h1, by rw [← eq_comm' ha hb]; exact h1, by unfold Flat.ne; simp [h1]⟩

/-! ## non-vacuity: concrete valid complexes on which the hypotheses hold and the operations do something -/

/-- build a complex by successive `addSimplex` calls, checking the contract of each call -/
def buildC : C → List (List Name × Name) → Option C
  | c, [] => some c
  | c, (fs, n) :: rest =>
    if fs = [] ∨ (dedupL (fs.flatMap c.basisOf)).length = fs.length then
      match c.addSimplex fs n with
      | .ok c' => buildC c' rest
      | .error _ => none
    else none

theorem buildC_inv : ∀ (steps : List (List Name × Name)) (c c' : C), Inv c → buildC c steps = some c' → Inv c' := by
  intro steps
  induction steps with
  | nil => intro c c' hI h; simp only [buildC, Option.some.injEq] at h; exact h ▸ hI
  | cons st rest ih =>
    intro c c' hI h
    obtain ⟨fs, n⟩ := st
    unfold buildC at h
    split_ifs at h with hc
    cases hadd : c.addSimplex fs n with
    | error e => rw [hadd] at h; cases h
    | ok c1 =>
      rw [hadd] at h
      exact ih c1 c' (addSimplex_ok_inv hI hc hadd) h

/-- the full triangle on `u1 u2 u3` -/
def exA : C := (buildC emptyC [([], .u 1), ([], .u 2), ([], .u 3), ([.u 1, .u 2], .u 12), ([.u 1, .u 3], .u 13),
  ([.u 2, .u 3], .u 23), ([.u 12, .u 13, .u 23], .u 123)]).getD emptyC

/-- the path `u2 — u3 — u4`, sharing the edge `23` (same name, same points) with `exA` -/
def exB : C := (buildC emptyC [([], .u 2), ([], .u 3), ([], .u 4), ([.u 2, .u 3], .u 23), ([.u 3, .u 4], .u 34)]).getD emptyC

/-- the same path, but the name `23` now denotes the edge `u3 — u4`: not compatible with `exA` -/
def exB' : C := (buildC emptyC [([], .u 2), ([], .u 3), ([], .u 4), ([.u 3, .u 4], .u 23)]).getD emptyC

theorem exA_inv : Inv exA := buildC_inv _ _ _ emptyC_inv (by rfl :
  buildC emptyC [([], .u 1), ([], .u 2), ([], .u 3), ([.u 1, .u 2], .u 12), ([.u 1, .u 3], .u 13),
    ([.u 2, .u 3], .u 23), ([.u 12, .u 13, .u 23], .u 123)] = some exA)
theorem exB_inv : Inv exB := buildC_inv _ _ _ emptyC_inv (by rfl :
  buildC emptyC [([], .u 2), ([], .u 3), ([], .u 4), ([.u 2, .u 3], .u 23), ([.u 3, .u 4], .u 34)] = some exB)
theorem exB'_inv : Inv exB' := buildC_inv _ _ _ emptyC_inv (by rfl :
  buildC emptyC [([], .u 2), ([], .u 3), ([], .u 4), ([.u 3, .u 4], .u 23)] = some exB')

-- copyNew_spec / copy_eq: `Inv exA` holds, the complex has 7 simplices of orders 0..2, the copy is made
example : Inv exA := exA_inv
example : exA.simps.length = 7 ∧ (copyNew exA).1 = .ok exA.names ∧ (copyNew exA).2.simps = exA.simps := by
  refine ⟨?_, ?_, ?_⟩ <;> rfl
example : Flat.eq exA (copyNew exA).2 = true ∧ Flat.eq (copyNew exA).2 exA = true := copy_eq exA_inv

-- composeNew_spec: both hypotheses hold; a compatible pair succeeds with the 9-simplex union, an incompatible one raises
example : Inv exA ∧ Inv exB ∧ ∃ d, composeNew exA exB = .ok d ∧ d.simps.length = 9 :=
  ⟨exA_inv, exB_inv, _, rfl, rfl⟩
example : Compatible exA exB := ((composeNew_spec exA_inv exB_inv).1).mp ⟨_, rfl⟩
example : Inv exB' ∧ composeNew exA exB' = .error .value := ⟨exB'_inv, rfl⟩
example : ¬ Compatible exA exB' := fun h => by
  obtain ⟨d, hd⟩ := ((composeNew_spec exA_inv exB'_inv).1).mpr h
  have : composeNew exA exB' = .error .value := rfl
  rw [this] at hd; cases hd

-- delete_lt: deleting the edge `12` of the triangle removes it and the 2-simplex
example : exA.contains (.u 12) = true ∧ (deleteSimplex exA (.u 12)).map (·.simps.length) = some 5 := by
  constructor <;> rfl

-- eq_symm / top_differs_ne: hypotheses hold for (`exA`, its copy) and for (`exA`, `exB`, the point `u4`)
example : Inv (copyNew exA).2 ∧ Flat.eq exA (copyNew exA).2 = true := by
  obtain ⟨a', h1, hI', -, -⟩ := copyNew_spec exA_inv
  exact ⟨by rw [h1]; exact hI', (copy_eq exA_inv).1⟩
example : (⟨.u 4, 0, [], [.u 4]⟩ : Simp Name) ∈ exB.simps ∧ exA.contains (.u 4) = false := by
  constructor
  · decide
  · rfl

end Flat
