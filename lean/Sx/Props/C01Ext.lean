import Sx.Model
import Sx.Props.Common
import Sx.Props.C01
import Sx.Props.AddFrom
import Sx.Props.ComposeInto
import Sx.Props.Generators
import Sx.Props.Flag
import Sx.Proofs.FlatRelabel
import Sx.Proofs.FlatCanon
import Sx.Proofs.FlagPass
import Sx.Proofs.FlagCombos
import Sx.Proofs.Compose
import Mathlib.Tactic.SplitIfs
import Mathlib.Data.List.Basic

/-! # C01, extended — every state-changing command of the driver keeps the complex valid

`Sx/Props/C01.lean` proves "every reachable complex is valid" for eleven public mutators. The driver has five
more commands that change the structure of a plain complex:

* `relabel1`   → `relabelOneOp`  → `Cx.relabelSimplex s q`              (`relabelSimplex(s, q)`)
* `grow`       → `growOp`        → `growFlagQ c es`                     (`growFlagComplex(es)`)
* `copyinto`   → `copyIntoOp`    → `copyInto src c`  (`addFrom c src id`) (`src.copy(c)`, this complex = target)
* `composeinto`→ `composeIntoOp` → `composeInto a b c`                  (`a.compose(b, c)`, this complex = target)
* `ksimplex`, `kvoid`, `kskel`, `ring` → `genOp` → `kSimplex`/`kVoid`/`kSkeleton`/`ring` into this complex.

`OpX` embeds `C01.Op` and adds these; `stepX` is the state the model function returns, on success and on error
(`copyInto`, `composeInto`, `growFlagQ` return a state in both cases: what a non-atomic Python call leaves
behind; `relabelSimplex` and the generators return no state when they raise and the driver keeps the object as
it was: `stepX` is the input state then; for `k_simplex`, where Python has already added the basis points when it
raises, the state Python is left with is `kSimplexLeft`, and `kSimplexLeft_inv` covers it).

Results: `stepX_inv`, `runX_inv`, `reachableX_inv`, `reachableX_checkInv`. The only hypotheses on the new
commands are that the OTHER complexes handed to the call are valid (`Inv src`, `Inv a ∧ Inv b`): each is shown
to be necessary by an example. `relabelSimplex`, `growFlagComplex` and the generators need nothing: in
particular `growFlagComplex` keeps ANY valid complex valid, whatever names it is given (`growFlagQ_inv`; the
flag-complex hypotheses of `growFlagQ_spec` are needed for "the result is the flag complex", not for validity),
and `compose(b, d)` keeps ANY valid target valid, also one that shares names with `a` or `b`
(`composeInto_inv`; the disjointness hypotheses of `composeInto_spec` are needed for success, not for
validity). -/
namespace Flat.C01X
open List Flat.C01

/-! ## `relabelSimplex(s, q)` -/

/-- the state after `relabelSimplex(s, q)` (the model function returns no state when it raises: the Python
code checks `q` and looks `s` up before it changes anything) -/
def relabelOneState (c : C) (s q : Name) : C := (c.relabelSimplex s q).getD c

/-- accepted or rejected (`q` in use — which includes `q = s` for a known `s` — or `s` unknown), the complex
stays valid -/
theorem relabelOne_inv {c : C} (hI : Inv c) (s q : Name) : Inv (relabelOneState c s q) := by
  unfold relabelOneState
  cases h : c.relabelSimplex s q with
  | none => exact hI
  | some c' => exact relabelSimplex_inv hI h

/-! ## `growFlagComplex(es)` keeps every valid complex valid -/

/-- one pass over the candidates at order `k ≥ 2` never raises on a valid complex and leaves a valid complex -/
theorem passLoop_inv (newPrev : List Name) {k : Nat} (hk : 2 ≤ k) {c : C} (hI : Inv c) (newK : List Name) :
    ∃ added c', passLoop newPrev c newK (combosL (k + 1) (c.ofOrder (k - 1))) = (.ok added, c') ∧ Inv c' := by
  have hP0 : PassInv k (c.ofOrder (k - 1)) c c := ⟨hI, List.Sublist.refl _, fun t ht => Or.inl ht, rfl⟩
  obtain ⟨added, c', hrun, hP, -⟩ := passLoop_spec newPrev hk (c.ofOrder (k - 1)) c
    (combosL (k + 1) (c.ofOrder (k - 1))) c newK hP0 (fun cand hc => combosL_mem.mp hc)
  exact ⟨_, c', hrun, hP.inv⟩

/-- the `while` loop of `_completePotentialSimplices`, for ANY seed `nss`, bound `maxk` and fuel -/
theorem completeLoop_inv : ∀ (fuel : Nat) (c : C) (nss : List (Nat × List Name)) (k maxk : Nat),
    1 ≤ k → Inv c → Inv (completeLoop fuel c nss k maxk).2 := by
  intro fuel
  induction fuel with
  | zero => intro c nss k maxk _ hI; exact hI
  | succ fuel ih =>
    intro c nss k maxk hk1 hI
    unfold completeLoop
    by_cases hk : k ≤ maxk + 1
    · rw [if_pos hk]
      simp only
      have e1 : k + 1 - 1 = k := by omega
      rw [e1]
      cases hget : nssGet nss k with
      | none => exact ih c nss (k + 1) maxk (by omega) hI
      | some newPrev =>
        cases newPrev with
        | nil => exact ih c nss (k + 1) maxk (by omega) hI
        | cons x xs =>
          simp only
          obtain ⟨added, c', hrun, hI'⟩ := passLoop_inv (x :: xs) (k := k + 1) (by omega) hI []
          rw [e1] at hrun
          rw [hrun]
          exact ih c' _ (k + 1) _ (by omega) hI'
    · rw [if_neg hk]; exact hI

theorem complete_inv {c : C} (hI : Inv c) (nss : List (Nat × List Name)) : Inv (complete c nss).2 := by
  unfold complete
  cases nss with
  | nil => exact hI
  | cons p ps => exact completeLoop_inv _ c _ 1 _ (Nat.le_refl 1) hI

/-- **`growFlagComplex(es)` on any valid complex** — flag complex or not, `es` edges or not, known names or
not — leaves a valid complex -/
theorem growFlagQ_inv {c : C} (hI : Inv c) (es : List Name) : Inv (growFlagQ c es).2 := by
  unfold growFlagQ
  split_ifs
  · unfold growFlag; exact complete_inv hI _
  · exact hI

/-! ## `src.copy(c)` -/

/-- accepted, rejected (a shared name), or stopped half-way: the target stays valid when the source is valid -/
theorem copyInto_inv {src d : C} (hIs : Inv src) (hId : Inv d) : Inv (copyInto src d).2 := by
  unfold copyInto
  split_ifs
  · exact hId
  · exact addFrom_inv hId hIs id

/-- the driver's `copyIntoOp` makes the check itself and then calls `addFromOp … []`, i.e. `addFrom` with the
renaming `renameOf []`: the same state as `copyInto` -/
theorem copyIntoOp_state (src d : C) :
    (if src.names.any d.contains then d else (addFrom d src (renameOf [])).2) = (copyInto src d).2 := by
  have : renameOf [] = id := by funext n; rfl
  unfold copyInto
  rw [this]
  split_ifs <;> rfl

/-! ## `a.compose(b, d)` on an arbitrary valid target -/

/-- `t` carries the name and the points of `s` -/
def PT (s t : Simp Name) : Prop := t.name = s.name ∧ t.pts = s.pts

/-- one successful `addSimplex(fs = faces of s, id = name of s)` for a simplex `s` of a valid complex `x`, on a
valid complex `dc` in which every face of `s` is the name of a simplex on the points of that face: the result
is valid, and the new simplex is on the points of `s` -/
theorem add_pt {x dc d1 : C} (hIx : Inv x) (hId : Inv dc) {s : Simp Name} (hs : s ∈ x.simps)
    (hfaces : ∀ u ∈ x.simps, u.name ∈ s.faces → ∃ t ∈ dc.simps, PT u t)
    (hadd : dc.addSimplex s.faces s.name = .ok d1) :
    Inv d1 ∧ ∃ t, d1.simps = insertSorted t dc.simps ∧ PT s t := by
  classical
  rcases Nat.eq_zero_or_pos s.order with h0 | hpos
  · obtain ⟨hf0, hb0⟩ := hIx.point s hs h0
    rw [hf0] at hadd
    have hfr : dc.contains s.name = false := by
      cases hc : dc.contains s.name with
      | false => rfl
      | true =>
        obtain ⟨e, he⟩ := af_addSimplex_used dc [] hc
        rw [he] at hadd; cases hadd
    obtain ⟨d1', hadd', hI1, hs1⟩ := addPoint_spec hId hfr
    rw [hadd] at hadd'
    injection hadd' with e; subst e
    exact ⟨hI1, _, hs1, rfl, by simp [Simp.pts, hb0]⟩
  · obtain ⟨fn, fl, fex, bn, bl, biff⟩ := hIx.higher s hs hpos
    have hfaceT : ∀ f ∈ s.faces, ∃ u ∈ x.simps, u.name = f ∧ ∃ t ∈ dc.simps, PT u t := by
      intro f hf
      obtain ⟨u, hu, hun, -⟩ := fex f hf
      exact ⟨u, hu, hun, hfaces u hu (by rw [hun]; exact hf)⟩
    have hfaceN : ∀ f ∈ s.faces, ∃ t ∈ dc.simps, t.name = f := by
      intro f hf
      obtain ⟨u, -, hun, t, ht, htn, -⟩ := hfaceT f hf
      exact ⟨t, ht, htn.trans hun⟩
    have hbasisOf : ∀ t ∈ dc.simps, dc.basisOf t.name = t.basis := by
      intro t ht; unfold Cx.basisOf; rw [lookup_of_mem hId ht]; rfl
    have hunion : (dedupL (s.faces.flatMap dc.basisOf)).toFinset = s.pts := by
      ext p
      simp only [List.mem_toFinset, mem_dedupL, List.mem_flatMap, Simp.pts]
      constructor
      · rintro ⟨f, hf, hp⟩
        obtain ⟨u, hu, hun, t, ht, htn, htp⟩ := hfaceT f hf
        rw [← hun, ← htn, hbasisOf t ht] at hp
        have hpu : p ∈ u.basis := by
          have : p ∈ t.pts := by rw [Simp.pts, List.mem_toFinset]; exact hp
          rw [htp, Simp.pts, List.mem_toFinset] at this; exact this
        exact (biff p).mpr ⟨f, hf, u, hu, hun, hpu⟩
      · intro hp
        obtain ⟨f, hf, u, hu, hun, hpu⟩ := (biff p).mp hp
        obtain ⟨u', hu', hun', t, ht, htn, htp⟩ := hfaceT f hf
        have : u' = u := hIx.name_inj hu' hu (hun'.trans hun.symm)
        subst this
        refine ⟨f, hf, ?_⟩
        rw [← hun, ← htn, hbasisOf t ht]
        have : p ∈ u'.pts := by rw [Simp.pts, List.mem_toFinset]; exact hpu
        rw [← htp, Simp.pts, List.mem_toFinset] at this; exact this
    have hcontract : Flat.InContract dc s.faces := by
      right
      rw [← List.toFinset_card_of_nodup (nodup_dedupL _), hunion, hIx.pts_card hs, fl]
    refine ⟨addSimplex_ok_inv hId hcontract hadd, ?_⟩
    have hcb := canonBasis_toFinset hId hfaceN
    have hne : s.faces.isEmpty = false := by
      cases hsf : s.faces with
      | nil => rw [hsf] at fl; simp at fl
      | cons f fs => rfl
    unfold Cx.addSimplex at hadd
    simp only [hne] at hadd
    split_ifs at hadd
    · contradiction
    · cases hadd
      exact ⟨_, rfl, rfl, by rw [Simp.pts]; simp only; rw [hcb, hunion]⟩

/-- the target while the loop of `compose(b, d)` runs, after the prefix `P` of `b` has been processed: valid;
every simplex of `a` is there under its name and on its points (the copy made first); so is every simplex of
`P` (merged with the copy of `a`'s, or added) -/
structure CInv (a : C) (P : List (Simp Name)) (dc : C) : Prop where
  inv : Inv dc
  fromA : ∀ u ∈ a.simps, ∃ t ∈ dc.simps, PT u t
  done : ∀ u ∈ P, ∃ t ∈ dc.simps, PT u t

/-- the loop of `compose(b, d)`: whatever the target contains besides the copy of `a`, and wherever the loop
stops, the target is valid -/
theorem composeIntoLoop_inv {a b : C} (hIa : Inv a) (hIb : Inv b) :
    ∀ (R P : List (Simp Name)) (dc : C) (m : List Name), b.simps = P ++ R → CInv a P dc →
      Inv (composeIntoLoop a dc m R).2.1 := by
  intro R
  induction R with
  | nil => intro P dc m _ hC; rw [composeIntoLoop]; exact hC.inv
  | cons s R ih =>
    intro P dc m hPR hC
    have hsb : s ∈ b.simps := by rw [hPR]; simp
    have hPR' : b.simps = (P ++ [s]) ++ R := by rw [hPR]; simp
    have hbasis := hIb.basis_card hsb
    have hbne : s.basis ≠ [] := by intro e; rw [e] at hbasis; simp at hbasis
    by_cases hst : stepOK a s
    · unfold stepOK at hst
      by_cases hin : a.contains s.name = true
      · rw [if_pos hin] at hst
        rw [composeIntoLoop_merge hin hst]
        refine ih (P ++ [s]) dc _ hPR' ⟨hC.inv, hC.fromA, ?_⟩
        intro u hu
        rcases List.mem_append.mp hu with h | h
        · exact hC.done u h
        · rw [List.mem_singleton] at h; subst h
          obtain ⟨t0, ht0, htn0, htp0⟩ := simplexWithBasis_sound hIa hbasis.1 hbne hst
          obtain ⟨t, ht, htn, htp⟩ := hC.fromA t0 ht0
          exact ⟨t, ht, htn.trans htn0, htp.trans htp0⟩
      · rw [if_neg hin] at hst
        have hin' : a.contains s.name = false := by simpa using hin
        cases hadd : dc.addSimplex s.faces s.name with
        | error e => rw [composeIntoLoop_add_err hin' hst hadd]; exact hC.inv
        | ok d1 =>
          rw [composeIntoLoop_add hin' hst hadd]
          have hsorted := hIb.sorted
          rw [hPR, List.pairwise_append] at hsorted
          have hfaces : ∀ u ∈ b.simps, u.name ∈ s.faces → ∃ t ∈ dc.simps, PT u t := by
            intro u hu hf
            have hpos : 0 < s.order := by
              rcases Nat.eq_zero_or_pos s.order with h0 | hp
              · rw [(hIb.point s hsb h0).1] at hf; cases hf
              · exact hp
            have huo := ((hIb.faces_are_facets hsb hu hpos).mp hf).1
            apply hC.done u
            rw [hPR] at hu
            rcases List.mem_append.mp hu with h | h
            · exact h
            · exfalso
              rcases List.mem_cons.mp h with rfl | h'
              · omega
              · have := (List.pairwise_cons.mp hsorted.2.1).1 u h'
                omega
          obtain ⟨hI1, t, hs1, hpt⟩ := add_pt hIb hC.inv hsb hfaces hadd
          have hmono : ∀ y ∈ dc.simps, y ∈ d1.simps := fun y hy => by
            rw [hs1]; exact mem_insertSorted.mpr (Or.inr hy)
          refine ih (P ++ [s]) d1 _ hPR' ⟨hI1, ?_, ?_⟩
          · intro u hu
            obtain ⟨y, hy, h⟩ := hC.fromA u hu
            exact ⟨y, hmono y hy, h⟩
          · intro u hu
            rcases List.mem_append.mp hu with h | h
            · obtain ⟨y, hy, h'⟩ := hC.done u h
              exact ⟨y, hmono y hy, h'⟩
            · rw [List.mem_singleton] at h; subst h
              exact ⟨t, by rw [hs1]; exact mem_insertSorted.mpr (Or.inl rfl), hpt⟩
    · rw [composeIntoLoop_bad hst]; exact hC.inv

/-- **`a.compose(b, d)` on ANY valid target** (names shared with `a` or `b` allowed), for valid `a`, `b`
(compatible or not): whether the call succeeds, is rejected by `self.copy(d)`, or raises in the loop with part
of `b` already added, the target is valid -/
theorem composeInto_inv {a b d : C} (hIa : Inv a) (hIb : Inv b) (hId : Inv d) : Inv (composeInto a b d).2.1 := by
  unfold composeInto
  have hcI := copyInto_inv hIa hId
  cases hcp : copyInto a d with
  | mk r d0 =>
    rw [hcp] at hcI
    cases r with
    | error e => exact hcI
    | ok l =>
      simp only
      refine composeIntoLoop_inv hIa hIb b.simps [] d0 [] (by simp) ⟨hcI, ?_, fun u hu => by cases hu⟩
      -- the copy succeeded: every simplex of `a` has its twin in `d0`
      unfold copyInto at hcp
      split_ifs at hcp
      · cases hcp
      · obtain ⟨P, R, hPR, -, -, -, -, -, -, hfwd, -, hcase⟩ := addFrom_prefix hId hIa id
        rw [hcp] at hfwd hcase
        rcases hcase with ⟨hR, -⟩ | ⟨s, R', -, -, herr⟩
        · subst hR
          rw [List.append_nil] at hPR
          intro u hu
          obtain ⟨t, ht, htw⟩ := hfwd u (hPR ▸ hu)
          have htw' := RTwin.id_iff.mp htw
          exact ⟨t, ht, htw'.1, htw'.pts⟩
        · simp only at herr; cases herr

/-! ## the generators into an existing complex -/

inductive GenKind
  | simplex | void | skeleton | ring
deriving DecidableEq, Repr

/-- what the driver's `genOp` runs on the structure of the target (`k` is the order for `k_simplex`, `k_void`,
`k_skeleton` and the number of points for `ring`; `id` is used by `k_simplex` only) -/
def genRun (kind : GenKind) (k : Nat) (id : Option Name) (c : C) : Except Err C :=
  match kind with
  | .simplex => (kSimplex k id c).map (·.2)
  | .void => kVoid k c
  | .skeleton => kSkeleton k c
  | .ring => ring k c

/-- the state after a generator call (the model functions return no state when they raise, and `genOp` keeps
the object as it was) -/
def genState (c : C) (kind : GenKind) (k : Nat) (id : Option Name) : C :=
  match genRun kind k id c with
  | .ok c' => c'
  | .error _ => c

theorem kSimplex_inv {c : C} (hI : Inv c) (k : Nat) (id : Option Name) {n : Name} {c' : C}
    (h : kSimplex k id c = .ok (n, c')) : Inv c' := by
  unfold kSimplex at h
  split_ifs at h with hk
  · have hA := C01.addS_inv hI (Or.inl rfl : Flat.InContract c []) id
    cases hr : addS c [] id with
    | mk r c2 =>
      rw [hr] at h hA
      cases r with
      | error e => cases h
      | ok m => simp only at h; cases h; exact hA
  · obtain ⟨ps, c1, hg, hI1, -, hnd, -⟩ := genPoints_spec id (k + 1) c hI
    rw [hg] at h
    simp only at h
    have hA := C01.addSimplexWithBasisQ_inv hI1 hnd id
    cases hr : addSimplexWithBasisQ c1 ps id with
    | mk r c2 =>
      rw [hr] at h hA
      cases r with
      | error e => cases h
      | ok m => simp only at h; cases h; exact hA

/-- every generator call into a valid complex — accepted or rejected (`k_simplex` with a name in use, `ring`
with fewer than three points) — leaves (in the model) a valid complex -/
theorem genState_inv {c : C} (hI : Inv c) (kind : GenKind) (k : Nat) (id : Option Name) :
    Inv (genState c kind k id) := by
  unfold genState
  cases hr : genRun kind k id c with
  | error e => exact hI
  | ok c' =>
    simp only
    cases kind with
    | simplex =>
      unfold genRun at hr
      simp only at hr
      cases hk : kSimplex k id c with
      | error e => rw [hk] at hr; cases hr
      | ok p =>
        obtain ⟨n, c2⟩ := p
        rw [hk] at hr
        simp only [Except.map] at hr
        cases hr
        exact kSimplex_inv hI k id hk
    | void =>
      obtain ⟨c2, B, hrun, -, hA⟩ := kVoid_spec hI k
      unfold genRun at hr; simp only at hr
      rw [hrun] at hr; cases hr; exact hA.inv
    | skeleton =>
      obtain ⟨c2, B, hrun, -, hA⟩ := kSkeleton_spec hI k
      unfold genRun at hr; simp only at hr
      rw [hrun] at hr; cases hr; exact hA.inv
    | ring =>
      unfold genRun at hr; simp only at hr
      by_cases hn : 3 ≤ k
      · obtain ⟨c2, ps, hrun, -, -, hA⟩ := ring_spec hI hn
        rw [hrun] at hr; cases hr; exact hA.inv
      · rw [ring_small c (by omega)] at hr; cases hr

/-- what PYTHON is left with after `k_simplex(k, id, c=c)`: for `k > 0` the `k + 1` basis points have been added
when `addSimplexWithBasis` raises (name in use); equal to the model's result when the call succeeds -/
def kSimplexLeft (k : Nat) (id : Option Name) (c : C) : C :=
  if k = 0 then (addS c [] id).2 else
  match genPoints id (k + 1) c with
  | .error _ => c
  | .ok (bs, c1) => (addSimplexWithBasisQ c1 bs id).2

theorem kSimplexLeft_of_ok {c : C} {k : Nat} {id : Option Name} {n : Name} {c' : C}
    (h : kSimplex k id c = .ok (n, c')) : kSimplexLeft k id c = c' := by
  unfold kSimplex at h
  unfold kSimplexLeft
  split_ifs at h ⊢ with hk
  · cases hr : addS c [] id with
    | mk r c2 =>
      rw [hr] at h
      cases r with
      | error e => cases h
      | ok m => simp only at h; cases h; rfl
  · cases hg : genPoints id (k + 1) c with
    | error e => rw [hg] at h; cases h
    | ok p =>
      obtain ⟨bs, c1⟩ := p
      rw [hg] at h
      simp only at h ⊢
      cases hr : addSimplexWithBasisQ c1 bs id with
      | mk r c2 =>
        rw [hr] at h
        cases r with
        | error e => cases h
        | ok m => simp only at h; cases h; rfl

/-- the state Python is left with after `k_simplex` — accepted or raised after the points were added — is valid -/
theorem kSimplexLeft_inv {c : C} (hI : Inv c) (k : Nat) (id : Option Name) : Inv (kSimplexLeft k id c) := by
  unfold kSimplexLeft
  split_ifs with hk
  · exact C01.addS_inv hI (Or.inl rfl : Flat.InContract c []) id
  · obtain ⟨ps, c1, hg, hI1, -, hnd, -⟩ := genPoints_spec id (k + 1) c hI
    rw [hg]
    exact C01.addSimplexWithBasisQ_inv hI1 hnd id

/-! ## operations, steps, contracts, runs -/

/-- all state-changing calls on one plain complex: the eleven of `C01.Op` and the five remaining commands -/
inductive OpX
  | base (op : C01.Op)
  /-- `self.relabelSimplex(s, q)`, also with `q = s`, `q` in use, `s` unknown -/
  | relabelOne (s q : Name)
  /-- `self.growFlagComplex(es)` -/
  | grow (es : List Name)
  /-- `src.copy(self)`: this complex is the target -/
  | copyInto (src : C)
  /-- `a.compose(b, self)`: this complex is the target -/
  | composeInto (a b : C)
  /-- `k_simplex(k, id, c=self)`, `k_void(k, c=self)`, `k_skeleton(k, c=self)`, `ring(k, c=self)` -/
  | gen (kind : GenKind) (k : Nat) (id : Option Name)

/-- the state after one call: exactly the state component the model function returns, on success and on error
(`relabelSimplex` and the generators return none when they raise: the input state, as in the driver) -/
def stepX (c : C) : OpX → C
  | .base op => C01.step c op
  | .relabelOne s q => relabelOneState c s q
  | .grow es => (growFlagQ c es).2
  | .copyInto src => (Flat.copyInto src c).2
  | .composeInto a b => (Flat.composeInto a b c).2.1
  | .gen kind k id => genState c kind k id

/-- the contract of a call made in state `c`:
* `base op`: the contract of `C01.InContract`;
* `copyInto src` (`src.copy(self)`): the complex that is copied is itself a valid complex. Nothing is asked about
  common names: they make the call raise before anything changes. Needed: see `copyInto_needs_src`;
* `composeInto a b` (`a.compose(b, self)`): both operands are valid complexes. Nothing is asked about names the
  target shares with them or about their compatibility: these make the call raise, possibly after part of `b`
  has been added, and the target is valid in every case. Needed: see `composeInto_needs_a`,
  `composeInto_needs_b`;
* `relabelOne`, `grow`, `gen`: nothing (`relabelOne_inv`, `growFlagQ_inv`, `genState_inv` have no hypothesis
  besides the validity of the complex itself): a Python caller may pass any names, known or not, any `k`. -/
def InContractX (c : C) : OpX → Prop
  | .base op => C01.InContract c op
  | .copyInto src => Inv src
  | .composeInto a b => Inv a ∧ Inv b
  | _ => True

/-- a history all of whose calls are in contract in the state in which they are made -/
inductive RunX : C → List OpX → Prop
  | nil (c : C) : RunX c []
  | cons {c : C} {op : OpX} {ops : List OpX} : InContractX c op → RunX (stepX c op) ops → RunX c (op :: ops)

/-- **C01, one step, all commands**: every state-changing call made in contract on a valid complex - accepted,
rejected, or stopped half-way by an exception - leaves a valid complex -/
theorem stepX_inv {c : C} {op : OpX} (hI : Inv c) (hc : InContractX c op) : Inv (stepX c op) := by
  cases op with
  | base op => exact C01.step_inv hI hc
  | relabelOne s q => exact relabelOne_inv hI s q
  | grow es => exact growFlagQ_inv hI es
  | copyInto src => exact copyInto_inv hc hI
  | composeInto a b => exact composeInto_inv hc.1 hc.2 hI
  | gen kind k id => exact genState_inv hI kind k id

/-- a history in contract from a valid complex ends in a valid complex -/
theorem runX_inv : ∀ (ops : List OpX) {c : C}, Inv c → RunX c ops → Inv (ops.foldl stepX c) := by
  intro ops
  induction ops with
  | nil => intro c hI _; exact hI
  | cons op ops ih =>
    intro c hI hr
    cases hr with
    | cons hc hrest => exact ih (stepX_inv hI hc) hrest

/-- **C01, all commands**: every complex reachable from the empty complex by a history of in-contract
state-changing calls (rejected and half-completed calls included) satisfies the invariant -/
theorem reachableX_inv (ops : List OpX) (hr : RunX emptyC ops) : Inv (ops.foldl stepX emptyC) :=
  runX_inv ops emptyC_inv hr

/-- hence every reachable state passes the Boolean check that the driver's `inv` query evaluates -/
theorem reachableX_checkInv (ops : List OpX) (hr : RunX emptyC ops) :
    checkInv (ops.foldl stepX emptyC) = true :=
  C01.checkInv_of_inv (reachableX_inv ops hr)

theorem RunX.take : ∀ {ops : List OpX} {c : C}, RunX c ops → ∀ n, RunX c (ops.take n) := by
  intro ops
  induction ops with
  | nil => intro c _ n; simp; exact RunX.nil c
  | cons op ops ih =>
    intro c hr n
    cases n with
    | zero => exact RunX.nil c
    | succ n =>
      cases hr with
      | cons hc hrest => exact RunX.cons hc (ih hrest n)

/-- every intermediate state of such a history is valid, too -/
theorem reachableX_inv_prefix (ops : List OpX) (hr : RunX emptyC ops) (n : Nat) :
    Inv ((ops.take n).foldl stepX emptyC) :=
  reachableX_inv _ (hr.take n)

/-- the histories of `C01` are histories here, with the same states -/
theorem foldl_base (ops : List C01.Op) (c : C) : (ops.map OpX.base).foldl stepX c = ops.foldl C01.step c := by
  induction ops generalizing c with
  | nil => rfl
  | cons op ops ih => exact ih _

theorem runX_of_run : ∀ {ops : List C01.Op} {c : C}, C01.Run c ops → RunX c (ops.map OpX.base) := by
  intro ops
  induction ops with
  | nil => intro c _; exact RunX.nil c
  | cons op ops ih =>
    intro c hr
    cases hr with
    | cons hc hrest => exact RunX.cons hc (ih hrest)

/-! ## non-vacuity: a concrete history using every new command, with its `RunX` proof -/

/-- the edge `e = {p, q}` with user names -/
def edgeC (p q e : Nat) : C :=
  ⟨[⟨.u p, 0, [], [.u p]⟩, ⟨.u q, 0, [], [.u q]⟩, ⟨.u e, 1, [.u p, .u q], [.u p, .u q]⟩], 0⟩

/-- isolated points with user names -/
def ptsC (ps : List Nat) : C := ⟨ps.map (fun p => ⟨.u p, 0, [], [.u p]⟩), 0⟩

/-- the error of an outcome, if any (a decidable way to say "raises `e`") -/
def errOf {ρ : Type} : Except Err ρ → Option Err
  | .ok _ => none
  | .error e => some e

/-- eighteen calls. Build the hollow triangle `u12 u23 u13` by basis; `growFlagComplex([u13])` fills it;
`growFlagComplex([u12, u99])` raises KeyError (unknown name); `relabelSimplex(u13, u31)`; two rejected
`relabelSimplex` (new name in use; unknown simplex); `edge.copy(self)`; a rejected `copy` (the point `u51` is
shared); `a.compose(b, self)` with two edges sharing the point `u62`; an `a.compose(b, self)` that raises
KeyError in the loop after it has copied `a = {u71}` and added `u72` (the next point of `b`, `u1`, is a name of
the target; `u73` is never reached); `k_simplex(2, id=u500, c=self)`; a rejected `k_simplex(1, id=u500, c=self)`;
`k_void(1, c=self)`; `k_skeleton(2, c=self)`; `ring(3, c=self)`; the rejected `ring(2, c=self)` -/
def exOpsX : List OpX := [
  .base (.addBasis [.u 1, .u 2] (some (.u 12))),
  .base (.addBasis [.u 2, .u 3] (some (.u 23))),
  .base (.addBasis [.u 1, .u 3] (some (.u 13))),
  .grow [.u 13],
  .grow [.u 12, .u 99],
  .relabelOne (.u 13) (.u 31),
  .relabelOne (.u 12) (.u 23),
  .relabelOne (.u 98) (.u 97),
  .copyInto (edgeC 51 52 512),
  .copyInto (edgeC 51 53 513),
  .composeInto (edgeC 61 62 612) (edgeC 62 63 623),
  .composeInto (ptsC [71]) (ptsC [72, 1, 73]),
  .gen .simplex 2 (some (.u 500)),
  .gen .simplex 1 (some (.u 500)),
  .gen .void 1 none,
  .gen .skeleton 2 none,
  .gen .ring 3 none,
  .gen .ring 2 none]

/-- the state after the first `n` calls -/
def exStateX (n : Nat) : C := (exOpsX.take n).foldl stepX emptyC

/-- the run contract holds (every clause by `decide`, the validity of the operands through `checkInv`) -/
theorem exRunX : RunX emptyC exOpsX := by
  unfold exOpsX
  refine RunX.cons (show [Name.u 1, .u 2].Nodup by decide) ?_
  refine RunX.cons (show [Name.u 2, .u 3].Nodup by decide) ?_
  refine RunX.cons (show [Name.u 1, .u 3].Nodup by decide) ?_
  refine RunX.cons trivial ?_
  refine RunX.cons trivial ?_
  refine RunX.cons trivial ?_
  refine RunX.cons trivial ?_
  refine RunX.cons trivial ?_
  refine RunX.cons (C01.inv_of_checkInv (by decide)) ?_
  refine RunX.cons (C01.inv_of_checkInv (by decide)) ?_
  refine RunX.cons ⟨C01.inv_of_checkInv (by decide), C01.inv_of_checkInv (by decide)⟩ ?_
  refine RunX.cons ⟨C01.inv_of_checkInv (by decide), C01.inv_of_checkInv (by decide)⟩ ?_
  refine RunX.cons trivial ?_
  refine RunX.cons trivial ?_
  refine RunX.cons trivial ?_
  refine RunX.cons trivial ?_
  refine RunX.cons trivial ?_
  refine RunX.cons trivial ?_
  exact RunX.nil _

/-- the numbers of simplices along the history -/
example : (List.range 19).map (fun n => (exStateX n).simps.length)
    = [0, 3, 5, 6, 7, 7, 7, 7, 7, 10, 10, 15, 17, 24, 24, 30, 36, 42, 42] := by decide

/-- the seven rejected calls of the history raise: KeyError (`grow`, unknown name); ValueError twice
(`relabelSimplex`: new name in use, unknown simplex); ValueError (`copy`, shared name); KeyError (`compose`, in
the loop); KeyError (`k_simplex`, name in use); ValueError (`ring(2)`) -/
example : (growFlagQ (exStateX 4) [.u 12, .u 99]).1 = .error .key ∧
    (exStateX 6).relabelSimplex (.u 12) (.u 23) = none ∧
    (exStateX 7).relabelSimplex (.u 98) (.u 97) = none ∧
    (Flat.copyInto (edgeC 51 53 513) (exStateX 9)).1 = .error .value ∧
    (Flat.composeInto (ptsC [71]) (ptsC [72, 1, 73]) (exStateX 11)).1 = .error .key ∧
    errOf (genRun .simplex 1 (some (.u 500)) (exStateX 13)) = some .key ∧
    errOf (genRun .ring 2 none (exStateX 17)) = some .value := by
  refine ⟨by decide, ?_, ?_, by decide, by decide, by decide, by decide⟩
  · have : ((exStateX 6).relabelSimplex (.u 12) (.u 23)).isNone = true := by decide
    exact Option.isNone_iff_eq_none.mp this
  · have : ((exStateX 7).relabelSimplex (.u 98) (.u 97)).isNone = true := by decide
    exact Option.isNone_iff_eq_none.mp this

/-- the accepted new calls succeed -/
example : (growFlagQ (exStateX 3) [.u 13]).1 = .ok () ∧
    ((exStateX 5).relabelSimplex (.u 13) (.u 31)).isSome = true ∧
    (Flat.copyInto (edgeC 51 52 512) (exStateX 8)).1 = .ok [.u 51, .u 52, .u 512] ∧
    (Flat.composeInto (edgeC 61 62 612) (edgeC 62 63 623) (exStateX 10)).1 = .ok () ∧
    errOf (genRun .simplex 2 (some (.u 500)) (exStateX 12)) = none ∧
    errOf (genRun .void 1 none (exStateX 14)) = none ∧
    errOf (genRun .skeleton 2 none (exStateX 15)) = none ∧
    errOf (genRun .ring 3 none (exStateX 16)) = none := by decide

/-- the half-completed `compose` left the copy of `a` (`u71`) and the first point of `b` (`u72`) in the target,
and not the third point `u73` -/
example : (exStateX 12).names.filter (fun n => n ∈ [Name.u 71, .u 72, .u 73]) = [.u 71, .u 72] := by decide

set_option maxRecDepth 10000 in
/-- the final `names` (listing order: by order, then by time of addition) -/
example : (exStateX 18).names =
    [.u 1, .u 2, .u 3, .u 51, .u 52, .u 61, .u 62, .u 63, .u 71, .u 72,
     .auto 0 1, .auto 0 2, .auto 0 3, .auto 0 7, .auto 0 8, .auto 0 9, .auto 0 14, .auto 0 15, .auto 0 16,
     .auto 0 20, .auto 0 21, .auto 0 22,
     .u 12, .u 23, .u 31, .u 512, .u 612, .u 623,
     .auto 1 4, .auto 1 5, .auto 1 6, .auto 1 11, .auto 1 12, .auto 1 13, .auto 1 17, .auto 1 18, .auto 1 19,
     .auto 1 23, .auto 1 24, .auto 1 25,
     .auto 2 0, .u 500] := by decide

set_option maxRecDepth 10000 in
/-- `reachableX_inv`, `reachableX_checkInv`, `reachableX_inv_prefix` on this history: 42 simplices of orders
0..2; the filled triangle `auto 2 0` made by `growFlagComplex`, the 2-simplex `u500` made by `k_simplex` -/
example : Inv (exStateX 18) ∧ checkInv (exStateX 18) = true ∧ (exStateX 18).maxOrder = 2 ∧
    (List.range 3).map (fun k => ((exStateX 18).ofOrder k).length) = [22, 18, 2] ∧ ∀ n, Inv (exStateX n) :=
  ⟨reachableX_inv exOpsX exRunX, reachableX_checkInv exOpsX exRunX, by decide, by decide,
    reachableX_inv_prefix exOpsX exRunX⟩

/-- `stepX_inv`, `runX_inv` from a non-empty valid complex -/
example : Inv (stepX (edgeC 1 2 12) (.composeInto (edgeC 1 2 12) (edgeC 2 3 23))) ∧
    Inv ([OpX.gen .ring 3 none, .grow [.auto 1 3]].foldl stepX (edgeC 1 2 12)) :=
  ⟨stepX_inv (C01.inv_of_checkInv (by decide)) ⟨C01.inv_of_checkInv (by decide), C01.inv_of_checkInv (by decide)⟩,
   runX_inv _ (C01.inv_of_checkInv (by decide)) (RunX.cons trivial (RunX.cons trivial (RunX.nil _)))⟩

/-- the history of `C01.exOps` is a history here -/
example : RunX emptyC (C01.exOps.map OpX.base) ∧
    (C01.exOps.map OpX.base).foldl stepX emptyC = C01.exOps.foldl C01.step emptyC :=
  ⟨runX_of_run C01.exRun, foldl_base _ _⟩

/-! ## the clauses of the contract: which are needed, which are not -/

/-- an INVALID "complex" (what `addSimplex` accepts outside its contract, see the last example of `C01`): three
disjoint edges and a "2-simplex" `u9` with these three edges as faces and six points -/
def bad : C := C01.step C01.exSix (.addFaces [.u 12, .u 34, .u 56] (some (.u 9)))

theorem bad_not_inv : ¬ Inv bad := fun h => absurd (C01.checkInv_of_inv h) (by decide)

/-- **the clause `Inv src` of `copyInto` cannot be dropped**: `bad.copy(target)` into the valid complex `{u77}`
succeeds (every `addSimplex` call of the loop is accepted) and the target is no longer valid -/
theorem copyInto_needs_src : Inv (ptsC [77]) ∧ ¬ InContractX (ptsC [77]) (.copyInto bad) ∧
    errOf (Flat.copyInto bad (ptsC [77])).1 = none ∧ ¬ Inv (stepX (ptsC [77]) (.copyInto bad)) :=
  ⟨C01.inv_of_checkInv (by decide), bad_not_inv, by decide,
    fun h => absurd (C01.checkInv_of_inv h) (by decide)⟩

/-- **the clause `Inv a` of `composeInto` cannot be dropped** (`b` empty, hence valid): `bad.compose(empty, target)` -/
theorem composeInto_needs_a : Inv (ptsC [77]) ∧ Inv emptyC ∧ ¬ Inv bad ∧
    (Flat.composeInto bad emptyC (ptsC [77])).1 = .ok () ∧
    ¬ Inv (stepX (ptsC [77]) (.composeInto bad emptyC)) :=
  ⟨C01.inv_of_checkInv (by decide), emptyC_inv, bad_not_inv, by decide,
    fun h => absurd (C01.checkInv_of_inv h) (by decide)⟩

/-- **the clause `Inv b` of `composeInto` cannot be dropped** (`a` empty, hence valid): `empty.compose(bad, target)` -/
theorem composeInto_needs_b : Inv (ptsC [77]) ∧ Inv emptyC ∧ ¬ Inv bad ∧
    (Flat.composeInto emptyC bad (ptsC [77])).1 = .ok () ∧
    ¬ Inv (stepX (ptsC [77]) (.composeInto emptyC bad)) :=
  ⟨C01.inv_of_checkInv (by decide), emptyC_inv, bad_not_inv, by decide,
    fun h => absurd (C01.checkInv_of_inv h) (by decide)⟩

/-- two hollow triangles `u1 u2 u3` and `u1 u2 u4` glued along the edge `u12` -/
def twoHollow : C := [C01.Op.addBasis [.u 1, .u 2] (some (.u 12)), .addBasis [.u 2, .u 3] (some (.u 23)),
  .addBasis [.u 1, .u 3] (some (.u 13)), .addBasis [.u 1, .u 4] (some (.u 14)),
  .addBasis [.u 2, .u 4] (some (.u 24))].foldl C01.step emptyC

/-- **`grow` needs no clause** (`growFlagQ_inv`), in particular not "the complex is a flag complex apart from the
listed edges" (the hypothesis of `growFlagQ_spec`): on `twoHollow`, which is not a flag complex,
`growFlagComplex([u14])` fills the triangle through `u14` and leaves the other one hollow - the result is valid
(though not a flag complex); names that are not edges (a point, the new triangle) are accepted as well -/
example : Inv twoHollow ∧ (growFlagQ twoHollow [.u 14]).1 = .ok () ∧
    ((growFlagQ twoHollow [.u 14]).2.ofOrder 2).map (·.basis) = [[.u 1, .u 2, .u 4]] ∧
    Inv (growFlagQ twoHollow [.u 14]).2 ∧
    (growFlagQ (growFlagQ twoHollow [.u 14]).2 [.u 1, .auto 2 0]).1 = .ok () ∧
    Inv (growFlagQ (growFlagQ twoHollow [.u 14]).2 [.u 1, .auto 2 0]).2 :=
  have h : Inv twoHollow := C01.inv_of_checkInv (by decide)
  ⟨h, by decide, by decide, growFlagQ_inv h _, by decide, growFlagQ_inv (growFlagQ_inv h _) _⟩

/-- **`relabelOne` needs no clause** (`relabelOne_inv`): accepted (`u12 ↦ u21`: the faces of nothing change, the
name does), and the three ways of being rejected (`q = s`, `q` in use, `s` unknown) -/
example : (relabelOneState (edgeC 1 2 12) (.u 12) (.u 21)).names = [.u 1, .u 2, .u 21] ∧
    (relabelOneState (edgeC 1 2 12) (.u 1) (.u 7)).simps.map (·.basis) = [[.u 7], [.u 2], [.u 7, .u 2]] ∧
    (relabelOneState (edgeC 1 2 12) (.u 12) (.u 12)).names = [.u 1, .u 2, .u 12] ∧
    (relabelOneState (edgeC 1 2 12) (.u 12) (.u 1)).names = [.u 1, .u 2, .u 12] ∧
    (relabelOneState (edgeC 1 2 12) (.u 5) (.u 6)).names = [.u 1, .u 2, .u 12] ∧
    Inv (relabelOneState (edgeC 1 2 12) (.u 1) (.u 7)) :=
  ⟨by decide, by decide, by decide, by decide, by decide, relabelOne_inv (C01.inv_of_checkInv (by decide)) _ _⟩

/-- **`composeInto` needs nothing about the target's names** (`composeInto_inv`): the target `{u3, u9}` shares the
name `u3` with `b`; `compose` copies `a`, adds nothing of `b` that is in `a`, then raises KeyError at `u3`; the
target - the old points and the copy of `a` - is valid -/
example : (Flat.composeInto (edgeC 1 2 12) (edgeC 2 3 23) (ptsC [3, 9])).1 = .error .key ∧
    (Flat.composeInto (edgeC 1 2 12) (edgeC 2 3 23) (ptsC [3, 9])).2.1.names = [.u 3, .u 9, .u 1, .u 2, .u 12] ∧
    Inv (Flat.composeInto (edgeC 1 2 12) (edgeC 2 3 23) (ptsC [3, 9])).2.1 :=
  ⟨by decide, by decide, composeInto_inv (C01.inv_of_checkInv (by decide)) (C01.inv_of_checkInv (by decide))
    (C01.inv_of_checkInv (by decide))⟩

/-- **`gen` needs no clause** (`genState_inv`). A rejected `k_simplex(1, id=u12, c=self)`: the model (and the
driver) keep the complex as it was; Python has added the two basis points before `addSimplexWithBasis` raises:
that state is `kSimplexLeft`, and it is valid (`kSimplexLeft_inv`) -/
example : errOf (kSimplex 1 (some (.u 12)) (edgeC 1 2 12)) = some .key ∧
    (genState (edgeC 1 2 12) .simplex 1 (some (.u 12))).names = [.u 1, .u 2, .u 12] ∧
    (kSimplexLeft 1 (some (.u 12)) (edgeC 1 2 12)).names = [.u 1, .u 2, .auto 0 0, .auto 0 1, .u 12] ∧
    Inv (kSimplexLeft 1 (some (.u 12)) (edgeC 1 2 12)) ∧
    (kSimplexLeft 1 (some (.u 5)) (edgeC 1 2 12)).names = (genState (edgeC 1 2 12) .simplex 1 (some (.u 5))).names :=
  ⟨by decide, by decide, by decide, kSimplexLeft_inv (C01.inv_of_checkInv (by decide)) _ _, by decide⟩

end Flat.C01X
