import Sx.Model
import Sx.Proofs.FlatBasis8
import Sx.Proofs.FlatDelete2
import Mathlib.Tactic.SplitIfs

/-! # C05 — a rejected request raises and leaves the complex untouched

Model reading: every mutator returns `Except Err ρ × C` (or `Except`/`Option` when it cannot have changed
anything); "raises KeyError/ValueError" = the result is `.error e`; "leaves the complex untouched" = the state
component is the input state — the *whole* state, including the counter behind generated names, which is why
valid calls afterwards behave as if the rejected call had never been made. -/
namespace Flat

/-! ## addSimplex (by faces, with or without a name) -/

/-- a rejected `addSimplex` leaves the state (structure and name counter) exactly as it was -/
theorem addS_atomic (c : C) (fs : List Name) (id : Option Name) (e : Err)
    (h : (addS c fs id).1 = .error e) : (addS c fs id).2 = c := by
  unfold addS at *
  cases id with
  | some n =>
    simp only at h ⊢
    split at h <;> simp_all
  | none =>
    simp only at h ⊢
    split at h <;> simp_all

/-- the invalid requests of `addSimplex`, in the order the guards test them -/
theorem addSimplex_rejects (c : C) (fs : List Name) (id : Name)
    (h : fs.length = 1                                            -- a point with a face / wrong number of faces
       ∨ c.contains id = true                                     -- duplicate name
       ∨ ¬ fs.Nodup                                               -- repeated face
       ∨ ((fs.length - 1 : Nat) : Int) > c.maxOrder + 1           -- order more than one above the maximum
       ∨ (fs ≠ [] ∧ fs.any (fun f => !c.contains f) = true)       -- unknown face
       ∨ (fs ≠ [] ∧ fs.any (fun f => c.orderOf? f != some (fs.length - 1 - 1)) = true)   -- face of the wrong order
       ∨ (fs ≠ [] ∧ (c.ofOrder (fs.length - 1)).any (fun s => setEqB s.faces fs) = true)) : -- faces define an existing simplex
    ∃ e, c.addSimplex fs id = .error e := by
  unfold Cx.addSimplex
  simp only
  split_ifs <;> first | exact ⟨_, rfl⟩ | skip
  all_goals (exfalso; rcases h with h | h | h | h | h | h | h <;> simp_all)

/-- the same for the optional-name wrapper: a rejected request does not consume a generated name either -/
theorem addS_rejects_state (c : C) (fs : List Name) (id : Option Name) :
    (∃ e, (addS c fs id).1 = .error e) → (addS c fs id).2 = c := by
  rintro ⟨e, h⟩; exact addS_atomic c fs id e h

/-! ## addSimplexWithBasis -/

/-- the four documented rejections of `addSimplexWithBasis` happen before anything is created -/
theorem addSimplexWithBasis'_guards (c : C) (bs : List Name) (id : Option Name)
    (h : idUsed c id = true                                                       -- duplicate name
       ∨ idInBasis bs id = true                                                   -- the name is one of the basis points
       ∨ bs.any (fun b => c.contains b && c.orderOf? b != some 0) = true          -- a non-point in the basis
       ∨ (simplexWithBasis c bs).isSome = true) :                                 -- the basis already defines a simplex
    ∃ e, addSimplexWithBasis' c bs id = (.error e, c) := by
  unfold addSimplexWithBasis'
  split_ifs <;> first | exact ⟨_, rfl⟩ | skip
  exfalso; rcases h with h | h | h | h <;> simp_all

/-- in contract (a repeat-free basis of at least two names on a valid complex) `addSimplexWithBasis` is atomic:
if it raises, nothing has changed. When no guard fires the call succeeds (`addSimplexWithBasis_spec`). -/
theorem addSimplexWithBasis'_atomic {c : C} (hI : Inv c) {bs : List Name} (hnd : bs.Nodup) (h2 : 2 ≤ bs.length)
    (id : Option Name) (e : Err) (h : (addSimplexWithBasis' c bs id).1 = .error e) :
    (addSimplexWithBasis' c bs id).2 = c := by
  classical
  by_cases g1 : idUsed c id = true
  · obtain ⟨e', he⟩ := addSimplexWithBasis'_guards c bs id (Or.inl g1); rw [he]
  by_cases g1b : idInBasis bs id = true
  · obtain ⟨e', he⟩ := addSimplexWithBasis'_guards c bs id (Or.inr (Or.inl g1b)); rw [he]
  by_cases g2 : bs.any (fun b => c.contains b && c.orderOf? b != some 0) = true
  · obtain ⟨e', he⟩ := addSimplexWithBasis'_guards c bs id (Or.inr (Or.inr (Or.inl g2))); rw [he]
  by_cases g3 : (simplexWithBasis c bs).isSome = true
  · obtain ⟨e', he⟩ := addSimplexWithBasis'_guards c bs id (Or.inr (Or.inr (Or.inr g3))); rw [he]
  -- no guard fires: the call succeeds, contradicting `h`
  exfalso
  have hpt : ∀ b ∈ bs, c.contains b = true → ∃ t ∈ c.simps, t.name = b ∧ t.order = 0 := by
    intro b hb hcb
    have : ¬ (c.contains b && c.orderOf? b != some 0) = true := by
      intro hx; exact g2 (List.any_eq_true.mpr ⟨b, hb, hx⟩)
    simp only [hcb, Bool.true_and, bne_iff_ne, ne_eq, Decidable.not_not] at this
    obtain ⟨t, ht, hn⟩ := (contains_iff).mp hcb
    refine ⟨t, ht, hn, ?_⟩
    have ho := orderOf_of_mem hI ht
    rw [hn, this] at ho
    exact (Option.some.inj ho).symm
  have hnone : ¬ ∃ t ∈ c.simps, t.pts = bs.toFinset := by
    rintro ⟨t, ht, hp⟩
    -- every member of `bs` is then a point of the complex, and `simplexWithBasis` finds `t`
    have hall : PtsIn c bs := by
      intro b hb
      have hbp : b ∈ t.pts := by rw [hp]; exact List.mem_toFinset.mpr hb
      obtain ⟨u, hu, hn, h0, -⟩ := hI.basis_point t.order ht rfl b (by simpa [Simp.pts] using hbp)
      exact ⟨u, hu, hn, h0⟩
    have hne : bs ≠ [] := by intro e; rw [e] at h2; simp at h2
    have hsp := simplexWithBasis_spec hI hnd hne hall
    cases hsw : simplexWithBasis c bs with
    | none => exact hsp.2 hsw ⟨t, ht, hp⟩
    | some n => rw [hsw] at g3; exact g3 rfl
  have hid : ∀ n, id = some n → c.contains n = false ∧ n ∉ bs := by
    intro n hn
    subst hn
    refine ⟨by simpa [idUsed] using g1, ?_⟩
    simpa [idInBasis] using g1b
  obtain ⟨n, c', hok, -⟩ := addSimplexWithBasis_spec hI hnd h2 hpt hnone id hid
  rw [hok] at h
  cases h

/-! ## relabel, copy into, delete, restrict, subdivide -/

/-- `relabel` is atomic by construction: both rejections are decided before any simplex is renamed -/
theorem relabel_atomic (c : C) (ρ : Name → Name) (e : Err) (h : (relabel c ρ).1 = .error e) :
    (relabel c ρ).2 = c := by
  unfold relabel at *
  simp only at h ⊢
  split_ifs at h ⊢ <;> simp_all

/-- relabelling onto a name in use, or two simplices onto one name, is rejected -/
theorem relabel_rejects (c : C) (ρ : Name → Name)
    (h : (∃ s ∈ c.names, ρ s ≠ s ∧ c.contains (ρ s) = true)
       ∨ (∃ s ∈ c.names, ∃ t ∈ c.names, s ≠ t ∧ ρ s ≠ s ∧ ρ t ≠ t ∧ ρ s = ρ t ∧ c.names.Nodup)) :
    (relabel c ρ).1 = .error .value := by
  unfold relabel
  simp only
  by_cases h1 : ((c.names.filterMap (fun s => if ρ s = s then none else some (s, ρ s))).map (·.2)).any c.contains = true
  · simp [h1]
  · rw [if_neg h1]
    by_cases h2 : ((c.names.filterMap (fun s => if ρ s = s then none else some (s, ρ s))).map (·.2)).Nodup
    · exfalso
      rcases h with ⟨s, hs, hne, hc⟩ | ⟨s, hs, t, ht, hst, hs1, ht1, heq, hnd⟩
      · apply h1
        rw [List.any_eq_true]
        refine ⟨ρ s, ?_, hc⟩
        simp only [List.mem_map, List.mem_filterMap]
        exact ⟨(s, ρ s), ⟨s, hs, by simp [hne]⟩, rfl⟩
      · -- two distinct entries of the mapping with the same target
        have hmap : (c.names.filterMap (fun s => if ρ s = s then none else some (s, ρ s))).map (·.2)
            = (c.names.filter (fun s => decide (ρ s ≠ s))).map ρ := by
          clear h1 h2 hs ht hnd
          induction c.names with
          | nil => rfl
          | cons x xs ih =>
            by_cases hx : ρ x = x
            · simp [List.filterMap_cons, hx, ih]
            · simp [List.filterMap_cons, hx, ih]
        rw [hmap] at h2
        have hinj := List.inj_on_of_nodup_map h2
        have := hinj (List.mem_filter.mpr ⟨hs, by simpa using hs1⟩) (List.mem_filter.mpr ⟨ht, by simpa using ht1⟩) heq
        exact hst this
    · simp [h2]

/-- copying into a complex with overlapping names is rejected and changes nothing -/
theorem copyInto_overlap (a d : C) (h : a.names.any d.contains = true) : copyInto a d = (.error .value, d) := by
  unfold copyInto; simp [h]

/-- deleting an unknown simplex is rejected (the model returns `none`: nothing can have changed) -/
theorem deleteSimplex_unknown (c : C) (s : Name) (h : c.contains s = false) : deleteSimplex c s = none := by
  unfold deleteSimplex
  have : c.orderOf? s = none := by
    unfold Cx.orderOf?; unfold Cx.contains at h
    cases hl : c.lookup s with
    | none => rfl
    | some x => rw [hl] at h; simp at h
  rw [this]

/-- restricting to something that is not a set of points is rejected -/
theorem restrict_nonbasis (c : C) (bs : List Name) (h : bs.any (fun b => c.orderOf? b != some 0) = true) :
    restrictBasisTo c bs = none := by
  unfold restrictBasisTo
  have : (bs.all (fun b => c.orderOf? b == some 0)) = false := by
    rw [List.all_eq_false]
    obtain ⟨b, hb, hx⟩ := List.any_eq_true.mp h
    exact ⟨b, hb, by simpa [bne_iff_ne] using hx⟩
  simp [this]

/-- subdividing an unknown simplex or a point is rejected -/
theorem subdivide_rejects (c : C) (s : Name) (order : List Name)
    (h : c.orderOf? s = none ∨ c.orderOf? s = some 0) : ∃ e, subdivide c s order = .error e := by
  unfold subdivide
  rcases h with h | h <;> rw [h] <;> exact ⟨_, rfl⟩

/-! ## non-vacuity: a concrete complex on which a request of each kind is rejected and nothing changes -/

def exC : C := ((addSimplexWithBasis' ((emptyC.addSimplex [] (.u 1)).toOption.getD emptyC |>.addSimplex [] (.u 2) |>.toOption.getD emptyC)
  [.u 1, .u 2] (some (.u 12))).2)

example : (addS exC [.u 1, .u 1] (some (.u 7))).1 = .error .key ∧ (addS exC [.u 1, .u 1] (some (.u 7))).2 = exC := by constructor <;> rfl
example : (addS exC [.u 1, .u 9] none).1 = .error .key ∧ (addS exC [.u 1, .u 9] none).2 = exC := by constructor <;> rfl
example : addSimplexWithBasis' exC [.u 1, .u 2] (some (.u 5)) = (.error .key, exC) := by rfl
example : addSimplexWithBasis' exC [.u 3, .u 12] none = (.error .value, exC) := by rfl
example : (relabel exC (renameOf [(.u 1, .u 2)])) = (.error .value, exC) := by rfl

end Flat
