import Sx.Model
import Sx.Model.Lattice
import Sx.Proofs.Lattice
import Mathlib.Tactic.Linarith
import Mathlib.Tactic.FieldSimp
import Mathlib.Tactic.Ring
import Mathlib.Tactic.Positivity
import Mathlib.Tactic.SplitIfs
import Mathlib.Data.Rat.Defs
import Mathlib.Data.Nat.Cast.Field
import Mathlib.Algebra.Order.Field.Basic
import Std.Data.String.ToInt

/-! # C20 (lattice clause) — `TriangularLatticeEmbedding.computePositionOf`

`Lat.latticeXY rows cols h w n` (in `Sx/Model/Lattice.lean`) is the exact position of lattice point number `n` as a
pair of unreduced fractions; `Frac.reduce`/`Frac.str` produce the text the driver prints (`latticePos_eq`). Reading
a fraction as a rational (`Frac.toRat`), the position is the `(posX, posY)` of `Sx/Proofs/Lattice.lean`
(`latticeXY_eq`), reduction keeps the value (`reduce_val`), distinct points get distinct positions
(`latticeXY_injective`) and every point of the lattice is inside the box (`latticeXY_in_box`). Float rounding of the
Python code is not modelled. -/
namespace Lat

/-- the rational value of a fraction (`den = 0` reads as `0`, as `x / 0 = 0` in `ℚ`) -/
def Frac.toRat (f : Frac) : ℚ := (f.num : ℚ) / (f.den : ℚ)

/-! ## relation to the driver -/

/-- the driver's `pRat` is "reduce, then print" -/
theorem pRat_eq (num : Int) (den : Nat) : Drv.pRat num den = (Frac.mk num den).reduce.str := by
  unfold Drv.pRat Frac.reduce Frac.str
  simp only
  split_ifs <;> rfl

/-- the text emitted by the driver for `latticepos` is exactly the reduced `latticeXY`, printed -/
theorem latticePos_eq (rows cols h w n : Nat) :
    Drv.latticePos rows cols h w n
      = [(latticeXY rows cols h w n).1.reduce.str, (latticeXY rows cols h w n).2.reduce.str] := by
  unfold Drv.latticePos latticeXY
  simp only [pRat_eq]

example : Drv.latticePos 3 4 6 10 6 = ["25/4", "4/1"] := by decide
example : (latticeXY 3 4 6 10 6) = (⟨50, 8⟩, ⟨12, 3⟩) := by decide

/-! ## the value of `latticeXY` -/

theorem latticeXY_fst (rows cols h w n : Nat) :
    (latticeXY rows cols h w n).1
      = ⟨((w * (2 * (n % cols) + (n / cols) % 2) : Nat) : Int), 2 * cols⟩ := by
  unfold latticeXY
  simp only [Frac.mk.injEq, and_true]
  rcases Nat.mod_two_eq_zero_or_one (n / cols) with h0 | h1
  · simp [h0]
  · simp [h1]

theorem latticeXY_snd (rows cols h w n : Nat) :
    (latticeXY rows cols h w n).2 = ⟨((h * rows : Nat) : Int) - ((h * (n / cols) : Nat) : Int), rows⟩ := rfl

/-- **latticeXY_eq**: read as rationals, the two fractions are `posX`/`posY` of `Sx/Proofs/Lattice.lean` at
row `i = n / cols`, column `j = n % cols` (`posX w nc i j`, `posY h nr i`). Only the `y` equation needs
`rows ≠ 0` (for `rows = 0`, `posY` is `h` while the fraction `…/0` reads as `0`). -/
theorem latticeXY_eq (rows cols h w n : Nat) (hr : 0 < rows) :
    (latticeXY rows cols h w n).1.toRat = Lattice.posX (w : ℚ) cols (n / cols) (n % cols)
    ∧ (latticeXY rows cols h w n).2.toRat = Lattice.posY (h : ℚ) rows (n / cols) := by
  constructor
  · rw [latticeXY_fst]
    unfold Frac.toRat Lattice.posX
    generalize n % cols = j
    generalize n / cols = i
    generalize i % 2 = b
    push_cast
    ring
  · rw [latticeXY_snd]
    unfold Frac.toRat Lattice.posY
    have : (rows : ℚ) ≠ 0 := by exact_mod_cast hr.ne'
    generalize n / cols = i
    push_cast
    field_simp

example : (latticeXY 3 4 6 10 6).1.toRat = Lattice.posX 10 4 1 2
    ∧ (latticeXY 3 4 6 10 6).2.toRat = Lattice.posY 6 3 1 := latticeXY_eq 3 4 6 10 6 (by decide)

/-! ## reduction -/

/-- **reduce_val**: bringing a fraction to lowest terms does not change its rational value (no hypotheses:
`0/0` becomes `0/1`, both read as `0`) -/
theorem reduce_val (f : Frac) : f.reduce.toRat = f.toRat := by
  obtain ⟨num, den⟩ := f
  unfold Frac.reduce Frac.toRat
  simp only
  split_ifs with hg
  · have hg' : Nat.gcd num.natAbs den = 0 := by simpa using hg
    have hd : den = 0 := Nat.eq_zero_of_gcd_eq_zero_right hg'
    subst hd
    simp
  · have hg' : Nat.gcd num.natAbs den ≠ 0 := by simpa using hg
    set g := Nat.gcd num.natAbs den with hgdef
    have hgq : (g : ℚ) ≠ 0 := by exact_mod_cast hg'
    have hdn : (g : Int) ∣ num := by
      have : g ∣ num.natAbs := Nat.gcd_dvd_left _ _
      exact Int.natCast_dvd.mpr this
    have hdd : g ∣ den := Nat.gcd_dvd_right _ _
    rw [Int.cast_div hdn (by exact_mod_cast hgq), Nat.cast_div hdd hgq]
    push_cast
    field_simp

/-- the reduced fraction is in lowest terms, with the denominator positive whenever `f` is not `0/0`
(the companion of `reduce_val`: `reduce` is the canonical representative) -/
theorem reduce_coprime (f : Frac) : Nat.gcd f.reduce.num.natAbs f.reduce.den = 1 := by
  obtain ⟨num, den⟩ := f
  unfold Frac.reduce
  simp only
  split_ifs with hg
  · rfl
  · have hg' : Nat.gcd num.natAbs den ≠ 0 := by simpa using hg
    have hpos : 0 < Nat.gcd num.natAbs den := Nat.pos_of_ne_zero hg'
    have hdn : Nat.gcd num.natAbs den ∣ num.natAbs := Nat.gcd_dvd_left _ _
    have : (num / ((Nat.gcd num.natAbs den : Nat) : Int)).natAbs = num.natAbs / Nat.gcd num.natAbs den := by
      rw [Int.natAbs_ediv_of_dvd (Int.natCast_dvd.mpr hdn)]
      simp
    rw [this]
    exact Nat.coprime_div_gcd_div_gcd hpos

example : (Frac.mk 50 8).reduce = ⟨25, 4⟩ ∧ (Frac.mk (-6) 4).reduce = ⟨-3, 2⟩ ∧ (Frac.mk 0 0).reduce = ⟨0, 1⟩ := by
  decide

/-! ## injectivity -/

/-- **latticeXY_injective**: in a lattice with `rows, cols ≥ 1` in a box with `h, w ≥ 1`, two point numbers with
the same position (as rationals, so a fortiori as fractions, reduced or not) are equal. The bounds
`n, n' < rows * cols` are not needed: the row `n / cols` is read off `y`, the column `n % cols` off `x`. -/
theorem latticeXY_injective {rows cols h w n n' : Nat} (hr : 1 ≤ rows) (hc : 1 ≤ cols) (hh : 1 ≤ h) (hw : 1 ≤ w)
    (hx : (latticeXY rows cols h w n).1.toRat = (latticeXY rows cols h w n').1.toRat)
    (hy : (latticeXY rows cols h w n).2.toRat = (latticeXY rows cols h w n').2.toRat) : n = n' := by
  rw [(latticeXY_eq rows cols h w n hr).1, (latticeXY_eq rows cols h w n' hr).1] at hx
  rw [(latticeXY_eq rows cols h w n hr).2, (latticeXY_eq rows cols h w n' hr).2] at hy
  have hhq : (0 : ℚ) < h := by exact_mod_cast hh
  have hwq : (0 : ℚ) < w := by exact_mod_cast hw
  obtain ⟨hi, hj⟩ := Lattice.lattice_injective hhq hwq hr hc hx hy
  rw [← Nat.div_add_mod n cols, ← Nat.div_add_mod n' cols, hi, hj]

/-- the same for the reduced fractions (what the driver prints): equal reduced positions, equal points -/
theorem latticeXY_injective_reduce {rows cols h w n n' : Nat} (hr : 1 ≤ rows) (hc : 1 ≤ cols) (hh : 1 ≤ h)
    (hw : 1 ≤ w)
    (hx : (latticeXY rows cols h w n).1.reduce = (latticeXY rows cols h w n').1.reduce)
    (hy : (latticeXY rows cols h w n).2.reduce = (latticeXY rows cols h w n').2.reduce) : n = n' := by
  apply latticeXY_injective hr hc hh hw
  · rw [← reduce_val, hx, reduce_val]
  · rw [← reduce_val, hy, reduce_val]

/-- and for the unreduced pair itself -/
theorem latticeXY_inj {rows cols h w n n' : Nat} (hr : 1 ≤ rows) (hc : 1 ≤ cols) (hh : 1 ≤ h) (hw : 1 ≤ w)
    (he : latticeXY rows cols h w n = latticeXY rows cols h w n') : n = n' :=
  latticeXY_injective hr hc hh hw (by rw [he]) (by rw [he])

/-- hypotheses satisfiable, conclusion non-trivial: in the 3 × 4 lattice in a 6 × 10 box all 12 positions
(reduced) are pairwise different -/
example : ((List.range 12).map (fun n => ((latticeXY 3 4 6 10 n).1.reduce, (latticeXY 3 4 6 10 n).2.reduce))).Nodup := by
  decide

/-! ## text level: printing is injective, so the driver's output separates lattice points -/

theorem append_sep_inj {α : Type} {c : α} : ∀ {l1 l1' l2 l2' : List α}, c ∉ l1 → c ∉ l1' →
    l1 ++ c :: l2 = l1' ++ c :: l2' → l1 = l1' ∧ l2 = l2'
  | [], [], _, _, _, _, h => by simpa using h
  | [], b :: l1', _, _, _, h2, h => by
      simp only [List.nil_append, List.cons_append, List.cons.injEq] at h
      exact absurd (h.1 ▸ List.mem_cons_self) h2
  | a :: l1, [], _, _, h1, _, h => by
      simp only [List.nil_append, List.cons_append, List.cons.injEq] at h
      exact absurd (h.1 ▸ List.mem_cons_self) h1
  | a :: l1, b :: l1', _, _, h1, h2, h => by
      simp only [List.cons_append, List.cons.injEq] at h
      have := append_sep_inj (fun hm => h1 (List.mem_cons_of_mem _ hm)) (fun hm => h2 (List.mem_cons_of_mem _ hm)) h.2
      simp [h.1, this.1, this.2]

theorem slash_notMem_natRepr (n : Nat) : '/' ∉ (Nat.repr n).toList := by
  intro hm
  rw [Nat.toList_repr] at hm
  have := Nat.isDigit_of_mem_toDigits (by omega) (by omega) hm
  revert this; decide

theorem slash_notMem_intRepr (a : Int) : '/' ∉ (Int.repr a).toList := by
  rw [Int.repr_eq_if]
  split
  · exact slash_notMem_natRepr _
  · intro hm
    simp only [String.toList_append, List.mem_append] at hm
    rcases hm with hm | hm
    · revert hm; decide
    · exact slash_notMem_natRepr _ hm

theorem Frac.str_toList (f : Frac) : f.str.toList = (Int.repr f.num).toList ++ '/' :: (Nat.repr f.den).toList := by
  unfold Frac.str
  show (toString f.num ++ toString "/" ++ toString f.den).toList = _
  simp [String.toList_append]
  rfl

/-- printing is injective: two fractions with the same text are the same fraction -/
theorem Frac.str_injective {f g : Frac} (h : f.str = g.str) : f = g := by
  have h' := congrArg String.toList h
  rw [Frac.str_toList, Frac.str_toList] at h'
  obtain ⟨h1, h2⟩ := append_sep_inj (slash_notMem_intRepr _) (slash_notMem_intRepr _) h'
  obtain ⟨a, b⟩ := f
  obtain ⟨a', b'⟩ := g
  simp only [String.toList_inj] at h1 h2
  rw [Int.repr_inj.mp h1, Nat.repr_inj.mp h2]

/-- distinct lattice points are printed differently by the driver: the text of `Drv.latticePos` determines `n` -/
theorem latticePos_injective {rows cols h w n n' : Nat} (hr : 1 ≤ rows) (hc : 1 ≤ cols) (hh : 1 ≤ h) (hw : 1 ≤ w)
    (he : Drv.latticePos rows cols h w n = Drv.latticePos rows cols h w n') : n = n' := by
  rw [latticePos_eq, latticePos_eq] at he
  simp only [List.cons.injEq, and_true] at he
  exact latticeXY_injective_reduce hr hc hh hw (Frac.str_injective he.1) (Frac.str_injective he.2)

example : ((List.range 12).map (Drv.latticePos 3 4 6 10)).Nodup := by decide

/-! ## the box -/

/-- **latticeXY_in_box**: every point `n < rows * cols` of the lattice lies in the `h × w` box; more precisely
`0 ≤ x < w` and `0 < y ≤ h` (the top row is at `y = h`, no point at `y = 0`; even rows start at `x = 0`, no point
at `x = w`). -/
theorem latticeXY_in_box {rows cols h w n : Nat} (hh : 1 ≤ h) (hw : 1 ≤ w) (hn : n < rows * cols) :
    0 ≤ (latticeXY rows cols h w n).1.toRat ∧ (latticeXY rows cols h w n).1.toRat < w
    ∧ 0 < (latticeXY rows cols h w n).2.toRat ∧ (latticeXY rows cols h w n).2.toRat ≤ h := by
  have hc : 0 < cols := by
    rcases Nat.eq_zero_or_pos cols with h0 | h0
    · subst h0; simp at hn
    · exact h0
  have hi : n / cols < rows := (Nat.div_lt_iff_lt_mul hc).mpr hn
  have hr : 0 < rows := Nat.lt_of_le_of_lt (Nat.zero_le _) hi
  have hj : n % cols < cols := Nat.mod_lt _ hc
  have hhq : (0 : ℚ) < h := by exact_mod_cast hh
  have hwq : (0 : ℚ) < w := by exact_mod_cast hw
  have hcq : (0 : ℚ) < cols := by exact_mod_cast hc
  have hrq : (0 : ℚ) < rows := by exact_mod_cast hr
  obtain ⟨b1, _, _, b4⟩ := Lattice.lattice_in_box hhq hwq hi hj
  rw [(latticeXY_eq rows cols h w n hr).1, (latticeXY_eq rows cols h w n hr).2]
  refine ⟨b1, ?_, ?_, b4⟩
  · unfold Lattice.posX
    have hmod : ((((n / cols) % 2 : ℕ)) : ℚ) ≤ 1 := by
      have : (n / cols) % 2 < 2 := Nat.mod_lt _ (by omega)
      exact_mod_cast (by omega : (n / cols) % 2 ≤ 1)
    have hj' : ((n % cols : ℕ) : ℚ) + 1 ≤ cols := by exact_mod_cast hj
    rw [div_mul_eq_mul_div, div_lt_iff₀ (by positivity)]
    have : (2 * ((n % cols : ℕ) : ℚ) + (((n / cols) % 2 : ℕ) : ℚ)) < 2 * cols := by linarith
    nlinarith
  · unfold Lattice.posY
    have hi' : ((n / cols : ℕ) : ℚ) + 1 ≤ rows := by exact_mod_cast hi
    have : (h : ℚ) / rows * ((n / cols : ℕ) : ℚ) < h := by
      rw [div_mul_eq_mul_div, div_lt_iff₀ hrq]
      nlinarith
    linarith

/-- the hypotheses of `latticeXY_in_box` hold on a concrete lattice (point 6 = row 1, column 2 of 3 × 4) -/
example : 0 ≤ (latticeXY 3 4 6 10 6).1.toRat ∧ (latticeXY 3 4 6 10 6).1.toRat < (10 : ℕ)
    ∧ 0 < (latticeXY 3 4 6 10 6).2.toRat ∧ (latticeXY 3 4 6 10 6).2.toRat ≤ (6 : ℕ) :=
  latticeXY_in_box (by decide) (by decide) (by decide)

/-- the same bounds for the reduced fractions -/
theorem latticeXY_in_box_reduce {rows cols h w n : Nat} (hh : 1 ≤ h) (hw : 1 ≤ w) (hn : n < rows * cols) :
    0 ≤ (latticeXY rows cols h w n).1.reduce.toRat ∧ (latticeXY rows cols h w n).1.reduce.toRat < w
    ∧ 0 < (latticeXY rows cols h w n).2.reduce.toRat ∧ (latticeXY rows cols h w n).2.reduce.toRat ≤ h := by
  simp only [reduce_val]
  exact latticeXY_in_box hh hw hn

/-- the bounds without rationals: `0 ≤ xnum < w * xden`, `0 < ynum ≤ h * yden`, positive denominators -/
theorem latticeXY_in_box_int {rows cols h w n : Nat} (hh : 1 ≤ h) (hw : 1 ≤ w) (hn : n < rows * cols) :
    0 < (latticeXY rows cols h w n).1.den ∧ 0 < (latticeXY rows cols h w n).2.den
    ∧ 0 ≤ (latticeXY rows cols h w n).1.num
    ∧ (latticeXY rows cols h w n).1.num < (w : Int) * (latticeXY rows cols h w n).1.den
    ∧ 0 < (latticeXY rows cols h w n).2.num
    ∧ (latticeXY rows cols h w n).2.num ≤ (h : Int) * (latticeXY rows cols h w n).2.den := by
  have hc : 0 < cols := by
    rcases Nat.eq_zero_or_pos cols with h0 | h0
    · subst h0; simp at hn
    · exact h0
  have hi : n / cols < rows := (Nat.div_lt_iff_lt_mul hc).mpr hn
  have hr : 0 < rows := Nat.lt_of_le_of_lt (Nat.zero_le _) hi
  have hj : n % cols < cols := Nat.mod_lt _ hc
  rw [latticeXY_fst, latticeXY_snd]
  simp only
  have hb : (n / cols) % 2 ≤ 1 := by omega
  refine ⟨by omega, hr, by positivity, ?_, ?_, ?_⟩
  · have : w * (2 * (n % cols) + n / cols % 2) < w * (2 * cols) :=
      Nat.mul_lt_mul_of_pos_left (by omega) (by omega)
    exact_mod_cast this
  · have : h * (n / cols) < h * rows := Nat.mul_lt_mul_of_pos_left hi (by omega)
    have : ((h * (n / cols) : ℕ) : Int) < ((h * rows : ℕ) : Int) := by exact_mod_cast this
    omega
  · have : (0 : Int) ≤ ((h * (n / cols) : ℕ) : Int) := by positivity
    push_cast at *
    linarith

example : ∀ n ∈ List.range 12, (latticeXY 3 4 6 10 n).1.num < 10 * (latticeXY 3 4 6 10 n).1.den
    ∧ 0 < (latticeXY 3 4 6 10 n).2.num := by decide

end Lat
