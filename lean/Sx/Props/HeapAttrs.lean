import Sx.Model
import Sx.Props.Heap
import Sx.Props.ComposeInto
import Sx.Props.AddFrom
import Sx.Props.Relabel
import Sx.Props.C01
import Sx.Props.Views
import Sx.Props.Filtration
import Sx.Proofs.FlatBasis5
import Sx.Proofs.FlatDelete2
import Sx.Proofs.FlatSubdiv
import Mathlib.Tactic.SplitIfs
import Mathlib.Data.List.Basic

/-! # C02 / C15 / C08 — the attribute clauses, at the heap level

Model reading (`Sx/Model/World.lean`): a complex object is `h ↦ Obj` with a structure `c` and an association
`attrs : simplex name ↦ identity of its attribute dict`; dict objects live in `cells`. "Keeps its attribute
values" = holds the same dict object (`attr?`) and that dict object has the content it had (`cell?`); "the dict
handed over is stored" = `attr?` returns the very identity passed in; "a fresh dict" = an identity `≥ w.next`
(allocated by the call, so not a dict of any object of `w`, nor one held by the script: `WInv`).

Hypotheses. Every theorem is for ALL worlds with `WInv w` (some need not even that). `WInv` says nothing about
which names have an `attrs` entry, so the statements that speak about "the simplices" of the object assume
`Synced o` (`attrs` lists exactly the simplices: what every operation of the model stores — each theorem below
also concludes `Synced o'` —; it cannot be dropped: `exBad` at the end). The relabelling, `addSimplicesFrom` and
the "every survivor" form of subdivision also need `Inv o.c` (the structural theorems they rest on do).

Contents.
* Part 1 `sync_attrs` (`SyncAttrs`): who gets which cell after `sync`, incl. pairwise different fresh cells.
* Part 2 (namespace `Flat`): additions only add (`addS_sublist`, `addSimplexWithBasisQ_sublist`, for EVERY
  outcome and without `Inv`), deletions only delete (`deleteSimplex_names_sub`, …), `subdivide_survivors`,
  `addSimplexWithBasisQ_ok_new` (which simplices a successful `addSimplexWithBasis` creates).
* Part 3 `addFacesOp_attrs`, `addFacesOp_error`.               (C02: `addSimplex`)
* Part 4 `addBasisOp_attrs` (`AddAttrs`), `addBasisOp_error_attrs`, `addBasisOp_created`; 4b
  `structural_mutator_frame` (C08).                                (C02: `addSimplexWithBasis`)
* Part 5 `structOp_attrs`, `structOp_attrs_del`, `deleteOp_attrs`, `deleteBasisOp_attrs`, `deleteManyOp_attrs`,
  `restrictOp_attrs`, `structOp_error`; `subdivideOp_attrs`, `subdivideOp_attrs_inv`, `subdivideOp_error`.
* Part 6 `relabelOp_attrs`, `relabelOneOp_attrs`, `relabelOp_error`, `relabelOneOp_error`.   (C15)
* Part 7 `addFromOp_attrs`, `addFromOp_attrs_ok`, `addFromOp_absent`.                         (C15)
* Part 8 `setAttrOp_attrs`, `dictSetOp_attrs` (positive half of `dictSetOp_frame`), `userDictSet_visible`,
  `addFacesOp_stores_callers_dict`, `copyIntoOp_eq`.
* Part 9 concrete worlds: every theorem instantiated, the cell ids computed by `decide`.

Checked against the Python source: `simplicialcomplex.py` `addSimplex` does `if attr is None: attr = dict()` and
`self._attributes[id] = attr` — the caller's dict OBJECT is stored, not a copy. `base.py` `addSimplexWithBasis`
does `if attr is None: attr = dict()` ONCE, `ensureBasis(bs, attr)` calls `addSimplex(id=b, attr=attr)` for every
missing point, `_addSimplexWithBasis` calls `addSimplex(id=id, fs=fs, attr=attr)` for the top simplex and
`addSimplex(id=fid, fs=fs)` (no `attr`: a new `dict()` each) for the faces in between. So the top simplex and all
new basis points share one dict object, as the model says — although the docstring of `addSimplexWithBasis`
promises that "all simplices created (including the top-most one) are given the attributes provided".
`relabelSimplex`: `_attributes[q] = _attributes[s]; del _attributes[s]` (the object moves). `addSimplicesFrom`:
`attr=copy.copy(c[s])` (a shallow copy per simplex). `setAttributes`: `_attributes[s] = attr` (no copy). -/
namespace W
open Flat

/-! ## Part 0 — the objects the library stores: a dict for exactly the simplices -/

/-- the object has an attribute dict for exactly its simplices, in listing order. Every operation of
`Sx/Model/World.lean` stores objects of this kind (`SyncSpec.names` for the ones that go through `sync`; the
theorems below for the relabelling and `c[s] = attr`); `WInv` does not contain it. -/
def Synced (o : Obj) : Prop := o.attrs.map (·.1) = o.c.names

theorem Synced.isSome_iff {o : Obj} (h : Synced o) {n : Name} : (o.attr? n).isSome = true ↔ n ∈ o.c.names := by
  rw [attr?_isSome_iff, h]

theorem attr?_none_of_not_mem {o : Obj} {n : Name} (hn : n ∉ o.attrs.map (·.1)) : o.attr? n = none := by
  cases hk : o.attr? n with
  | none => rfl
  | some d => exact absurd (attr?_isSome_iff.mp (by rw [hk]; rfl)) hn

theorem Synced.none_of_not_mem {o : Obj} (h : Synced o) {n : Name} (hn : n ∉ o.c.names) : o.attr? n = none :=
  attr?_none_of_not_mem (by rw [h]; exact hn)

theorem Synced.some_of_mem {o : Obj} (h : Synced o) {n : Name} (hn : n ∈ o.c.names) : ∃ d, o.attr? n = some d :=
  Option.isSome_iff_exists.mp (h.isSome_iff.mpr hn)

/-- "keeps its attribute VALUES": a simplex that holds the same dict object as before, in a world in which the
dict objects that existed have the content they had, reads the same dict -/
theorem dictOf_eq_of_attr {w w' : World} {o o' : Obj} {m : Name} (hok : OK w o) (ha : o'.attr? m = o.attr? m)
    (hc : ∀ d, d < w.next → w'.cell? d = w.cell? d) : o'.dictOf w' m = o.dictOf w m := by
  unfold Obj.dictOf
  rw [ha]
  cases hd : o.attr? m with
  | none => rfl
  | some d => simp only; rw [hc d (hok.ids_lt d (attr?_mem_ids hd))]

/-! ## Part 1 — `sync`, once more: who gets which cell -/

/-- the simplex gets a dict object allocated by `sync` -/
def IsFresh (o : Obj) (sp : Name → Option Nat) (p : Name × Nat) : Prop := o.attr? p.1 = none ∧ sp p.1 = none

theorem syncStep_shape (o : Obj) (sp : Name → Option Nat) (ct : Name → Dict) (A : List (Name × Nat)) (w0 : World)
    (n : Name) :
    ∃ d w1, syncStep o sp ct (A, w0) n = (A ++ [(n, d)], w1) ∧ w0.next ≤ w1.next ∧
      (IsFresh o sp (n, d) → d = w0.next ∧ w1.next = w0.next + 1) ∧
      (¬ IsFresh o sp (n, d) → w1 = w0) := by
  unfold syncStep IsFresh
  cases ha : o.attr? n with
  | some d =>
    exact ⟨d, w0, rfl, Nat.le_refl _, fun h => (by have h1 : o.attr? n = none := h.1; rw [ha] at h1; cases h1),
      fun _ => rfl⟩
  | none =>
    cases hs : sp n with
    | some d =>
      exact ⟨d, w0, rfl, Nat.le_refl _, fun h => (by have h1 : sp n = none := h.2; rw [hs] at h1; cases h1),
        fun _ => rfl⟩
    | none =>
      exact ⟨w0.next, (w0.alloc (ct n)).2, rfl, (by rw [alloc_next]; omega), fun _ => ⟨rfl, rfl⟩,
        fun h => absurd (show o.attr? n = none ∧ sp n = none from ⟨ha, hs⟩) h⟩

theorem pairwise_mem_or {α : Type} {R : α → α → Prop} {l : List α} (h : l.Pairwise R) {a b : α} (ha : a ∈ l)
    (hb : b ∈ l) (hne : a ≠ b) : R a b ∨ R b a := by
  induction h with
  | nil => cases ha
  | cons hx _ ih =>
    rcases List.mem_cons.mp ha with rfl | ha' <;> rcases List.mem_cons.mp hb with rfl | hb'
    · exact absurd rfl hne
    · exact Or.inl (hx _ hb')
    · exact Or.inr (hx _ ha')
    · exact ih ha' hb'

/-- the cells allocated by the loop of `sync` are pairwise different: they are handed out in increasing order -/
theorem syncFold_fresh (o : Obj) (sp : Name → Option Nat) (ct : Name → Dict) :
    ∀ (ns : List Name) (A : List (Name × Nat)) (w0 : World),
      ∃ B, (ns.foldl (syncStep o sp ct) (A, w0)).1 = A ++ B ∧
        w0.next ≤ (ns.foldl (syncStep o sp ct) (A, w0)).2.next ∧
        (∀ p ∈ B, IsFresh o sp p → w0.next ≤ p.2) ∧
        B.Pairwise (fun p q => IsFresh o sp p → IsFresh o sp q → p.2 < q.2) ∧
        ((∀ p ∈ B, ¬ IsFresh o sp p) → (ns.foldl (syncStep o sp ct) (A, w0)).2 = w0) := by
  intro ns
  induction ns with
  | nil =>
    intro A w0
    exact ⟨[], by simp, Nat.le_refl _, fun p hp => (by cases hp), List.Pairwise.nil, fun _ => rfl⟩
  | cons n rest ih =>
    intro A w0
    rw [List.foldl_cons]
    obtain ⟨d, w1, hs, hle, hfr, hnf⟩ := syncStep_shape o sp ct A w0 n
    rw [hs]
    obtain ⟨B, hB, hle2, hlow, hpw, hsame⟩ := ih (A ++ [(n, d)]) w1
    refine ⟨(n, d) :: B, by rw [hB]; simp, Nat.le_trans hle hle2, ?_, ?_, ?_⟩
    · intro p hp hf
      rcases List.mem_cons.mp hp with rfl | hp
      · rw [(hfr hf).1]
      · exact Nat.le_trans hle (hlow p hp hf)
    · refine List.Pairwise.cons ?_ hpw
      intro q hq hf hfq
      have := hlow q hq hfq
      have h1 := hfr hf
      simp only
      omega
    · intro hall
      rw [hsame (fun p hp => hall p (List.mem_cons_of_mem _ hp))]
      exact hnf (hall _ List.mem_cons_self)

/-- what `sync w0 o1 c' sp ct`, stored at `h`, does to the attribute dicts — everything the theorems on the
mutators need, in one statement. `o1` is the object handed to `sync` (the old object, possibly with some
entries removed), `o'` the new object, `w'` the new world. -/
structure SyncAttrs (w0 : World) (o1 : Obj) (c' : C) (sp : Name → Option Nat) (ct : Name → Dict) (h : String)
    (o' : Obj) (w' : World) : Prop where
  obj : w'.obj? h = some o'
  c : o'.c = c'
  rep : o'.rep = o1.rep
  filt : o'.filt = o1.filt
  synced : Synced o'
  /-- a simplex that had a dict object keeps that very object -/
  kept : ∀ n ∈ c'.names, ∀ d, o1.attr? n = some d → o'.attr? n = some d
  /-- a simplex without one gets the `special` one when there is one -/
  special : ∀ n ∈ c'.names, o1.attr? n = none → ∀ d, sp n = some d → o'.attr? n = some d
  /-- and otherwise a dict object allocated by the call, holding `ct n` -/
  fresh : ∀ n ∈ c'.names, o1.attr? n = none → sp n = none →
    ∃ e, o'.attr? n = some e ∧ w0.next ≤ e ∧ e < w'.next ∧ w'.cell? e = some (ct n)
  /-- two simplices never get the same allocated dict object -/
  fresh_inj : ∀ n m e, n ≠ m → o1.attr? n = none → sp n = none → o1.attr? m = none → sp m = none →
    o'.attr? n = some e → o'.attr? m ≠ some e
  /-- a name that is not a simplex of the new structure has no dict -/
  gone : ∀ n, n ∉ c'.names → o'.attr? n = none
  /-- no dict object that existed is written -/
  cell_old : ∀ d, d < w0.next → w'.cell? d = w0.cell? d
  next_le : w0.next ≤ w'.next
  obj_other : ∀ g, g ≠ h → w'.obj? g = w0.obj? g
  udict : w'.udict = w0.udict
  /-- nothing is allocated when every simplex of the new structure has a dict already (or a `special` one) -/
  no_alloc : (∀ n ∈ c'.names, o1.attr? n ≠ none ∨ sp n ≠ none) → w'.cells = w0.cells ∧ w'.next = w0.next

theorem sync_attrs {w0 : World} (hc : CellLt w0) (o1 : Obj) (c' : C) (sp : Name → Option Nat) (ct : Name → Dict)
    (h : String) :
    SyncAttrs w0 o1 c' sp ct h (sync w0 o1 c' sp ct).1
      ((sync w0 o1 c' sp ct).2.setObj h (sync w0 o1 c' sp ct).1) := by
  have s := sync_spec w0 o1 c' sp ct hc
  have f := (s.frame h).trans (Frame.setObj _ h (sync w0 o1 c' sp ct).1)
  obtain ⟨B, hB, -, -, hpw, hsame⟩ := syncFold_fresh o1 sp ct c'.names [] w0
  rw [List.nil_append] at hB
  have hattrs : (sync w0 o1 c' sp ct).1.attrs = B := by rw [sync_eq]; exact hB
  have hsynced : Synced (sync w0 o1 c' sp ct).1 := by unfold Synced; rw [s.names, s.c]
  refine ⟨obj?_setObj_self _ _ _, s.c, s.rep, s.filt, hsynced, ?_, ?_, ?_, ?_, ?_, f.cell_old, f.next_le,
    f.obj_other, f.udict, ?_⟩
  · intro n hn d hd
    obtain ⟨e, he, hg⟩ := s.attr? hn
    rcases hg with h1 | ⟨h1, -⟩ | ⟨h1, -⟩
    · simp only at h1; rw [hd] at h1; rw [he, h1]
    · simp only at h1; rw [hd] at h1; cases h1
    · simp only at h1; rw [hd] at h1; cases h1
  · intro n hn hnone d hd
    obtain ⟨e, he, hg⟩ := s.attr? hn
    rcases hg with h1 | ⟨-, h2⟩ | ⟨-, h2, -⟩
    · simp only at h1; rw [hnone] at h1; cases h1
    · simp only at h2; rw [hd] at h2; rw [he, h2]
    · simp only at h2; rw [hd] at h2; cases h2
  · intro n hn hnone hsp
    obtain ⟨e, he, hg⟩ := s.attr? hn
    rcases hg with h1 | ⟨-, h2⟩ | ⟨-, -, h3, h4, h5⟩
    · simp only at h1; rw [hnone] at h1; cases h1
    · simp only at h2; rw [hsp] at h2; cases h2
    · simp only at h3 h4 h5
      exact ⟨e, he, h3, by simpa using h4, by rw [setObj_cell?]; exact h5⟩
  · intro n m e hnm hn1 hn2 hm1 hm2 he he'
    rw [attr?_eq, hattrs] at he he'
    have hp := kfind_mem he
    have hq := kfind_mem he'
    have hne : ((n, e) : Name × Nat) ≠ (m, e) := fun e' => hnm (congrArg Prod.fst e')
    rcases pairwise_mem_or hpw hp hq hne with h1 | h1
    · exact absurd (h1 ⟨hn1, hn2⟩ ⟨hm1, hm2⟩) (Nat.lt_irrefl _)
    · exact absurd (h1 ⟨hm1, hm2⟩ ⟨hn1, hn2⟩) (Nat.lt_irrefl _)
  · intro n hn
    exact hsynced.none_of_not_mem (by rw [s.c]; exact hn)
  · intro hall
    have : (sync w0 o1 c' sp ct).2 = w0 := by
      rw [sync_eq]
      apply hsame
      intro p hp hf
      have hpn : p.1 ∈ c'.names := by
        rw [← s.names, hattrs]; exact List.mem_map.mpr ⟨p, hp, rfl⟩
      rcases hall p.1 hpn with h1 | h1
      · exact h1 hf.1
      · exact h1 hf.2
    rw [this]
    exact ⟨by simp, by simp⟩

end W

/-! ## Part 2 — structural facts that need no invariant: additions only add, deletions only delete -/
namespace Flat

theorem addSimplex_ok_facts {c c' : C} {fs : List Name} {t : Name} (h : c.addSimplex fs t = .ok c') :
    c.simps.Sublist c'.simps ∧ c.contains t = false ∧ t ∈ c'.names := by
  unfold Cx.addSimplex at h
  simp only at h
  split_ifs at h with h1 h2 h3 h4 h5
  all_goals
    injection h with h; subst h
    refine ⟨sublist_insertSorted _ _, by simpa using h2, ?_⟩
    simp only [Cx.names, List.mem_map]
    exact ⟨_, mem_insertSorted.mpr (Or.inl rfl), rfl⟩

theorem names_of_sublist {c c' : C} (h : c.simps.Sublist c'.simps) {n : Name} (hn : n ∈ c.names) : n ∈ c'.names := by
  obtain ⟨s, hs, rfl⟩ := List.mem_map.mp hn
  exact List.mem_map.mpr ⟨s, h.subset hs, rfl⟩

/-- `addSimplex` (by faces), every outcome: nothing is removed -/
theorem addS_sublist (c : C) (fs : List Name) (id : Option Name) : c.simps.Sublist (addS c fs id).2.simps := by
  unfold addS
  cases id with
  | some n =>
    simp only
    cases h : c.addSimplex fs n with
    | ok c' => exact (addSimplex_ok_facts h).1
    | error e => exact List.Sublist.refl _
  | none =>
    simp only
    cases h : c.addSimplex fs (newSimplex c (fs.length - 1)).1 with
    | ok c' => exact (addSimplex_ok_facts h).1
    | error e => exact List.Sublist.refl _

/-- a successful `addSimplex` (by faces): the returned name was unused, is a simplex now, and the simplices are
the old ones and that one -/
theorem addS_ok_facts {c c' : C} {fs : List Name} {id : Option Name} {n : Name} (h : addS c fs id = (.ok n, c')) :
    c.simps.Sublist c'.simps ∧ c.contains n = false ∧ n ∈ c'.names ∧ (∀ m ∈ c'.names, m = n ∨ m ∈ c.names) ∧
      (∀ m, id = some m → n = m) := by
  unfold addS at h
  cases id with
  | some t =>
    simp only at h
    cases ha : c.addSimplex fs t with
    | error e => rw [ha] at h; simp at h
    | ok c1 =>
      rw [ha] at h
      simp only [Prod.mk.injEq, Except.ok.injEq] at h
      obtain ⟨rfl, rfl⟩ := h
      obtain ⟨h1, h2, h3⟩ := addSimplex_ok_facts ha
      exact ⟨h1, h2, h3, W.addSimplex_ok_names ha, fun m hm => by injection hm⟩
  | none =>
    simp only at h
    cases ha : c.addSimplex fs (newSimplex c (fs.length - 1)).1 with
    | error e => rw [ha] at h; simp at h
    | ok c1 =>
      rw [ha] at h
      simp only [Prod.mk.injEq, Except.ok.injEq] at h
      obtain ⟨rfl, rfl⟩ := h
      obtain ⟨h1, h2, h3⟩ := addSimplex_ok_facts ha
      exact ⟨h1, h2, h3, fun m hm => W.addSimplex_ok_names ha m hm, fun m hm => by cases hm⟩

theorem addFace_sublist (c : C) (fs : List Name) (id : Name) : c.simps.Sublist (addFace c fs id).2.simps := by
  unfold addFace
  simp only
  cases h : c.addSimplex fs (newSimplexAvoid c (fs.length - 1) id).1 with
  | ok c' => exact (addSimplex_ok_facts h).1
  | error e => exact List.Sublist.refl _

theorem facetLoop_sublist (rec : C → List Name → R Name) (hrec : ∀ (c : C) (p : List Name), c.simps.Sublist (rec c p).2.simps) :
    ∀ (ps : List (List Name)) (c : C) (acc : List Name), c.simps.Sublist (facetLoop rec c acc ps).2.simps := by
  intro ps
  induction ps with
  | nil => intro c acc; exact List.Sublist.refl _
  | cons p ps ih =>
    intro c acc
    rw [facetLoop]
    have h1 := hrec c p
    cases hr : rec c p with
    | mk res c1 =>
      rw [hr] at h1
      cases res with
      | ok f => exact h1.trans (ih c1 _)
      | error e => exact h1

theorem addWB_sublist (id : Name) (k : Nat) :
    ∀ (fuel : Nat) (c : C) (bs : List Name), c.simps.Sublist (addWB id k fuel c bs).2.simps := by
  intro fuel
  induction fuel with
  | zero => intro c bs; exact List.Sublist.refl _
  | succ fuel ih =>
    intro c bs
    rw [addWB]
    cases simplexWithBasis c bs with
    | some s => exact List.Sublist.refl _
    | none =>
      simp only
      have h1 := facetLoop_sublist (addWB id k fuel) ih (dropOne bs) c []
      cases hr : facetLoop (addWB id k fuel) c [] (dropOne bs) with
      | mk res c1 =>
        rw [hr] at h1
        cases res with
        | error e => exact h1
        | ok fs =>
          simp only
          split_ifs
          · exact h1.trans (addS_sublist c1 fs (some id))
          · exact h1.trans (addFace_sublist c1 fs id)

theorem ensurePoints_sublist : ∀ (bs : List Name) (c c1 : C), ensurePoints c bs = .ok c1 → c.simps.Sublist c1.simps := by
  intro bs
  induction bs with
  | nil => intro c c1 h; rw [ensurePoints] at h; injection h with h; subst h; exact List.Sublist.refl _
  | cons b bs ih =>
    intro c c1 h
    rw [ensurePoints] at h
    split_ifs at h
    · exact ih c c1 h
    · cases ha : c.addSimplex [] b with
      | error e => rw [ha] at h; cases h
      | ok c2 =>
        rw [ha] at h
        exact (addSimplex_ok_facts ha).1.trans (ih c2 c1 h)

theorem newSimplex_simps (c : C) (d : Nat) : (newSimplex c d).2.simps = c.simps := rfl

theorem topName_simps (c : C) (d : Nat) (id : Option Name) : (topName c d id).2.simps = c.simps := by
  cases id <;> rfl

theorem addSimplexWithBasis'_sublist (c : C) (bs : List Name) (id : Option Name) :
    c.simps.Sublist (addSimplexWithBasis' c bs id).2.simps := by
  unfold addSimplexWithBasis'
  split_ifs
  any_goals exact List.Sublist.refl _
  cases he : ensurePoints c bs with
  | error e => exact List.Sublist.refl _
  | ok c1 =>
    simp only
    have h1 := ensurePoints_sublist bs c c1 he
    have h2 := addWB_sublist (topName c1 (bs.length - 1) id).1 (bs.length - 1) bs.length
      (topName c1 (bs.length - 1) id).2 bs
    rw [topName_simps] at h2
    exact h1.trans h2

/-- `addSimplexWithBasis`, every outcome (also an exception half-way): nothing is removed -/
theorem addSimplexWithBasisQ_sublist (c : C) (bs : List Name) (id : Option Name) :
    c.simps.Sublist (addSimplexWithBasisQ c bs id).2.simps := by
  unfold addSimplexWithBasisQ
  split_ifs
  any_goals exact List.Sublist.refl _
  split
  · exact List.Sublist.refl _
  · split_ifs
    · exact List.Sublist.refl _
    · exact addS_sublist c [] id
  · exact addSimplexWithBasis'_sublist c bs id

/-! deletions only delete -/

theorem forceDelete_names_sub (c : C) (n : Name) : ∀ m ∈ (c.forceDelete n).names, m ∈ c.names := by
  intro m hm
  simp only [Cx.names, Cx.forceDelete, List.map_map, List.mem_map, List.mem_filter] at hm ⊢
  obtain ⟨t, ⟨ht, _⟩, rfl⟩ := hm
  exact ⟨t, ht, rfl⟩

theorem foldl_forceDelete_names_sub : ∀ (l : List Name) (c : C), ∀ m ∈ (l.foldl Cx.forceDelete c).names, m ∈ c.names := by
  intro l
  induction l with
  | nil => intro c m hm; exact hm
  | cons a l ih =>
    intro c m hm
    rw [List.foldl_cons] at hm
    exact forceDelete_names_sub c a m (ih _ m hm)

theorem deleteSimplex_names_sub {c c' : C} {s : Name} (h : deleteSimplex c s = some c') :
    ∀ m ∈ c'.names, m ∈ c.names := by
  unfold deleteSimplex at h
  cases ho : c.orderOf? s with
  | none => rw [ho] at h; cases h
  | some k =>
    rw [ho] at h
    simp only [Option.some.injEq] at h
    subst h
    exact foldl_forceDelete_names_sub _ c

theorem deleteSimplex_getD_names_sub (c : C) (s : Name) : ∀ m ∈ ((deleteSimplex c s).getD c).names, m ∈ c.names := by
  cases h : deleteSimplex c s with
  | none => intro m hm; exact hm
  | some c' => exact deleteSimplex_names_sub h

theorem deleteSimplices_names_sub : ∀ (ss : List Name) (c : C), ∀ m ∈ (deleteSimplices c ss).names, m ∈ c.names := by
  intro ss
  induction ss with
  | nil => intro c m hm; exact hm
  | cons s ss ih =>
    intro c m hm
    rw [deleteSimplices] at hm
    split_ifs at hm
    · exact deleteSimplex_getD_names_sub c s m (ih _ m hm)
    · exact ih c m hm

theorem restrictLoop_names_sub (retain : List Name) :
    ∀ (ns : List Name) (c : C), ∀ m ∈ (restrictLoop retain c ns).names, m ∈ c.names := by
  intro ns
  induction ns with
  | nil => intro c m hm; exact hm
  | cons n ns ih =>
    intro c m hm
    rw [restrictLoop] at hm
    split_ifs at hm
    · exact deleteSimplex_getD_names_sub c n m (ih _ m hm)
    · exact ih c m hm

theorem restrictBasisTo_names_sub {c c' : C} {bs : List Name} (h : restrictBasisTo c bs = some c') :
    ∀ m ∈ c'.names, m ∈ c.names := by
  unfold restrictBasisTo at h
  split_ifs at h
  simp only [Option.some.injEq] at h
  subst h
  exact restrictLoop_names_sub _ _ c

theorem deleteSimplexWithBasis_names_sub {c c' : C} {bs : List Name} (h : deleteSimplexWithBasis c bs = some c') :
    ∀ m ∈ c'.names, m ∈ c.names := by
  unfold deleteSimplexWithBasis at h
  cases hs : simplexWithBasis c bs with
  | none => rw [hs] at h; cases h
  | some s => rw [hs] at h; exact deleteSimplex_names_sub h

theorem coneLoop_sublist (mid : Name) (pts : List Name) :
    ∀ (is : List Nat) (c c' : C), coneLoop mid pts c is = .ok c' → c.simps.Sublist c'.simps := by
  intro is
  induction is with
  | nil => intro c c' h; rw [coneLoop] at h; injection h with h; subst h; exact List.Sublist.refl _
  | cons i is ih =>
    intro c c' h
    rw [coneLoop] at h
    have h1 := addSimplexWithBasis'_sublist c (pts.eraseIdx i ++ [mid]) none
    cases hr : addSimplexWithBasis' c (pts.eraseIdx i ++ [mid]) none with
    | mk res c1 =>
      rw [hr] at h h1
      cases res with
      | error e => cases h
      | ok n => exact h1.trans (ih c1 c' h)

/-- the simplices outside the star of `s` are still there after `barycentricSubdivide(s)` -/
theorem subdivide_survivors {c c3 : C} (hI : Inv c) {s mid : Name} {order : List Name}
    (h : subdivide c s order = .ok (mid, c3)) :
    ∀ m ∈ ((deleteSimplex c s).getD c).names, m ∈ c3.names := by
  classical
  unfold subdivide at h
  cases ho : c.orderOf? s with
  | none => rw [ho] at h; cases h
  | some k =>
    cases k with
    | zero => rw [ho] at h; cases h
    | succ k =>
      rw [ho] at h
      simp only at h
      obtain ⟨t, ht, htn, -, -⟩ := orderOf_some ho
      obtain ⟨f1, f2, -⟩ := newSimplex_fresh hI.nodup 0
      have hIr : Inv (newSimplex c 0).2 := inv_of_simps_eq f2 hI
      have hfr : (newSimplex c 0).2.contains (newSimplex c 0).1 = false := by
        rw [contains_of_simps_eq f2]; exact f1
      obtain ⟨c1, hadd, hI1, hs1⟩ := addPoint_spec hIr hfr
      rw [hadd] at h
      simp only at h
      have hmem1 : ∀ x, x ∈ c.simps → x ∈ c1.simps := by
        intro x hx; rw [hs1, f2]; exact mem_insertSorted.mpr (Or.inr hx)
      obtain ⟨cD, hdel, -, hcD⟩ := deleteSimplex_spec hI ht
      obtain ⟨c2, hdel1, -, hc2⟩ := deleteSimplex_spec hI1 (hmem1 t ht)
      rw [htn] at hdel hdel1
      rw [hdel1] at h
      simp only at h
      cases hcl : coneLoop (newSimplex c 0).1 order c2 (List.range order.length) with
      | error e => rw [hcl] at h; cases h
      | ok c3' =>
        rw [hcl] at h
        simp only [Except.ok.injEq, Prod.mk.injEq] at h
        obtain ⟨-, rfl⟩ := h
        have hsub := coneLoop_sublist _ _ _ _ _ hcl
        intro m hm
        rw [hdel] at hm
        simp only [Option.getD_some] at hm
        obtain ⟨x, hx, rfl⟩ := List.mem_map.mp hm
        rw [hcD] at hx
        simp only [List.mem_filter] at hx
        apply names_of_sublist hsub
        refine List.mem_map.mpr ⟨x, ?_, rfl⟩
        rw [hc2]
        simp only [List.mem_filter]
        exact ⟨hmem1 x hx.1, hx.2⟩

/-- a successful `addSimplexWithBasis` (|bs| ≥ 2) on a valid complex, with the name it returns: the basis has
no repeats, the returned name was unused and names the simplex on `bs`, and every new simplex lies inside `bs` -/
theorem addSimplexWithBasis'_ok_full {c c' : C} (hI : Inv c) {bs : List Name} (h2 : 2 ≤ bs.length)
    {id : Option Name} {n : Name} (h : addSimplexWithBasis' c bs id = (.ok n, c')) :
    Inv c' ∧ c.simps.Sublist c'.simps ∧ bs.Nodup ∧ c.contains n = false ∧ Names c' n bs ∧
      (∀ m, id = some m → n = m) ∧ ∀ t ∈ c'.simps, t ∈ c.simps ∨ t.pts ⊆ bs.toFinset := by
  classical
  by_cases hnd : bs.Nodup
  · by_cases g1 : idUsed c id = true
    · unfold addSimplexWithBasis' at h; rw [if_pos g1] at h; cases h
    by_cases g1b : idInBasis bs id = true
    · unfold addSimplexWithBasis' at h; rw [if_neg g1, if_pos g1b] at h; cases h
    by_cases g2 : bs.any (fun b => c.contains b && c.orderOf? b != some 0) = true
    · unfold addSimplexWithBasis' at h; rw [if_neg g1, if_neg g1b, if_pos g2] at h; cases h
    by_cases g3 : (simplexWithBasis c bs).isSome = true
    · unfold addSimplexWithBasis' at h; rw [if_neg g1, if_neg g1b, if_neg g2, if_pos g3] at h; cases h
    have hpt : ∀ b ∈ bs, c.contains b = true → ∃ t ∈ c.simps, t.name = b ∧ t.order = 0 := by
      intro b hb hcb
      have : ¬ (c.contains b && c.orderOf? b != some 0) = true := by
        intro hx; exact g2 (List.any_eq_true.mpr ⟨b, hb, hx⟩)
      simp only [hcb, Bool.true_and, bne_iff_ne, ne_eq, Decidable.not_not] at this
      obtain ⟨t, ht, hn⟩ := (contains_iff).mp hcb
      refine ⟨t, ht, hn, ?_⟩
      have ho := orderOf_of_mem hI ht
      rw [hn, this] at ho
      exact (Option.some.inj ho).symm
    have hnone : ¬ ∃ t ∈ c.simps, t.pts = bs.toFinset := by
      rintro ⟨t, ht, hp⟩
      have hall : PtsIn c bs := by
        intro b hb
        have hbp : b ∈ t.pts := by rw [hp]; exact List.mem_toFinset.mpr hb
        obtain ⟨u, hu, hn, h0, -⟩ := hI.basis_point t.order ht rfl b (by simpa [Simp.pts] using hbp)
        exact ⟨u, hu, hn, h0⟩
      have hne : bs ≠ [] := by intro e; rw [e] at h2; simp at h2
      have hsp := simplexWithBasis_spec hI hnd hne hall
      cases hsw : simplexWithBasis c bs with
      | none => exact hsp.2 hsw ⟨t, ht, hp⟩
      | some n => rw [hsw] at g3; exact g3 rfl
    have hid : ∀ m, id = some m → c.contains m = false ∧ m ∉ bs := by
      intro m hm
      subst hm
      refine ⟨by simpa [idUsed] using g1, ?_⟩
      simpa [idInBasis] using g1b
    obtain ⟨n', c'', hok, hI', hsub, hnm, hidn, hnew⟩ := addSimplexWithBasis_spec hI hnd h2 hpt hnone id hid
    rw [hok] at h
    simp only [Prod.mk.injEq, Except.ok.injEq] at h
    obtain ⟨rfl, rfl⟩ := h
    refine ⟨hI', hsub, hnd, ?_, hnm, hidn, hnew⟩
    rw [contains_false_iff]
    intro t' ht' hn'
    obtain ⟨t, ht, htn, htp⟩ := hnm
    have : t' = t := hI'.name_inj (hsub.subset ht') ht (hn'.trans htn.symm)
    exact hnone ⟨t', ht', this ▸ htp⟩
  · obtain ⟨e, he⟩ := addSimplexWithBasis'_dup hI hnd id
    rw [h] at he; cases he

/-- **which simplices `addSimplexWithBasis` creates**, for every successful call on a valid complex: the
returned name was unused; a new simplex of order 0 other than the returned one is a member of the basis handed
over (a basis point created by the call) -/
theorem addSimplexWithBasisQ_ok_new {c c' : C} (hI : Inv c) {bs : List Name} {id : Option Name} {n : Name}
    (h : addSimplexWithBasisQ c bs id = (.ok n, c')) :
    Inv c' ∧ n ∉ c.names ∧ n ∈ c'.names ∧
      ∀ m ∈ c'.names, m ∉ c.names → c'.orderOf? m = some 0 → m = n ∨ m ∈ bs := by
  have hI' : Inv c' := (addSimplexWithBasisQ_ok hI h).1
  unfold addSimplexWithBasisQ at h
  split at h; · cases h
  split at h; · cases h
  split at h
  · cases h
  · split at h; · cases h
    obtain ⟨-, h2, h3, h4, -⟩ := addS_ok_facts h
    refine ⟨hI', contains_false_iff_names.mp h2, h3, ?_⟩
    intro m hm hnew _
    rcases h4 m hm with h5 | h5
    · exact Or.inl h5
    · exact absurd h5 hnew
  · rename_i hn0 hn1
    have h2 : 2 ≤ bs.length := by
      match bs, hn0, hn1 with
      | [], hn0, _ => exact absurd rfl hn0
      | [b], _, hn1 => exact absurd rfl (hn1 b)
      | _ :: _ :: _, _, _ => simp
    obtain ⟨-, hsub, -, hfr, ⟨t0, ht0, ht0n, -⟩, -, hnew⟩ := addSimplexWithBasis'_ok_full hI h2 h
    refine ⟨hI', contains_false_iff_names.mp hfr, List.mem_map.mpr ⟨t0, ht0, ht0n⟩, ?_⟩
    intro m hm hnotin ho0
    obtain ⟨t, ht, rfl⟩ := List.mem_map.mp hm
    rcases hnew t ht with h5 | h5
    · exact absurd (List.mem_map.mpr ⟨t, h5, rfl⟩) hnotin
    · right
      rw [orderOf_of_mem hI' ht] at ho0
      have h0 : t.order = 0 := Option.some.inj ho0
      rw [point_pts hI' ht h0] at h5
      have := h5 (Finset.mem_singleton_self _)
      exact List.mem_toFinset.mp this

/-- after a successful `addSimplexWithBasis` with at least two basis members, every member of the basis is a
point of the result -/
theorem addSimplexWithBasisQ_ok_points {c c' : C} (hI : Inv c) {bs : List Name} {id : Option Name} {n : Name}
    (h2 : 2 ≤ bs.length) (h : addSimplexWithBasisQ c bs id = (.ok n, c')) :
    ∀ b ∈ bs, b ∈ c'.names ∧ c'.orderOf? b = some 0 := by
  have h' : addSimplexWithBasis' c bs id = (.ok n, c') := by
    unfold addSimplexWithBasisQ at h
    split at h; · cases h
    split at h; · cases h
    split at h
    · simp at h2
    · simp at h2
    · exact h
  obtain ⟨hI', -, -, -, ⟨t, ht, -, htp⟩, -, -⟩ := addSimplexWithBasis'_ok_full hI h2 h'
  intro b hb
  have hbt : b ∈ t.basis := by
    have : b ∈ t.pts := by rw [htp]; exact List.mem_toFinset.mpr hb
    simpa [Simp.pts] using this
  obtain ⟨u, hu, hun, hu0, -⟩ := hI'.basis_point t.order ht rfl b hbt
  refine ⟨List.mem_map.mpr ⟨u, hu, hun⟩, ?_⟩
  rw [← hun, orderOf_of_mem hI' hu, hu0]

end Flat

namespace W
open Flat

/-! ## Part 3 — `addSimplex` (by faces): C02, the attributes -/

theorem fs_c {o : Obj} {f : FS} (h : o.fs = some f) : f.c = o.c := by
  unfold Obj.fs at h
  cases hf : o.filt with
  | none => rw [hf] at h; cases h
  | some x => rw [hf] at h; simp only [Option.map_some, Option.some.injEq] at h; rw [← h]

theorem ensureKey_c (f : FS) (i : Int) : (f.ensureKey i).c = f.c := by
  unfold FS.ensureKey; split_ifs <;> rfl

theorem register_c (f : FS) (c' : C) : (f.register c').c = c' := by
  unfold FS.register
  simp only
  split_ifs
  · rfl
  · rw [ensureKey_c]

/-- the dict object a call with the optional argument `attr` works with: the caller's, or a new empty one -/
theorem argDict_some (w : World) (d : Nat) : argDict w (some d) = (d, w) := rfl
theorem argDict_none (w : World) : argDict w none = w.alloc [] := rfl

/-- the shape of `addFacesOp` on an existing object: rejected without any change, or the structural result of
`addS` on the structure of the object followed by `sync` (in the world in which the default `dict()` has been
created) -/
theorem addFacesOp_cases (w : World) (h : String) (fs : List Name) (id : Option Name) (attr : Option Nat)
    (o : Obj) (ho : w.obj? h = some o) :
    (∃ e, addFacesOp w h fs id attr = (.error e, w)) ∨
    (∃ n c' o1, addS o.c fs id = (.ok n, c') ∧ o1.attrs = o.attrs ∧ o1.rep = o.rep ∧
      addFacesOp w h fs id attr = (.ok n,
        (sync (argDict w attr).2 o1 c' (fun m => if m = n then some (argDict w attr).1 else none) emptyContent).2.setObj h
        (sync (argDict w attr).2 o1 c' (fun m => if m = n then some (argDict w attr).1 else none) emptyContent).1)) := by
  unfold addFacesOp
  rw [ho]
  simp only
  cases hf : o.fs with
  | none =>
    simp only
    cases hr : addS o.c fs id with
    | mk res c' =>
      cases res with
      | error e => exact Or.inl ⟨e, rfl⟩
      | ok n => exact Or.inr ⟨n, c', o, rfl, rfl, rfl, rfl⟩
  | some f =>
    simp only
    unfold FS.addByFaces
    split_ifs
    · exact Or.inl ⟨_, rfl⟩
    · rw [fs_c hf]
      cases hr : addS o.c fs id with
      | mk res c' =>
        cases res with
        | error e => exact Or.inl ⟨e, rfl⟩
        | ok n =>
          refine Or.inr ⟨n, c', o.withFS (f.register c'), rfl, rfl, rfl, ?_⟩
          simp only [register_c]

/-- **a rejected `addSimplex` changes nothing** (no object, no dict object, no allocation) -/
theorem addFacesOp_error (w : World) (h : String) (fs : List Name) (id : Option Name) (attr : Option Nat) (e : Err)
    (he : (addFacesOp w h fs id attr).1 = .error e) : (addFacesOp w h fs id attr).2 = w := by
  cases ho : w.obj? h with
  | none => unfold addFacesOp; rw [ho]
  | some o =>
    rcases addFacesOp_cases w h fs id attr o ho with ⟨e', h1⟩ | ⟨n, c', o1, -, -, -, h1⟩
    · rw [h1]
    · rw [h1] at he; cases he

/-- the world in which the `sync` of an `add…` call runs -/
theorem argDict_facts {w : World} (hc : CellLt w) (attr : Option Nat) :
    CellLt (argDict w attr).2 ∧ w.next ≤ (argDict w attr).2.next ∧
    (∀ d, d < w.next → (argDict w attr).2.cell? d = w.cell? d) ∧
    (∀ g, (argDict w attr).2.obj? g = w.obj? g) ∧ (argDict w attr).2.udict = w.udict ∧
    (∀ cell, attr = some cell → argDict w attr = (cell, w)) ∧
    (attr = none → (argDict w attr).1 = w.next ∧ (argDict w attr).2.next = w.next + 1 ∧
      (argDict w attr).2.cells = w.cells ++ [(w.next, [])] ∧ (argDict w attr).2.cell? w.next = some []) := by
  cases attr with
  | some d =>
    exact ⟨hc, Nat.le_refl _, fun _ _ => rfl, fun _ => rfl, rfl, fun cell e => (by cases e; rfl), fun e => (by cases e)⟩
  | none =>
    refine ⟨alloc_cellLt w [] hc, Nat.le_succ _, fun d hd => alloc_cell?_ne w [] (Nat.ne_of_lt hd), fun _ => rfl, rfl,
      fun cell e => (by cases e), fun _ => ⟨rfl, rfl, rfl, alloc_cell?_self w [] hc⟩⟩

theorem attr?_congr {o1 o : Obj} (h : o1.attrs = o.attrs) (m : Name) : o1.attr? m = o.attr? m := by
  rw [attr?_eq, attr?_eq, h]

/-- **C02, attributes of `addSimplex(fs, id, attr)`** at the heap level. After a successful call that returns
the name `n`, on an object `o` that has a dict for exactly its simplices, in a well-formed world:
* the structure is the one computed by `addS`; `n` was not a simplex and is one now;
* when a dict was handed over (`attr = some cell`), `n` holds THAT dict object (the same identity `cell`: the
  library stores the caller's dict, `self._attributes[id] = attr` in `simplicialcomplex.py`, it does not copy
  it — so later changes made through the caller's reference are seen through `c[n]`, see `dictSetOp_attrs`),
  and the call allocates nothing;
* when none was handed over, `n` holds a new dict object (identity `w.next`) whose content is empty, and that is
  the only allocation;
* every other name reads the same dict object as before (`o'.attr? m = o.attr? m`: same identity for the other
  simplices, still none for non-members), and every dict object of `w` has the content it had (`cell?`);
* every other object and the dicts of the script are unchanged (C08, frame). -/
theorem addFacesOp_attrs {w w' : World} (hw : WInv w) (h : String) (fs : List Name) (id : Option Name)
    (attr : Option Nat) (o : Obj) (n : Name) (ho : w.obj? h = some o) (hs : Synced o)
    (hc : addFacesOp w h fs id attr = (.ok n, w')) :
    ∃ o', w'.obj? h = some o' ∧ o'.rep = o.rep ∧ Synced o' ∧ addS o.c fs id = (.ok n, o'.c) ∧
      n ∉ o.c.names ∧ n ∈ o'.c.names ∧ o.attr? n = none ∧
      (∀ cell, attr = some cell → o'.attr? n = some cell ∧ w'.cells = w.cells ∧ w'.next = w.next) ∧
      (attr = none → o'.attr? n = some w.next ∧ w'.cell? w.next = some [] ∧
        w'.cells = w.cells ++ [(w.next, [])] ∧ w'.next = w.next + 1) ∧
      (∀ m, m ≠ n → o'.attr? m = o.attr? m) ∧
      (∀ d, d < w.next → w'.cell? d = w.cell? d) ∧
      (∀ g, g ≠ h → w'.obj? g = w.obj? g) ∧ w'.udict = w.udict ∧ (ArgOK w attr → WInv w') := by
  have hinv : ArgOK w attr → WInv w' := fun ha => by
    have := addFacesOp_inv hw h fs id attr ha; rw [hc] at this; exact this
  rcases addFacesOp_cases w h fs id attr o ho with ⟨e', h1⟩ | ⟨n', c', o1, hadd, hat, hrep, h1⟩
  · rw [h1] at hc; cases hc
  rw [h1] at hc
  simp only [Prod.mk.injEq, Except.ok.injEq] at hc
  obtain ⟨rfl, rfl⟩ := hc
  obtain ⟨a1, a2, a3, a4, a5, a6, a7⟩ := argDict_facts hw.cell_lt attr
  have A := sync_attrs a1 o1 c' (fun m => if m = n' then some (argDict w attr).1 else none) emptyContent h
  obtain ⟨hsub, hnew, hin, hnames, -⟩ := addS_ok_facts hadd
  have hnot : n' ∉ o.c.names := contains_false_iff_names.mp hnew
  have hnone : o.attr? n' = none := hs.none_of_not_mem hnot
  have hnone1 : o1.attr? n' = none := (attr?_congr hat n').trans hnone
  have hall : ∀ m ∈ c'.names, o1.attr? m ≠ none ∨
      (fun m => if m = n' then some (argDict w attr).1 else none) m ≠ none := by
    intro m hm
    rcases hnames m hm with rfl | hm'
    · right; simp
    · left
      obtain ⟨d, hd⟩ := hs.some_of_mem hm'
      rw [attr?_congr hat, hd]; simp
  obtain ⟨hcells, hnext⟩ := A.no_alloc hall
  refine ⟨_, A.obj, A.rep.trans hrep, A.synced, by rw [A.c]; exact hadd, hnot, by rw [A.c]; exact hin, hnone,
    ?_, ?_, ?_, fun d hd => (A.cell_old d (Nat.lt_of_lt_of_le hd a2)).trans (a3 d hd),
    fun g hg => (A.obj_other g hg).trans (a4 g), A.udict.trans a5, hinv⟩
  · intro cell hcell
    have e := a6 cell hcell
    refine ⟨?_, by rw [hcells, e], by rw [hnext, e]⟩
    have := A.special n' hin hnone1 (argDict w attr).1 (by simp)
    rw [this, e]
  · intro hnoattr
    obtain ⟨b1, b2, b3, b4⟩ := a7 hnoattr
    refine ⟨?_, ?_, by rw [hcells, b3], by rw [hnext, b2]⟩
    · have := A.special n' hin hnone1 (argDict w attr).1 (by simp)
      rw [this, b1]
    · rw [A.cell_old w.next (by rw [b2]; exact Nat.lt_succ_self _), b4]
  · intro m hm
    by_cases hmem : m ∈ o.c.names
    · obtain ⟨d, hd⟩ := hs.some_of_mem hmem
      rw [hd]
      exact A.kept m (names_of_sublist hsub hmem) d ((attr?_congr hat m).trans hd)
    · rw [hs.none_of_not_mem hmem]
      apply A.gone
      intro hm'
      rcases hnames m hm' with h2 | h2
      · exact hm h2
      · exact hmem h2

/-! ## Part 4 — `addSimplexWithBasis`: C02, the attributes -/

/-- the shape of `addBasisOp` on an existing object. `r` is the structural result of `addSimplexWithBasisQ` on
the structure of the object. Three cases: the world is unchanged (a rejection that left the structure and the
name counter alone; for a filtration: every rejection); success, then `sync` with the top simplex and the
order-0 simplices sharing the argument dict; an exception half-way on a plain complex, then `sync` with the
order-0 simplices sharing the argument dict. -/
theorem addBasisOp_cases (w : World) (h : String) (bs : List Name) (id : Option Name) (attr : Option Nat)
    (o : Obj) (ho : w.obj? h = some o) :
    (∃ e, (addSimplexWithBasisQ o.c bs id).1 = .error e ∧ addBasisOp w h bs id attr = (.error e, w)) ∨
    (∃ n o1, (addSimplexWithBasisQ o.c bs id).1 = .ok n ∧ o1.attrs = o.attrs ∧ o1.rep = o.rep ∧
      addBasisOp w h bs id attr = (.ok n,
        (sync (argDict w attr).2 o1 (addSimplexWithBasisQ o.c bs id).2
          (fun m => if m = n || (addSimplexWithBasisQ o.c bs id).2.orderOf? m == some 0
            then some (argDict w attr).1 else none) emptyContent).2.setObj h
        (sync (argDict w attr).2 o1 (addSimplexWithBasisQ o.c bs id).2
          (fun m => if m = n || (addSimplexWithBasisQ o.c bs id).2.orderOf? m == some 0
            then some (argDict w attr).1 else none) emptyContent).1)) ∨
    (∃ e, (addSimplexWithBasisQ o.c bs id).1 = .error e ∧ o.fs = none ∧
      addBasisOp w h bs id attr = (.error e,
        (sync (argDict w attr).2 o (addSimplexWithBasisQ o.c bs id).2
          (fun m => if (addSimplexWithBasisQ o.c bs id).2.orderOf? m == some 0
            then some (argDict w attr).1 else none) emptyContent).2.setObj h
        (sync (argDict w attr).2 o (addSimplexWithBasisQ o.c bs id).2
          (fun m => if (addSimplexWithBasisQ o.c bs id).2.orderOf? m == some 0
            then some (argDict w attr).1 else none) emptyContent).1)) := by
  unfold addBasisOp
  rw [ho]
  simp only
  cases hf : o.fs with
  | none =>
    simp only
    generalize addSimplexWithBasisQ o.c bs id = r
    obtain ⟨res, c'⟩ := r
    cases res with
    | error e =>
      simp only
      split_ifs
      · exact Or.inl ⟨e, rfl, rfl⟩
      · exact Or.inr (Or.inr ⟨e, rfl, trivial, rfl⟩)
    | ok n => exact Or.inr (Or.inl ⟨n, o, rfl, rfl, rfl, rfl⟩)
  | some f =>
    simp only
    unfold FS.addByBasis
    rw [fs_c hf]
    generalize addSimplexWithBasisQ o.c bs id = r
    obtain ⟨res, c'⟩ := r
    cases res with
    | error e =>
      simp only
      rw [fs_c hf]
      simp only [beq_self_eq_true, Bool.and_self, if_true]
      exact Or.inl ⟨e, rfl, rfl⟩
    | ok n =>
      simp only [register_c]
      exact Or.inr (Or.inl ⟨n, o.withFS (f.register c'), rfl, rfl, rfl, rfl⟩)

/-- what an `add…` call with the optional dict argument `attr` does to the dicts of the object at `h`;
`shared m` says which of the new simplices get the argument dict `(argDict w attr).1` -/
structure AddAttrs (w w' : World) (h : String) (attr : Option Nat) (o o' : Obj) (sh : Name → Prop) : Prop where
  obj : w'.obj? h = some o'
  rep : o'.rep = o.rep
  synced : Synced o'
  /-- every simplex that existed is still there and holds the dict object it held -/
  old : ∀ m ∈ o.c.names, m ∈ o'.c.names ∧ o'.attr? m = o.attr? m
  /-- the new simplices that share the argument dict -/
  shared : ∀ m ∈ o'.c.names, m ∉ o.c.names → sh m → o'.attr? m = some (argDict w attr).1
  /-- the other new simplices: a dict object of their own, allocated by the call, empty -/
  own : ∀ m ∈ o'.c.names, m ∉ o.c.names → ¬ sh m →
    ∃ e, o'.attr? m = some e ∧ w.next ≤ e ∧ e < w'.next ∧ (attr = none → w.next < e) ∧ w'.cell? e = some []
  own_inj : ∀ m m' e, m ≠ m' → m ∈ o'.c.names → m ∉ o.c.names → ¬ sh m → m' ∈ o'.c.names → m' ∉ o.c.names →
    ¬ sh m' → o'.attr? m = some e → o'.attr? m' ≠ some e
  gone : ∀ m, m ∉ o'.c.names → o'.attr? m = none
  /-- the argument dict: the caller's dict object itself, or a new empty one -/
  arg_some : ∀ cell, attr = some cell → (argDict w attr).1 = cell
  arg_none : attr = none → (argDict w attr).1 = w.next ∧ w'.cell? w.next = some []
  cell_old : ∀ d, d < w.next → w'.cell? d = w.cell? d
  obj_other : ∀ g, g ≠ h → w'.obj? g = w.obj? g
  udict : w'.udict = w.udict

theorem add_sync_attrs {w : World} (hw : WInv w) (attr : Option Nat) (h : String) (o o1 : Obj) (c' : C)
    (sp : Name → Option Nat) (o' : Obj) (w' : World)
    (A : SyncAttrs (argDict w attr).2 o1 c' sp emptyContent h o' w')
    (hs : Synced o) (hat : o1.attrs = o.attrs) (hrep : o1.rep = o.rep) (hsub : o.c.simps.Sublist c'.simps)
    (hsp : ∀ m, sp m = none ∨ sp m = some (argDict w attr).1) :
    AddAttrs w w' h attr o o' (fun m => sp m ≠ none) := by
  obtain ⟨a1, a2, a3, a4, a5, a6, a7⟩ := argDict_facts hw.cell_lt attr
  have hnone1 : ∀ m, m ∉ o.c.names → o1.attr? m = none := fun m hm =>
    (attr?_congr hat m).trans (hs.none_of_not_mem hm)
  refine ⟨A.obj, A.rep.trans hrep, A.synced, ?_, ?_, ?_, ?_, fun m hm => A.gone m (by rw [← A.c]; exact hm),
    fun cell e => by rw [a6 cell e], ?_, fun d hd => (A.cell_old d (Nat.lt_of_lt_of_le hd a2)).trans (a3 d hd),
    fun g hg => (A.obj_other g hg).trans (a4 g), A.udict.trans a5⟩
  · intro m hm
    have hm' : m ∈ c'.names := names_of_sublist hsub hm
    obtain ⟨d, hd⟩ := hs.some_of_mem hm
    exact ⟨by rw [A.c]; exact hm', by rw [hd]; exact A.kept m hm' d ((attr?_congr hat m).trans hd)⟩
  · intro m hm hnew hsh
    rw [A.c] at hm
    rcases hsp m with h1 | h1
    · exact absurd h1 hsh
    · exact A.special m hm (hnone1 m hnew) _ h1
  · intro m hm hnew hsh
    rw [A.c] at hm
    have hspn : sp m = none := by
      cases hk : sp m with
      | none => rfl
      | some d => exact absurd (by simp [hk]) hsh
    obtain ⟨e, he, h1, h2, h3⟩ := A.fresh m hm (hnone1 m hnew) hspn
    refine ⟨e, he, Nat.le_trans a2 h1, h2, fun hna => ?_, h3⟩
    have := (a7 hna).2.1
    omega
  · intro m m' e hne hm hnew hsh hm' hnew' hsh' he
    have hspn : ∀ x, ¬ (sp x ≠ none) → sp x = none := fun x hx => by
      cases hk : sp x with
      | none => rfl
      | some d => exact absurd (by simp [hk]) hx
    exact A.fresh_inj m m' e hne (hnone1 m hnew) (hspn m hsh) (hnone1 m' hnew') (hspn m' hsh') he
  · intro hna
    obtain ⟨b1, b2, b3, b4⟩ := a7 hna
    exact ⟨b1, by rw [A.cell_old w.next (by rw [b2]; exact Nat.lt_succ_self _), b4]⟩

theorem AddAttrs.congr {w w' : World} {h : String} {attr : Option Nat} {o o' : Obj} {sh sh' : Name → Prop}
    (a : AddAttrs w w' h attr o o' sh) (hiff : ∀ m, sh m ↔ sh' m) : AddAttrs w w' h attr o o' sh' := by
  have e : sh = sh' := funext (fun m => propext (hiff m))
  rw [← e]; exact a

/-- **C02, attributes of `addSimplexWithBasis(bs, id, attr)`** at the heap level, for a call that returns the
name `n`, on an object that has a dict for exactly its simplices, in a well-formed world. The structure is the
one computed by `addSimplexWithBasisQ`. With `cell := (argDict w attr).1` — the caller's dict object itself when
one was handed over (`arg_some`), a new empty dict object otherwise (`arg_none`) —:
* every simplex that existed is still there and holds the dict object it held (`old`), with its content
  (`cell_old`);
* a new simplex that is the returned one (`n`) or has order 0 (the basis points created by the call) holds `cell`:
  the top simplex and all new basis points share ONE dict object (`shared`) — as in `base.py`:
  `ensureBasis(bs, attr)` passes the same `attr` to `addSimplex(id=b, attr=attr)` for every missing point and
  `_addSimplexWithBasis` passes it to the top simplex;
* every other new simplex (the faces created on the way) holds a dict object of its own, allocated by the call,
  empty (`own`; `addSimplex(id=fid, fs=fs)` without `attr`), no two of them the same (`own_inj`);
* names that are not simplices have no dict (`gone`); other objects and the script's dicts are unchanged. -/
theorem addBasisOp_attrs {w w' : World} (hw : WInv w) (h : String) (bs : List Name) (id : Option Name)
    (attr : Option Nat) (o : Obj) (n : Name) (ho : w.obj? h = some o) (hs : Synced o)
    (hc : addBasisOp w h bs id attr = (.ok n, w')) :
    ∃ o', addSimplexWithBasisQ o.c bs id = (.ok n, o'.c) ∧
      AddAttrs w w' h attr o o' (fun m => m = n ∨ o'.c.orderOf? m = some 0) ∧ (ArgOK w attr → WInv w') := by
  have hinv : ArgOK w attr → WInv w' := fun ha => by
    have := addBasisOp_inv hw h bs id attr ha; rw [hc] at this; exact this
  rcases addBasisOp_cases w h bs id attr o ho with ⟨e, -, h1⟩ | ⟨n', o1, hr, hat, hrep, h1⟩ | ⟨e, -, -, h1⟩
  · rw [h1] at hc; cases hc
  · rw [h1] at hc
    simp only [Prod.mk.injEq, Except.ok.injEq] at hc
    obtain ⟨rfl, rfl⟩ := hc
    have a1 := (argDict_facts hw.cell_lt attr).1
    have A := sync_attrs a1 o1 (addSimplexWithBasisQ o.c bs id).2
      (fun m => if m = n' || (addSimplexWithBasisQ o.c bs id).2.orderOf? m == some 0
        then some (argDict w attr).1 else none) emptyContent h
    have B := add_sync_attrs hw attr h o o1 _ _ _ _ A hs hat hrep (addSimplexWithBasisQ_sublist o.c bs id)
      (fun m => by split_ifs; exact Or.inr rfl; exact Or.inl rfl)
    refine ⟨_, ?_, B.congr (fun m => ?_), hinv⟩
    · rw [A.c, ← hr]
    · rw [A.c]
      by_cases hm : m = n' <;>
        by_cases ho0 : (addSimplexWithBasisQ o.c bs id).2.orderOf? m = some 0 <;> simp [hm, ho0]
  · rw [h1] at hc; cases hc

/-- **a failing `addSimplexWithBasis`**: either nothing at all has changed (always so for a filtration; for a
plain complex when the structure and the name counter are as they were: the documented rejections, see
`Flat.addSimplexWithBasis'_guards`), or — an exception raised half-way, only possible for requests the library
does not document — the object keeps what the call had created: the old simplices with their dict objects, the
new order-0 simplices sharing the argument dict, every other new simplex with an empty dict of its own. -/
theorem addBasisOp_error_attrs {w w' : World} (hw : WInv w) (h : String) (bs : List Name) (id : Option Name)
    (attr : Option Nat) (e : Err) (hc : addBasisOp w h bs id attr = (.error e, w')) :
    w' = w ∨ ∃ o o', w.obj? h = some o ∧ o.fs = none ∧ addSimplexWithBasisQ o.c bs id = (.error e, o'.c) ∧
      (Synced o → AddAttrs w w' h attr o o' (fun m => o'.c.orderOf? m = some 0)) := by
  cases ho : w.obj? h with
  | none =>
    unfold addBasisOp at hc; rw [ho] at hc
    simp only [Prod.mk.injEq] at hc
    exact Or.inl hc.2.symm
  | some o =>
    rcases addBasisOp_cases w h bs id attr o ho with ⟨e', -, h1⟩ | ⟨n', o1, -, -, -, h1⟩ | ⟨e', hr, hf, h1⟩
    · rw [h1] at hc
      simp only [Prod.mk.injEq] at hc
      exact Or.inl hc.2.symm
    · rw [h1] at hc; cases hc
    · rw [h1] at hc
      simp only [Prod.mk.injEq, Except.error.injEq] at hc
      obtain ⟨rfl, rfl⟩ := hc
      have a1 := (argDict_facts hw.cell_lt attr).1
      have A := sync_attrs a1 o (addSimplexWithBasisQ o.c bs id).2
        (fun m => if (addSimplexWithBasisQ o.c bs id).2.orderOf? m == some 0
          then some (argDict w attr).1 else none) emptyContent h
      refine Or.inr ⟨o, _, rfl, hf, by rw [A.c, ← hr], fun hs => ?_⟩
      have B := add_sync_attrs hw attr h o o _ _ _ _ A hs rfl rfl (addSimplexWithBasisQ_sublist o.c bs id)
        (fun m => by split_ifs; exact Or.inr rfl; exact Or.inl rfl)
      refine B.congr (fun m => ?_)
      rw [A.c]
      by_cases ho0 : (addSimplexWithBasisQ o.c bs id).2.orderOf? m = some 0 <;> simp [ho0]


/-- **which simplices share the argument dict**, on a valid complex: the returned simplex `n` (which is new)
and, among the new simplices, only basis points handed over in `bs`; conversely (for a basis of at least two
members) every member of `bs` that was not yet a simplex is created as a point and holds the argument dict.
(With a one-element basis `[b]` the Python code and the model call `addSimplex(id=id, attr=attr)`: the new
point is `n`, whatever `b` is.) -/
theorem addBasisOp_created {w w' : World} (hw : WInv w) (h : String) (bs : List Name) (id : Option Name)
    (attr : Option Nat) (o : Obj) (n : Name) (ho : w.obj? h = some o) (hs : Synced o) (hI : Inv o.c)
    (hc : addBasisOp w h bs id attr = (.ok n, w')) :
    ∃ o', w'.obj? h = some o' ∧ Inv o'.c ∧ n ∉ o.c.names ∧ n ∈ o'.c.names ∧
      o'.attr? n = some (argDict w attr).1 ∧
      (∀ m ∈ o'.c.names, m ∉ o.c.names → o'.attr? m = some (argDict w attr).1 → ArgOK w attr →
        m = n ∨ (m ∈ bs ∧ o'.c.orderOf? m = some 0)) ∧
      (2 ≤ bs.length → ∀ b ∈ bs, b ∉ o.c.names →
        b ∈ o'.c.names ∧ o'.c.orderOf? b = some 0 ∧ o'.attr? b = some (argDict w attr).1) := by
  obtain ⟨o', hq, A, -⟩ := addBasisOp_attrs hw h bs id attr o n ho hs hc
  obtain ⟨hI', hnew, hin, hpts⟩ := addSimplexWithBasisQ_ok_new hI hq
  refine ⟨o', A.obj, hI', hnew, hin, A.shared n hin hnew (Or.inl rfl), ?_, ?_⟩
  · intro m hm hmnew hcell hok
    by_cases hsh : m = n ∨ o'.c.orderOf? m = some 0
    · rcases hsh with h1 | h1
      · exact Or.inl h1
      · rcases hpts m hm hmnew h1 with h2 | h2
        · exact Or.inl h2
        · exact Or.inr ⟨h2, h1⟩
    · exfalso
      obtain ⟨e, he, h1, -, h3, -⟩ := A.own m hm hmnew hsh
      rw [he] at hcell
      injection hcell with hcell
      cases hattr : attr with
      | none =>
        have := (A.arg_none hattr).1
        have := h3 hattr
        omega
      | some cell =>
        have h4 := A.arg_some cell hattr
        have := (hok cell hattr).1
        omega
  · intro h2 b hb hbnew
    obtain ⟨h3, h4⟩ := addSimplexWithBasisQ_ok_points hI h2 hq b hb
    exact ⟨h3, h4, A.shared b h3 hbnew (Or.inr h4)⟩

/-! ## Part 4b — C08 (frame): a structural mutator writes no dict object at all -/

/-- **C08, frame**: a mutator of the complex at `h` other than `c[s][k] = v` changes no dict object that existed
(`cell?`), hence every other complex — even one that shares dict objects with the complex at `h` — is the same
object afterwards and all its dicts read as before. (`c[s][k] = v` changes exactly one dict object, the one held
by `s`: `dictSetOp_attrs`; it is visible through every complex that shares that dict object.) -/
theorem structural_mutator_frame {w : World} (hw : WInv w) (m : Mut) (h : String)
    (hm : ∀ s k v, m ≠ .dictSet s k v) :
    (∀ d, d < w.next → (m.run w h).cell? d = w.cell? d) ∧
    ∀ g og, g ≠ h → w.obj? g = some og →
      (m.run w h).obj? g = some og ∧ ∀ n, og.dictOf (m.run w h) n = og.dictOf w n := by
  have key : (∀ g, g ≠ h → (m.run w h).obj? g = w.obj? g) ∧ (∀ d, d < w.next → (m.run w h).cell? d = w.cell? d) := by
    cases m with
    | addFaces fs id attr => exact ⟨((addFacesOp_rel w h fs id attr).frame hw).1, ((addFacesOp_rel w h fs id attr).frame hw).2.1⟩
    | addBasis bs id attr => exact ⟨((addBasisOp_rel w h bs id attr).frame hw).1, ((addBasisOp_rel w h bs id attr).frame hw).2.1⟩
    | delete s => exact ⟨((structOp_rel w h _).frame hw).1, ((structOp_rel w h _).frame hw).2.1⟩
    | deleteBasis bs => exact ⟨((structOp_rel w h _).frame hw).1, ((structOp_rel w h _).frame hw).2.1⟩
    | deleteMany ss => exact ⟨((structOp_rel w h _).frame hw).1, ((structOp_rel w h _).frame hw).2.1⟩
    | restrict bs => exact ⟨((structOp_rel w h _).frame hw).1, ((structOp_rel w h _).frame hw).2.1⟩
    | subdivide s order => exact ⟨((subdivideOp_rel w h s order).frame hw).1, ((subdivideOp_rel w h s order).frame hw).2.1⟩
    | relabel ρ => exact ⟨((relabelWith_rel w h _).frame hw).1, ((relabelWith_rel w h _).frame hw).2.1⟩
    | grow ss => exact ⟨((growOp_rel w h ss).frame hw).1, ((growOp_rel w h ss).frame hw).2.1⟩
    | setAttr s d => exact ⟨((setAttrOp_rel w h s d).frame hw).1, ((setAttrOp_rel w h s d).frame hw).2.1⟩
    | dictSet s k v => exact absurd rfl (hm s k v)
  refine ⟨key.2, fun g og hg hog => ⟨(key.1 g hg).trans hog, fun n => ?_⟩⟩
  exact dictOf_stable (hw.ok g og hog).ids_lt key.2 n

/-! ## Part 5 — deletions and restriction (`structOp`), subdivision -/

theorem structOp_cases (w : World) (h : String) (f : C → Option C) (o : Obj) (ho : w.obj? h = some o) :
    (f o.c = none ∧ structOp w h f = (.error .key, w)) ∨
    (∃ c' o1, f o.c = some c' ∧ o1.attrs = o.attrs ∧ o1.rep = o.rep ∧
      structOp w h f = (.ok (), (sync w o1 c' noSpecial emptyContent).2.setObj h
        (sync w o1 c' noSpecial emptyContent).1)) := by
  unfold structOp
  rw [ho]
  simp only
  cases hc : f o.c with
  | none => exact Or.inl ⟨rfl, rfl⟩
  | some c' =>
    simp only
    cases hf : o.fs with
    | none => exact Or.inr ⟨c', o, rfl, rfl, rfl, rfl⟩
    | some fs => exact Or.inr ⟨c', o.withFS (fs.afterDelete c'), rfl, rfl, rfl, rfl⟩

/-- a rejected deletion / restriction changes nothing -/
theorem structOp_error (w : World) (h : String) (f : C → Option C) (e : Err)
    (he : (structOp w h f).1 = .error e) : (structOp w h f).2 = w := by
  cases ho : w.obj? h with
  | none => unfold structOp; rw [ho]
  | some o =>
    rcases structOp_cases w h f o ho with ⟨-, h1⟩ | ⟨c', o1, -, -, -, h1⟩
    · rw [h1]
    · rw [h1] at he; cases he

/-- **`structOp_attrs`** (deleteSimplex / deleteSimplexWithBasis / deleteSimplices / restrictBasisTo, for any
structural function `f`): after a successful call the object at `h` has the structure `c' = f o.c`; a simplex of
`c'` that had a dict object keeps that very object (`survivors`), and every dict object of `w` keeps its content
(`cell_old`); a name that is not a simplex of `c'` — in particular every simplex that disappeared — has no
`attr?` entry afterwards (`gone`); a simplex of `c'` that had no dict gets an empty one of its own (there is no
such simplex when `f` only deletes and the object had a dict for every simplex, see `structOp_attrs_del`). -/
theorem structOp_attrs {w w' : World} (hw : WInv w) (h : String) (f : C → Option C) (o : Obj)
    (ho : w.obj? h = some o) (hc : structOp w h f = (.ok (), w')) :
    ∃ c' o', f o.c = some c' ∧ w'.obj? h = some o' ∧ o'.c = c' ∧ o'.rep = o.rep ∧ Synced o' ∧
      (∀ m ∈ c'.names, ∀ d, o.attr? m = some d → o'.attr? m = some d) ∧
      (∀ m, m ∉ c'.names → o'.attr? m = none) ∧
      (∀ m ∈ c'.names, o.attr? m = none →
        ∃ e, o'.attr? m = some e ∧ w.next ≤ e ∧ e < w'.next ∧ w'.cell? e = some []) ∧
      (∀ d, d < w.next → w'.cell? d = w.cell? d) ∧ (∀ g, g ≠ h → w'.obj? g = w.obj? g) ∧
      w'.udict = w.udict ∧ WInv w' := by
  have hinv : WInv w' := by have := structOp_inv hw h f; rw [hc] at this; exact this
  rcases structOp_cases w h f o ho with ⟨-, h1⟩ | ⟨c', o1, hf, hat, hrep, h1⟩
  · rw [h1] at hc; cases hc
  rw [h1] at hc
  simp only [Prod.mk.injEq, true_and] at hc
  subst hc
  have A := sync_attrs hw.cell_lt o1 c' noSpecial emptyContent h
  refine ⟨c', _, hf, A.obj, A.c, A.rep.trans hrep, A.synced, ?_, A.gone, ?_, A.cell_old, A.obj_other, A.udict, hinv⟩
  · intro m hm d hd
    exact A.kept m hm d ((attr?_congr hat m).trans hd)
  · intro m hm hn
    exact A.fresh m hm ((attr?_congr hat m).trans hn) rfl

/-- the same for an `f` that only deletes, on an object with a dict for exactly its simplices: the new
association is the old one restricted to the surviving simplices, and nothing is allocated or written -/
theorem structOp_attrs_del {w w' : World} (hw : WInv w) (h : String) (f : C → Option C) (o : Obj)
    (ho : w.obj? h = some o) (hs : Synced o) (hdel : ∀ c', f o.c = some c' → ∀ m ∈ c'.names, m ∈ o.c.names)
    (hc : structOp w h f = (.ok (), w')) :
    ∃ c' o', f o.c = some c' ∧ w'.obj? h = some o' ∧ o'.c = c' ∧ o'.rep = o.rep ∧ Synced o' ∧
      (∀ m, o'.attr? m = if m ∈ c'.names then o.attr? m else none) ∧
      w'.cells = w.cells ∧ w'.next = w.next ∧ (∀ g, g ≠ h → w'.obj? g = w.obj? g) ∧
      w'.udict = w.udict ∧ WInv w' := by
  have hinv : WInv w' := by have := structOp_inv hw h f; rw [hc] at this; exact this
  rcases structOp_cases w h f o ho with ⟨-, h1⟩ | ⟨c', o1, hf, hat, hrep, h1⟩
  · rw [h1] at hc; cases hc
  rw [h1] at hc
  simp only [Prod.mk.injEq, true_and] at hc
  subst hc
  have A := sync_attrs hw.cell_lt o1 c' noSpecial emptyContent h
  have hall : ∀ m ∈ c'.names, o1.attr? m ≠ none ∨ noSpecial m ≠ none := by
    intro m hm
    obtain ⟨d, hd⟩ := hs.some_of_mem (hdel c' hf m hm)
    left; rw [attr?_congr hat, hd]; simp
  obtain ⟨hcells, hnext⟩ := A.no_alloc hall
  refine ⟨c', _, hf, A.obj, A.c, A.rep.trans hrep, A.synced, ?_, hcells, hnext, A.obj_other, A.udict, hinv⟩
  intro m
  split_ifs with hm
  · obtain ⟨d, hd⟩ := hs.some_of_mem (hdel c' hf m hm)
    rw [hd]; exact A.kept m hm d ((attr?_congr hat m).trans hd)
  · exact A.gone m hm

/-- `deleteSimplex(s)`: survivors keep their dict objects (and contents: no cell is written or allocated), the
simplices of the star of `s` have no dict afterwards -/
theorem deleteOp_attrs {w w' : World} (hw : WInv w) (h : String) (s : Name) (o : Obj)
    (ho : w.obj? h = some o) (hs : Synced o) (hc : deleteOp w h s = (.ok (), w')) :
    ∃ c' o', deleteSimplex o.c s = some c' ∧ w'.obj? h = some o' ∧ o'.c = c' ∧ o'.rep = o.rep ∧ Synced o' ∧
      (∀ m, o'.attr? m = if m ∈ c'.names then o.attr? m else none) ∧
      w'.cells = w.cells ∧ w'.next = w.next ∧ (∀ g, g ≠ h → w'.obj? g = w.obj? g) ∧
      w'.udict = w.udict ∧ WInv w' :=
  structOp_attrs_del hw h _ o ho hs (fun _ hf => deleteSimplex_names_sub hf) hc

theorem deleteBasisOp_attrs {w w' : World} (hw : WInv w) (h : String) (bs : List Name) (o : Obj)
    (ho : w.obj? h = some o) (hs : Synced o) (hc : deleteBasisOp w h bs = (.ok (), w')) :
    ∃ c' o', deleteSimplexWithBasis o.c bs = some c' ∧ w'.obj? h = some o' ∧ o'.c = c' ∧ o'.rep = o.rep ∧
      Synced o' ∧ (∀ m, o'.attr? m = if m ∈ c'.names then o.attr? m else none) ∧
      w'.cells = w.cells ∧ w'.next = w.next ∧ (∀ g, g ≠ h → w'.obj? g = w.obj? g) ∧
      w'.udict = w.udict ∧ WInv w' :=
  structOp_attrs_del hw h _ o ho hs (fun _ hf => deleteSimplexWithBasis_names_sub hf) hc

theorem deleteManyOp_attrs {w w' : World} (hw : WInv w) (h : String) (ss : List Name) (o : Obj)
    (ho : w.obj? h = some o) (hs : Synced o) (hc : deleteManyOp w h ss = (.ok (), w')) :
    ∃ o', w'.obj? h = some o' ∧ o'.c = deleteSimplices o.c ss ∧ o'.rep = o.rep ∧
      Synced o' ∧ (∀ m, o'.attr? m = if m ∈ (deleteSimplices o.c ss).names then o.attr? m else none) ∧
      w'.cells = w.cells ∧ w'.next = w.next ∧ (∀ g, g ≠ h → w'.obj? g = w.obj? g) ∧
      w'.udict = w.udict ∧ WInv w' := by
  obtain ⟨c', o', hf, h1, h2, h3⟩ := structOp_attrs_del hw h _ o ho hs
    (fun c' hf => by injection hf with hf; subst hf; exact deleteSimplices_names_sub ss o.c) hc
  injection hf with hf; subst hf
  exact ⟨o', h1, h2, h3⟩

theorem restrictOp_attrs {w w' : World} (hw : WInv w) (h : String) (bs : List Name) (o : Obj)
    (ho : w.obj? h = some o) (hs : Synced o) (hc : restrictOp w h bs = (.ok (), w')) :
    ∃ c' o', restrictBasisTo o.c bs = some c' ∧ w'.obj? h = some o' ∧ o'.c = c' ∧ o'.rep = o.rep ∧
      Synced o' ∧ (∀ m, o'.attr? m = if m ∈ c'.names then o.attr? m else none) ∧
      w'.cells = w.cells ∧ w'.next = w.next ∧ (∀ g, g ≠ h → w'.obj? g = w.obj? g) ∧
      w'.udict = w.udict ∧ WInv w' :=
  structOp_attrs_del hw h _ o ho hs (fun _ hf => restrictBasisTo_names_sub hf) hc

/-! ### subdivision -/

theorem kfind_filter_key {κ β : Type} [DecidableEq κ] [BEq κ] [LawfulBEq κ] (l : List (κ × β)) (q : κ → Bool) (k : κ) :
    kfind (l.filter (fun p => q p.1)) k = if q k = true then kfind l k else none := by
  induction l with
  | nil => simp [kfind_nil]
  | cons p l ih =>
    rw [List.filter_cons]
    by_cases hq : q p.1 = true
    · rw [if_pos hq, kfind_cons, kfind_cons, ih]
      by_cases hp : p.1 = k
      · subst hp; simp [hq]
      · simp [hp]
    · rw [if_neg hq, ih, kfind_cons]
      by_cases hp : p.1 = k
      · subst hp; simp [hq]
      · simp [hp]

theorem subdivideOp_cases (w : World) (h : String) (s : Name) (order : List Name) (o : Obj)
    (ho : w.obj? h = some o) :
    (∃ e, subdivide o.c s order = .error e ∧ subdivideOp w h s order = (.error e, w)) ∨
    (∃ mid c', subdivide o.c s order = .ok (mid, c') ∧
      subdivideOp w h s order = (.ok mid,
        (sync w { o with attrs := o.attrs.filter (fun p => ((deleteSimplex o.c s).getD o.c).contains p.1) } c'
          noSpecial emptyContent).2.setObj h
        (sync w { o with attrs := o.attrs.filter (fun p => ((deleteSimplex o.c s).getD o.c).contains p.1) } c'
          noSpecial emptyContent).1)) := by
  unfold subdivideOp
  rw [ho]
  simp only
  cases hc : subdivide o.c s order with
  | error e => exact Or.inl ⟨e, rfl, rfl⟩
  | ok r => obtain ⟨mid, c'⟩ := r; exact Or.inr ⟨mid, c', rfl, rfl⟩

/-- a rejected subdivision changes nothing -/
theorem subdivideOp_error (w : World) (h : String) (s : Name) (order : List Name) (e : Err)
    (he : (subdivideOp w h s order).1 = .error e) : (subdivideOp w h s order).2 = w := by
  cases ho : w.obj? h with
  | none => unfold subdivideOp; rw [ho]
  | some o =>
    rcases subdivideOp_cases w h s order o ho with ⟨e', -, h1⟩ | ⟨mid, c', -, h1⟩
    · rw [h1]
    · rw [h1] at he; cases he

/-- **`subdivideOp_attrs`** (`barycentricSubdivide(s)`), for every successful call. With `cDel` = the structure
after deleting the star of `s` (the survivors): a survivor that is a simplex of the result and had a dict object
keeps that very object, with its content (`cell_old`); every other simplex of the result — the new point, the
cones; also one whose (generated) name had been the name of a deleted simplex — gets an empty dict object of its
own, allocated by the call, no two of them the same; names that are not simplices of the result have no dict.
(That every survivor is a simplex of the result: `subdivideOp_attrs_inv`.) -/
theorem subdivideOp_attrs {w w' : World} (hw : WInv w) (h : String) (s : Name) (order : List Name) (o : Obj)
    (mid : Name) (ho : w.obj? h = some o) (hc : subdivideOp w h s order = (.ok mid, w')) :
    ∃ c' o', subdivide o.c s order = .ok (mid, c') ∧ w'.obj? h = some o' ∧ o'.c = c' ∧ o'.rep = o.rep ∧
      Synced o' ∧
      (∀ m ∈ c'.names, ((deleteSimplex o.c s).getD o.c).contains m = true → ∀ d, o.attr? m = some d →
        o'.attr? m = some d) ∧
      (∀ m ∈ c'.names, (((deleteSimplex o.c s).getD o.c).contains m = false ∨ o.attr? m = none) →
        ∃ e, o'.attr? m = some e ∧ w.next ≤ e ∧ e < w'.next ∧ w'.cell? e = some []) ∧
      (∀ m m' e, m ≠ m' →
        (((deleteSimplex o.c s).getD o.c).contains m = false ∨ o.attr? m = none) →
        (((deleteSimplex o.c s).getD o.c).contains m' = false ∨ o.attr? m' = none) →
        o'.attr? m = some e → o'.attr? m' ≠ some e) ∧
      (∀ m, m ∉ c'.names → o'.attr? m = none) ∧
      (∀ d, d < w.next → w'.cell? d = w.cell? d) ∧ (∀ g, g ≠ h → w'.obj? g = w.obj? g) ∧
      w'.udict = w.udict ∧ WInv w' := by
  have hinv : WInv w' := by have := subdivideOp_inv hw h s order; rw [hc] at this; exact this
  rcases subdivideOp_cases w h s order o ho with ⟨e', -, h1⟩ | ⟨mid', c', hsd, h1⟩
  · rw [h1] at hc; cases hc
  rw [h1] at hc
  simp only [Prod.mk.injEq, Except.ok.injEq] at hc
  obtain ⟨rfl, rfl⟩ := hc
  have A := sync_attrs hw.cell_lt
    { o with attrs := o.attrs.filter (fun p => ((deleteSimplex o.c s).getD o.c).contains p.1) } c'
    noSpecial emptyContent h
  have hat : ∀ m, Obj.attr?
      { o with attrs := o.attrs.filter (fun p => ((deleteSimplex o.c s).getD o.c).contains p.1) } m =
      if ((deleteSimplex o.c s).getD o.c).contains m = true then o.attr? m else none := by
    intro m
    rw [attr?_eq, attr?_eq]
    exact kfind_filter_key o.attrs (fun n => ((deleteSimplex o.c s).getD o.c).contains n) m
  have hnone : ∀ m, (((deleteSimplex o.c s).getD o.c).contains m = false ∨ o.attr? m = none) → Obj.attr?
      { o with attrs := o.attrs.filter (fun p => ((deleteSimplex o.c s).getD o.c).contains p.1) } m = none := by
    intro m hm
    rw [hat]
    rcases hm with h2 | h2
    · rw [h2]; simp
    · rw [h2]; simp
  refine ⟨c', _, hsd, A.obj, A.c, A.rep, A.synced, ?_, ?_, ?_, A.gone, A.cell_old, A.obj_other, A.udict, hinv⟩
  · intro m hm hdel d hd
    exact A.kept m hm d (by rw [hat, if_pos hdel]; exact hd)
  · intro m hm hnew
    exact A.fresh m hm (hnone m hnew) rfl
  · intro m m' e hne hm hm' he
    exact A.fresh_inj m m' e hne (hnone m hm) rfl (hnone m' hm') rfl he

/-- the same on a valid complex with a dict for exactly its simplices: EVERY survivor (simplex outside the star
of `s`) is a simplex of the result and keeps its dict object; every other simplex of the result has an empty
dict of its own -/
theorem subdivideOp_attrs_inv {w w' : World} (hw : WInv w) (h : String) (s : Name) (order : List Name) (o : Obj)
    (mid : Name) (ho : w.obj? h = some o) (hI : Inv o.c) (hs : Synced o)
    (hc : subdivideOp w h s order = (.ok mid, w')) :
    ∃ c' o', subdivide o.c s order = .ok (mid, c') ∧ w'.obj? h = some o' ∧ o'.c = c' ∧ Synced o' ∧
      (∀ m ∈ ((deleteSimplex o.c s).getD o.c).names, m ∈ c'.names ∧ o'.attr? m = o.attr? m) ∧
      (∀ m ∈ c'.names, m ∉ ((deleteSimplex o.c s).getD o.c).names →
        ∃ e, o'.attr? m = some e ∧ w.next ≤ e ∧ e < w'.next ∧ w'.cell? e = some []) ∧
      (∀ m, m ∉ c'.names → o'.attr? m = none) ∧
      (∀ d, d < w.next → w'.cell? d = w.cell? d) := by
  obtain ⟨c', o', hsd, hobj, hc', -, hsy, hkeep, hnew, -, hgone, hcell, -⟩ :=
    subdivideOp_attrs hw h s order o mid ho hc
  refine ⟨c', o', hsd, hobj, hc', hsy, ?_, ?_, hgone, hcell⟩
  · intro m hm
    have hm' := subdivide_survivors hI hsd m hm
    obtain ⟨d, hd⟩ := hs.some_of_mem (deleteSimplex_getD_names_sub o.c s m hm)
    exact ⟨hm', by rw [hd]; exact hkeep m hm' (contains_iff_names.mpr hm) d hd⟩
  · intro m hm hnot
    exact hnew m hm (Or.inl (contains_false_iff_names.mpr hnot))

/-! ## Part 6 — relabelling: C15, the dict objects move with the simplices -/

theorem kfind_map_key {κ β : Type} [DecidableEq κ] [BEq κ] [LawfulBEq κ] (l : List (κ × β)) (f : κ → κ) (n : κ)
    (hinj : ∀ p ∈ l, f p.1 = f n → p.1 = n) :
    kfind (l.map (fun p => (f p.1, p.2))) (f n) = kfind l n := by
  induction l with
  | nil => rfl
  | cons p l ih =>
    rw [List.map_cons, kfind_cons, kfind_cons, ih (fun q hq => hinj q (List.mem_cons_of_mem _ hq))]
    by_cases hp : p.1 = n
    · simp [hp]
    · have : ¬ f p.1 = f n := fun e => hp (hinj p List.mem_cons_self e)
      simp [hp, this]

/-- the object stored by the relabelling operations: structure `c'`, every key of `attrs` renamed by `f` -/
def relabelObj (o : Obj) (c' : C) (f : Name → Name) : Obj :=
  { o with c := c', attrs := o.attrs.map (fun p => (f p.1, p.2)) }

/-- renaming the keys by a function that is injective on the simplices: the dict objects move along -/
theorem relabelObj_attrs (o : Obj) (c' : C) (f : Name → Name) (hs : Synced o) (hn : c'.names = o.c.names.map f)
    (hinj : ∀ a ∈ o.c.names, ∀ b ∈ o.c.names, f a = f b → a = b) :
    Synced (relabelObj o c' f) ∧ (∀ n ∈ o.c.names, (relabelObj o c' f).attr? (f n) = o.attr? n) ∧
      ∀ m, m ∉ c'.names → (relabelObj o c' f).attr? m = none := by
  have hsy : Synced (relabelObj o c' f) := by
    unfold Synced relabelObj
    simp only [List.map_map]
    rw [hn, ← hs, List.map_map]
    rfl
  refine ⟨hsy, ?_, fun m hm => hsy.none_of_not_mem hm⟩
  intro n hnm
  rw [attr?_eq, attr?_eq]
  apply kfind_map_key
  intro p hp he
  have hpn : p.1 ∈ o.c.names := by rw [← hs]; exact List.mem_map.mpr ⟨p, hp, rfl⟩
  exact hinj _ hpn _ hnm he

theorem relabelWith_cases (w : World) (h : String) (f : C → R (List (Name × Name))) (o : Obj)
    (ho : w.obj? h = some o) :
    (∃ e, (f o.c).1 = .error e ∧ relabelWith w h f = (.error e, w)) ∨
    (∃ mapping, (f o.c).1 = .ok mapping ∧ relabelWith w h f = (.ok mapping,
      w.setObj h (relabelObj o (f o.c).2 (renameOf mapping)))) := by
  unfold relabelWith
  rw [ho]
  simp only
  cases hr : f o.c with
  | mk res c' =>
    cases res with
    | error e => exact Or.inl ⟨e, rfl, rfl⟩
    | ok mapping => exact Or.inr ⟨mapping, rfl, rfl⟩

/-- a rejected `relabel` leaves the world unchanged -/
theorem relabelOp_error (w : World) (h : String) (ρ : List (Name × Name)) (e : Err)
    (he : (relabelOp w h ρ).1 = .error e) : (relabelOp w h ρ).2 = w := by
  unfold relabelOp at he ⊢
  cases ho : w.obj? h with
  | none => unfold relabelWith; rw [ho]
  | some o =>
    rcases relabelWith_cases w h _ o ho with ⟨e', -, h1⟩ | ⟨mapping, -, h1⟩
    · rw [h1]
    · rw [h1] at he; cases he

/-- **C15, attributes of `relabel(ρ)`** at the heap level. After a successful call on a valid complex that has a
dict for exactly its simplices: the structure is the one computed by `Flat.relabel` (the simultaneous renaming,
see `Flat.relabel_spec`), its simplices are the `ρ n`; the simplex called `ρ n` holds the SAME dict object that
`n` held (same identity: the dict moves with the simplex, `_attributes[q] = _attributes[s]`); in particular a
simplex that is not renamed keeps its dict object; names that are not simplices any more have no dict; no dict
object is created or written; nothing else changes. -/
theorem relabelOp_attrs {w w' : World} (hw : WInv w) (h : String) (ρ : List (Name × Name)) (o : Obj)
    (mapping : List (Name × Name)) (ho : w.obj? h = some o) (hI : Inv o.c) (hs : Synced o)
    (hc : relabelOp w h ρ = (.ok mapping, w')) :
    ∃ c' o', relabel o.c (renameOf ρ) = (.ok mapping, c') ∧ w'.obj? h = some o' ∧ o'.c = c' ∧ o'.rep = o.rep ∧
      o'.filt = o.filt ∧ Synced o' ∧ c'.names = o.c.names.map (renameOf ρ) ∧
      (∀ n ∈ o.c.names, o'.attr? (renameOf ρ n) = o.attr? n) ∧
      (∀ n ∈ o.c.names, renameOf ρ n = n → o'.attr? n = o.attr? n) ∧
      (∀ m, m ∉ c'.names → o'.attr? m = none) ∧
      w'.cells = w.cells ∧ w'.next = w.next ∧ (∀ g, g ≠ h → w'.obj? g = w.obj? g) ∧
      w'.udict = w.udict ∧ WInv w' := by
  have hinv : WInv w' := by have := relabelOp_inv hw h ρ; rw [hc] at this; exact this
  unfold relabelOp at hc
  rcases relabelWith_cases w h (fun c => relabel c (renameOf ρ)) o ho with ⟨e', -, h1⟩ | ⟨mp, hr, h1⟩
  · rw [h1] at hc; cases hc
  rw [h1] at hc
  simp only [Prod.mk.injEq, Except.ok.injEq] at hc
  obtain ⟨rfl, rfl⟩ := hc
  have hrel : relabel o.c (renameOf ρ) = (.ok mp, (relabel o.c (renameOf ρ)).2) := by
    rw [← hr]
  obtain ⟨-, hagree, hsimps, -, -, hI'⟩ := relabel_spec hI (renameOf ρ) hrel
  have hnames : (relabel o.c (renameOf ρ)).2.names = o.c.names.map (renameOf mp) := by
    unfold Cx.names
    rw [hsimps]
    exact Cx.map_names o.c (renameOf mp)
  have hnames' : (relabel o.c (renameOf ρ)).2.names = o.c.names.map (renameOf ρ) := by
    rw [hnames]; exact List.map_congr_left hagree
  have hinj : ∀ a ∈ o.c.names, ∀ b ∈ o.c.names, renameOf mp a = renameOf mp b → a = b := by
    have hnd : (o.c.names.map (renameOf mp)).Nodup := by rw [← hnames]; exact hI'.nodup
    exact List.inj_on_of_nodup_map hnd
  obtain ⟨hsy, hmove, hgone⟩ := relabelObj_attrs o _ (renameOf mp) hs hnames hinj
  have hmove' : ∀ n ∈ o.c.names,
      (relabelObj o (relabel o.c (renameOf ρ)).2 (renameOf mp)).attr? (renameOf ρ n) = o.attr? n := by
    intro n hn; rw [← hagree n hn]; exact hmove n hn
  refine ⟨_, _, hrel, obj?_setObj_self _ _ _, rfl, rfl, rfl, hsy, hnames', hmove', ?_, hgone, by simp, by simp,
    fun g hg => obj?_setObj_ne w _ hg, by simp, hinv⟩
  intro n hn he
  have := hmove' n hn
  rw [he] at this; exact this

theorem relabelOneOp_cases (w : World) (h : String) (s q : Name) (o : Obj) (ho : w.obj? h = some o) :
    (o.c.relabelSimplex s q = none ∧ relabelOneOp w h s q = (.error .value, w)) ∨
    (∃ c', o.c.relabelSimplex s q = some c' ∧ relabelOneOp w h s q = (.ok (),
      w.setObj h (relabelObj o c' (fun n => if n = s then q else n)))) := by
  unfold relabelOneOp
  rw [ho]
  simp only
  cases hr : o.c.relabelSimplex s q with
  | none => exact Or.inl ⟨rfl, rfl⟩
  | some c' => exact Or.inr ⟨c', rfl, rfl⟩

/-- a rejected `relabelSimplex` leaves the world unchanged -/
theorem relabelOneOp_error (w : World) (h : String) (s q : Name) (e : Err)
    (he : (relabelOneOp w h s q).1 = .error e) : (relabelOneOp w h s q).2 = w := by
  cases ho : w.obj? h with
  | none => unfold relabelOneOp; rw [ho]
  | some o =>
    rcases relabelOneOp_cases w h s q o ho with ⟨-, h1⟩ | ⟨c', -, h1⟩
    · rw [h1]
    · rw [h1] at he; cases he

/-- **C15, attributes of `relabelSimplex(s, q)`**: after a successful call on an object with a dict for exactly
its simplices, `s` was a simplex and `q` was not; the simplex now called `q` holds the SAME dict object that `s`
held; `s` has no dict any more; every other name reads what it read; no dict object is created or written. -/
theorem relabelOneOp_attrs {w w' : World} (h : String) (s q : Name) (o : Obj)
    (ho : w.obj? h = some o) (hs : Synced o) (hc : relabelOneOp w h s q = (.ok (), w')) :
    ∃ c' o', o.c.relabelSimplex s q = some c' ∧ w'.obj? h = some o' ∧ o'.c = c' ∧ o'.rep = o.rep ∧
      o'.filt = o.filt ∧ Synced o' ∧ s ∈ o.c.names ∧ q ∉ o.c.names ∧
      c'.names = o.c.names.map (fun n => if n = s then q else n) ∧
      o'.attr? q = o.attr? s ∧ o'.attr? s = none ∧ (∀ m, m ≠ s → m ≠ q → o'.attr? m = o.attr? m) ∧
      w'.cells = w.cells ∧ w'.next = w.next ∧ (∀ g, g ≠ h → w'.obj? g = w.obj? g) ∧ w'.udict = w.udict := by
  rcases relabelOneOp_cases w h s q o ho with ⟨-, h1⟩ | ⟨c', hr, h1⟩
  · rw [h1] at hc; cases hc
  rw [h1] at hc
  simp only [Prod.mk.injEq, true_and] at hc
  subst hc
  have hr' := hr
  unfold Cx.relabelSimplex at hr'
  split_ifs at hr' with hq hsn
  simp only [Option.some.injEq] at hr'
  have hqn : q ∉ o.c.names := by
    intro hm; exact hq (contains_iff_names.mpr hm)
  have hsin : s ∈ o.c.names := contains_iff_names.mp (by simpa using hsn)
  have hsq : s ≠ q := fun e => hqn (e ▸ hsin)
  have hnames : c'.names = o.c.names.map (fun n => if n = s then q else n) := by
    rw [← hr']; exact Cx.map_names o.c _
  have hinj : ∀ a ∈ o.c.names, ∀ b ∈ o.c.names,
      (fun n => if n = s then q else n) a = (fun n => if n = s then q else n) b → a = b := by
    intro a ha b hb he
    simp only at he
    by_cases h1 : a = s <;> by_cases h2 : b = s
    · rw [h1, h2]
    · rw [if_pos h1, if_neg h2] at he; exact absurd (he ▸ hb) hqn
    · rw [if_neg h1, if_pos h2] at he; exact absurd (he.symm ▸ ha) hqn
    · rw [if_neg h1, if_neg h2] at he; exact he
  obtain ⟨hsy, hmove, hgone⟩ := relabelObj_attrs o c' _ hs hnames hinj
  have hnot : ∀ m, m ∉ o.c.names → m ≠ q → m ∉ c'.names := by
    intro m hm hmq hin
    rw [hnames] at hin
    obtain ⟨x, hx, hxm⟩ := List.mem_map.mp hin
    by_cases h1 : x = s
    · rw [if_pos h1] at hxm; exact hmq hxm.symm
    · rw [if_neg h1] at hxm; exact hm (hxm ▸ hx)
  refine ⟨c', _, hr, obj?_setObj_self _ _ _, rfl, rfl, rfl, hsy, hsin, hqn, hnames, ?_, ?_, ?_, by simp, by simp,
    fun g hg => obj?_setObj_ne w _ hg, by simp⟩
  · have := hmove s hsin
    simp only [if_true] at this
    exact this
  · apply hgone
    rw [hnames]
    intro hin
    obtain ⟨x, hx, hxm⟩ := List.mem_map.mp hin
    by_cases h1 : x = s
    · rw [if_pos h1] at hxm; exact hsq hxm.symm
    · rw [if_neg h1] at hxm; exact h1 hxm
  · intro m hms hmq
    by_cases hm : m ∈ o.c.names
    · have := hmove m hm
      simp only [if_neg hms] at this
      exact this
    · rw [hs.none_of_not_mem hm]
      exact hgone m (hnot m hm hmq)

/-! ## Part 7 — `addSimplicesFrom(c, rename)`: C15, an attribute-preserving copy -/

theorem find?_first_inj {l1 l2 : List Name} {f : Name → Name} {x : Name} (hx : x ∈ l1)
    (hinj : ∀ y ∈ l1, f y = f x → y = x) : (l1 ++ l2).find? (fun n => f n == f x) = some x := by
  rw [List.find?_append]
  cases hf : l1.find? (fun n => f n == f x) with
  | none =>
    rw [List.find?_eq_none] at hf
    exact absurd (by simp) (hf x hx)
  | some y =>
    have h1 := List.find?_some hf
    have h2 := List.mem_of_find?_eq_some hf
    simp only [beq_iff_eq] at h1
    rw [hinj y h2 h1]; rfl

/-- **C15, attributes of `addSimplicesFrom(src, ρ)`** at the heap level, WHATEVER the outcome (the call is not
atomic: it stops at the first exception and keeps what it has inserted; `P` is the list of source simplices
inserted, all of them exactly when the call succeeds). For valid structures, a target with a dict for exactly its
simplices, in a well-formed world:
* the result and the new structure of the target are those of `Flat.addFrom`;
* the target's own simplices are still there and hold the dict objects they held (`d.attr?`);
* every inserted simplex — named `ρ u` for a source simplex `u ∈ P`, not a name of the target before — holds a
  FRESH dict object (`w.next ≤ e`: allocated by the call, so shared with nothing) whose content equals the content
  of `u`'s dict in the source at the time of the call: a shallow copy, `copy.copy(c[s])`; two inserted simplices
  never hold the same dict object;
* the simplices of the target afterwards are its own and the inserted ones, nothing else;
* every dict object of `w` keeps its content, every other object is unchanged; in particular (`src ≠ dst`) the
  source object is unchanged and all its dicts read as before. -/
theorem addFromOp_attrs {w : World} (hw : WInv w) (dst src : String) (ρ : List (Name × Name)) (d s : Obj)
    (hd : w.obj? dst = some d) (hsrc : w.obj? src = some s) (hId : Inv d.c) (hIs : Inv s.c) (hsd : Synced d) :
    (addFromOp w dst src ρ).1 = (addFrom d.c s.c (renameOf ρ)).1 ∧
    ∃ o' P R, (addFromOp w dst src ρ).2.obj? dst = some o' ∧ o'.c = (addFrom d.c s.c (renameOf ρ)).2 ∧
      o'.rep = d.rep ∧ o'.filt = d.filt ∧ Synced o' ∧ s.c.simps = P ++ R ∧
      ((R = [] ∧ (addFromOp w dst src ρ).1 = .ok (s.c.names.map (renameOf ρ))) ∨
        (R ≠ [] ∧ ∃ e, (addFromOp w dst src ρ).1 = .error e)) ∧
      (∀ m ∈ d.c.names, m ∈ o'.c.names ∧ o'.attr? m = d.attr? m) ∧
      (∀ u ∈ P, renameOf ρ u.name ∉ d.c.names ∧ renameOf ρ u.name ∈ o'.c.names ∧
        ∃ e, o'.attr? (renameOf ρ u.name) = some e ∧ w.next ≤ e ∧ e < (addFromOp w dst src ρ).2.next ∧
          (addFromOp w dst src ρ).2.cell? e = some (s.dictOf w u.name) ∧
          o'.dictOf (addFromOp w dst src ρ).2 (renameOf ρ u.name) = s.dictOf w u.name) ∧
      (∀ u ∈ P, ∀ v ∈ P, u ≠ v → ∀ e, o'.attr? (renameOf ρ u.name) = some e →
        o'.attr? (renameOf ρ v.name) ≠ some e) ∧
      (∀ m ∈ o'.c.names, m ∈ d.c.names ∨ ∃ u ∈ P, m = renameOf ρ u.name) ∧
      (∀ m, m ∉ o'.c.names → o'.attr? m = none) ∧
      (∀ c, c < w.next → (addFromOp w dst src ρ).2.cell? c = w.cell? c) ∧
      (∀ g, g ≠ dst → (addFromOp w dst src ρ).2.obj? g = w.obj? g) ∧
      (src ≠ dst → (addFromOp w dst src ρ).2.obj? src = some s ∧
        ∀ n, s.dictOf (addFromOp w dst src ρ).2 n = s.dictOf w n) ∧
      (addFromOp w dst src ρ).2.udict = w.udict ∧ WInv (addFromOp w dst src ρ).2 := by
  have hinv := addFromOp_inv hw dst src ρ
  rw [addFromOp_eq w dst src ρ d s hd hsrc] at hinv ⊢
  simp only
  obtain ⟨P, R, hPR, -, -, hsub, -, hinj, hfreshn, hfwd, hbwd, hres⟩ := addFrom_prefix hId hIs (renameOf ρ)
  generalize hct : (fun t => match s.c.names.find? (fun n => renameOf ρ n == t) with
      | some n => s.dictOf w n
      | none => ([] : Dict)) = ct at hinv ⊢
  have A := sync_attrs hw.cell_lt d (addFrom d.c s.c (renameOf ρ)).2 noSpecial ct dst
  have hnamesP : s.c.names = P.map (·.name) ++ R.map (·.name) := by
    unfold Cx.names; rw [hPR, List.map_append]
  have hcontent : ∀ u ∈ P, ct (renameOf ρ u.name) = s.dictOf w u.name := by
    intro u hu
    rw [← hct]
    simp only
    rw [hnamesP, find?_first_inj (f := renameOf ρ) (List.mem_map.mpr ⟨u, hu, rfl⟩)]
    intro y hy he
    obtain ⟨v, hv, rfl⟩ := List.mem_map.mp hy
    rw [hinj v hv u hu he]
  have hins : ∀ u ∈ P, renameOf ρ u.name ∈ (addFrom d.c s.c (renameOf ρ)).2.names := by
    intro u hu
    obtain ⟨t, ht, htw⟩ := hfwd u hu
    exact List.mem_map.mpr ⟨t, ht, htw.1⟩
  have hdnone : ∀ u ∈ P, d.attr? (renameOf ρ u.name) = none := fun u hu =>
    hsd.none_of_not_mem (hfreshn u hu)
  refine ⟨trivial, _, P, R, A.obj, A.c, A.rep, A.filt, A.synced, hPR, ?_, ?_, ?_, ?_, ?_, ?_, A.cell_old,
    A.obj_other, ?_, A.udict, hinv⟩
  · rcases hres with ⟨e1, e2⟩ | ⟨s0, R', e1, -, e2⟩
    · exact Or.inl ⟨e1, e2⟩
    · exact Or.inr ⟨by rw [e1]; simp, _, e2⟩
  · intro m hm
    have hm' := names_of_sublist hsub hm
    obtain ⟨c, hc⟩ := hsd.some_of_mem hm
    exact ⟨by rw [A.c]; exact hm', by rw [hc]; exact A.kept m hm' c hc⟩
  · intro u hu
    obtain ⟨e, he, h1, h2, h3⟩ := A.fresh _ (hins u hu) (hdnone u hu) rfl
    rw [hcontent u hu] at h3
    exact ⟨hfreshn u hu, by rw [A.c]; exact hins u hu, e, he, h1, h2, h3, by rw [dictOf_of_attr he, h3]; rfl⟩
  · intro u hu v hv hne e he
    refine A.fresh_inj _ _ e (fun hn => hne (hinj u hu v hv hn)) (hdnone u hu) rfl (hdnone v hv) rfl he
  · intro m hm
    rw [A.c] at hm
    obtain ⟨t, ht, rfl⟩ := List.mem_map.mp hm
    rcases hbwd t ht with h1 | ⟨u, hu, htw⟩
    · exact Or.inl (List.mem_map.mpr ⟨t, h1, rfl⟩)
    · exact Or.inr ⟨u, hu, htw.1⟩
  · intro m hm
    exact A.gone m (by rw [← A.c]; exact hm)
  · intro hne
    refine ⟨(A.obj_other src hne).trans hsrc, fun n => ?_⟩
    exact dictOf_stable (hw.ok src s hsrc).ids_lt A.cell_old n

/-- the successful case: every simplex `x` of the source has been inserted under the name `ρ x`, with a fresh
dict object holding a copy of the content of `x`'s dict -/
theorem addFromOp_attrs_ok {w : World} (hw : WInv w) (dst src : String) (ρ : List (Name × Name)) (d s : Obj)
    (hd : w.obj? dst = some d) (hsrc : w.obj? src = some s) (hId : Inv d.c) (hIs : Inv s.c) (hsd : Synced d)
    (l : List Name) (hok : (addFromOp w dst src ρ).1 = .ok l) :
    l = s.c.names.map (renameOf ρ) ∧
    ∃ o', (addFromOp w dst src ρ).2.obj? dst = some o' ∧ o'.c = (addFrom d.c s.c (renameOf ρ)).2 ∧ Synced o' ∧
      (∀ m ∈ d.c.names, m ∈ o'.c.names ∧ o'.attr? m = d.attr? m) ∧
      (∀ x ∈ s.c.names, renameOf ρ x ∉ d.c.names ∧ renameOf ρ x ∈ o'.c.names ∧
        ∃ e, o'.attr? (renameOf ρ x) = some e ∧ w.next ≤ e ∧
          (addFromOp w dst src ρ).2.cell? e = some (s.dictOf w x) ∧
          o'.dictOf (addFromOp w dst src ρ).2 (renameOf ρ x) = s.dictOf w x) ∧
      (∀ x ∈ s.c.names, ∀ y ∈ s.c.names, x ≠ y → ∀ e, o'.attr? (renameOf ρ x) = some e →
        o'.attr? (renameOf ρ y) ≠ some e) ∧
      (∀ m ∈ o'.c.names, m ∈ d.c.names ∨ ∃ x ∈ s.c.names, m = renameOf ρ x) := by
  obtain ⟨-, o', P, R, h1, h2, -, -, h3, hPR, hres, hown, hins, hinj, hex, -⟩ :=
    addFromOp_attrs hw dst src ρ d s hd hsrc hId hIs hsd
  rcases hres with ⟨e1, e2⟩ | ⟨-, e, e2⟩
  · subst e1
    rw [List.append_nil] at hPR
    rw [e2] at hok
    injection hok with hok
    refine ⟨hok.symm, o', h1, h2, h3, hown, ?_, ?_, ?_⟩
    · intro x hx
      obtain ⟨u, hu, rfl⟩ := List.mem_map.mp hx
      obtain ⟨a1, a2, e, a3, a4, -, a5, a6⟩ := hins u (hPR ▸ hu)
      exact ⟨a1, a2, e, a3, a4, a5, a6⟩
    · intro x hx y hy hne e he
      obtain ⟨u, hu, rfl⟩ := List.mem_map.mp hx
      obtain ⟨v, hv, rfl⟩ := List.mem_map.mp hy
      exact hinj u (hPR ▸ hu) v (hPR ▸ hv) (fun huv => hne (by rw [huv])) e he
    · intro m hm
      rcases hex m hm with h4 | ⟨u, hu, rfl⟩
      · exact Or.inl h4
      · exact Or.inr ⟨u.name, List.mem_map.mpr ⟨u, hPR ▸ hu, rfl⟩, rfl⟩
  · rw [e2] at hok; cases hok

/-- without both objects nothing happens -/
theorem addFromOp_absent (w : World) (dst src : String) (ρ : List (Name × Name))
    (h : w.obj? dst = none ∨ w.obj? src = none) : addFromOp w dst src ρ = (.error .key, w) := by
  unfold addFromOp
  rcases h with h | h
  · rw [h]
  · rw [h]; cases w.obj? dst <;> rfl

/-! ## Part 8 — `c[s] = attr` and `c[s][k] = v`: exactly one cell changes, aliasing is visible -/

/-- a dict read after a write (`d[k] = v; d[k']`) -/
theorem Dict.get?_set (d : Dict) (k v k' : Int) : (Dict.set d k v).get? k' = if k' = k then some v else d.get? k' :=
  kfind_kset d k k' v

theorem setAttrOp_cases (w : World) (h : String) (s : Name) (d : Nat) (o : Obj) (ho : w.obj? h = some o) :
    (o.c.contains s = false ∧ setAttrOp w h s d = (.error .key, w)) ∨
    (o.c.contains s = true ∧ setAttrOp w h s d = (.ok (),
      w.setObj h { o with attrs := o.attrs.map (fun p => if p.1 = s then (s, d) else p) })) := by
  unfold setAttrOp
  rw [ho]
  simp only
  split_ifs with hc
  · exact Or.inr ⟨hc, rfl⟩
  · exact Or.inl ⟨by simpa using hc, rfl⟩

theorem setAttrOp_error (w : World) (h : String) (s : Name) (d : Nat) (e : Err)
    (he : (setAttrOp w h s d).1 = .error e) : (setAttrOp w h s d).2 = w := by
  cases ho : w.obj? h with
  | none => unfold setAttrOp; rw [ho]
  | some o =>
    rcases setAttrOp_cases w h s d o ho with ⟨-, h1⟩ | ⟨-, h1⟩
    · rw [h1]
    · rw [h1] at he; cases he

/-- **`c[s] = attr`** (`setAttributes`): after a successful call (`s` is a simplex) on an object with a dict for
exactly its simplices, `s` holds the dict object `d` that was handed over — the object itself, not a copy —,
every other simplex holds what it held, the structure is unchanged and no dict object is created or written. -/
theorem setAttrOp_attrs {w w' : World} (h : String) (s : Name) (d : Nat) (o : Obj)
    (ho : w.obj? h = some o) (hs : Synced o) (hc : setAttrOp w h s d = (.ok (), w')) :
    ∃ o', w'.obj? h = some o' ∧ o'.c = o.c ∧ o'.rep = o.rep ∧ o'.filt = o.filt ∧ Synced o' ∧ s ∈ o.c.names ∧
      o'.attr? s = some d ∧ (∀ m, m ≠ s → o'.attr? m = o.attr? m) ∧
      w'.cells = w.cells ∧ w'.next = w.next ∧ (∀ g, g ≠ h → w'.obj? g = w.obj? g) ∧ w'.udict = w.udict := by
  rcases setAttrOp_cases w h s d o ho with ⟨-, h1⟩ | ⟨hcs, h1⟩
  · rw [h1] at hc; cases hc
  rw [h1] at hc
  simp only [Prod.mk.injEq, true_and] at hc
  subst hc
  have hsin : s ∈ o.c.names := contains_iff_names.mp hcs
  obtain ⟨d0, hd0⟩ := hs.some_of_mem hsin
  have hsy : Synced { o with attrs := o.attrs.map (fun p => if p.1 = s then (s, d) else p) } := by
    unfold Synced
    simp only [List.map_map]
    rw [← hs]
    apply List.map_congr_left
    intro p _
    by_cases hp : p.1 = s <;> simp [hp]
  refine ⟨_, obj?_setObj_self _ _ _, rfl, rfl, rfl, hsy, hsin, ?_, ?_, by simp, by simp,
    fun g hg => obj?_setObj_ne w _ hg, by simp⟩
  · rw [attr?_relabel, if_pos rfl, hd0]; rfl
  · intro m hm
    rw [attr?_relabel, if_neg hm]

theorem dictSetOp_error (w : World) (h : String) (s : Name) (k v : Int) (e : Err)
    (he : (dictSetOp w h s k v).1 = .error e) : (dictSetOp w h s k v).2 = w := by
  unfold dictSetOp at he ⊢
  cases ho : w.obj? h with
  | none => rfl
  | some o =>
    rw [ho] at he
    simp only at he ⊢
    cases ha : o.attr? s with
    | none => rfl
    | some d => rw [ha] at he; cases he

/-- **`c[s][k] = v`**, the positive half of `dictSetOp_frame`: when the simplex `s` of the object at `h` holds the
dict object `d`, the call succeeds and EXACTLY ONE cell changes — `d`, which now holds its old content with `k`
set to `v` —; every other dict object, every object and the allocation pointer are unchanged. Aliasing is
visible: EVERY simplex, of ANY object, that holds the same dict object `d` reads the new content (and so does
the script through a dict `D` it holds, when `D` is `d`); a simplex holding another dict object reads what it
read. -/
theorem dictSetOp_attrs {w : World} (hw : WInv w) (h : String) (s : Name) (k v : Int) (o : Obj) (d : Nat)
    (ho : w.obj? h = some o) (hd : o.attr? s = some d) :
    (dictSetOp w h s k v).1 = .ok () ∧
    (dictSetOp w h s k v).2.cell? d = some (Dict.set ((w.cell? d).getD []) k v) ∧
    (∀ e, e ≠ d → (dictSetOp w h s k v).2.cell? e = w.cell? e) ∧
    (∀ g, (dictSetOp w h s k v).2.obj? g = w.obj? g) ∧
    (dictSetOp w h s k v).2.next = w.next ∧ (dictSetOp w h s k v).2.udict = w.udict ∧
    (∀ (og : Obj) (m : Name), og.attr? m = some d →
      og.dictOf (dictSetOp w h s k v).2 m = Dict.set (og.dictOf w m) k v ∧
      (og.dictOf (dictSetOp w h s k v).2 m).get? k = some v) ∧
    (∀ (og : Obj) (m : Name), og.attr? m ≠ some d → og.dictOf (dictSetOp w h s k v).2 m = og.dictOf w m) ∧
    WInv (dictSetOp w h s k v).2 := by
  obtain ⟨h1, h2⟩ := dictSetOp_written w h s k v o d ho hd
  obtain ⟨f1, f2, f3⟩ := dictSetOp_frame hw h s k v
  have hother : ∀ e, e ≠ d → (dictSetOp w h s k v).2.cell? e = w.cell? e := by
    intro e he
    apply f2
    intro o2 ho2 ha
    rw [ho] at ho2
    injection ho2 with ho2
    subst ho2
    rw [hd] at ha
    injection ha with ha
    exact he ha.symm
  refine ⟨h1, h2, hother, f1, f3, (dictSetOp_spec hw h s k v).udict, ?_, ?_, dictSetOp_inv hw h s k v⟩
  · intro og m hm
    have e1 : og.dictOf (dictSetOp w h s k v).2 m = Dict.set (og.dictOf w m) k v := by
      rw [dictOf_of_attr hm, dictOf_of_attr hm, h2]; rfl
    refine ⟨e1, ?_⟩
    rw [e1, Dict.get?_set, if_pos rfl]
  · intro og m hm
    unfold Obj.dictOf
    cases ha : og.attr? m with
    | none => rfl
    | some e =>
      simp only
      rw [hother e (fun he => hm (by rw [ha, he]))]

/-- the script changes a dict `D` it holds (`D[k] = v`, the driver's `ddset`: `setCell cell (Dict.set … k v)`):
every simplex of every object that holds that dict object reads the new content, every other simplex reads what
it read -/
theorem userDictSet_visible (w : World) (cell : Nat) (k v : Int) (og : Obj) (m : Name) :
    (og.attr? m = some cell →
      og.dictOf (w.setCell cell (Dict.set ((w.cell? cell).getD []) k v)) m = Dict.set (og.dictOf w m) k v ∧
      (og.dictOf (w.setCell cell (Dict.set ((w.cell? cell).getD []) k v)) m).get? k = some v) ∧
    (og.attr? m ≠ some cell →
      og.dictOf (w.setCell cell (Dict.set ((w.cell? cell).getD []) k v)) m = og.dictOf w m) := by
  constructor
  · intro hm
    have e1 : og.dictOf (w.setCell cell (Dict.set ((w.cell? cell).getD []) k v)) m = Dict.set (og.dictOf w m) k v := by
      rw [dictOf_of_attr hm, dictOf_of_attr hm, cell?_setCell, if_pos rfl]; rfl
    exact ⟨e1, by rw [e1, Dict.get?_set, if_pos rfl]⟩
  · intro hm
    unfold Obj.dictOf
    cases ha : og.attr? m with
    | none => rfl
    | some e =>
      simp only
      rw [cell?_setCell, if_neg (fun he => hm (by rw [ha, he]))]

/-- **the library stores the caller's dict, it does not copy it**: after `c.addSimplex(fs, id, attr=D)` has
returned `n`, a later `D[k] = v` made by the script on ITS reference is read back through `c[n]` -/
theorem addFacesOp_stores_callers_dict {w w' : World} (hw : WInv w) (h : String) (fs : List Name)
    (id : Option Name) (cell : Nat) (o : Obj) (n : Name) (ho : w.obj? h = some o) (hs : Synced o)
    (hc : addFacesOp w h fs id (some cell) = (.ok n, w')) (k v : Int) :
    ∃ o', w'.obj? h = some o' ∧ o'.attr? n = some cell ∧
      o'.dictOf (w'.setCell cell (Dict.set ((w'.cell? cell).getD []) k v)) n = Dict.set (o'.dictOf w' n) k v ∧
      (o'.dictOf (w'.setCell cell (Dict.set ((w'.cell? cell).getD []) k v)) n).get? k = some v := by
  obtain ⟨o', h1, -, -, -, -, -, -, h2, -⟩ := addFacesOp_attrs hw h fs id (some cell) o n ho hs hc
  have h3 := (h2 cell rfl).1
  have h4 := (userDictSet_visible w' cell k v o' n).1 h3
  exact ⟨o', h1, h3, h4.1, h4.2⟩

/-! ### `copy(tgt)` into an existing complex is `addSimplicesFrom` without a renaming -/

/-- `src.copy(tgt)`: rejected without any change when a name is shared, otherwise `tgt.addSimplicesFrom(src)`
(identity renaming `renameOf [] = id`): `addFromOp_attrs` with `ρ = []` describes the dicts -/
theorem copyIntoOp_eq (w : World) (src tgt : String) (s t : Obj) (hs : w.obj? src = some s)
    (ht : w.obj? tgt = some t) :
    (s.c.names.any t.c.contains = true ∧ copyIntoOp w src tgt = (.error .value, w)) ∨
    (s.c.names.any t.c.contains = false ∧ (copyIntoOp w src tgt).2 = (addFromOp w tgt src []).2 ∧
      ((copyIntoOp w src tgt).1 = .ok () ↔ ∃ l, (addFromOp w tgt src []).1 = .ok l)) := by
  unfold copyIntoOp
  rw [hs, ht]
  simp only
  by_cases hany : s.c.names.any t.c.contains = true
  · rw [if_pos hany]; exact Or.inl ⟨hany, rfl⟩
  · rw [if_neg hany]
    refine Or.inr ⟨by simpa using hany, ?_⟩
    split <;> rename_i heq <;> rw [heq] <;> simp

/-! ## Part 9 — the hypotheses are satisfiable: concrete worlds (`decide`) -/

/-- `a = SimplicialComplex(); a.addSimplex(id=1); D = {1: 10}`: the point `u1` holds the dict object 1 (empty),
the script holds the dict object 2 = `{1: 10}` -/
def exU : World := ((addFacesOp (newCx {} "a") "a" [] (some (.u 1)) none).2.alloc [(1, 10)]).2

theorem exU_inv : WInv exU :=
  alloc_inv (addFacesOp_inv (newCx_inv WInv.empty "a") "a" [] (some (.u 1)) none (argOK_none _)) _

theorem exU_oa : exU.obj? "a" = some (objOf exU "a") := by rfl

example : (objOf exU "a").attrs = [(.u 1, 1)] ∧ exU.cells = [(1, []), (2, [(1, 10)])] ∧ exU.next = 3 := by decide

theorem exU_synced : Synced (objOf exU "a") := by unfold Synced; decide
theorem exU_inv_c : Inv (objOf exU "a").c := C01.inv_of_checkInv (by decide)
theorem exU_arg : ArgOK exU (some 2) := fun d e => by cases e; decide

/-- (1) `a.addSimplex(id=2, attr=D)`: `u2` holds the script's dict object 2 itself, nothing is allocated;
then `D[5] = 7` — made here through `a[2]`, the same object — is read through `a[2]` AND through cell 2;
`a.addSimplex(id=3)` without `attr` gets a new empty dict object (3) -/
example :
    let w1 := (addFacesOp exU "a" [] (some (.u 2)) (some 2)).2
    let w2 := (dictSetOp w1 "a" (.u 2) 5 7).2
    let w3 := (addFacesOp w2 "a" [] (some (.u 3)) none).2
    (addFacesOp exU "a" [] (some (.u 2)) (some 2)).1 = .ok (.u 2) ∧
    (objOf w1 "a").attrs = [(.u 1, 1), (.u 2, 2)] ∧ w1.cells = exU.cells ∧ w1.next = exU.next ∧
    w2.cell? 2 = some [(1, 10), (5, 7)] ∧ (objOf w2 "a").dictOf w2 (.u 2) = [(1, 10), (5, 7)] ∧
    (objOf w3 "a").attrs = [(.u 1, 1), (.u 2, 2), (.u 3, 3)] ∧ w3.cell? 3 = some [] ∧ w3.next = 4 := by
  decide
example := addFacesOp_attrs exU_inv "a" [] (some (.u 2)) (some 2) _ (.u 2) exU_oa exU_synced
  (w' := (addFacesOp exU "a" [] (some (.u 2)) (some 2)).2) rfl
example := addFacesOp_attrs exU_inv "a" [] (some (.u 2)) none _ (.u 2) exU_oa exU_synced
  (w' := (addFacesOp exU "a" [] (some (.u 2)) none).2) rfl
/-- a rejected call (the name is in use) changes nothing -/
example : (addFacesOp exU "a" [] (some (.u 1)) (some 2)).1 = .error .key := by decide
example := addFacesOp_error exU "a" [] (some (.u 1)) (some 2) .key (by decide)

/-- (2) `a.addSimplexWithBasis([1, 2, 3], attr=D)` on the complex with the one point `u1`: `u1` keeps its dict
object 1; the new points `u2`, `u3` and the triangle share the script's dict object 2; the three edges get the
new empty dict objects 3, 4, 5 -/
def exB2 : World := (addBasisOp exU "a" [.u 1, .u 2, .u 3] none (some 2)).2

example : (addBasisOp exU "a" [.u 1, .u 2, .u 3] none (some 2)).1 = .ok (.auto 2 0) ∧
    (objOf exB2 "a").attrs = [(.u 1, 1), (.u 2, 2), (.u 3, 2), (.auto 1 1, 3), (.auto 1 2, 4), (.auto 1 3, 5),
      (.auto 2 0, 2)] ∧
    exB2.cells = [(1, []), (2, [(1, 10)]), (3, []), (4, []), (5, [])] ∧ exB2.next = 6 := by decide
example := addBasisOp_attrs exU_inv "a" [.u 1, .u 2, .u 3] none (some 2) _ (.auto 2 0) exU_oa exU_synced
  (w' := exB2) rfl
example := addBasisOp_created exU_inv "a" [.u 1, .u 2, .u 3] none (some 2) _ (.auto 2 0) exU_oa exU_synced exU_inv_c
  (w' := exB2) rfl
/-- without `attr`: the shared dict object is a new empty one (3), allocated before those of the edges -/
example : ((addBasisOp exU "a" [.u 1, .u 2, .u 3] none none).2.obj? "a").map (·.attrs) =
    some [(.u 1, 1), (.u 2, 3), (.u 3, 3), (.auto 1 1, 4), (.auto 1 2, 5), (.auto 1 3, 6), (.auto 2 0, 3)] := by
  decide
/-- a repeated basis point (not a documented request) raises half-way on a plain complex: the point `u2` created
before the exception stays, with the argument dict -/
example : (addBasisOp exU "a" [.u 2, .u 2] none (some 2)).1 = .error .value ∧
    ((addBasisOp exU "a" [.u 2, .u 2] none (some 2)).2.obj? "a").map (·.attrs) =
      some [(.u 1, 1), (.u 2, 2)] := by decide

theorem exB2_inv : WInv exB2 := addBasisOp_inv exU_inv "a" _ none (some 2) exU_arg
theorem exB2_oa : exB2.obj? "a" = some (objOf exB2 "a") := by rfl
theorem exB2_synced : Synced (objOf exB2 "a") := by unfold Synced; decide
theorem exB2_inv_c : Inv (objOf exB2 "a").c := C01.inv_of_checkInv (by decide)

/-- (3) `a.deleteSimplex(<edge 1d1>)`: the edge and the triangle lose their entries, the others keep theirs;
`a.barycentricSubdivide(<triangle>)`: the survivors keep theirs, the 1 + 3 + 3 new simplices get new empty dicts -/
example : ((deleteOp exB2 "a" (.auto 1 1)).2.obj? "a").map (·.attrs) =
      some [(.u 1, 1), (.u 2, 2), (.u 3, 2), (.auto 1 2, 4), (.auto 1 3, 5)] ∧
    (deleteOp exB2 "a" (.auto 1 1)).2.cells = exB2.cells := by decide
example := deleteOp_attrs exB2_inv "a" (.auto 1 1) _ exB2_oa exB2_synced (w' := (deleteOp exB2 "a" (.auto 1 1)).2) rfl
example : (subdivideOp exB2 "a" (.auto 2 0) [.u 1, .u 2, .u 3]).1 = .ok (.auto 0 4) ∧
    ((subdivideOp exB2 "a" (.auto 2 0) [.u 1, .u 2, .u 3]).2.obj? "a").map (·.attrs) =
      some [(.u 1, 1), (.u 2, 2), (.u 3, 2), (.auto 0 4, 6), (.auto 1 1, 3), (.auto 1 2, 4), (.auto 1 3, 5),
        (.auto 1 6, 7), (.auto 1 7, 8), (.auto 1 9, 9), (.auto 2 5, 10), (.auto 2 8, 11), (.auto 2 10, 12)] := by
  decide
example := subdivideOp_attrs_inv exB2_inv "a" (.auto 2 0) [.u 1, .u 2, .u 3] _ (.auto 0 4) exB2_oa exB2_inv_c
  exB2_synced (w' := (subdivideOp exB2 "a" (.auto 2 0) [.u 1, .u 2, .u 3]).2) rfl

/-- (4) `a.relabel({2: 7, <triangle>: 9})`: the simplices called `u7` and `u9` hold the dict object 2 that `u2`
and the triangle held; the others keep theirs; no cell changes. `a.relabelSimplex(1, 8)` likewise. -/
example : (relabelOp exB2 "a" [(.u 2, .u 7), (.auto 2 0, .u 9)]).1 = .ok [(.u 2, .u 7), (.auto 2 0, .u 9)] ∧
    ((relabelOp exB2 "a" [(.u 2, .u 7), (.auto 2 0, .u 9)]).2.obj? "a").map (·.attrs) =
      some [(.u 1, 1), (.u 7, 2), (.u 3, 2), (.auto 1 1, 3), (.auto 1 2, 4), (.auto 1 3, 5), (.u 9, 2)] ∧
    (relabelOp exB2 "a" [(.u 2, .u 7), (.auto 2 0, .u 9)]).2.cells = exB2.cells := by decide
example := relabelOp_attrs exB2_inv "a" [(.u 2, .u 7), (.auto 2 0, .u 9)] _ _ exB2_oa exB2_inv_c exB2_synced
  (w' := (relabelOp exB2 "a" [(.u 2, .u 7), (.auto 2 0, .u 9)]).2) rfl
example : ((relabelOneOp exB2 "a" (.u 1) (.u 8)).2.obj? "a").map (·.attrs) =
      some [(.u 8, 1), (.u 2, 2), (.u 3, 2), (.auto 1 1, 3), (.auto 1 2, 4), (.auto 1 3, 5), (.auto 2 0, 2)] := by
  decide
example := relabelOneOp_attrs "a" (.u 1) (.u 8) _ exB2_oa exB2_synced
  (w' := (relabelOneOp exB2 "a" (.u 1) (.u 8)).2) rfl
/-- a rejected relabelling (the new name is in use) changes nothing -/
example : (relabelOp exB2 "a" [(.u 2, .u 3)]).1 = .error .value := by decide
example := relabelOp_error exB2 "a" [(.u 2, .u 3)] .value (by decide)

/-- (5) `b = SimplicialComplex(); b.addSimplex(id=1); b.addSimplicesFrom(a, {1: 101})` with `a` = the edge
`{u1, u2}` built with `addSimplexWithBasis([1, 2], attr=D)` after `D = {1: 10}`: the three inserted simplices get
the FRESH dict objects 5, 6, 7 — also `u2` and the edge, which share one dict object in the source: a shallow copy
per simplex — with the contents of the source's dicts; `b`'s own point keeps its dict object 4; `a` is unchanged -/
def exS : World :=
  let w1 := (addBasisOp exU "a" [.u 1, .u 2] none (some 2)).2
  (addFacesOp (newCx w1 "b") "b" [] (some (.u 1)) none).2

theorem exS_inv : WInv exS :=
  addFacesOp_inv (newCx_inv (addBasisOp_inv exU_inv "a" _ none (some 2) exU_arg) "b") "b" [] (some (.u 1)) none
    (argOK_none _)
theorem exS_oa : exS.obj? "a" = some (objOf exS "a") := by rfl
theorem exS_ob : exS.obj? "b" = some (objOf exS "b") := by rfl

example : (objOf exS "a").attrs = [(.u 1, 1), (.u 2, 2), (.auto 1 0, 2)] ∧ (objOf exS "b").attrs = [(.u 1, 4)] ∧
    exS.next = 5 := by decide
example :
    (addFromOp exS "b" "a" [(.u 1, .u 101)]).1 = .ok [.u 101, .u 2, .auto 1 0] ∧
    (objOf (addFromOp exS "b" "a" [(.u 1, .u 101)]).2 "b").attrs =
      [(.u 1, 4), (.u 101, 5), (.u 2, 6), (.auto 1 0, 7)] ∧
    (addFromOp exS "b" "a" [(.u 1, .u 101)]).2.cells =
      [(1, []), (2, [(1, 10)]), (4, []), (5, []), (6, [(1, 10)]), (7, [(1, 10)])] ∧
    (objOf (addFromOp exS "b" "a" [(.u 1, .u 101)]).2 "a").attrs = (objOf exS "a").attrs := by decide
example := addFromOp_attrs exS_inv "b" "a" [(.u 1, .u 101)] _ _ exS_ob exS_oa
  (C01.inv_of_checkInv (by decide)) (C01.inv_of_checkInv (by decide)) (by unfold Synced; decide)
example := addFromOp_attrs_ok exS_inv "b" "a" [(.u 1, .u 101)] _ _ exS_ob exS_oa
  (C01.inv_of_checkInv (by decide)) (C01.inv_of_checkInv (by decide)) (by unfold Synced; decide) _ rfl
/-- not atomic: without the renaming the point `u1` clashes (KeyError), nothing has been inserted -/
example : (addFromOp exS "b" "a" []).1 = .error .key ∧
    ((addFromOp exS "b" "a" []).2.obj? "b").map (·.attrs) = some [(.u 1, 4)] := by decide

/-- (6) aliasing: in `exB2` the simplices `u2`, `u3` and the triangle hold the dict object 2; `a[2][5] = 7`
changes that one cell, and all three (and the script's `D`) read the new content; `u1` does not -/
example :
    let w1 := (dictSetOp exB2 "a" (.u 2) 5 7).2
    [(objOf w1 "a").dictOf w1 (.u 2), (objOf w1 "a").dictOf w1 (.u 3), (objOf w1 "a").dictOf w1 (.auto 2 0),
      (objOf w1 "a").dictOf w1 (.u 1)] = [[(1, 10), (5, 7)], [(1, 10), (5, 7)], [(1, 10), (5, 7)], []] ∧
    w1.cells = [(1, []), (2, [(1, 10), (5, 7)]), (3, []), (4, []), (5, [])] := by decide
example := dictSetOp_attrs exB2_inv "a" (.u 2) 5 7 _ 2 exB2_oa (by decide)
/-- `a[1] = D`: now `u1` holds the dict object 2 as well -/
example : ((setAttrOp exB2 "a" (.u 1) 2).2.obj? "a").map (fun o => o.attrs.map (·.2)) = some [2, 2, 2, 3, 4, 5, 2] := by
  decide
example := setAttrOp_attrs "a" (.u 1) 2 _ exB2_oa exB2_synced (w' := (setAttrOp exB2 "a" (.u 1) 2).2) rfl
example := addFacesOp_stores_callers_dict exU_inv "a" [] (some (.u 2)) 2 _ (.u 2) exU_oa exU_synced
  (w' := (addFacesOp exU "a" [] (some (.u 2)) (some 2)).2) rfl 5 7
example := structural_mutator_frame exS_inv (.addBasis [.u 2, .u 3] none (some 2)) "b" (fun _ _ _ h => by cases h)

/-! ### `Synced` cannot be dropped: `WInv` alone does not tie `attrs` to the simplices -/

/-- a well-formed world (`WInv`) that no script produces: the object has no simplex but a stale entry `u1 ↦ 1` -/
def exBad : World :=
  { objs := [("a", { rep := 0, c := emptyC, attrs := [(.u 1, 1)] })], cells := [(1, []), (2, [(1, 10)])], next := 3 }

theorem exBad_inv : WInv exBad := by
  refine ⟨fun h o ho => ?_, cellLt_of_keys (by decide), fun p hp => (by cases hp), by decide⟩
  rw [obj?_eq] at ho
  have := kfind_mem ho
  simp only [exBad, List.mem_singleton, Prod.mk.injEq] at this
  obtain ⟨rfl, rfl⟩ := this
  exact ⟨by decide, by decide, by decide⟩

/-- on it `a.addSimplex(id=1, attr=D)` (D = dict object 2) succeeds and `u1` reads the STALE dict object 1, not
the one handed over: the hypothesis `Synced o` of `addFacesOp_attrs` is needed -/
example : (addFacesOp exBad "a" [] (some (.u 1)) (some 2)).1 = .ok (.u 1) ∧
    ((addFacesOp exBad "a" [] (some (.u 1)) (some 2)).2.obj? "a").map (·.attrs) = some [(.u 1, 1)] ∧
    ¬ Synced (objOf exBad "a") := by
  refine ⟨by decide, by decide, ?_⟩
  unfold Synced; decide

end W
