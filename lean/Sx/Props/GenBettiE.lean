import Sx.Props.GenBetti

/-! finite Betti tables, part E (see GenBetti.lean) -/
namespace Flat.GenBetti
open Flat
set_option maxRecDepth 100000

theorem lattice_betti_2_1 : (List.range 3).map (bettiK (lt 2 1)) = [1,0,0] ∧ euler (lt 2 1) = 1 ∧ ((lt 2 1).ofOrder 0).length = 2 := by decide +kernel
theorem lattice_betti_2_2 : (List.range 3).map (bettiK (lt 2 2)) = [1,0,0] ∧ euler (lt 2 2) = 1 ∧ ((lt 2 2).ofOrder 0).length = 4 := by decide +kernel
theorem lattice_betti_2_3 : (List.range 3).map (bettiK (lt 2 3)) = [1,0,0] ∧ euler (lt 2 3) = 1 ∧ ((lt 2 3).ofOrder 0).length = 6 := by decide +kernel
theorem lattice_betti_2_4 : (List.range 3).map (bettiK (lt 2 4)) = [1,0,0] ∧ euler (lt 2 4) = 1 ∧ ((lt 2 4).ofOrder 0).length = 8 := by decide +kernel

end Flat.GenBetti
