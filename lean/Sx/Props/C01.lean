import Sx.Model
import Sx.Props.Common
import Sx.Props.C05
import Sx.Props.AddFrom
import Sx.Props.Relabel
import Sx.Props.Views
import Sx.Props.Euler
import Sx.Proofs.FlatBasis8
import Sx.Proofs.FlatDelete2
import Sx.Proofs.FlatRestrict2
import Sx.Proofs.FlatSubdiv
import Mathlib.Tactic.SplitIfs
import Mathlib.Data.List.Basic

/-! # C01 — every reachable complex is a closed, well-formed abstract simplicial complex

Model reading. A history of public mutating calls on one complex is a list of `Op`s; `step c op` is the state
after the call (the model function's state component; for the `Option`/`Except`-valued model functions, which
cannot have changed anything when they raise, the input state). `InContract c op` is the library's contract for
the call in state `c`. `Run c ops` says every call of the history is in contract in the state in which it is
made. `step_inv`: every call - accepted, rejected or (for the non-atomic `addSimplicesFrom`) stopped half-way -
keeps the invariant `Inv`; `reachable_inv`: so does every history from the empty complex. The corollaries
spell out what C01 says in words about `maxOrder`, names, the listing order and the per-order listings. -/
namespace Flat.C01
open List

/-! ## operations, steps, contracts, runs -/

inductive Op
  | addPoint (id : Option Name)
  | addFaces (fs : List Name) (id : Option Name)
  | addBasis (bs : List Name) (id : Option Name)
  | addFrom (src : C) (ρ : List (Name × Name))
  | delete (s : Name)
  | deleteBasis (bs : List Name)
  | deleteMany (ss : List Name)
  | restrict (bs : List Name)
  | subdivide (s : Name) (order : List Name)
  | relabel (ρ : List (Name × Name))
  | relabelDisjoint (other : C)

/-- the state after `subdivide` (the model function returns no state when it raises: nothing has changed) -/
def subdivState (c : C) (s : Name) (order : List Name) : C :=
  match subdivide c s order with
  | .ok r => r.2
  | .error _ => c

/-- the state after one public mutating call -/
def step (c : C) : Op → C
  | .addPoint id => (addS c [] id).2
  | .addFaces fs id => (addS c fs id).2
  | .addBasis bs id => (addSimplexWithBasisQ c bs id).2
  | .addFrom src ρ => (Flat.addFrom c src (renameOf ρ)).2
  | .delete s => (deleteSimplex c s).getD c
  | .deleteBasis bs => (deleteSimplexWithBasis c bs).getD c
  | .deleteMany ss => deleteSimplices c ss
  | .restrict bs => (restrictBasisTo c bs).getD c
  | .subdivide s order => subdivState c s order
  | .relabel ρ => (Flat.relabel c (renameOf ρ)).2
  | .relabelDisjoint other => (relabelDisjointFrom c other).2

/-- the library's contract for a call made in state `c`:
* `addFaces`: the faces, if accepted, are the facets of one simplex (`Flat.InContract`);
* `addBasis`: no repeated point in the basis;
* `addFrom`: the source is a valid complex (nothing is asked of the renaming: a clash of names makes the call
  raise, possibly half-way, and `Inv` holds in every case, see `addFrom_prefix`);
* `subdivide`: if `s` is a simplex of `c`, `order` enumerates its basis;
* `relabelDisjoint`: the other complex is valid (not needed for `Inv`, see `relabelDisjoint_inv`);
* the others: nothing. -/
def InContract (c : C) : Op → Prop
  | .addFaces fs _ => Flat.InContract c fs
  | .addBasis bs _ => bs.Nodup
  | .addFrom src _ => Inv src
  | .subdivide s order => c.contains s = true → order.Nodup ∧ order.toFinset = (c.basisOf s).toFinset
  | .relabelDisjoint other => Inv other
  | _ => True

/-- a history all of whose calls are in contract in the state in which they are made -/
inductive Run : C → List Op → Prop
  | nil (c : C) : Run c []
  | cons {c : C} {op : Op} {ops : List Op} : InContract c op → Run (step c op) ops → Run c (op :: ops)

/-! ## every operation preserves the invariant -/

theorem addS_inv {c : C} (hI : Inv c) {fs : List Name} (hc : Flat.InContract c fs) (id : Option Name) :
    Inv (addS c fs id).2 := by
  cases id with
  | some n =>
    unfold addS
    simp only
    split
    · rename_i c' h; exact addSimplex_ok_inv hI hc h
    · exact hI
  | none =>
    unfold addS
    simp only
    split
    · rename_i c' h; exact inv_of_simps_eq (c := c') rfl (addSimplex_ok_inv hI hc h)
    · exact hI

/-- `addSimplexWithBasis` on a repeat-free basis of ≥ 2 names: accepted or rejected, the result is valid -/
theorem addSimplexWithBasis'_inv {c : C} (hI : Inv c) {bs : List Name} (hnd : bs.Nodup) (h2 : 2 ≤ bs.length)
    (id : Option Name) : Inv (addSimplexWithBasis' c bs id).2 := by
  classical
  by_cases g1 : idUsed c id = true
  · obtain ⟨e', he⟩ := addSimplexWithBasis'_guards c bs id (Or.inl g1); rw [he]; exact hI
  by_cases g1b : idInBasis bs id = true
  · obtain ⟨e', he⟩ := addSimplexWithBasis'_guards c bs id (Or.inr (Or.inl g1b)); rw [he]; exact hI
  by_cases g2 : bs.any (fun b => c.contains b && c.orderOf? b != some 0) = true
  · obtain ⟨e', he⟩ := addSimplexWithBasis'_guards c bs id (Or.inr (Or.inr (Or.inl g2))); rw [he]; exact hI
  by_cases g3 : (simplexWithBasis c bs).isSome = true
  · obtain ⟨e', he⟩ := addSimplexWithBasis'_guards c bs id (Or.inr (Or.inr (Or.inr g3))); rw [he]; exact hI
  -- no guard fires: the call succeeds
  have hpt : ∀ b ∈ bs, c.contains b = true → ∃ t ∈ c.simps, t.name = b ∧ t.order = 0 := by
    intro b hb hcb
    have : ¬ (c.contains b && c.orderOf? b != some 0) = true := by
      intro hx; exact g2 (List.any_eq_true.mpr ⟨b, hb, hx⟩)
    simp only [hcb, Bool.true_and, bne_iff_ne, ne_eq, Decidable.not_not] at this
    obtain ⟨t, ht, hn⟩ := (contains_iff).mp hcb
    refine ⟨t, ht, hn, ?_⟩
    have ho := orderOf_of_mem hI ht
    rw [hn, this] at ho
    exact (Option.some.inj ho).symm
  have hnone : ¬ ∃ t ∈ c.simps, t.pts = bs.toFinset := by
    rintro ⟨t, ht, hp⟩
    have hall : PtsIn c bs := by
      intro b hb
      have hbp : b ∈ t.pts := by rw [hp]; exact List.mem_toFinset.mpr hb
      obtain ⟨u, hu, hn, h0, -⟩ := hI.basis_point t.order ht rfl b (by simpa [Simp.pts] using hbp)
      exact ⟨u, hu, hn, h0⟩
    have hne : bs ≠ [] := by intro e; rw [e] at h2; simp at h2
    have hsp := simplexWithBasis_spec hI hnd hne hall
    cases hsw : simplexWithBasis c bs with
    | none => exact hsp.2 hsw ⟨t, ht, hp⟩
    | some n => rw [hsw] at g3; exact g3 rfl
  have hid : ∀ n, id = some n → c.contains n = false ∧ n ∉ bs := by
    intro n hn
    subst hn
    refine ⟨by simpa [idUsed] using g1, ?_⟩
    simpa [idInBasis] using g1b
  obtain ⟨n, c', hok, hI', -⟩ := addSimplexWithBasis_spec hI hnd h2 hpt hnone id hid
  rw [hok]; exact hI'

/-- the public `addSimplexWithBasis` for every length of the basis -/
theorem addSimplexWithBasisQ_inv {c : C} (hI : Inv c) {bs : List Name} (hnd : bs.Nodup) (id : Option Name) :
    Inv (addSimplexWithBasisQ c bs id).2 := by
  unfold addSimplexWithBasisQ
  split_ifs
  · exact hI
  · exact hI
  · match bs, hnd with
    | [], _ => exact hI
    | [b], _ =>
      simp only
      split_ifs
      · exact hI
      · exact addS_inv hI (Or.inl rfl) id
    | b1 :: b2 :: tl, hnd =>
      simp only
      exact addSimplexWithBasis'_inv hI hnd (by simp) id

theorem deleteSimplex_inv {c : C} (hI : Inv c) (s : Name) : Inv ((deleteSimplex c s).getD c) := by
  by_cases h : c.contains s = true
  · obtain ⟨t, ht, rfl⟩ := contains_iff.mp h
    obtain ⟨c', hd, hI', -⟩ := deleteSimplex_spec hI ht
    rw [hd]; exact hI'
  · rw [deleteSimplex_unknown c s (by simpa using h)]; exact hI

theorem deleteSimplexWithBasis_inv {c : C} (hI : Inv c) (bs : List Name) :
    Inv ((deleteSimplexWithBasis c bs).getD c) := by
  unfold deleteSimplexWithBasis
  cases simplexWithBasis c bs with
  | none => exact hI
  | some s => exact deleteSimplex_inv hI s

theorem deleteSimplices_inv : ∀ (ss : List Name) {c : C}, Inv c → Inv (deleteSimplices c ss) := by
  intro ss
  induction ss with
  | nil => intro c hI; exact hI
  | cons s ss ih =>
    intro c hI
    unfold deleteSimplices
    split_ifs
    · exact ih (deleteSimplex_inv hI s)
    · exact ih hI

theorem restrictBasisTo_inv {c : C} (hI : Inv c) (bs : List Name) : Inv ((restrictBasisTo c bs).getD c) := by
  by_cases hg : (bs.all (fun b => c.orderOf? b == some 0)) = true
  · have hpts : PtsIn c bs := by
      intro b hb
      have := List.all_eq_true.mp hg b hb
      obtain ⟨t, ht, hn, ho, -⟩ := orderOf_some (by simpa using this : c.orderOf? b = some 0)
      exact ⟨t, ht, hn, ho⟩
    obtain ⟨c', hr, hI', -⟩ := restrict_spec hI hpts
    rw [hr]; exact hI'
  · have : restrictBasisTo c bs = none := by
      unfold restrictBasisTo; simp [hg]
    rw [this]; exact hI

theorem subdivState_inv {c : C} (hI : Inv c) {s : Name} {order : List Name}
    (hc : c.contains s = true → order.Nodup ∧ order.toFinset = (c.basisOf s).toFinset) :
    Inv (subdivState c s order) := by
  unfold subdivState
  cases ho : c.orderOf? s with
  | none =>
    obtain ⟨e, he⟩ := subdivide_rejects c s order (Or.inl ho)
    rw [he]; exact hI
  | some k =>
    cases k with
    | zero =>
      obtain ⟨e, he⟩ := subdivide_rejects c s order (Or.inr ho)
      rw [he]; exact hI
    | succ k =>
      obtain ⟨t, ht, hn, hto, -⟩ := orderOf_some ho
      subst hn
      obtain ⟨hnd, hfs⟩ := hc (contains_of_mem ht)
      rw [basisOf_of_mem hI ht] at hfs
      obtain ⟨mid, c3, hs, hI3, -⟩ := subdivide_spec hI ht (by omega) hnd hfs
      rw [hs]; exact hI3

theorem relabel_inv {c : C} (hI : Inv c) (ρ : Name → Name) : Inv (Flat.relabel c ρ).2 := by
  cases h : Flat.relabel c ρ with
  | mk r c' =>
    cases r with
    | error e =>
      have := relabel_atomic c ρ e (by rw [h])
      rw [h] at this
      simp only at this
      rw [this]; exact hI
    | ok m => exact (relabel_spec hI ρ h).2.2.2.2.2

/-- `relabelDisjointFrom` keeps the invariant whatever the other complex is -/
theorem relabelDisjoint_inv {c : C} (hI : Inv c) (other : C) : Inv (relabelDisjointFrom c other).2 := by
  unfold relabelDisjointFrom; exact relabel_inv hI _

/-- **C01, one step**: every public mutating call made in contract on a valid complex - accepted, rejected, or
(for `addSimplicesFrom`) stopped half-way by an exception - leaves a valid complex -/
theorem step_inv {c : C} {op : Op} (hI : Inv c) (hc : InContract c op) : Inv (step c op) := by
  cases op with
  | addPoint id => exact addS_inv hI (Or.inl rfl) id
  | addFaces fs id => exact addS_inv hI hc id
  | addBasis bs id => exact addSimplexWithBasisQ_inv hI hc id
  | addFrom src ρ => exact addFrom_inv hI hc _
  | delete s => exact deleteSimplex_inv hI s
  | deleteBasis bs => exact deleteSimplexWithBasis_inv hI bs
  | deleteMany ss => exact deleteSimplices_inv ss hI
  | restrict bs => exact restrictBasisTo_inv hI bs
  | subdivide s order => exact subdivState_inv hI hc
  | relabel ρ => exact relabel_inv hI _
  | relabelDisjoint other => exact relabelDisjoint_inv hI other

/-- a history in contract from a valid complex ends in a valid complex -/
theorem run_inv : ∀ (ops : List Op) {c : C}, Inv c → Run c ops → Inv (ops.foldl step c) := by
  intro ops
  induction ops with
  | nil => intro c hI _; exact hI
  | cons op ops ih =>
    intro c hI hr
    cases hr with
    | cons hc hrest => exact ih (step_inv hI hc) hrest

/-- **C01**: every complex reachable from the empty complex by a history of in-contract public mutating calls
(rejected calls included) satisfies the invariant -/
theorem reachable_inv (ops : List Op) (hr : Run emptyC ops) : Inv (ops.foldl step emptyC) :=
  run_inv ops emptyC_inv hr

/-- every intermediate state of such a history is valid, too -/
theorem reachable_inv_prefix (ops : List Op) (hr : Run emptyC ops) (n : Nat) :
    Inv ((ops.take n).foldl step emptyC) := by
  have key : ∀ (ops : List Op) (c : C), Run c ops → ∀ n, Run c (ops.take n) := by
    intro ops
    induction ops with
    | nil => intro c _ n; simp; exact Run.nil c
    | cons op ops ih =>
      intro c hr n
      cases n with
      | zero => exact Run.nil c
      | succ n =>
        cases hr with
        | cons hc hrest => exact Run.cons hc (ih _ hrest n)
  exact reachable_inv _ (key ops emptyC hr n)

/-! ## what the invariant says about `maxOrder`, names, the listing order and the per-order listings -/

theorem maxOrder_ge_neg_one (c : C) : (-1 : Int) ≤ c.maxOrder := by
  unfold Cx.maxOrder; cases c.simps.getLast? <;> simp

/-- below an inhabited order every order is inhabited -/
theorem order_inhabited_below {c : C} (hI : Inv c) (k : Nat) :
    ∀ (j : Nat) (s : Simp Name), s ∈ c.simps → s.order = k + j → ∃ t ∈ c.simps, t.order = k := by
  intro j
  induction j with
  | zero => intro s hs ho; exact ⟨s, hs, ho⟩
  | succ j ih =>
    intro s hs ho
    obtain ⟨-, fl, fex, -⟩ := hI.higher s hs (by omega)
    obtain ⟨f, hf⟩ : ∃ f, f ∈ s.faces := List.exists_mem_of_length_pos (by omega)
    obtain ⟨t, ht, -, hto⟩ := fex f hf
    exact ih t ht (by omega)

/-- **`maxOrder`**: it is `-1` exactly for the empty complex; otherwise it is the largest order of a simplex
(an upper bound that is attained); every order `0..maxOrder` holds a simplex and no order above does -/
theorem maxOrder_spec {c : C} (hI : Inv c) :
    (c.maxOrder = -1 ↔ c.simps = []) ∧
    (∀ s ∈ c.simps, (s.order : Int) ≤ c.maxOrder) ∧
    (c.simps ≠ [] → ∃ s ∈ c.simps, (s.order : Int) = c.maxOrder) ∧
    (∀ k : Nat, (k : Int) ≤ c.maxOrder → c.ofOrder k ≠ []) ∧
    (∀ k : Nat, c.maxOrder < (k : Int) → c.ofOrder k = []) := by
  have hatt : c.simps ≠ [] → ∃ s ∈ c.simps, (s.order : Int) = c.maxOrder := by
    intro hne
    unfold Cx.maxOrder
    cases hl : c.simps.getLast? with
    | none => rw [List.getLast?_eq_none_iff] at hl; exact absurd hl hne
    | some s => exact ⟨s, List.mem_of_getLast? hl, rfl⟩
  refine ⟨?_, fun s hs => maxOrder_ge hI hs, hatt, ?_, ?_⟩
  · constructor
    · intro h
      by_contra hne
      obtain ⟨s, -, hs⟩ := hatt hne
      omega
    · intro h; unfold Cx.maxOrder; rw [h]; rfl
  · intro k hk hemp
    have hne : c.simps ≠ [] := by
      intro h
      have : c.maxOrder = -1 := by unfold Cx.maxOrder; rw [h]; rfl
      omega
    obtain ⟨s, hs, hso⟩ := hatt hne
    obtain ⟨t, ht, hto⟩ := order_inhabited_below hI k (s.order - k) s hs (by omega)
    have : t ∈ c.ofOrder k := mem_ofOrder.mpr ⟨ht, hto⟩
    rw [hemp] at this; cases this
  · intro k hk
    unfold Cx.ofOrder
    rw [List.filter_eq_nil_iff]
    intro s hs
    have := maxOrder_ge hI hs
    simp only [beq_iff_eq]
    omega

theorem nodupB_of_nodup : ∀ {l : List Name}, l.Nodup → nodupB l = true := by
  intro l
  induction l with
  | nil => intro _; rfl
  | cons x xs ih =>
    intro h
    rw [List.nodup_cons] at h
    simp [nodupB, ih h.2, h.1]

/-- **no two simplices share a name** (user names and generated names alike), also in the Boolean form that
the driver evaluates on observed states -/
theorem names_nodup {c : C} (hI : Inv c) : c.names.Nodup ∧ nodupB c.names = true :=
  ⟨hI.nodup, nodupB_of_nodup hI.nodup⟩

theorem sortedByOrder_of_pairwise : ∀ {l : List (Simp Name)}, l.Pairwise (fun a b => a.order ≤ b.order) →
    sortedByOrder l = true := by
  intro l
  induction l with
  | nil => intro _; rfl
  | cons a l ih =>
    intro h
    cases l with
    | nil => rfl
    | cons b rest =>
      rw [List.pairwise_cons] at h
      simp only [sortedByOrder, Bool.and_eq_true, decide_eq_true_eq]
      exact ⟨h.1 b List.mem_cons_self, ih h.2⟩

/-- **`simplices()` lists every simplex once, in non-decreasing order** -/
theorem sorted_by_order {c : C} (hI : Inv c) :
    c.simps.Pairwise (fun a b => a.order ≤ b.order) ∧ sortedByOrder c.simps = true ∧ c.simps.Nodup :=
  ⟨hI.sorted, sortedByOrder_of_pairwise hI.sorted, List.Nodup.of_map _ hI.nodup⟩

theorem filter_lt_succ : ∀ {l : List (Simp Name)}, l.Pairwise (fun a b => a.order ≤ b.order) → ∀ N : Nat,
    l.filter (fun s => decide (s.order < N + 1)) =
      l.filter (fun s => decide (s.order < N)) ++ l.filter (fun s => s.order == N) := by
  intro l
  induction l with
  | nil => intro _ N; rfl
  | cons x xs ih =>
    intro h N
    rw [List.pairwise_cons] at h
    rcases Nat.lt_trichotomy x.order N with hlt | heq | hgt
    · have h1 : decide (x.order < N + 1) = true := by simp; omega
      have h2 : decide (x.order < N) = true := by simp; omega
      have h3 : (x.order == N) = false := by simp; omega
      rw [List.filter_cons, List.filter_cons, List.filter_cons, h1, h2, h3, ih h.2 N]
      simp
    · have h1 : decide (x.order < N + 1) = true := by simp; omega
      have h2 : decide (x.order < N) = false := by simp; omega
      have h3 : (x.order == N) = true := by simp; omega
      have hnil : xs.filter (fun s => decide (s.order < N)) = [] := by
        rw [List.filter_eq_nil_iff]
        intro s hs
        have := h.1 s hs
        simp only [decide_eq_true_eq]; omega
      rw [List.filter_cons, List.filter_cons, List.filter_cons, h1, h2, h3, ih h.2 N, hnil]
      simp
    · have h1 : decide (x.order < N + 1) = false := by simp; omega
      have h2 : decide (x.order < N) = false := by simp; omega
      have h3 : (x.order == N) = false := by simp; omega
      rw [List.filter_cons, List.filter_cons, List.filter_cons, h1, h2, h3, ih h.2 N]
      simp

theorem flatMap_ofOrder_range {c : C} (hI : Inv c) (N : Nat) :
    (List.range N).flatMap c.ofOrder = c.simps.filter (fun s => decide (s.order < N)) := by
  induction N with
  | zero => simp
  | succ N ih =>
    rw [List.range_succ, List.flatMap_append, ih, filter_lt_succ hI.sorted N]
    simp [Cx.ofOrder]

/-- **the per-order listings partition the simplices**: concatenating `simplicesOfOrder(k)` for
`k = 0..maxOrder` gives `simplices()`; each listing holds exactly the simplices of its order -/
theorem perOrder_partition {c : C} (hI : Inv c) :
    (List.range (c.maxOrder + 1).toNat).flatMap c.ofOrder = c.simps ∧
    (∀ k s, s ∈ c.ofOrder k ↔ s ∈ c.simps ∧ s.order = k) := by
  refine ⟨?_, fun k s => mem_ofOrder⟩
  rw [flatMap_ofOrder_range hI, List.filter_eq_self]
  intro s hs
  have := maxOrder_ge hI hs
  simp only [decide_eq_true_eq]
  omega

/-! ## the Boolean check evaluated on observed implementation states is exactly the invariant -/

theorem nodup_of_nodupB : ∀ {l : List Name}, nodupB l = true → l.Nodup := by
  intro l
  induction l with
  | nil => intro _; exact List.nodup_nil
  | cons x xs ih =>
    intro h
    simp only [nodupB, Bool.and_eq_true, Bool.not_eq_true'] at h
    exact List.nodup_cons.mpr ⟨by simpa using h.1, ih h.2⟩

theorem pairwise_of_sortedByOrder : ∀ {l : List (Simp Name)}, sortedByOrder l = true →
    l.Pairwise (fun a b => a.order ≤ b.order) := by
  intro l
  induction l with
  | nil => intro _; exact List.Pairwise.nil
  | cons a l ih =>
    intro h
    cases l with
    | nil => exact List.pairwise_singleton _ _
    | cons b rest =>
      simp only [sortedByOrder, Bool.and_eq_true, decide_eq_true_eq] at h
      have hp := ih h.2
      refine List.pairwise_cons.mpr ⟨?_, hp⟩
      intro x hx
      rcases List.mem_cons.mp hx with rfl | hx
      · exact h.1
      · exact Nat.le_trans h.1 ((List.pairwise_cons.mp hp).1 x hx)

/-- `Inv` implies the Boolean check `checkInv` (what the driver's `inv` query evaluates) -/
theorem checkInv_of_inv {c : C} (hI : Inv c) : checkInv c = true := by
  classical
  unfold checkInv
  simp only [Bool.and_eq_true, List.all_eq_true]
  refine ⟨⟨⟨(names_nodup hI).2, (sorted_by_order hI).2.1⟩, ?_⟩, ?_⟩
  · intro s hs
    split_ifs with h0
    · obtain ⟨hf, hb⟩ := hI.point s hs h0
      simp [hf, hb]
    · have hpos : 0 < s.order := by omega
      obtain ⟨fn, fl, fex, bn, bl, biff⟩ := hI.higher s hs hpos
      simp only [Bool.and_eq_true, beq_iff_eq, List.all_eq_true]
      refine ⟨⟨⟨⟨⟨⟨fl, nodupB_of_nodup fn⟩, ?_⟩, bl⟩, nodupB_of_nodup bn⟩, ?_⟩, ?_⟩
      · intro f hf
        obtain ⟨t, ht, hn, ho⟩ := fex f hf
        rw [← hn, orderOf_of_mem hI ht]
        congr 1; omega
      · intro p hp
        obtain ⟨t, ht, hn, h0', -⟩ := hI.basis_point s.order hs rfl p hp
        rw [← hn, orderOf_of_mem hI ht, h0']
      · rw [setEqB_iff]
        ext p
        simp only [List.mem_toFinset, mem_dedupL, List.mem_flatMap]
        rw [biff p]
        constructor
        · rintro ⟨f, hf, t, ht, hn, hp⟩
          exact ⟨f, hf, by rw [← hn, basisOf_of_mem hI ht]; exact hp⟩
        · rintro ⟨f, hf, hp⟩
          obtain ⟨t, ht, hn, -⟩ := fex f hf
          refine ⟨f, hf, t, ht, hn, ?_⟩
          rw [← hn, basisOf_of_mem hI ht] at hp; exact hp
  · intro s hs t ht
    by_cases hn : s.name = t.name
    · simp [hn]
    · by_cases ho : s.order = t.order
      · have : setEqB s.basis t.basis = false := by
          rw [← Bool.not_eq_true, setEqB_iff]
          intro he
          apply hn
          rw [hI.uniq s hs t ht ho (fun p => by
            have := Finset.ext_iff.mp he p
            simpa only [List.mem_toFinset] using this)]
        simp [this]
      · simp [ho]

/-- conversely the Boolean check implies `Inv` -/
theorem inv_of_checkInv {c : C} (h : checkInv c = true) : Inv c := by
  classical
  unfold checkInv at h
  simp only [Bool.and_eq_true, List.all_eq_true] at h
  obtain ⟨⟨⟨h1, h2⟩, h3⟩, h4⟩ := h
  have hnd : (c.simps.map (·.name)).Nodup := nodup_of_nodupB h1
  have hlk : ∀ t ∈ c.simps, c.lookup t.name = some t := by
    intro t ht
    unfold Cx.lookup
    cases hf : c.simps.find? (fun x => x.name == t.name) with
    | none =>
      have := List.find?_eq_none.mp hf t ht
      simp at this
    | some t' =>
      have m1 := List.mem_of_find?_eq_some hf
      have m2 := List.find?_some hf
      simp only [beq_iff_eq] at m2
      rw [List.inj_on_of_nodup_map hnd m1 ht m2]
  refine ⟨pairwise_of_sortedByOrder h2, hnd, ?_, ?_, ?_⟩
  · intro s hs h0
    have := h3 s hs
    rw [if_pos h0] at this
    simp only [Bool.and_eq_true, List.isEmpty_iff, beq_iff_eq] at this
    exact this
  · intro s hs hpos
    have := h3 s hs
    rw [if_neg (by omega)] at this
    simp only [Bool.and_eq_true, beq_iff_eq, List.all_eq_true] at this
    obtain ⟨⟨⟨⟨⟨⟨a1, a2⟩, a3⟩, a4⟩, a5⟩, -⟩, a7⟩ := this
    refine ⟨nodup_of_nodupB a2, a1, ?_, nodup_of_nodupB a5, a4, ?_⟩
    · intro f hf
      obtain ⟨t, ht, hn, ho, -⟩ := orderOf_some (a3 f hf)
      exact ⟨t, ht, hn, by omega⟩
    · intro p
      have he := Finset.ext_iff.mp (setEqB_iff.mp a7) p
      simp only [List.mem_toFinset, mem_dedupL, List.mem_flatMap] at he
      rw [he]
      constructor
      · rintro ⟨f, hf, hp⟩
        obtain ⟨t, ht, hn, -, hl⟩ := orderOf_some (a3 f hf)
        refine ⟨f, hf, t, ht, hn, ?_⟩
        unfold Cx.basisOf at hp; rw [hl] at hp; exact hp
      · rintro ⟨f, hf, t, ht, hn, hp⟩
        refine ⟨f, hf, ?_⟩
        unfold Cx.basisOf; rw [← hn, hlk t ht]; exact hp
  · intro s hs t ht ho hb
    have := h4 s hs t ht
    simp only [Bool.or_eq_true, beq_iff_eq, bne_iff_ne, ne_eq, Bool.not_eq_true'] at this
    rcases this with (hn | hno) | hne
    · exact List.inj_on_of_nodup_map hnd hs ht hn
    · exact absurd ho hno
    · exfalso
      have : setEqB s.basis t.basis = true := by
        rw [setEqB_iff]; ext p; simp only [List.mem_toFinset]; exact hb p
      rw [this] at hne; cases hne

/-- **the invariant is exactly what the driver's `inv` query checks** on every observed state -/
theorem checkInv_iff (c : C) : checkInv c = true ↔ Inv c := ⟨inv_of_checkInv, checkInv_of_inv⟩

/-- hence every reachable state passes the check -/
theorem reachable_checkInv (ops : List Op) (hr : Run emptyC ops) : checkInv (ops.foldl step emptyC) = true :=
  checkInv_of_inv (reachable_inv ops hr)

/-! ## non-vacuity: a concrete history with its `Run` proof -/

/-- a source complex for `addSimplicesFrom` / `relabelDisjointFrom`: the edge `u12 = {u1, u2}` -/
def exSrc : C := ⟨[⟨.u 1, 0, [], [.u 1]⟩, ⟨.u 2, 0, [], [.u 2]⟩, ⟨.u 12, 1, [.u 1, .u 2], [.u 1, .u 2]⟩], 0⟩

theorem exSrc_inv : Inv exSrc := inv_of_checkInv (by decide)

/-- thirteen calls, using every kind of operation: build a triangle by basis; a rejected `addSimplex` (name in
use); an edge by basis; an edge by faces; delete an edge; subdivide the triangle; relabel a point; add a renamed
copy of `exSrc`; an `addSimplicesFrom` that raises half-way (the new name `u3` of the edge is in use: its two
points stay); make the names disjoint from `exSrc`; restrict to four points; delete several (one unknown);
delete by basis -/
def exOps : List Op := [
  .addBasis [.u 1, .u 2, .u 3] (some (.u 123)),
  .addPoint (some (.u 1)),
  .addBasis [.u 3, .u 4] (some (.u 34)),
  .addFaces [.u 2, .u 4] (some (.u 24)),
  .delete (.u 34),
  .subdivide (.u 123) [.u 1, .u 2, .u 3],
  .relabel [(.u 1, .u 7)],
  .addFrom exSrc [(.u 1, .u 51), (.u 2, .u 52), (.u 12, .u 512)],
  .addFrom exSrc [(.u 1, .u 61), (.u 2, .u 62), (.u 12, .u 3)],
  .relabelDisjoint exSrc,
  .restrict [.u 7, .arrow (.u 2) 0 1, .u 3, .u 61],
  .deleteMany [.u 3, .u 99],
  .deleteBasis [.u 7, .arrow (.u 2) 0 1]]

theorem exRun : Run emptyC exOps := by
  unfold exOps
  refine Run.cons (show [Name.u 1, .u 2, .u 3].Nodup by decide) ?_
  refine Run.cons trivial ?_
  refine Run.cons (show [Name.u 3, .u 4].Nodup by decide) ?_
  refine Run.cons (Or.inr rfl) ?_
  refine Run.cons trivial ?_
  refine Run.cons (fun _ => ⟨by decide, by decide⟩) ?_
  refine Run.cons trivial ?_
  refine Run.cons exSrc_inv ?_
  refine Run.cons exSrc_inv ?_
  refine Run.cons exSrc_inv ?_
  refine Run.cons trivial ?_
  refine Run.cons trivial ?_
  refine Run.cons trivial ?_
  exact Run.nil _

/-- the states along the history: numbers of simplices, and the maximal order -/
example : (List.range 14).map (fun n => ((exOps.take n).foldl step emptyC).simps.length)
    = [0, 7, 7, 9, 10, 9, 15, 15, 18, 20, 20, 7, 4, 3] := by decide

example : (Flat.addFrom ((exOps.take 8).foldl step emptyC) exSrc
    (renameOf [(.u 1, .u 61), (.u 2, .u 62), (.u 12, .u 3)])).1 = .error .value := by decide

example : (addS ((exOps.take 1).foldl step emptyC) [] (some (.u 1))).1 = .error .key := by decide

/-- `reachable_inv`, `maxOrder_spec`, `names_nodup`, `sorted_by_order`, `perOrder_partition` on the state
after the first ten calls (20 simplices of orders 0..2, user names, generated names and `->` names mixed) -/
example : Inv ((exOps.take 10).foldl step emptyC) ∧ ((exOps.take 10).foldl step emptyC).maxOrder = 2 ∧
    ((exOps.take 10).foldl step emptyC).simps.length = 20 ∧
    (List.range 3).map (fun k => (((exOps.take 10).foldl step emptyC).ofOrder k).length) = [9, 8, 3] :=
  ⟨reachable_inv_prefix exOps exRun 10, by decide, by decide, by decide⟩

/-- three pairwise disjoint edges -/
def exSix : C := [Op.addBasis [.u 1, .u 2] (some (.u 12)), .addBasis [.u 3, .u 4] (some (.u 34)),
  .addBasis [.u 5, .u 6] (some (.u 56))].foldl step emptyC

/-- **the contract of `addFaces` cannot be dropped** from `step_inv`: `addSimplex` only checks that the faces
exist, have the right order and are not the faces of an existing simplex; the three disjoint edges of `exSix`
are accepted as the "faces" of a 2-simplex `u9`, whose basis then has six points: the invariant is lost -/
example : Inv exSix ∧ ¬ Flat.InContract exSix [.u 12, .u 34, .u 56] ∧
    (addS exSix [.u 12, .u 34, .u 56] (some (.u 9))).1 = .ok (.u 9) ∧
    ¬ Inv (step exSix (.addFaces [.u 12, .u 34, .u 56] (some (.u 9)))) :=
  ⟨inv_of_checkInv (by decide), by unfold Flat.InContract; decide, by decide,
    fun h => absurd (checkInv_of_inv h) (by decide)⟩

end Flat.C01
