import Sx.Model
import Sx.Proofs.FlatDelete2
import Sx.Proofs.FlatClosed
import Sx.Props.Views
import Sx.Props.C01
import Mathlib.Tactic.SplitIfs
import Mathlib.Data.Finset.Card
import Mathlib.Data.List.Basic

/-! # C02 for `deleteSimplices(ss)`

Python (`base.py`):

    for s in ss:
        if self.containsSimplex(s):      # protect against unfortunate cascades of deletions
            self.deleteSimplex(s)

Model: `Flat.deleteSimplices` (`Sx/Model/Ops.lean`), the function behind the driver's `dels` / `delsorder`
commands (`deleteManyOp`).

Results (all for every `c` with `Inv c` and EVERY list of names: absent names, repeated names, cofaces of
earlier entries are all allowed):

* `deleteSimplices_spec`: the result is valid, and it is `c` with its listing filtered - the SAME list, so every
  survivor keeps its name, order, faces, basis and relative position - by "lies in the star of no listed simplex
  that is present in `c`" (`Survives`); the counter behind generated names is untouched.
* `deleteSimplices_perm`: the result does not depend on the order (nor on the multiplicities) of the list.
* `deleteSimplices_order`: deleting all simplices of order `k` leaves exactly the simplices of order `< k`.
-/
namespace Flat

/-- `t` lies in the star of no listed simplex that is present in `c`: for every listed name `n` and every
simplex `s` with `c.lookup n = some s` (written `s ∈ c.lookup n`, which is decidable), the points of `s` are not
all points of `t`. Names that are not in `c` impose nothing. -/
def Survives (c : C) (ss : List Name) (t : Simp Name) : Prop :=
  ∀ n ∈ ss, ∀ s ∈ c.lookup n, ¬ s.pts ⊆ t.pts

instance (c : C) (ss : List Name) (t : Simp Name) : Decidable (Survives c ss t) := by
  unfold Survives; infer_instance

/-- the same, quantifying over the simplices of `c` instead of over the listed names -/
theorem survives_iff {c : C} (hI : Inv c) (ss : List Name) (t : Simp Name) :
    Survives c ss t ↔ ∀ s ∈ c.simps, s.name ∈ ss → ¬ s.pts ⊆ t.pts := by
  unfold Survives
  constructor
  · intro H s hs hin
    exact H s.name hin s (Option.mem_def.mpr (lookup_of_mem hI hs))
  · intro H n hn s hs
    obtain ⟨h1, h2⟩ := lookup_some (Option.mem_def.mp hs)
    exact H s h1 (h2 ▸ hn)

/-- in words of `basisOf`: a present listed name `n` removes `t` iff every point of `basisOf n` is a point
of `t` -/
theorem survives_iff_basisOf {c : C} (hI : Inv c) (ss : List Name) (t : Simp Name) :
    Survives c ss t ↔ ∀ n ∈ ss, c.contains n = true → ¬ (c.basisOf n).toFinset ⊆ t.pts := by
  rw [survives_iff hI]
  constructor
  · intro H n hn hc
    obtain ⟨s, hs, rfl⟩ := contains_iff.mp hc
    rw [basisOf_of_mem hI hs]
    exact H s hs hn
  · intro H s hs hin
    have := H s.name hin (contains_of_mem hs)
    rw [basisOf_of_mem hI hs] at this
    exact this

/-- the induction behind `deleteSimplices_spec`, with the condition quantified over the simplices of `c` -/
theorem deleteSimplices_aux : ∀ (ss : List Name) {c : C}, Inv c →
    Inv (deleteSimplices c ss) ∧
    deleteSimplices c ss =
      { c with
        simps := c.simps.filter (fun t => decide (∀ s ∈ c.simps, s.name ∈ ss → ¬ s.pts ⊆ t.pts)) } := by
  intro ss
  induction ss with
  | nil =>
    intro c hI
    refine ⟨hI, ?_⟩
    cases c
    simp [deleteSimplices]
  | cons n ss ih =>
    intro c hI
    by_cases h : c.contains n = true
    · obtain ⟨s, hs, rfl⟩ := contains_iff.mp h
      obtain ⟨c1, hd, hI1, hc1⟩ := deleteSimplex_spec hI hs
      have hstep : deleteSimplices c (s.name :: ss) = deleteSimplices c1 ss := by
        rw [deleteSimplices, if_pos h, hd]; rfl
      obtain ⟨ihI, iheq⟩ := ih hI1
      rw [hstep]
      refine ⟨ihI, ?_⟩
      rw [iheq]
      subst hc1
      simp only [List.filter_filter]
      congr 1
      apply List.filter_congr
      intro t _
      rw [Bool.eq_iff_iff]
      simp only [Bool.and_eq_true, decide_eq_true_eq, List.mem_filter, List.mem_cons]
      constructor
      · rintro ⟨h1, h2⟩ u hu hin
        rcases hin with hn | hin
        · rw [hI.name_inj hu hs hn]; exact h2
        · intro hut
          exact h1 u ⟨hu, fun hsu => h2 (hsu.trans hut)⟩ hin hut
      · intro H
        exact ⟨fun u hu hin => H u hu.1 (Or.inr hin), H s hs (Or.inl rfl)⟩
    · have hstep : deleteSimplices c (n :: ss) = deleteSimplices c ss := by
        rw [deleteSimplices, if_neg h]
      obtain ⟨ihI, iheq⟩ := ih hI
      rw [hstep]
      refine ⟨ihI, ?_⟩
      rw [iheq]
      congr 1
      apply List.filter_congr
      intro t _
      rw [Bool.eq_iff_iff]
      simp only [decide_eq_true_eq, List.mem_cons]
      constructor
      · intro H u hu hin
        rcases hin with hn | hin
        · exact absurd (contains_iff.mpr ⟨u, hu, hn⟩) h
        · exact H u hu hin
      · intro H u hu hin
        exact H u hu (Or.inr hin)

/-- **C02 for `deleteSimplices`**. For a valid complex and ANY list of names (absent, repeated, cofaces of
earlier entries): the result is valid; it is `c` with the listing FILTERED (same list, so survivors keep name,
order, faces, basis and relative position) by `Survives c ss`: the survivors are exactly the simplices of `c`
that lie in the star of no listed simplex present in `c`; the counter `seq` behind generated names is
unchanged (so are all fields other than `simps`: the result is `{ c with simps := … }`). -/
theorem deleteSimplices_spec {c : C} (hI : Inv c) (ss : List Name) :
    Inv (deleteSimplices c ss) ∧
    deleteSimplices c ss = { c with simps := c.simps.filter (fun t => decide (Survives c ss t)) } ∧
    (deleteSimplices c ss).simps = c.simps.filter (fun t => decide (Survives c ss t)) ∧
    (deleteSimplices c ss).seq = c.seq := by
  obtain ⟨h1, h2⟩ := deleteSimplices_aux ss hI
  have h3 : deleteSimplices c ss =
      { c with simps := c.simps.filter (fun t => decide (Survives c ss t)) } := by
    rw [h2]
    congr 1
    apply List.filter_congr
    intro t _
    rw [Bool.eq_iff_iff]
    simp only [decide_eq_true_eq]
    exact (survives_iff hI ss t).symm
  exact ⟨h1, h3, by rw [h3], by rw [h3]⟩

/-- membership form: who is left, and that nothing about a survivor changes -/
theorem mem_deleteSimplices {c : C} (hI : Inv c) (ss : List Name) (t : Simp Name) :
    t ∈ (deleteSimplices c ss).simps ↔
      t ∈ c.simps ∧ ∀ s ∈ c.simps, s.name ∈ ss → ¬ s.pts ⊆ t.pts := by
  rw [(deleteSimplices_spec hI ss).2.2.1, List.mem_filter, decide_eq_true_eq, survives_iff hI]

/-- every listed simplex is gone afterwards, whether it was deleted in its own turn or by an earlier entry -/
theorem deleteSimplices_removes {c : C} (hI : Inv c) (ss : List Name) {n : Name} (hn : n ∈ ss) :
    (deleteSimplices c ss).contains n = false := by
  rw [← Bool.not_eq_true]
  intro hc
  obtain ⟨t, ht, rfl⟩ := contains_iff.mp hc
  obtain ⟨h1, h2⟩ := (mem_deleteSimplices hI ss t).mp ht
  exact h2 t h1 hn (Finset.Subset.refl _)

/-- **order independence**: the result depends only on the SET of listed names - in particular not on the order
of the list (and not on repetitions) -/
theorem deleteSimplices_congr {c : C} (hI : Inv c) {ss ss' : List Name} (h : ∀ n, n ∈ ss ↔ n ∈ ss') :
    deleteSimplices c ss = deleteSimplices c ss' := by
  rw [(deleteSimplices_aux ss hI).2, (deleteSimplices_aux ss' hI).2]
  congr 1
  apply List.filter_congr
  intro t _
  rw [Bool.eq_iff_iff]
  simp only [decide_eq_true_eq]
  constructor
  · intro H s hs hin; exact H s hs ((h _).mpr hin)
  · intro H s hs hin; exact H s hs ((h _).mp hin)

theorem deleteSimplices_perm {c : C} (hI : Inv c) {ss ss' : List Name} (h : ss.Perm ss') :
    deleteSimplices c ss = deleteSimplices c ss' ∧
    (deleteSimplices c ss).simps = (deleteSimplices c ss').simps := by
  have := deleteSimplices_congr hI (fun n => h.mem_iff)
  exact ⟨this, by rw [this]⟩

/-- **deleting a whole order**: `deleteSimplices(simplicesOfOrder(k))` leaves exactly the simplices of order
`< k` (same listing, filtered); for `k = 0` nothing is left. `(c.ofOrder k).map (·.name)` is the list the
driver's `oforder` / `delsorder` commands compute. -/
theorem deleteSimplices_order {c : C} (hI : Inv c) (k : Nat) :
    Inv (deleteSimplices c ((c.ofOrder k).map (·.name))) ∧
    deleteSimplices c ((c.ofOrder k).map (·.name)) =
      { c with simps := c.simps.filter (fun t => decide (t.order < k)) } ∧
    (deleteSimplices c ((c.ofOrder k).map (·.name))).simps =
      c.simps.filter (fun t => decide (t.order < k)) := by
  classical
  obtain ⟨h1, h2⟩ := deleteSimplices_aux ((c.ofOrder k).map (·.name)) hI
  have h3 : deleteSimplices c ((c.ofOrder k).map (·.name)) =
      { c with simps := c.simps.filter (fun t => decide (t.order < k)) } := by
    rw [h2]
    congr 1
    apply List.filter_congr
    intro t ht
    rw [Bool.eq_iff_iff]
    simp only [decide_eq_true_eq]
    constructor
    · intro H
      by_contra hge
      -- a `k+1`-subset of the points of `t` is a simplex of order `k`
      have hcard : k + 1 ≤ t.pts.card := by rw [hI.pts_card ht]; omega
      obtain ⟨X, hX, hXc⟩ := Finset.exists_subset_card_eq hcard
      have hne : X.Nonempty := by rw [← Finset.card_pos]; omega
      obtain ⟨u, hu, hup⟩ := hI.subset_simplex ht hX hne
      have huo : u.order = k := by
        have := hI.pts_card hu
        rw [hup, hXc] at this; omega
      refine H u hu ?_ (by rw [hup]; exact hX)
      exact List.mem_map.mpr ⟨u, mem_ofOrder.mpr ⟨hu, huo⟩, rfl⟩
    · intro hlt s hs hin hsub
      obtain ⟨v, hv, hvn⟩ := List.mem_map.mp hin
      obtain ⟨hv1, hv2⟩ := mem_ofOrder.mp hv
      have : v = s := hI.name_inj hv1 hs hvn
      subst this
      have hc := Finset.card_le_card hsub
      rw [hI.pts_card hs, hI.pts_card ht] at hc
      omega
  exact ⟨h1, h3, by rw [h3]⟩

/-! ## examples: a filled triangle `u123` on `u1 u2 u3` plus a pendant edge `u34 = {u3, u4}` -/

def exTri : C := ⟨[
  ⟨.u 1, 0, [], [.u 1]⟩, ⟨.u 2, 0, [], [.u 2]⟩, ⟨.u 3, 0, [], [.u 3]⟩, ⟨.u 4, 0, [], [.u 4]⟩,
  ⟨.u 12, 1, [.u 1, .u 2], [.u 1, .u 2]⟩, ⟨.u 13, 1, [.u 1, .u 3], [.u 1, .u 3]⟩,
  ⟨.u 23, 1, [.u 2, .u 3], [.u 2, .u 3]⟩, ⟨.u 34, 1, [.u 3, .u 4], [.u 3, .u 4]⟩,
  ⟨.u 123, 2, [.u 12, .u 13, .u 23], [.u 1, .u 2, .u 3]⟩], 5⟩

theorem exTri_inv : Inv exTri := C01.inv_of_checkInv (by decide)

/-- the list of the task: an edge, the triangle (a coface of that edge, already gone when its turn comes), an
unknown name, another point. Left: the points `u1 u2 u3` and the edges `u13 u23`; the counter is untouched. -/
example : ((deleteSimplices exTri [.u 12, .u 123, .u 99, .u 4]).simps.map (·.name)) =
    [.u 1, .u 2, .u 3, .u 13, .u 23] := by decide

example : (deleteSimplices exTri [.u 12, .u 123, .u 99, .u 4]).seq = 5 := by decide

/-- the survivors are untouched entries of the original listing (`deleteSimplices_spec` on the example) -/
example : (deleteSimplices exTri [.u 12, .u 123, .u 99, .u 4]).simps =
    exTri.simps.filter (fun t => decide (Survives exTri [.u 12, .u 123, .u 99, .u 4] t)) :=
  (deleteSimplices_spec exTri_inv _).2.2.1

example : exTri.simps.filter (fun t => decide (Survives exTri [.u 12, .u 123, .u 99, .u 4] t)) =
    [⟨.u 1, 0, [], [.u 1]⟩, ⟨.u 2, 0, [], [.u 2]⟩, ⟨.u 3, 0, [], [.u 3]⟩,
     ⟨.u 13, 1, [.u 1, .u 3], [.u 1, .u 3]⟩, ⟨.u 23, 1, [.u 2, .u 3], [.u 2, .u 3]⟩] := by decide

/-- the triangle is skipped in its turn: after the edge `u12` it is no longer there -/
example : ((deleteSimplex exTri (.u 12)).getD exTri).contains (.u 123) = false := by decide

/-- `deleteSimplices_perm` on the example: the reversed list (coface first, then its face) gives the same -/
example : (deleteSimplices exTri [.u 4, .u 99, .u 123, .u 12]).simps =
    (deleteSimplices exTri [.u 12, .u 123, .u 99, .u 4]).simps :=
  (deleteSimplices_perm exTri_inv (by decide)).2

example : ((deleteSimplices exTri [.u 4, .u 99, .u 123, .u 12, .u 12]).simps.map (·.name)) =
    [.u 1, .u 2, .u 3, .u 13, .u 23] := by decide

/-- `deleteSimplices_order` on the example: all edges / all points -/
example : ((deleteSimplices exTri ((exTri.ofOrder 1).map (·.name))).simps.map (·.name)) =
    [.u 1, .u 2, .u 3, .u 4] := by decide

example : (deleteSimplices exTri ((exTri.ofOrder 0).map (·.name))).simps = [] := by decide

example : (deleteSimplices exTri ((exTri.ofOrder 1).map (·.name))).simps =
    exTri.simps.filter (fun t => decide (t.order < 1)) := (deleteSimplices_order exTri_inv 1).2.2

end Flat
