import Sx.Props.GenBetti

/-! finite Betti tables, part C (see GenBetti.lean) -/
namespace Flat.GenBetti
open Flat
set_option maxRecDepth 100000

theorem kVoid_betti_4 : (List.range 6).map (bettiK (kv 4)) = [1,0,0,0,1,0] := by decide +kernel

end Flat.GenBetti
