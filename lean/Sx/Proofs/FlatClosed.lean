import Sx.Model
import Sx.Proofs.FlatAdd

namespace Flat
set_option linter.unusedSectionVars false
variable {α : Type} [DecidableEq α]

/-- all facets of a simplex are present (as its faces) -/
theorem Inv.facets_exist {c : Cx α} (h : Inv c) {s : Simp α} (hs : s ∈ c.simps) (hk : 0 < s.order)
    {X : Finset α} (hX : X ⊆ s.pts) (hXc : X.card = s.order) :
    ∃ t ∈ c.simps, t.name ∈ s.faces ∧ t.order + 1 = s.order ∧ t.pts = X := by
  classical
  obtain ⟨hfn, hfl, hfex, hbn, hbl, hbiff⟩ := h.higher s hs hk
  have hex : ∀ f ∈ s.faces, ∃ u, u ∈ c.simps ∧ u.name = f ∧ u.order + 1 = s.order := by
    intro f hf; obtain ⟨u, hu, hn, ho⟩ := hfex f hf; exact ⟨u, hu, hn, ho⟩
  have : Nonempty (Simp α) := ⟨s⟩
  choose! u hu using hex
  let k := s.order
  let img : Finset (Finset α) := s.faces.toFinset.image (fun f => (u f).pts)
  have himg_sub : img ⊆ s.pts.powersetCard k := by
    intro Y hY
    obtain ⟨f, hf, rfl⟩ := Finset.mem_image.mp hY
    rw [List.mem_toFinset] at hf
    obtain ⟨hu1, hu2, hu3⟩ := hu f hf
    rw [Finset.mem_powersetCard]
    refine ⟨?_, ?_⟩
    · intro p hp
      rw [Simp.pts, List.mem_toFinset] at hp ⊢
      exact (hbiff p).mpr ⟨f, hf, u f, hu1, hu2, hp⟩
    · rw [h.pts_card hu1]; exact hu3
  have hinj : Set.InjOn (fun f => (u f).pts) (s.faces.toFinset : Set α) := by
    intro f hf f' hf' heq
    simp only [Finset.mem_coe, List.mem_toFinset] at hf hf'
    obtain ⟨hu1, hu2, hu3⟩ := hu f hf
    obtain ⟨hu1', hu2', hu3'⟩ := hu f' hf'
    have : u f = u f' := by
      apply h.uniq _ hu1 _ hu1' (by omega)
      intro p
      have := Finset.ext_iff.mp heq p
      simpa [Simp.pts] using this
    rw [← hu2, ← hu2', this]
  have himg_card : img.card = k + 1 := by
    rw [Finset.card_image_of_injOn hinj, List.toFinset_card_of_nodup hfn, hfl]
  have himg_eq : img = s.pts.powersetCard k := by
    apply Finset.eq_of_subset_of_card_le himg_sub
    rw [Finset.card_powersetCard, h.pts_card hs, himg_card, Nat.choose_succ_self_right]
  have hXin : X ∈ img := by
    rw [himg_eq, Finset.mem_powersetCard]; exact ⟨hX, hXc⟩
  obtain ⟨f, hf, hfe⟩ := Finset.mem_image.mp hXin
  rw [List.mem_toFinset] at hf
  obtain ⟨hu1, hu2, hu3⟩ := hu f hf
  exact ⟨u f, hu1, by rw [hu2]; exact hf, hu3, hfe⟩

/-- **closedness**: every non-empty subset of a simplex's points is the point set of a simplex -/
theorem Inv.subset_simplex {c : Cx α} (h : Inv c) {s : Simp α} (hs : s ∈ c.simps)
    {X : Finset α} (hX : X ⊆ s.pts) (hne : X.Nonempty) :
    ∃ t ∈ c.simps, t.pts = X := by
  classical
  -- induction on the number of missing points
  induction hd : (s.pts \ X).card generalizing s with
  | zero =>
    have : s.pts ⊆ X := by
      rw [Finset.card_eq_zero, Finset.sdiff_eq_empty_iff_subset] at hd; exact hd
    exact ⟨s, hs, Finset.Subset.antisymm this hX⟩
  | succ d ih =>
    have hpos : 0 < (s.pts \ X).card := by omega
    obtain ⟨p, hp⟩ := Finset.card_pos.mp hpos
    rw [Finset.mem_sdiff] at hp
    -- the facet omitting p
    have hcard := h.pts_card hs
    have hXlt : X.card < s.pts.card := by
      apply Finset.card_lt_card
      exact ⟨hX, fun hh => hp.2 (hh hp.1)⟩
    have hk : 0 < s.order := by
      have := Finset.card_pos.mpr hne; omega
    obtain ⟨t, ht, -, -, htp⟩ := h.facets_exist hs hk (X := s.pts.erase p)
      (Finset.erase_subset _ _) (by rw [Finset.card_erase_of_mem hp.1, hcard]; omega)
    have hXt : X ⊆ t.pts := by
      rw [htp]; intro x hx
      exact Finset.mem_erase.mpr ⟨fun e => hp.2 (e ▸ hx), hX hx⟩
    apply ih ht hXt
    rw [htp]
    have : s.pts.erase p \ X = (s.pts \ X).erase p := by
      ext x; simp only [Finset.mem_sdiff, Finset.mem_erase]; tauto
    rw [this, Finset.card_erase_of_mem (Finset.mem_sdiff.mpr hp), hd]; rfl

/-- a set of names is up-closed if it contains every simplex one of whose faces it contains -/
def UpClosed (c : Cx α) (D : α → Prop) : Prop :=
  ∀ t ∈ c.simps, ∀ f ∈ t.faces, D f → D t.name

/-- removing an up-closed set of simplices preserves the invariant
(deleteSimplex, restrictBasisTo, the deletion inside barycentricSubdivide and k_void) -/
theorem Inv.filter_upclosed {c : Cx α} (h : Inv c) (D : α → Prop) [DecidablePred D]
    (hD : UpClosed c D) :
    Inv { c with simps := c.simps.filter (fun s => ¬ D s.name) } := by
  have hmem : ∀ x, x ∈ c.simps.filter (fun s => ¬ D s.name) ↔ x ∈ c.simps ∧ ¬ D x.name := by
    intro x; simp [List.mem_filter]
  refine ⟨h.sorted.sublist List.filter_sublist, ?_, ?_, ?_, ?_⟩
  · exact (h.nodup.sublist (List.Sublist.map _ List.filter_sublist))
  · intro s hs h0; exact h.point s ((hmem s).mp hs).1 h0
  · intro s hs hpos
    obtain ⟨hs1, hs2⟩ := (hmem s).mp hs
    obtain ⟨a, b, c1, d, e, f⟩ := h.higher s hs1 hpos
    have hsurv : ∀ g ∈ s.faces, ∀ t ∈ c.simps, t.name = g → t ∈ c.simps.filter (fun s => ¬ D s.name) := by
      intro g hg t ht hn
      refine (hmem t).mpr ⟨ht, ?_⟩
      intro hDt
      exact hs2 (hD s hs1 g hg (hn ▸ hDt))
    refine ⟨a, b, ?_, d, e, ?_⟩
    · intro g hg
      obtain ⟨t, ht, h1, h2⟩ := c1 g hg
      exact ⟨t, hsurv g hg t ht h1, h1, h2⟩
    · intro p; rw [f p]
      constructor
      · rintro ⟨g, hg, t, ht, h1, h2⟩; exact ⟨g, hg, t, hsurv g hg t ht h1, h1, h2⟩
      · rintro ⟨g, hg, t, ht, h1, h2⟩; exact ⟨g, hg, t, ((hmem t).mp ht).1, h1, h2⟩
  · intro s hs t ht ho hb
    exact h.uniq s ((hmem s).mp hs).1 t ((hmem t).mp ht).1 ho hb

/-- the star of a point set is up-closed: the shape of `deleteSimplex` -/
theorem star_upclosed {c : Cx α} (h : Inv c) (X : Finset α) :
    UpClosed c (fun n => ∃ t ∈ c.simps, t.name = n ∧ X ⊆ t.pts) := by
  intro t ht f hf ⟨u, hu, hn, hX⟩
  refine ⟨t, ht, rfl, ?_⟩
  have hk : 0 < t.order := by
    rcases Nat.eq_zero_or_pos t.order with h0 | hp
    · rw [(h.point t ht h0).1] at hf; simp at hf
    · exact hp
  have := (h.faces_are_facets ht hu hk).mp (hn ▸ hf)
  exact hX.trans this.2

/-- the complement of a vertex set is up-closed: the shape of `restrictBasisTo` -/
theorem outside_upclosed {c : Cx α} (h : Inv c) (B : Finset α) :
    UpClosed c (fun n => ∃ t ∈ c.simps, t.name = n ∧ ¬ t.pts ⊆ B) := by
  intro t ht f hf ⟨u, hu, hn, hX⟩
  refine ⟨t, ht, rfl, ?_⟩
  have hk : 0 < t.order := by
    rcases Nat.eq_zero_or_pos t.order with h0 | hp
    · rw [(h.point t ht h0).1] at hf; simp at hf
    · exact hp
  have := (h.faces_are_facets ht hu hk).mp (hn ▸ hf)
  exact fun hsub => hX (this.2.trans hsub)

#print axioms Inv.subset_simplex
#print axioms Inv.filter_upclosed
end Flat
