import Sx.Model

import Mathlib.Tactic.SplitIfs
import Mathlib.Data.List.Basic
namespace M2

/-- well-formed: the entry lists have the recorded shape -/
def Mat.WF (B : Mat) : Prop := ∃ f, B = mk B.m B.n f

theorem get_mk {m n : Nat} {f : Nat → Nat → Bool} {i j : Nat} (hi : i < m) (hj : j < n) :
    (mk m n f).get i j = f i j := by
  simp [mk, Mat.get, List.getD_eq_getElem?_getD, hi, hj]

theorem get_mk_oob {m n : Nat} {f : Nat → Nat → Bool} {i j : Nat} (h : ¬ (i < m ∧ j < n)) :
    (mk m n f).get i j = false := by
  simp only [mk, Mat.get, List.getD_eq_getElem?_getD]
  by_cases hi : i < m
  · have hj : ¬ j < n := fun hj => h ⟨hi, hj⟩
    simp [hi, hj]
  · simp [hi]

@[simp] theorem mk_m (m n f) : (mk m n f).m = m := rfl
@[simp] theorem mk_n (m n f) : (mk m n f).n = n := rfl

theorem swapN_lt {a b i m : Nat} (ha : a < m) (hb : b < m) (hi : i < m) : swapN a b i < m := by
  unfold swapN; split_ifs <;> assumption

/-- `Diag B x`: the leading `x × x` block is the identity and the rest of the first `x` rows and
columns is zero. -/
def Diag (B : Mat) (x : Nat) : Prop :=
  ∀ i j, i < B.m → j < B.n → (i < x ∨ j < x) → B.get i j = decide (i = j)

theorem findPivot_some {B : Mat} {x k l : Nat} (h : findPivot B x = some (k, l)) :
    x ≤ k ∧ k < B.m ∧ x ≤ l ∧ l < B.n ∧ B.get k l = true := by
  unfold findPivot at h
  obtain ⟨k', hk', hk''⟩ := List.exists_of_findSome?_eq_some h
  rw [List.mem_filter, List.mem_range] at hk'
  obtain ⟨l', hl', heq⟩ := Option.map_eq_some_iff.mp hk''
  have h1 := List.mem_of_find?_eq_some hl'
  have h2 := List.find?_some hl'
  rw [List.mem_filter, List.mem_range] at h1
  simp only [Prod.mk.injEq] at heq
  obtain ⟨rfl, rfl⟩ := heq
  exact ⟨by simpa using hk'.2, hk'.1, by simpa using h1.2, h1.1, h2⟩

theorem findPivot_none {B : Mat} {x : Nat} (h : findPivot B x = none) :
    ∀ i j, x ≤ i → i < B.m → x ≤ j → j < B.n → B.get i j = false := by
  intro i j hxi hi hxj hj
  unfold findPivot at h
  rw [List.findSome?_eq_none_iff] at h
  have := h i (by rw [List.mem_filter, List.mem_range]; exact ⟨hi, by simpa using hxi⟩)
  rw [Option.map_eq_none_iff, List.find?_eq_none] at this
  have := this j (by rw [List.mem_filter, List.mem_range]; exact ⟨hj, by simpa using hxj⟩)
  simpa using this

theorem step_shape (B : Mat) (x k l : Nat) : (step B x k l).m = B.m ∧ (step B x k l).n = B.n := by
  simp [step]

/-- one elimination step extends the diagonal block by one -/
theorem step_diag {B : Mat} {x k l : Nat} (hD : Diag B x)
    (hk : x ≤ k) (hkm : k < B.m) (hl : x ≤ l) (hln : l < B.n) (hp : B.get k l = true) :
    Diag (step B x k l) (x + 1) := by
  have hxm : x < B.m := by omega
  have hxn : x < B.n := by omega
  intro i j hi hj hij
  simp only [step, mk_m, mk_n] at hi hj
  -- name the intermediate matrices by their entry formulas
  have g1 : ∀ i j, i < B.m → j < B.n →
      (mk B.m B.n (fun i j => B.get (swapN x k i) j)).get i j = B.get (swapN x k i) j :=
    fun i j hi hj => get_mk hi hj
  set B1 := mk B.m B.n (fun i j => B.get (swapN x k i) j) with hB1
  have g2 : ∀ i j, i < B.m → j < B.n →
      (mk B.m B.n (fun i j => B1.get i (swapN x l j))).get i j = B.get (swapN x k i) (swapN x l j) := by
    intro i j hi hj
    rw [get_mk hi hj, g1 i _ hi (swapN_lt hxn hln hj)]
  set B2 := mk B.m B.n (fun i j => B1.get i (swapN x l j)) with hB2
  -- facts about B2
  have b2_xx : B2.get x x = true := by
    rw [g2 x x hxm hxn]; simpa [swapN] using hp
  have b2_old : ∀ i j, i < B.m → j < B.n → (i < x ∨ j < x) → B2.get i j = decide (i = j) := by
    intro i j hi hj hij
    rw [g2 i j hi hj]
    rcases hij with h | h
    · -- row i < x untouched by the row swap; column swap only permutes columns ≥ x where row i is 0
      have hsi : swapN x k i = i := by unfold swapN; split_ifs <;> omega
      rw [hsi, hD i _ hi (swapN_lt hxn hln hj) (Or.inl h)]
      unfold swapN; split_ifs <;> simp <;> omega
    · have hsj : swapN x l j = j := by unfold swapN; split_ifs <;> omega
      rw [hsj, hD _ j (swapN_lt hxm hkm hi) hj (Or.inr h)]
      unfold swapN; split_ifs <;> simp <;> omega
  have g3 : ∀ i j, i < B.m → j < B.n →
      (mk B.m B.n (fun i j => if x < i && B2.get i x then (B2.get i j != B2.get x j) else B2.get i j)).get i j
        = if x < i && B2.get i x then (B2.get i j != B2.get x j) else B2.get i j :=
    fun i j hi hj => get_mk hi hj
  set B3 := mk B.m B.n (fun i j => if x < i && B2.get i x then (B2.get i j != B2.get x j) else B2.get i j) with hB3
  have b3_rowx : ∀ j, j < B.n → B3.get x j = B2.get x j := by
    intro j hj; rw [g3 x j hxm hj]; simp
  have b3_colx : ∀ i, i < B.m → B3.get i x = decide (i = x) := by
    intro i hi
    rw [g3 i x hi hxn]
    by_cases hxi : x < i
    · by_cases hb : B2.get i x = true
      · simp [hxi, hb, b2_xx]; omega
      · simp [hxi, hb]; omega
    · rcases Nat.lt_or_ge i x with h | h
      · simp [hxi, b2_old i x hi hxn (Or.inl h)]
      · have : i = x := by omega
        subst this; simp [b2_xx]
  have b3_old : ∀ i j, i < B.m → j < B.n → (i < x ∨ j < x) → B3.get i j = decide (i = j) := by
    intro i j hi hj hij
    rw [g3 i j hi hj]
    by_cases hc : (x < i && B2.get i x) = true
    · rw [if_pos hc]
      simp only [Bool.and_eq_true, decide_eq_true_eq] at hc
      rcases hij with h | h
      · omega
      · rw [b2_old i j hi hj (Or.inr h), b2_old x j hxm hj (Or.inr h)]
        have h1 : i ≠ j := by omega
        have h2 : x ≠ j := by omega
        simp [h1, h2]
    · rw [if_neg hc]; exact b2_old i j hi hj hij
  have hstep : step B x k l = mk B.m B.n (fun i j =>
      if x < j && B3.get x j then (B3.get i j != B3.get i x) else B3.get i j) := rfl
  rw [hstep, get_mk hi hj]
  -- final column pass
  by_cases hc : (x < j && B3.get x j) = true
  · rw [if_pos hc]
    simp only [Bool.and_eq_true, decide_eq_true_eq] at hc
    rw [b3_colx i hi]
    rcases hij with h | h
    · rcases Nat.lt_or_ge i x with h' | h'
      · rw [b3_old i j hi hj (Or.inl h')]
        have h1 : i ≠ j := by omega
        have h2 : i ≠ x := by omega
        simp [h1, h2]
      · have : i = x := by omega
        subst this
        rw [hc.2]; simp; omega
    · omega
  · rw [if_neg hc]
    rcases Nat.lt_or_ge j x with hjx | hjx
    · exact b3_old i j hi hj (Or.inr hjx)
    · rcases Nat.lt_or_ge i x with hix | hix
      · exact b3_old i j hi hj (Or.inl hix)
      · -- i ≤ x and j ≤ x with one of them = x
        rcases Nat.eq_or_lt_of_le hjx with hjx' | hjx'
        · subst hjx'; exact b3_colx i hi
        · have hi' : i = x := by omega
          subst hi'
          have : B3.get i j = false := by
            by_contra hne
            apply hc
            have : B3.get i j = true := by simpa using hne
            simp [hjx', this]
          rw [this]; simp; omega

/-- **SNF shape**: the reduction ends in a partial identity of the same shape -/
theorem reduce_snf (B : Mat) (x fuel : Nat) (hD : Diag B x) (hf : min B.m B.n ≤ x + fuel) :
    ∃ r, r ≤ min B.m B.n ∧ (reduce B x fuel).m = B.m ∧ (reduce B x fuel).n = B.n ∧
      ∀ i j, i < B.m → j < B.n → (reduce B x fuel).get i j = decide (i = j ∧ i < r) := by
  induction fuel generalizing B x with
  | zero =>
    refine ⟨min B.m B.n, Nat.le_refl _, rfl, rfl, ?_⟩
    intro i j hi hj
    simp only [reduce]
    have hx : min B.m B.n ≤ x := by simpa using hf
    rw [hD i j hi hj (by omega)]
    by_cases hij : i = j
    · subst hij; simp; omega
    · simp [hij]
  | succ fuel ih =>
    simp only [reduce]
    split_ifs with hx
    · refine ⟨min B.m B.n, Nat.le_refl _, rfl, rfl, ?_⟩
      intro i j hi hj
      rw [hD i j hi hj (by omega)]
      by_cases hij : i = j
      · subst hij; simp; omega
      · simp [hij]
    · cases hp : findPivot B x with
      | none =>
        simp only
        refine ⟨x, by omega, by first | rfl | trivial, by first | rfl | trivial, ?_⟩
        intro i j hi hj
        by_cases hlow : i < x ∨ j < x
        · rw [hD i j hi hj hlow]
          by_cases hij : i = j
          · subst hij; simp; omega
          · simp [hij]
        · rw [findPivot_none hp i j (by omega) hi (by omega) hj]
          simp; omega
      | some kl =>
        obtain ⟨k, l⟩ := kl
        simp only
        obtain ⟨hk, hkm, hl, hln, hpv⟩ := findPivot_some hp
        have hs := step_shape B x k l
        obtain ⟨r, hr, hm', hn', hall⟩ := ih (step B x k l) (x + 1) (step_diag hD hk hkm hl hln hpv)
          (by rw [hs.1, hs.2]; omega)
        refine ⟨r, by rw [hs.1, hs.2] at hr; exact hr, by rw [hm', hs.1], by rw [hn', hs.2], ?_⟩
        intro i j hi hj
        exact hall i j (by rw [hs.1]; exact hi) (by rw [hs.2]; exact hj)

theorem snf_shape (B : Mat) : ∃ r, r ≤ min B.m B.n ∧ (snf B).m = B.m ∧ (snf B).n = B.n ∧
    ∀ i j, i < B.m → j < B.n → (snf B).get i j = decide (i = j ∧ i < r) :=
  reduce_snf B 0 _ (by intro i j _ _ h; omega) (by omega)

#print axioms snf_shape
end M2
