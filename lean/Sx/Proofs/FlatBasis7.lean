import Sx.Model
import Sx.Proofs.FlatBasis6

/-! spike (C02) part 6: the facet loop and the main effect theorem of `_addSimplexWithBasis` -/
namespace Flat

/-- what one recursive call delivers on a basis `q` below the top -/
def CallPost (id : Name) (q : List Name) (c : C) (r : R Name) : Prop :=
  ∃ f c', r = (.ok f, c') ∧ Ext (fun X => X ⊆ q.toFinset) c c' ∧ Names c' f q ∧ c'.contains id = false

theorem Names.mono {c c' : C} {f : Name} {q : List Name} (h : Names c f q) (hs : c.simps.Sublist c'.simps) :
    Names c' f q := by
  obtain ⟨t, ht, h1, h2⟩ := h; exact ⟨t, hs.subset ht, h1, h2⟩

theorem forall2_mono {c c' : C} {fs : List Name} {qs : List (List Name)}
    (h : List.Forall₂ (Names c) fs qs) (hs : c.simps.Sublist c'.simps) : List.Forall₂ (Names c') fs qs :=
  h.imp (fun _ _ hn => hn.mono hs)

/-- the loop over the facets -/
theorem facetLoop_spec (id : Name) (rec : C → List Name → R Name) (p : List Name) :
    ∀ (qs done : List (List Name)) (c1 : C) (acc : List Name),
      (∀ q ∈ qs, ∀ c2, Inv c2 → PtsIn c2 p → c2.contains id = false → CallPost id q c2 (rec c2 q)) →
      (∀ q ∈ qs, q.Sublist p) →
      Inv c1 → PtsIn c1 p → c1.contains id = false →
      List.Forall₂ (Names c1) acc done →
      (done ++ qs).Pairwise (fun a b => a.toFinset ≠ b.toFinset) →
      ∃ acc' cN, facetLoop rec c1 acc qs = (.ok acc', cN) ∧
        Ext (fun X => ∃ q ∈ qs, X ⊆ q.toFinset) c1 cN ∧ cN.contains id = false ∧
        List.Forall₂ (Names cN) acc' (done ++ qs) := by
  intro qs
  induction qs with
  | nil =>
    intro done c1 acc _ _ hI _ hfr hacc _
    refine ⟨acc, c1, rfl, Ext.refl hI, hfr, by simpa using hacc⟩
  | cons q qs ih =>
    intro done c1 acc hrec hsubl hI hpts hfr hacc hpw
    obtain ⟨f, c2, hr, hext, hnm, hfr2⟩ := hrec q List.mem_cons_self c1 hI hpts hfr
    simp only [facetLoop, hr]
    -- f is not yet in acc
    have hnot : acc.contains f = false := by
      rw [Bool.eq_false_iff]
      intro hcon
      rw [List.contains_iff_mem] at hcon
      obtain ⟨d, hd, t', ht', hn', hp'⟩ := forall2_left hacc f hcon
      obtain ⟨t, ht, hn, hp⟩ := hnm
      have : t' = t := hext.inv.name_inj (hext.sub.subset ht') ht (hn'.trans hn.symm)
      subst this
      rw [List.pairwise_append] at hpw
      exact hpw.2.2 d hd q List.mem_cons_self (hp'.symm.trans hp)
    rw [hnot]
    simp only [Bool.false_eq_true, if_false]
    have hacc2 : List.Forall₂ (Names c2) (acc ++ [f]) (done ++ [q]) :=
      List.rel_append (forall2_mono hacc hext.sub) (List.Forall₂.cons hnm List.Forall₂.nil)
    obtain ⟨acc', cN, hloop, hextN, hfrN, haccN⟩ := ih (done ++ [q]) c2 (acc ++ [f])
      (fun q' hq' => hrec q' (List.mem_cons_of_mem _ hq'))
      (fun q' hq' => hsubl q' (List.mem_cons_of_mem _ hq'))
      hext.inv (hpts.mono hext.sub) hfr2 hacc2 (by simpa using hpw)
    refine ⟨acc', cN, hloop, ?_, hfrN, by simpa using haccN⟩
    refine Ext.trans (hext.mono (fun X hX => ⟨q, List.mem_cons_self, hX⟩)) hextN ?_
    rintro X ⟨q', hq', hX⟩
    exact ⟨q', List.mem_cons_of_mem _ hq', hX⟩

/-- **effect of `_addSimplexWithBasis`** on a basis `p` of points of `c` (|p| ≤ fuel):
the call succeeds; the result extends `c` only by simplices inside `p`; it is a valid complex;
it returns the name of the simplex on `p`; the requested `id` is used exactly for the top simplex
(`|p| - 1 = k`) and stays unused otherwise. -/
theorem addWB_spec (id : Name) (k : Nat) :
    ∀ (fuel : Nat) (c : C) (p : List Name), Inv c → p.Nodup → p ≠ [] → p.length ≤ fuel → PtsIn c p →
      c.contains id = false → p.length - 1 ≤ k →
      (p.length - 1 = k → ¬ ∃ t ∈ c.simps, t.pts = p.toFinset) →
      ∃ n c', addWB id k fuel c p = (.ok n, c') ∧ Ext (fun X => X ⊆ p.toFinset) c c' ∧ Names c' n p ∧
        (p.length - 1 < k → c'.contains id = false) ∧ (p.length - 1 = k → n = id) := by
  intro fuel
  induction fuel with
  | zero =>
    intro c p _ _ hne hlen
    have : p.length = 0 := by omega
    exact absurd (List.length_eq_zero_iff.mp this) hne
  | succ fuel ih =>
    intro c p hI hnd hne hlen hpts hfr hk htop
    obtain ⟨hsome, hnone⟩ := simplexWithBasis_spec hI hnd hne hpts
    unfold addWB
    cases hswb : simplexWithBasis c p with
    | some s =>
      simp only
      obtain ⟨t, ht, hn, hp⟩ := hsome s hswb
      refine ⟨s, c, rfl, Ext.refl hI, ⟨t, ht, hn, hp⟩, fun _ => hfr, ?_⟩
      intro hkk
      exact absurd ⟨t, ht, hp⟩ (htop hkk)
    | none =>
      simp only
      have hno := hnone hswb
      -- at least two points (a single point is always found)
      have h2 : 2 ≤ p.length := by
        match p, hne, hpts, hno with
        | [x], _, hpts, hno =>
          exfalso
          obtain ⟨t, ht, hn, h0⟩ := hpts x List.mem_cons_self
          exact hno ⟨t, ht, by rw [point_pts hI ht h0, hn]; simp⟩
        | _ :: _ :: _, _, _, _ => simp
      -- the loop
      have hrec : ∀ q ∈ dropOne p, ∀ c2, Inv c2 → PtsIn c2 p → c2.contains id = false →
          CallPost id q c2 (addWB id k fuel c2 q) := by
        intro q hq c2 hI2 hpts2 hfr2
        obtain ⟨hsub, hql⟩ := dropOne_mem hq
        have hqne : q ≠ [] := by intro e; rw [e] at hql; simp at hql; omega
        obtain ⟨n, c', hr, hext, hnm, hfr', -⟩ := ih c2 q hI2 (hnd.sublist hsub) hqne (by omega)
          (hpts2.sublist hsub) hfr2 (by omega) (fun e => by omega)
        exact ⟨n, c', hr, hext, hnm, hfr' (by omega)⟩
      obtain ⟨fs, cN, hloop, hextN, hfrN, hfsN⟩ := facetLoop_spec id (addWB id k fuel) p (dropOne p) [] c []
        hrec (fun q hq => (dropOne_mem hq).1) hI hpts hfr List.Forall₂.nil (by simpa using dropOne_pairwise hnd)
      simp only [List.nil_append] at hfsN
      rw [hloop]
      simp only
      -- still no simplex on p itself
      have hnoN : ¬ ∃ t ∈ cN.simps, t.pts = p.toFinset := by
        rintro ⟨t, ht, htp⟩
        rcases hextN.new t ht with h | ⟨q, hq, hX⟩
        · exact hno ⟨t, h, htp⟩
        · have hc := Finset.card_le_card hX
          obtain ⟨hsub, hql⟩ := dropOne_mem hq
          rw [htp, List.toFinset_card_of_nodup hnd, List.toFinset_card_of_nodup (hnd.sublist hsub)] at hc
          omega
      have hPmono : ∀ X, (∃ q ∈ dropOne p, X ⊆ q.toFinset) → X ⊆ p.toFinset := by
        rintro X ⟨q, hq, hX⟩
        exact hX.trans (fun x hx => by
          rw [List.mem_toFinset] at hx ⊢; exact (dropOne_mem hq).1.subset hx)
      split_ifs with hkk
      · -- the top simplex, named id
        obtain ⟨c'', hadd, hI'', hsub'', hnm'', hnew'', hcont'', -⟩ := finalAdd hextN.inv hnd h2 hfsN hfrN hnoN
        unfold addS
        simp only [hadd]
        refine ⟨id, c'', rfl, ?_, hnm'', fun h => by omega, fun _ => rfl⟩
        refine Ext.trans (hextN.mono hPmono) ⟨hI'', hsub'', ?_⟩ (fun X hX => hX)
        intro t ht
        rcases hnew'' t ht with h | h
        · exact Or.inl h
        · exact Or.inr (by rw [h])
      · -- a face with a generated name avoiding id
        have hndN := hextN.inv.nodup
        obtain ⟨a1, a2, a3⟩ := newSimplexAvoid_spec hndN (fs.length - 1) id
        obtain ⟨c'', hadd, hI'', hsub'', hnm'', hnew'', hcont'', -⟩ := finalAdd hextN.inv hnd h2 hfsN a1 hnoN
        unfold addFace
        simp only [hadd]
        refine ⟨_, _, rfl, ?_, ?_, ?_, fun h => by omega⟩
        · refine Ext.trans (hextN.mono hPmono) ⟨inv_of_simps_eq (c := c'') rfl hI'', hsub'', ?_⟩ (fun X hX => hX)
          intro t ht
          rcases hnew'' t ht with h | h
          · exact Or.inl h
          · exact Or.inr (by rw [h])
        · exact hnm''
        · intro _
          have hc : Cx.contains { c'' with seq := (newSimplexAvoid cN (fs.length - 1) id).2.seq } id =
              c''.contains id := contains_of_simps_eq (c := c'') rfl id
          rw [hc, ← Bool.not_eq_true, hcont'' id]
          push Not
          exact ⟨fun e => a2 e.symm, by simpa using hfrN⟩

#print axioms addWB_spec
end Flat
