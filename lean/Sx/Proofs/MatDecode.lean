import Sx.Model
import Sx.Proofs.MatProofs

/-! spike (C03): decoding matrix columns to name lists (the abstraction function of the Layer-R
refinement) commutes with the matrix edits `addSimplex` and `forceDeleteSimplex` perform. -/
namespace M2

variable {ν : Type}

theorem decodeCol_congr (names : List ν) (B B' : Mat) (c c' : Nat)
    (h : ∀ r, r < names.length → B'.get r c' = B.get r c) : decodeCol names B' c' = decodeCol names B c := by
  unfold decodeCol
  apply List.filterMap_congr
  intro r hr
  rw [List.mem_range] at hr
  rw [h r hr]

/-- appending a column leaves the decoding of the old columns alone -/
theorem decode_appendCol_old (names : List ν) (B : Mat) (col : Nat → Bool) (hm : names.length = B.m)
    {c : Nat} (hc : c < B.n) : decodeCol names (appendCol B col) c = decodeCol names B c := by
  apply decodeCol_congr
  intro r hr
  unfold appendCol
  rw [get_mk (by omega) (by omega)]; simp [hc]

/-- the new column decodes to the rows marked in `col` -/
theorem decode_appendCol_new (names : List ν) (B : Mat) (col : Nat → Bool) (hm : names.length = B.m) :
    decodeCol names (appendCol B col) B.n =
      (List.range names.length).filterMap (fun r => if col r then names[r]? else none) := by
  unfold decodeCol
  apply List.filterMap_congr
  intro r hr
  rw [List.mem_range] at hr
  unfold appendCol
  rw [get_mk (by omega) (by omega)]; simp

/-- a new zero row (a new simplex one order down) does not show up in any decoded column -/
theorem decode_appendZeroRow (names : List ν) (new : ν) (B : Mat) (hm : names.length = B.m)
    {c : Nat} (hc : c < B.n) :
    decodeCol (names ++ [new]) (appendZeroRow B) c = decodeCol names B c := by
  unfold decodeCol
  rw [List.length_append, List.length_singleton, List.range_succ, List.filterMap_append]
  have hlast : (appendZeroRow B).get names.length c = false := by
    unfold appendZeroRow
    rw [get_mk (by omega) hc]; simp [hm]
  simp only [List.filterMap_cons, List.filterMap_nil, hlast, Bool.false_eq_true, if_false, List.append_nil]
  apply List.filterMap_congr
  intro r hr
  rw [List.mem_range] at hr
  unfold appendZeroRow
  rw [get_mk (by omega) hc]
  have : r < B.m := by omega
  simp only [this, if_true]
  rw [List.getElem?_append_left hr]

/-- deleting a column shifts the later columns down by one and leaves their decoding alone -/
theorem decode_deleteCol (names : List ν) (B : Mat) (i : Nat) (hm : names.length = B.m)
    {c : Nat} (hc : c < B.n - 1) :
    decodeCol names (deleteCol B i) c = decodeCol names B (if c < i then c else c + 1) := by
  apply decodeCol_congr
  intro r hr
  unfold deleteCol
  rw [get_mk (by omega) hc]

#print axioms decode_appendZeroRow
end M2

namespace M2
variable {ν : Type}

theorem range_map_skip (n i : Nat) (hi : i < n) :
    (List.range (n - 1)).map (skip i) = (List.range n).filter (fun r => r != i) := by
  induction n with
  | zero => omega
  | succ n ih =>
    by_cases hin : i < n
    · -- i < n : peel the last element n
      have hn1 : n + 1 - 1 = (n - 1) + 1 := by omega
      rw [hn1, List.range_succ, List.map_append, ih hin, List.range_succ (n := n), List.filter_append]
      have h1 : skip i (n - 1) = n := by unfold skip; rw [if_neg (by omega)]; omega
      have h2 : (n != i) = true := by simp; omega
      simp [h1, h2]
    · -- i = n : nothing is shifted, the last element is dropped
      have : i = n := by omega
      subst this
      rw [List.range_succ, List.filter_append]
      have h1 : ∀ r ∈ List.range i, skip i r = r := by
        intro r hr; rw [List.mem_range] at hr; unfold skip; rw [if_pos hr]
      have h2 : (List.range i).filter (fun r => r != i) = List.range i := by
        rw [List.filter_eq_self]; intro r hr; rw [List.mem_range] at hr; simp; omega
      simp only [Nat.add_sub_cancel, h2]
      rw [List.map_congr_left h1, List.map_id']
      simp

/-- **deleting row `i`** (a simplex one order down, or a point for the basis matrices) removes exactly
that simplex from every decoded column and leaves the rest, in order — the edit whose omission for the
higher basis matrices was the bug recorded in HISTORY. -/
theorem decode_deleteRow (names : List ν) (B : Mat) (i : Nat) (hm : names.length = B.m) (hi : i < B.m)
    {c : Nat} (hc : c < B.n) :
    decodeCol (names.eraseIdx i) (deleteRow B i) c =
      ((List.range names.length).filter (fun r => r != i)).filterMap
        (fun r => if B.get r c then names[r]? else none) := by
  unfold decodeCol
  rw [List.length_eraseIdx, if_pos (by omega), ← range_map_skip names.length i (by omega), List.filterMap_map]
  apply List.filterMap_congr
  intro r hr
  rw [List.mem_range] at hr
  simp only [Function.comp]
  unfold deleteRow
  rw [get_mk (by omega) hc]
  have : (names.eraseIdx i)[r]? = names[skip i r]? := by
    rw [List.getElem?_eraseIdx]; unfold skip; split <;> rfl
  rw [this]; rfl

#print axioms decode_deleteRow
end M2
