import Sx.Model
import Sx.Proofs.Compose

/-! spike (C16): the failure direction — if the operands are not compatible, `compose` raises. Together with
`compose_union` this is `compose succeeds ↔ Compatible`. -/
namespace Flat
open Finset

theorem composeLoop_ok_compat {a b : C} (hIa : Inv a) (hIb : Inv b) :
    ∀ (R : List (Simp Name)) (d d' : C), (∀ s ∈ R, s ∈ b.simps) → composeLoop a d R = .ok d' →
      (∀ s ∈ R, ∀ t ∈ a.simps, t.name = s.name → t.pts = s.pts) ∧
      (∀ s ∈ R, ∀ t ∈ a.simps, t.pts = s.pts → t.name = s.name) := by
  classical
  intro R
  induction R with
  | nil => intro d d' _ _; simp
  | cons s R ih =>
    intro d d' hR hok
    have hsb := hR s List.mem_cons_self
    have hR' : ∀ x ∈ R, x ∈ b.simps := fun x hx => hR x (List.mem_cons_of_mem _ hx)
    have hbasis := hIb.basis_card hsb
    have hbne : s.basis ≠ [] := by intro e; rw [e] at hbasis; simp at hbasis
    unfold composeLoop at hok
    simp only at hok
    -- facts about this element, then recurse
    have key : (∀ t ∈ a.simps, t.name = s.name → t.pts = s.pts) ∧ (∀ t ∈ a.simps, t.pts = s.pts → t.name = s.name) ∧
        ∃ d1, composeLoop a d1 R = .ok d' := by
      by_cases hin : a.contains s.name = true
      · rw [if_pos hin] at hok
        cases hq : simplexWithBasis a s.basis with
        | none => rw [hq] at hok; cases hok
        | some n =>
          rw [hq] at hok
          simp only at hok
          by_cases hn : n = s.name
          · rw [if_pos hn] at hok
            obtain ⟨t, ht, htn, htp⟩ := simplexWithBasis_sound hIa hbasis.1 hbne hq
            have htp' : t.pts = s.pts := htp
            refine ⟨?_, ?_, d, hok⟩
            · intro t' ht' hn'
              have : t' = t := hIa.name_inj ht' ht (hn'.trans (hn ▸ htn).symm)
              rw [this]; exact htp'
            · intro t' ht' hp'
              have : t' = t := by
                apply hIa.uniq t' ht' t ht
                · have e1 := hIa.pts_card ht'; have e2 := hIa.pts_card ht
                  rw [hp'] at e1; rw [htp'] at e2; omega
                · intro p
                  have := Finset.ext_iff.mp (hp'.trans htp'.symm) p
                  simpa [Simp.pts] using this
              rw [this, htn, hn]
          · rw [if_neg hn] at hok; cases hok
      · rw [if_neg hin] at hok
        cases hq : simplexWithBasis a s.basis with
        | some n => rw [hq] at hok; cases hok
        | none =>
          rw [hq] at hok
          simp only at hok
          cases hadd : d.addSimplex s.faces s.name with
          | error e => rw [hadd] at hok; cases hok
          | ok d1 =>
            rw [hadd] at hok
            refine ⟨?_, ?_, d1, hok⟩
            · intro t ht hn
              exact absurd (contains_iff.mpr ⟨t, ht, hn⟩) hin
            · intro t ht hp
              -- then simplexWithBasis would have found t
              exfalso
              have hptsA : PtsIn a s.basis := by
                intro p hp'
                have : p ∈ t.basis := by
                  have h1 : p ∈ s.pts := by rw [Simp.pts, List.mem_toFinset]; exact hp'
                  rw [← hp, Simp.pts, List.mem_toFinset] at h1; exact h1
                exact hIa.basis_pts_points ht p this
              exact (simplexWithBasis_spec hIa hbasis.1 hbne hptsA).2 hq ⟨t, ht, hp⟩
    obtain ⟨k1, k2, d1, hd1⟩ := key
    obtain ⟨i1, i2⟩ := ih d1 d' hR' hd1
    constructor
    · intro x hx
      rcases List.mem_cons.mp hx with rfl | hx
      · exact k1
      · exact i1 x hx
    · intro x hx
      rcases List.mem_cons.mp hx with rfl | hx
      · exact k2
      · exact i2 x hx

/-- **C16**: `compose` succeeds exactly on compatible operands -/
theorem compose_ok_iff {a b : C} (hIa : Inv a) (hIb : Inv b) :
    (∃ d, compose a b = .ok d) ↔ Compatible a b := by
  constructor
  · rintro ⟨d, hd⟩
    obtain ⟨h1, h2⟩ := composeLoop_ok_compat hIa hIb b.simps a d (fun s hs => hs) hd
    exact ⟨h1, h2⟩
  · intro hc
    obtain ⟨d, hd, -⟩ := compose_union hIa hIb hc
    exact ⟨d, hd⟩

#print axioms compose_ok_iff
end Flat
