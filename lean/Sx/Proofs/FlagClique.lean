import Sx.Model
import Sx.Proofs.FlagGrow

/-! spike (C11) part 10: a valid complex that is complete at every order ≥ 2 is the clique complex of its own
edges — so `flagComplex` and add-edges-then-`growFlagComplex` produce the same family. -/
namespace Flat
open Finset

theorem complete_is_clique {c : C} (hI : Inv c) (hcomp : ∀ j, 2 ≤ j → CompleteAt c j)
    (X : Finset Name) (hX : 2 ≤ X.card) :
    (∃ s ∈ c.simps, s.pts = X) ↔ ∀ a ∈ X, ∀ b ∈ X, a ≠ b → ∃ e ∈ c.simps, e.pts = {a, b} := by
  classical
  constructor
  · rintro ⟨s, hs, hsp⟩ a ha b hb hab
    have hsub2 : ({a, b} : Finset Name) ⊆ s.pts := by
      rw [hsp]; intro x hx
      simp only [Finset.mem_insert, Finset.mem_singleton] at hx
      rcases hx with rfl | rfl <;> assumption
    exact hI.subset_simplex hs hsub2 ⟨a, by simp⟩
  · intro hcl
    suffices H : ∀ (n : Nat) (X : Finset Name), X.card = n + 2 →
        (∀ a ∈ X, ∀ b ∈ X, a ≠ b → ∃ e ∈ c.simps, e.pts = {a, b}) → ∃ s ∈ c.simps, s.pts = X by
      exact H (X.card - 2) X (by omega) hcl
    intro n
    induction n with
    | zero =>
      intro X hX hcl
      obtain ⟨a, b, hab, rfl⟩ := Finset.card_eq_two.mp hX
      exact hcl a (by simp) b (by simp) hab
    | succ n ih =>
      intro X hX hcl
      apply hcomp (n + 2) (by omega) X (by omega)
      intro Y hY
      rw [Finset.mem_powersetCard] at hY
      exact ih Y hY.2 (fun a ha b hb hab => hcl a (hY.1 ha) b (hY.1 hb) hab)

/-- two valid complexes, both complete at every order ≥ 2, with the same points and edges have the same
family of vertex sets — "growing equals rebuilding" -/
theorem same_graph_same_family {c1 c2 : C} (h1 : Inv c1) (h2 : Inv c2)
    (k1 : ∀ j, 2 ≤ j → CompleteAt c1 j) (k2 : ∀ j, 2 ≤ j → CompleteAt c2 j)
    (hlow : ∀ X : Finset Name, X.card ≤ 2 → ((∃ s ∈ c1.simps, s.pts = X) ↔ (∃ s ∈ c2.simps, s.pts = X)))
    (X : Finset Name) : (∃ s ∈ c1.simps, s.pts = X) ↔ (∃ s ∈ c2.simps, s.pts = X) := by
  by_cases hX : X.card ≤ 2
  · exact hlow X hX
  · rw [complete_is_clique h1 k1 X (by omega), complete_is_clique h2 k2 X (by omega)]
    constructor
    · intro h a ha b hb hab
      exact (hlow {a, b} (by rw [Finset.card_pair hab])).mp (h a ha b hb hab)
    · intro h a ha b hb hab
      exact (hlow {a, b} (by rw [Finset.card_pair hab])).mpr (h a ha b hb hab)

#print axioms same_graph_same_family
end Flat
