import Sx.Model
import Sx.Proofs.FlagAdd
import Sx.Proofs.FlatDelete

/-! spike (C16): `compose` on the structural part (attributes live in the heap layer):
for compatible operands it succeeds and yields the name-respecting union. -/
namespace Flat
open Finset

/-- the hypothesis of C16 -/
structure Compatible (a b : C) : Prop where
  name_pts : ∀ s ∈ b.simps, ∀ t ∈ a.simps, t.name = s.name → t.pts = s.pts
  pts_name : ∀ s ∈ b.simps, ∀ t ∈ a.simps, t.pts = s.pts → t.name = s.name

/-- `simplexWithBasis` only ever returns a simplex with exactly that basis (no hypothesis on the basis) -/
theorem simplexWithBasis_sound {c : C} (hI : Inv c) {b : List Name} (hb : b.Nodup) (hne : b ≠ []) {n : Name}
    (h : simplexWithBasis c b = some n) : ∃ t ∈ c.simps, t.name = n ∧ t.pts = b.toFinset := by
  have hguard : (b.all (fun x => c.orderOf? x == some 0)) = true := by
    by_contra hg
    unfold simplexWithBasis at h
    rw [if_pos (by simpa using hg)] at h
    cases h
  have hpts : PtsIn c b := by
    intro p hp
    rw [List.all_eq_true] at hguard
    have := hguard p hp
    simp only [beq_iff_eq] at this
    unfold Cx.orderOf? at this
    obtain ⟨t, ht, hto⟩ := Option.map_eq_some_iff.mp this
    obtain ⟨htm, htn⟩ := lookup_some ht
    exact ⟨t, htm, htn, hto⟩
  exact (simplexWithBasis_spec hI hb hne hpts).1 n h

/-- what `d` looks like after some of `b`'s simplices have been processed -/
structure CInv (a b d : C) (P : List (Simp Name)) : Prop where
  inv : Inv d
  sub : a.simps.Sublist d.simps
  src : ∀ t ∈ d.simps, t ∈ a.simps ∨ ∃ s ∈ P, s.name = t.name ∧ t.pts = s.pts ∧ t.order = s.order
  done : ∀ s ∈ P, ∃ t ∈ d.simps, t.name = s.name ∧ t.pts = s.pts

theorem Inv.basis_pts_points {c : C} (hI : Inv c) {t : Simp Name} (ht : t ∈ c.simps) : PtsIn c t.basis := by
  intro p hp
  obtain ⟨q, hq, hqn, hq0, -⟩ := hI.basis_point t.order ht rfl p hp
  exact ⟨q, hq, hqn, hq0⟩

theorem composeLoop_spec {a b : C} (hIa : Inv a) (hIb : Inv b) (hc : Compatible a b) :
    ∀ (R P : List (Simp Name)) (d : C), b.simps = P ++ R → CInv a b d P →
      ∃ d', composeLoop a d R = .ok d' ∧ CInv a b d' b.simps := by
  classical
  intro R
  induction R with
  | nil =>
    intro P d hPR hC
    simp only [List.append_nil] at hPR
    exact ⟨d, rfl, hPR ▸ hC⟩
  | cons s R ih =>
    intro P d hPR hC
    have hsb : s ∈ b.simps := by rw [hPR]; simp
    have hbnd : b.simps.Nodup := List.Nodup.of_map _ hIb.nodup
    have hsP : s ∉ P := by
      rw [hPR] at hbnd
      intro hin
      have := (List.nodup_append.mp hbnd).2.2 s hin s List.mem_cons_self
      exact this rfl
    have hPb : ∀ u ∈ P, u ∈ b.simps := fun u hu => by rw [hPR]; exact List.mem_append_left _ hu
    have hbasis := hIb.basis_card hsb
    have hbne : s.basis ≠ [] := by intro e; rw [e] at hbasis; simp at hbasis
    have hPR' : b.simps = (P ++ [s]) ++ R := by rw [hPR]; simp
    unfold composeLoop
    simp only
    by_cases hin : a.contains s.name = true
    · -- the name exists in a: same basis, so merged
      rw [if_pos hin]
      obtain ⟨t, ht, htn⟩ := contains_iff.mp hin
      have htp : t.pts = s.pts := hc.name_pts s hsb t ht htn
      have hptsA : PtsIn a s.basis := by
        intro p hp
        have : p ∈ t.basis := by
          have h1 : p ∈ s.pts := by rw [Simp.pts, List.mem_toFinset]; exact hp
          rw [← htp, Simp.pts, List.mem_toFinset] at h1; exact h1
        exact hIa.basis_pts_points ht p this
      obtain ⟨hsome, hnone⟩ := simplexWithBasis_spec hIa hbasis.1 hbne hptsA
      cases hq : simplexWithBasis a s.basis with
      | none => exact absurd ⟨t, ht, htp⟩ (hnone hq)
      | some n =>
        simp only
        obtain ⟨t', ht', hn', hp'⟩ := hsome n hq
        have : t' = t := by
          apply hIa.uniq t' ht' t ht
          · have h1 := hIa.pts_card ht'; have h2 := hIa.pts_card ht
            rw [hp'] at h1; rw [htp] at h2
            have : s.basis.toFinset = s.pts := rfl
            rw [this] at h1; omega
          · intro p
            have := Finset.ext_iff.mp (hp'.trans htp.symm) p
            simpa [Simp.pts] using this
        subst this
        rw [if_pos (hn'.symm.trans htn)]
        apply ih (P ++ [s]) d hPR'
        refine ⟨hC.inv, hC.sub, ?_, ?_⟩
        · intro u hu
          rcases hC.src u hu with h | ⟨s', hs', h1, h2, h3⟩
          · exact Or.inl h
          · exact Or.inr ⟨s', List.mem_append_left _ hs', h1, h2, h3⟩
        · intro s' hs'
          rcases List.mem_append.mp hs' with h | h
          · exact hC.done s' h
          · rw [List.mem_singleton] at h; subst h
            exact ⟨t', hC.sub.subset ht', htn, htp⟩
    · -- a new name: must be a new basis too, and gets added
      rw [if_neg hin]
      have hin' : a.contains s.name = false := by simpa using hin
      cases hq : simplexWithBasis a s.basis with
      | some n =>
        exfalso
        obtain ⟨t, ht, -, htp⟩ := simplexWithBasis_sound hIa hbasis.1 hbne hq
        have := hc.pts_name s hsb t ht htp
        exact hin (contains_iff.mpr ⟨t, ht, this⟩)
      | none =>
        simp only
        -- the name is fresh in d
        have hfresh : d.contains s.name = false := by
          rw [contains_false_iff]
          intro u hu hun
          rcases hC.src u hu with h | ⟨s', hs', h1, -, -⟩
          · exact hin (contains_iff.mpr ⟨u, h, hun⟩)
          · have : s' = s := hIb.name_inj (hPb s' hs') hsb (h1.trans hun)
            exact hsP (this ▸ hs')
        -- no simplex of d has the point set of s
        have hnoPts : ¬ ∃ u ∈ d.simps, u.pts = s.pts := by
          rintro ⟨u, hu, hup⟩
          rcases hC.src u hu with h | ⟨s', hs', h1, h2, h3⟩
          · have := hc.pts_name s hsb u h hup
            exact hin (contains_iff.mpr ⟨u, h, this⟩)
          · have : s' = s := by
              apply hIb.uniq s' (hPb s' hs') s hsb
              · have e1 := hIb.pts_card (hPb s' hs'); have e2 := hIb.pts_card hsb
                rw [← h2, hup] at e1; omega
              · intro p
                have := Finset.ext_iff.mp (h2.symm.trans hup) p
                simpa [Simp.pts] using this
            exact hsP (this ▸ hs')
        rcases Nat.eq_zero_or_pos s.order with h0 | hpos
        · -- a point
          obtain ⟨hf0, hb0⟩ := hIb.point s hsb h0
          have hadd : d.addSimplex s.faces s.name = .ok { d with simps :=
              (insertSorted ⟨s.name, 0, [], [s.name]⟩ d.simps) } := by
            rw [hf0]
            unfold Cx.addSimplex
            simp only [List.length_nil, List.isEmpty_nil, if_true]
            rw [if_neg (by omega), if_neg (by simp [hfresh]), if_neg (by simp)]
            have : ¬ ((0 - 1 : Nat) : Int) > d.maxOrder + 1 := by
              have : (-1 : Int) ≤ d.maxOrder := by
                unfold Cx.maxOrder; cases d.simps.getLast? <;> simp
              simp; omega
            rw [if_neg this]
          rw [hadd]
          simp only
          apply ih (P ++ [s]) _ hPR'
          have hInew := addSimplex_ok_inv hC.inv (Or.inl hf0) hadd
          have hmem : ∀ x, x ∈ insertSorted (⟨s.name, 0, [], [s.name]⟩ : Simp Name) d.simps ↔
              x = ⟨s.name, 0, [], [s.name]⟩ ∨ x ∈ d.simps := fun x => mem_insertSorted
          refine ⟨hInew, hC.sub.trans (sublist_insertSorted _ _), ?_, ?_⟩
          · intro u hu
            rcases (hmem u).mp hu with rfl | hu
            · exact Or.inr ⟨s, by simp, rfl, by simp [Simp.pts, hb0], h0.symm⟩
            · rcases hC.src u hu with h | ⟨s', hs', h1, h2, h3⟩
              · exact Or.inl h
              · exact Or.inr ⟨s', List.mem_append_left _ hs', h1, h2, h3⟩
          · intro s' hs'
            rcases List.mem_append.mp hs' with h | h
            · obtain ⟨t, ht, h1, h2⟩ := hC.done s' h
              exact ⟨t, (hmem t).mpr (Or.inr ht), h1, h2⟩
            · rw [List.mem_singleton] at h; subst h
              exact ⟨_, (hmem _).mpr (Or.inl rfl), rfl, by simp [Simp.pts, hb0]⟩
        · -- a higher simplex: all its faces have already been carried over
          obtain ⟨fn, fl, fex, bn, bl, biff⟩ := hIb.higher s hsb hpos
          -- each face of s is an earlier simplex of b, hence has a twin in d
          have hsorted := hIb.sorted
          rw [hPR, List.pairwise_append] at hsorted
          have hfaceTwin : ∀ f ∈ s.faces, ∃ u ∈ b.simps, u.name = f ∧ u.order + 1 = s.order ∧
              ∃ t ∈ d.simps, t.name = f ∧ t.pts = u.pts ∧ t.order = u.order := by
            intro f hf
            obtain ⟨u, hu, hun, huo⟩ := fex f hf
            refine ⟨u, hu, hun, huo, ?_⟩
            have huP : u ∈ P := by
              rw [hPR] at hu
              rcases List.mem_append.mp hu with h | h
              · exact h
              · exfalso
                rcases List.mem_cons.mp h with rfl | h'
                · omega
                · have := (List.pairwise_cons.mp hsorted.2.1).1 u h'
                  omega
            obtain ⟨t, ht, h1, h2⟩ := hC.done u huP
            refine ⟨t, ht, h1.trans hun, h2, ?_⟩
            have e1 := hC.inv.pts_card ht; have e2 := hIb.pts_card hu
            rw [h2] at e1; omega
          obtain ⟨c'', fs', bs, hadd, hI'', hsimps'', -, hbs, -⟩ := addFacets (cN := d) (fs := s.faces) (nm := s.name)
            (k := s.order) (B := s.pts) hC.inv hpos fn fl
            (by
              intro f hf
              obtain ⟨u, hu, hun, huo, t, ht, htn, htp, hto⟩ := hfaceTwin f hf
              refine ⟨t, ht, htn, by omega, ?_⟩
              rw [htp]
              exact ((hIb.faces_are_facets hsb hu hpos).mp (hun ▸ hf)).2)
            (by
              intro x hx
              rw [Simp.pts, List.mem_toFinset] at hx
              obtain ⟨f, hf, u, hu, hun, hxu⟩ := (biff x).mp hx
              obtain ⟨u', hu', hun', -, t, ht, htn, htp, -⟩ := hfaceTwin f hf
              have : u' = u := hIb.name_inj hu' hu (hun'.trans hun.symm)
              subst this
              exact ⟨f, hf, t, ht, htn, by rw [htp, Simp.pts, List.mem_toFinset]; exact hxu⟩)
            (hIb.pts_card hsb) hfresh
            (by
              intro t ht
              by_contra hcon
              have heq : setEqB t.faces s.faces = true := by simpa using hcon
              unfold Cx.ofOrder at ht
              rw [List.mem_filter] at ht
              obtain ⟨ht1, ht2⟩ := ht
              have hto : t.order = s.order := by simpa using ht2
              apply hnoPts
              refine ⟨t, ht1, ?_⟩
              symm
              apply Finset.eq_of_subset_of_card_le
              · intro x hx
                rw [Simp.pts, List.mem_toFinset] at hx
                obtain ⟨f, hf, u, hu, hun, hxu⟩ := (biff x).mp hx
                obtain ⟨u', hu', hun', -, t', ht', htn', htp', -⟩ := hfaceTwin f hf
                have : u' = u := hIb.name_inj hu' hu (hun'.trans hun.symm)
                subst this
                have hft : f ∈ t.faces := by
                  have := Finset.ext_iff.mp (setEqB_iff.mp heq) f
                  simp only [List.mem_toFinset] at this
                  exact this.mpr hf
                have := (hC.inv.faces_are_facets ht1 ht' (by omega)).mp (htn' ▸ hft)
                apply this.2
                rw [htp', Simp.pts, List.mem_toFinset]; exact hxu
              · rw [hC.inv.pts_card ht1, hIb.pts_card hsb, hto])
          rw [hadd]
          simp only
          apply ih (P ++ [s]) _ hPR'
          have hmem : ∀ x, x ∈ c''.simps ↔ x = ⟨s.name, s.order, fs', bs⟩ ∨ x ∈ d.simps := by
            intro x; rw [hsimps'']; exact mem_insertSorted
          refine ⟨hI'', ?_, ?_, ?_⟩
          · rw [hsimps'']; exact hC.sub.trans (sublist_insertSorted _ _)
          · intro u hu
            rcases (hmem u).mp hu with rfl | hu
            · exact Or.inr ⟨s, by simp, rfl, by rw [Simp.pts]; exact hbs, rfl⟩
            · rcases hC.src u hu with h | ⟨s', hs', h1, h2, h3⟩
              · exact Or.inl h
              · exact Or.inr ⟨s', List.mem_append_left _ hs', h1, h2, h3⟩
          · intro s' hs'
            rcases List.mem_append.mp hs' with h | h
            · obtain ⟨t, ht, h1, h2⟩ := hC.done s' h
              exact ⟨t, (hmem t).mpr (Or.inr ht), h1, h2⟩
            · rw [List.mem_singleton] at h; subst h
              exact ⟨_, (hmem _).mpr (Or.inl rfl), rfl, by rw [Simp.pts]; exact hbs⟩

/-- **C16 (success direction)**: for compatible operands `compose` succeeds; the result is a valid complex that
contains the receiver unchanged, contains (a twin of) every simplex of the argument under its own name with
its own point set, and contains nothing else. -/
theorem compose_union {a b : C} (hIa : Inv a) (hIb : Inv b) (hc : Compatible a b) :
    ∃ d, compose a b = .ok d ∧ Inv d ∧ a.simps.Sublist d.simps ∧
      (∀ t ∈ d.simps, t ∈ a.simps ∨ ∃ s ∈ b.simps, s.name = t.name ∧ t.pts = s.pts ∧ t.order = s.order) ∧
      (∀ s ∈ b.simps, ∃ t ∈ d.simps, t.name = s.name ∧ t.pts = s.pts) := by
  obtain ⟨d, hd, hC⟩ := composeLoop_spec hIa hIb hc b.simps [] a (by simp)
    ⟨hIa, List.Sublist.refl _, fun t ht => Or.inl ht, by simp⟩
  exact ⟨d, hd, hC.inv, hC.sub, hC.src, hC.done⟩

#print axioms compose_union
end Flat
