import Sx.Model
import Sx.Proofs.FlatClosed

namespace Flat
set_option linter.unusedSectionVars false
variable {α : Type} [DecidableEq α]

theorem facesOf_of_mem {c : Cx α} (hI : Inv c) {t : Simp α} (ht : t ∈ c.simps) :
    c.facesOf t.name = t.faces := by
  unfold Cx.facesOf; rw [lookup_of_mem hI ht]; rfl

/-- a level is *exact* for order `j` below `s` if it lists precisely the order-`j` simplices inside `s` -/
def ExactLevel (c : Cx α) (s : Simp α) (j : Nat) (lvl : List α) : Prop :=
  ∀ n, n ∈ lvl ↔ ∃ t ∈ c.simps, t.name = n ∧ t.order = j ∧ t.pts ⊆ s.pts

/-- one step down of the closure walk keeps levels exact -/
theorem exact_step {c : Cx α} (hI : Inv c) {s : Simp α} (hs : s ∈ c.simps) {j : Nat} {lvl : List α}
    (hj : j + 1 ≤ s.order) (hl : ExactLevel c s (j + 1) lvl) :
    ExactLevel c s j (dedupL (lvl.flatMap c.facesOf)) := by
  classical
  intro n
  rw [mem_dedupL, List.mem_flatMap]
  constructor
  · rintro ⟨m, hm, hn⟩
    obtain ⟨t, ht, rfl, hto, htp⟩ := (hl m).mp hm
    rw [facesOf_of_mem hI ht] at hn
    obtain ⟨_, _, hfex, -⟩ := hI.higher t ht (by omega)
    obtain ⟨u, hu, hun, huo⟩ := hfex n hn
    have := (hI.faces_are_facets ht hu (by omega)).mp (hun ▸ hn)
    exact ⟨u, hu, hun, by omega, this.2.trans htp⟩
  · rintro ⟨u, hu, rfl, huo, hup⟩
    -- enlarge u by one point of s
    have hcu := hI.pts_card hu
    have hcs := hI.pts_card hs
    have hlt : u.pts.card < s.pts.card := by omega
    obtain ⟨p, hps, hpu⟩ : ∃ p, p ∈ s.pts ∧ p ∉ u.pts := by
      by_contra hcon
      push_neg at hcon
      have : s.pts ⊆ u.pts := fun x hx => hcon x hx
      have := Finset.card_le_card this
      omega
    have hXs : insert p u.pts ⊆ s.pts := Finset.insert_subset hps hup
    obtain ⟨t, ht, htp⟩ := hI.subset_simplex hs hXs (Finset.insert_nonempty _ _)
    have hto : t.order = j + 1 := by
      have := hI.pts_card ht
      rw [htp, Finset.card_insert_of_notMem hpu, hcu] at this
      omega
    refine ⟨t.name, (hl t.name).mpr ⟨t, ht, rfl, hto, htp ▸ hXs⟩, ?_⟩
    rw [facesOf_of_mem hI ht]
    apply (hI.faces_are_facets ht hu (by omega)).mpr
    exact ⟨by omega, by rw [htp]; exact Finset.subset_insert _ _⟩

theorem closureLevels_length (c : Cx α) (lvl : List α) (k : Nat) :
    (closureLevels c lvl k).length = k + 1 := by
  induction k generalizing lvl with
  | zero => simp [closureLevels]
  | succ k ih => simp [closureLevels, ih]

/-- every level produced by the walk is exact -/
theorem closureLevels_exact {c : Cx α} (hI : Inv c) {s : Simp α} (hs : s ∈ c.simps) :
    ∀ (k : Nat) (lvl : List α), k ≤ s.order → ExactLevel c s k lvl →
      ∀ i (hi : i < (closureLevels c lvl k).length),
        ExactLevel c s (k - i) ((closureLevels c lvl k)[i]) := by
  intro k
  induction k with
  | zero =>
    intro lvl _ hl i hi
    simp only [closureLevels, List.length_singleton] at hi
    have : i = 0 := by omega
    subst this
    simpa [closureLevels] using hl
  | succ k ih =>
    intro lvl hk hl i hi
    have hnext := exact_step hI hs hk hl
    cases i with
    | zero => simpa [closureLevels] using hl
    | succ i =>
      have hi' : i < (closureLevels c (dedupL (lvl.flatMap c.facesOf)) k).length := by
        rw [closureLevels_length] at hi ⊢; omega
      have h2 := ih _ (by omega) hnext i hi'
      have : k + 1 - (i + 1) = k - i := by omega
      rw [this]
      simpa [closureLevels] using h2

/-- **closureOf is exact** (C04): the names returned are precisely the simplices whose point set is a
non-empty subset of `s`'s (self excluded on request). -/
theorem closureOf_spec {c : Cx α} (hI : Inv c) {s : Simp α} (hs : s ∈ c.simps) (rev ex : Bool) :
    ∃ l, closureOf c s.name rev ex = some l ∧
      ∀ n, n ∈ l ↔ ∃ t ∈ c.simps, t.name = n ∧ t.pts ⊆ s.pts ∧ (ex = true → t.order < s.order) := by
  have hord : c.orderOf? s.name = some s.order := by
    unfold Cx.orderOf?; rw [lookup_of_mem hI hs]; rfl
  have htop : ExactLevel c s s.order [s.name] := by
    intro n
    simp only [List.mem_singleton]
    constructor
    · rintro rfl; exact ⟨s, hs, rfl, rfl, Finset.Subset.refl _⟩
    · rintro ⟨t, ht, rfl, hto, htp⟩
      have : t = s := by
        apply hI.uniq t ht s hs hto
        have hc : t.pts = s.pts := by
          apply Finset.eq_of_subset_of_card_le htp
          rw [hI.pts_card ht, hI.pts_card hs, hto]
        intro p
        have := Finset.ext_iff.mp hc p
        simpa [Simp.pts] using this
      rw [this]
  have hex := closureLevels_exact hI hs s.order [s.name] (Nat.le_refl _) htop
  have hlen : (closureLevels c [s.name] s.order).length = s.order + 1 := closureLevels_length _ _ _
  -- membership in any flattening of the kept levels
  have key : ∀ n, (∃ i, (ex = true → 0 < i) ∧ ∃ hi : i < (closureLevels c [s.name] s.order).length,
        n ∈ (closureLevels c [s.name] s.order)[i]) ↔
      ∃ t ∈ c.simps, t.name = n ∧ t.pts ⊆ s.pts ∧ (ex = true → t.order < s.order) := by
    intro n
    constructor
    · rintro ⟨i, hi0, hi, hn⟩
      obtain ⟨t, ht, h1, h2, h3⟩ := ((hex i hi) n).mp hn
      exact ⟨t, ht, h1, h3, fun he => by have := hi0 he; omega⟩
    · rintro ⟨t, ht, h1, h3, h4⟩
      have hto : t.order ≤ s.order := by
        have := Finset.card_le_card h3
        rw [hI.pts_card ht, hI.pts_card hs] at this; omega
      refine ⟨s.order - t.order, fun he => by have := h4 he; omega, by omega, ?_⟩
      apply ((hex (s.order - t.order) (by omega)) n).mpr
      exact ⟨t, ht, h1, by omega, h3⟩
  unfold closureOf
  rw [hord]
  simp only
  refine ⟨_, rfl, ?_⟩
  intro n
  rw [← key n]
  set L := closureLevels c [s.name] s.order with hL
  have hmemflat : ∀ (M : List (List α)), n ∈ M.flatten ↔ ∃ i, ∃ hi : i < M.length, n ∈ M[i] := by
    intro M
    rw [List.mem_flatten]
    constructor
    · rintro ⟨l, hl, hn⟩
      obtain ⟨i, hi, rfl⟩ := List.getElem_of_mem hl
      exact ⟨i, hi, hn⟩
    · rintro ⟨i, hi, hn⟩; exact ⟨_, List.getElem_mem hi, hn⟩
  have hrev : ∀ (M : List (List α)), n ∈ M.reverse.flatten ↔ n ∈ M.flatten := by
    intro M; simp [List.mem_flatten]
  cases ex <;> cases rev <;> simp only [Bool.false_eq_true, if_false, if_true, hrev, hmemflat] <;>
    simp only [Bool.false_eq_true, false_implies, true_and, forall_const, true_implies]
  · -- ex = true, rev = false : tail
    constructor
    · rintro ⟨i, hi, hn⟩
      rw [List.length_tail] at hi
      refine ⟨i + 1, by omega, by omega, ?_⟩
      simpa [List.getElem_tail] using hn
    · rintro ⟨i, hpos, hi, hn⟩
      refine ⟨i - 1, by rw [List.length_tail]; omega, ?_⟩
      have : i - 1 + 1 = i := by omega
      simp only [List.getElem_tail, this]; exact hn
  · constructor
    · rintro ⟨i, hi, hn⟩
      rw [List.length_tail] at hi
      refine ⟨i + 1, by omega, by omega, ?_⟩
      simpa [List.getElem_tail] using hn
    · rintro ⟨i, hpos, hi, hn⟩
      refine ⟨i - 1, by rw [List.length_tail]; omega, ?_⟩
      have : i - 1 + 1 = i := by omega
      simp only [List.getElem_tail, this]; exact hn

#print axioms closureOf_spec
end Flat
