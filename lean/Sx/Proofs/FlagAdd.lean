import Sx.Model
import Sx.Proofs.FlagCombos
import Sx.Proofs.FlatCanon

/-! spike (C11) part 4: adding the simplex whose facets are given by name (general form), and
the specification of `simplexWithFaces` -/
namespace Flat

theorem simplexWithFaces_some {c : C} {fs : List Name} {n : Name} (h : simplexWithFaces c fs = some n) :
    ∃ s ∈ c.simps, s.name = n ∧ s.order = fs.length - 1 ∧ setEqB s.faces fs = true := by
  unfold simplexWithFaces at h
  obtain ⟨s, hs, rfl⟩ := Option.map_eq_some_iff.mp h
  have := List.mem_of_getLast? hs
  rw [List.mem_filter] at this
  obtain ⟨h1, h2⟩ := this
  unfold Cx.ofOrder at h1
  rw [List.mem_filter] at h1
  exact ⟨s, h1.1, rfl, by simpa using h1.2, h2⟩

theorem simplexWithFaces_none {c : C} {fs : List Name} (h : simplexWithFaces c fs = none) :
    ∀ s ∈ c.ofOrder (fs.length - 1), setEqB s.faces fs = false := by
  unfold simplexWithFaces at h
  rw [Option.map_eq_none_iff, List.getLast?_eq_none_iff, List.filter_eq_nil_iff] at h
  intro s hs
  simpa using h s hs

/-- general form of "add the simplex on `B` given the names of its facets" -/
theorem addFacets {cN : C} {fs : List Name} {nm : Name} {k : Nat} {B : Finset Name} (hI : Inv cN) (hk : 1 ≤ k)
    (hnd : fs.Nodup) (hlen : fs.length = k + 1)
    (hface : ∀ f ∈ fs, ∃ t ∈ cN.simps, t.name = f ∧ t.order = k - 1 ∧ t.pts ⊆ B)
    (hcover : ∀ x ∈ B, ∃ f ∈ fs, ∃ t ∈ cN.simps, t.name = f ∧ x ∈ t.pts)
    (hB : B.card = k + 1)
    (hfresh : cN.contains nm = false)
    (hnodup : ∀ s ∈ cN.ofOrder k, setEqB s.faces fs = false) :
    ∃ c'' fs' bs, cN.addSimplex fs nm = .ok c'' ∧ Inv c'' ∧
      c''.simps = insertSorted ⟨nm, k, fs', bs⟩ cN.simps ∧ fs'.toFinset = fs.toFinset ∧ bs.toFinset = B ∧
      c''.seq = cN.seq := by
  classical
  have hbasisOf : ∀ t ∈ cN.simps, cN.basisOf t.name = t.basis := by
    intro t ht; unfold Cx.basisOf; rw [lookup_of_mem hI ht]; rfl
  have hunion : (dedupL (fs.flatMap cN.basisOf)).toFinset = B := by
    ext x
    simp only [List.mem_toFinset, mem_dedupL, List.mem_flatMap]
    constructor
    · rintro ⟨f, hf, hx⟩
      obtain ⟨t, ht, hn, -, hsub⟩ := hface f hf
      rw [← hn, hbasisOf t ht] at hx
      exact hsub (by rw [Simp.pts, List.mem_toFinset]; exact hx)
    · intro hx
      obtain ⟨f, hf, t, ht, hn, hxt⟩ := hcover x hx
      refine ⟨f, hf, ?_⟩
      rw [← hn, hbasisOf t ht]
      rw [Simp.pts, List.mem_toFinset] at hxt; exact hxt
  have hcontract : InContract cN fs := by
    right
    have h1 : (dedupL (fs.flatMap cN.basisOf)).length = (dedupL (fs.flatMap cN.basisOf)).toFinset.card :=
      (List.toFinset_card_of_nodup (nodup_dedupL _)).symm
    rw [h1, hunion, hB, hlen]
  have hk' : fs.length - 1 = k := by omega
  have hsucc := addSimplex_succeeds (c := cN) (fs := fs) (id := nm) (by omega) hfresh hnd
    (by
      obtain ⟨f, hf⟩ : ∃ f, f ∈ fs := List.exists_mem_of_length_pos (by omega)
      obtain ⟨t, ht, hn, ho, -⟩ := hface f hf
      have := maxOrder_ge hI ht
      rw [hk']; omega)
    (by intro h; rw [h] at hlen; simp at hlen)
    (by
      intro f hf
      obtain ⟨t, ht, hn, -⟩ := hface f hf
      exact contains_iff.mpr ⟨t, ht, hn⟩)
    (by
      intro f hf
      obtain ⟨t, ht, hn, ho, -⟩ := hface f hf
      rw [← hn, orderOf_of_mem hI ht, ho, hk'])
    (by rw [hk']; exact hnodup)
  rw [hk'] at hsucc
  have hfaceN : ∀ f ∈ fs, ∃ t ∈ cN.simps, t.name = f := fun f hf => by
    obtain ⟨t, ht, hn, -⟩ := hface f hf; exact ⟨t, ht, hn⟩
  refine ⟨_, canonFaces cN k fs, canonBasis cN fs, hsucc, addSimplex_ok_inv hI hcontract hsucc, rfl, ?_, ?_, rfl⟩
  · exact canonFaces_toFinset (fun f hf => by
      obtain ⟨t, ht, hn, ho, -⟩ := hface f hf; exact ⟨t, ht, hn, ho⟩)
  · rw [canonBasis_toFinset hI hfaceN, hunion]

#print axioms addFacets
end Flat
