import Sx.Model
import Sx.Proofs.FlatBasis5
import Sx.Proofs.FlatCanon

/-! spike (C02) part 5: adding the simplex on `p` once all its facets exist -/
namespace Flat

def Names (c : C) (f : Name) (q : List Name) : Prop := ∃ t ∈ c.simps, t.name = f ∧ t.pts = q.toFinset

theorem forall2_left {α β} {R : α → β → Prop} {l1 : List α} {l2 : List β} (h : List.Forall₂ R l1 l2) :
    ∀ a ∈ l1, ∃ b ∈ l2, R a b := by
  induction h with
  | nil => simp
  | cons hab _ ih =>
    intro x hx
    rcases List.mem_cons.mp hx with rfl | hx
    · exact ⟨_, List.mem_cons_self, hab⟩
    · obtain ⟨b, hb, hr⟩ := ih x hx; exact ⟨b, List.mem_cons_of_mem _ hb, hr⟩

theorem forall2_right {α β} {R : α → β → Prop} {l1 : List α} {l2 : List β} (h : List.Forall₂ R l1 l2) :
    ∀ b ∈ l2, ∃ a ∈ l1, R a b := by
  induction h with
  | nil => simp
  | cons hab _ ih =>
    intro x hx
    rcases List.mem_cons.mp hx with rfl | hx
    · exact ⟨_, List.mem_cons_self, hab⟩
    · obtain ⟨a, ha, hr⟩ := ih x hx; exact ⟨a, List.mem_cons_of_mem _ ha, hr⟩

theorem names_nodup {c : C} (hI : Inv c) {fs : List Name} {qs : List (List Name)}
    (h : List.Forall₂ (Names c) fs qs) (hq : qs.Pairwise (fun p q => p.toFinset ≠ q.toFinset)) : fs.Nodup := by
  induction h with
  | nil => exact List.nodup_nil
  | cons hab hrest ih =>
    rename_i f q fs' qs'
    rw [List.pairwise_cons] at hq
    rw [List.nodup_cons]
    refine ⟨?_, ih hq.2⟩
    intro hf
    obtain ⟨q', hq', t', ht', hn', hp'⟩ := forall2_left hrest f hf
    obtain ⟨t, ht, hn, hp⟩ := hab
    have : t = t' := hI.name_inj ht ht' (hn.trans hn'.symm)
    subst this
    exact hq.1 q' hq' (hp.symm.trans hp')

theorem finalAdd {cN : C} {p fs : List Name} {nm : Name} (hI : Inv cN) (hp : p.Nodup) (h2 : 2 ≤ p.length)
    (hfs : List.Forall₂ (Names cN) fs (dropOne p))
    (hfresh : cN.contains nm = false)
    (hnone : ¬ ∃ t ∈ cN.simps, t.pts = p.toFinset) :
    ∃ c'', cN.addSimplex fs nm = .ok c'' ∧ Inv c'' ∧ cN.simps.Sublist c''.simps ∧
      (∃ t ∈ c''.simps, t.name = nm ∧ t.pts = p.toFinset) ∧
      (∀ t ∈ c''.simps, t ∈ cN.simps ∨ t.pts = p.toFinset) ∧
      (∀ n, c''.contains n = true ↔ (n = nm ∨ cN.contains n = true)) ∧ c''.seq = cN.seq := by
  classical
  have hlen : fs.length = p.length := by rw [hfs.length_eq, dropOne_length]
  have hnd : fs.Nodup := names_nodup hI hfs (dropOne_pairwise hp)
  -- data about each face
  have hface : ∀ f ∈ fs, ∃ q ∈ dropOne p, ∃ t ∈ cN.simps, t.name = f ∧ t.pts = q.toFinset ∧
      t.order = p.length - 2 := by
    intro f hf
    obtain ⟨q, hq, t, ht, hn, hpq⟩ := forall2_left hfs f hf
    refine ⟨q, hq, t, ht, hn, hpq, ?_⟩
    have hc := hI.pts_card ht
    obtain ⟨hsub, hql⟩ := dropOne_mem hq
    rw [hpq, List.toFinset_card_of_nodup (hp.sublist hsub)] at hc
    omega
  have hbasisOf : ∀ t ∈ cN.simps, cN.basisOf t.name = t.basis := by
    intro t ht; unfold Cx.basisOf; rw [lookup_of_mem hI ht]; rfl
  -- the union of the faces' bases is p (as a set)
  have hunion : (dedupL (fs.flatMap cN.basisOf)).toFinset = p.toFinset := by
    ext x
    simp only [List.mem_toFinset, mem_dedupL, List.mem_flatMap]
    constructor
    · rintro ⟨f, hf, hx⟩
      obtain ⟨q, hq, t, ht, hn, hpq, -⟩ := hface f hf
      rw [← hn, hbasisOf t ht] at hx
      have : x ∈ t.pts := by rw [Simp.pts, List.mem_toFinset]; exact hx
      rw [hpq, List.mem_toFinset] at this
      exact (dropOne_mem hq).1.subset this
    · intro hx
      obtain ⟨q, hq, hxq⟩ := facets_cover hp h2 hx
      obtain ⟨f, hf, t, ht, hn, hpq⟩ := forall2_right hfs q hq
      refine ⟨f, hf, ?_⟩
      rw [← hn, hbasisOf t ht]
      have : x ∈ t.pts := by rw [hpq, List.mem_toFinset]; exact hxq
      rw [Simp.pts, List.mem_toFinset] at this
      exact this
  have hunion' : (canonBasis cN fs).toFinset = p.toFinset := by
    rw [canonBasis_toFinset hI (fun f hf => by
      obtain ⟨q, hq, t, ht, hn, -⟩ := hface f hf; exact ⟨t, ht, hn⟩), hunion]
  have hcontract : InContract cN fs := by
    right
    have h1 : (dedupL (fs.flatMap cN.basisOf)).length = (dedupL (fs.flatMap cN.basisOf)).toFinset.card :=
      (List.toFinset_card_of_nodup (nodup_dedupL _)).symm
    rw [h1, hunion, List.toFinset_card_of_nodup hp, hlen]
  -- the guards
  have hsucc := addSimplex_succeeds (c := cN) (fs := fs) (id := nm) (by omega) hfresh hnd
    (by
      obtain ⟨f, hf⟩ : ∃ f, f ∈ fs := List.exists_mem_of_length_pos (by omega)
      obtain ⟨q, hq, t, ht, hn, hpq, ho⟩ := hface f hf
      have := maxOrder_ge hI ht
      rw [hlen]; omega)
    (by intro h; rw [h] at hlen; simp at hlen; omega)
    (by
      intro f hf
      obtain ⟨q, hq, t, ht, hn, -⟩ := hface f hf
      exact contains_iff.mpr ⟨t, ht, hn⟩)
    (by
      intro f hf
      obtain ⟨q, hq, t, ht, hn, hpq, ho⟩ := hface f hf
      rw [← hn, orderOf_of_mem hI ht, ho, hlen]
      congr 1)
    (by
      intro s hs
      by_contra hcon
      have heq : setEqB s.faces fs = true := by simpa using hcon
      unfold Cx.ofOrder at hs
      rw [List.mem_filter] at hs
      obtain ⟨hs1, hs2⟩ := hs
      have hso : s.order = fs.length - 1 := by simpa using hs2
      apply hnone
      refine ⟨s, hs1, ?_⟩
      -- p ⊆ pts s, and the cardinalities agree
      have hsub : p.toFinset ⊆ s.pts := by
        intro x hx
        rw [List.mem_toFinset] at hx
        obtain ⟨q, hq, hxq⟩ := facets_cover hp h2 hx
        obtain ⟨f, hf, t, ht, hn, hpq⟩ := forall2_right hfs q hq
        have hfs' : f ∈ s.faces := by
          have := Finset.ext_iff.mp (setEqB_iff.mp heq) f
          simp only [List.mem_toFinset] at this
          exact this.mpr hf
        have := (hI.faces_are_facets hs1 ht (by omega)).mp (hn ▸ hfs')
        apply this.2
        rw [hpq, List.mem_toFinset]; exact hxq
      symm
      apply Finset.eq_of_subset_of_card_le hsub
      rw [hI.pts_card hs1, List.toFinset_card_of_nodup hp, hso, hlen]; omega)
  refine ⟨_, hsucc, addSimplex_ok_inv hI hcontract hsucc, sublist_insertSorted _ _, ?_, ?_, ?_, rfl⟩
  · refine ⟨_, mem_insertSorted.mpr (Or.inl rfl), rfl, ?_⟩
    exact hunion'
  · intro t ht
    rcases mem_insertSorted.mp ht with rfl | h
    · exact Or.inr hunion'
    · exact Or.inl h
  · intro n
    rw [contains_iff, contains_iff]
    constructor
    · rintro ⟨t, ht, hn⟩
      rcases mem_insertSorted.mp ht with rfl | h
      · exact Or.inl hn.symm
      · exact Or.inr ⟨t, h, hn⟩
    · rintro (rfl | ⟨t, ht, hn⟩)
      · exact ⟨_, mem_insertSorted.mpr (Or.inl rfl), rfl⟩
      · exact ⟨t, mem_insertSorted.mpr (Or.inr ht), hn⟩

#print axioms finalAdd
end Flat
