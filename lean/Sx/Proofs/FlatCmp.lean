import Sx.Model
import Sx.Proofs.FlatAdd

/-! spike (C10): mirror of `isSubComplexOf` (after the repair of the range bound) and the derived
operators; exact characterisation and order laws -/
namespace Flat
set_option linter.unusedSectionVars false
variable {α : Type} [DecidableEq α]

/-- the specification in the property's words -/
def SubSpec (a b : Cx α) : Prop :=
  ∀ s ∈ a.simps, ∃ t ∈ b.simps, t.name = s.name ∧ t.order = s.order ∧ ∀ f, f ∈ s.faces ↔ f ∈ t.faces

theorem Inv.faces_len {c : Cx α} (h : Inv c) {s : Simp α} (hs : s ∈ c.simps) :
    s.faces.Nodup ∧ (s.order = 0 → s.faces = []) ∧ (0 < s.order → s.faces.length = s.order + 1) := by
  rcases Nat.eq_zero_or_pos s.order with h0 | hp
  · have := (h.point s hs h0).1
    exact ⟨by rw [this]; exact List.nodup_nil, fun _ => this, fun hh => by omega⟩
  · obtain ⟨a, b, -⟩ := h.higher s hs hp
    exact ⟨a, fun hh => by omega, fun _ => b⟩

theorem isSub_iff {a b : Cx α} (ha : Inv a) (hb : Inv b) : isSub a b = true ↔ SubSpec a b := by
  unfold isSub SubSpec
  rw [List.all_eq_true]
  constructor
  · intro h s hs
    have := h s hs
    cases hl : b.lookup s.name with
    | none => rw [hl] at this; simp at this
    | some t =>
      rw [hl] at this
      simp only [Bool.and_eq_true, beq_iff_eq] at this
      obtain ⟨hto, hsub⟩ := this
      obtain ⟨htm, htn⟩ := lookup_some hl
      refine ⟨t, htm, htn, hto, ?_⟩
      have hsub' : s.faces ⊆ t.faces := by
        intro f hf
        unfold subsetB at hsub
        rw [List.all_eq_true] at hsub
        simpa using hsub f hf
      obtain ⟨sn, s0, sl⟩ := ha.faces_len hs
      obtain ⟨tn, t0, tl⟩ := hb.faces_len htm
      rcases Nat.eq_zero_or_pos s.order with h0 | hp
      · rw [s0 h0, t0 (by omega)]; simp
      · have hperm : s.faces.Perm t.faces := by
          apply (List.subperm_of_subset sn hsub').perm_of_length_le
          rw [sl hp, tl (by omega)]; omega
        intro f; exact hperm.mem_iff
  · intro h s hs
    obtain ⟨t, ht, htn, hto, hf⟩ := h s hs
    rw [← htn, lookup_of_mem hb ht]
    simp only [Bool.and_eq_true, beq_iff_eq]
    refine ⟨hto, ?_⟩
    unfold subsetB
    rw [List.all_eq_true]
    intro f hf'
    simpa using (hf f).mp hf'

theorem subSpec_refl (a : Cx α) : SubSpec a a := fun s hs => ⟨s, hs, rfl, rfl, fun _ => Iff.rfl⟩

theorem subSpec_trans {a b c : Cx α} (h1 : SubSpec a b) (h2 : SubSpec b c) : SubSpec a c := by
  intro s hs
  obtain ⟨t, ht, htn, hto, htf⟩ := h1 s hs
  obtain ⟨u, hu, hun, huo, huf⟩ := h2 t ht
  exact ⟨u, hu, hun.trans htn, huo.trans hto, fun f => (htf f).trans (huf f)⟩

theorem le_refl' {a : Cx α} (ha : Inv a) : le a a = true := (isSub_iff ha ha).mpr (subSpec_refl a)

theorem le_trans' {a b c : Cx α} (ha : Inv a) (hb : Inv b) (hc : Inv c)
    (h1 : le a b = true) (h2 : le b c = true) : le a c = true :=
  (isSub_iff ha hc).mpr (subSpec_trans ((isSub_iff ha hb).mp h1) ((isSub_iff hb hc).mp h2))

/-- a sub-complex has at most as many simplices -/
theorem subSpec_length {a b : Cx α} (ha : Inv a) (h : SubSpec a b) : a.simps.length ≤ b.simps.length := by
  have hsub : a.simps.map (·.name) ⊆ b.simps.map (·.name) := by
    intro n hn
    obtain ⟨s, hs, rfl⟩ := List.mem_map.mp hn
    obtain ⟨t, ht, htn, -⟩ := h s hs
    exact List.mem_map.mpr ⟨t, ht, htn⟩
  have := (List.subperm_of_subset ha.nodup hsub).length_le
  simpa using this

/-- `≤` is antisymmetric up to `==` -/
theorem le_antisymm_eq {a b : Cx α} (ha : Inv a) (hb : Inv b)
    (h1 : le a b = true) (h2 : le b a = true) : eq a b = true := by
  unfold eq
  have l1 := subSpec_length ha ((isSub_iff ha hb).mp h1)
  have l2 := subSpec_length hb ((isSub_iff hb ha).mp h2)
  simp only [Bool.and_eq_true, decide_eq_true_eq]
  exact ⟨h1, by omega⟩

/-- `==` is exactly: mutual inclusion -/
theorem eq_iff {a b : Cx α} (ha : Inv a) (hb : Inv b) :
    eq a b = true ↔ (SubSpec a b ∧ a.simps.length = b.simps.length) := by
  unfold eq
  simp only [Bool.and_eq_true, decide_eq_true_eq]
  rw [isSub_iff ha hb]

theorem lt_iff {a b : Cx α} (ha : Inv a) (hb : Inv b) :
    lt a b = true ↔ (SubSpec a b ∧ a.simps.length < b.simps.length) := by
  unfold lt
  simp only [Bool.and_eq_true, decide_eq_true_eq]
  rw [isSub_iff ha hb]

#print axioms isSub_iff
#print axioms le_antisymm_eq
end Flat
