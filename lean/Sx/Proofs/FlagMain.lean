import Sx.Model
import Sx.Proofs.FlagLoop

/-! spike (C11) part 8: `flagComplex` is the clique complex of the 1-skeleton -/
namespace Flat
open Finset

theorem nssGet_seed (f : Nat → List Name) : ∀ (top j : Nat), 1 ≤ j → j ≤ top →
    nssGet ((List.range top).map (fun i => (i + 1, f (i + 1)))) j = some (f j) := by
  intro top
  induction top with
  | zero => intro j h1 h2; omega
  | succ top ih =>
    intro j h1 h2
    unfold nssGet at ih ⊢
    rw [List.range_succ, List.map_append, List.find?_append]
    by_cases hj : j ≤ top
    · have := ih j h1 hj
      cases hf : List.find? (fun x => x.1 == j) ((List.range top).map (fun i => (i + 1, f (i + 1)))) with
      | none => rw [hf] at this; simp at this
      | some p => rw [hf] at this; simpa using this
    · have hjt : j = top + 1 := by omega
      subst hjt
      have hnone : List.find? (fun x => x.1 == top + 1) ((List.range top).map (fun i => (i + 1, f (i + 1)))) = none := by
        rw [List.find?_eq_none]
        intro x hx
        obtain ⟨i, hi, rfl⟩ := List.mem_map.mp hx
        rw [List.mem_range] at hi
        simp; omega
      rw [hnone]
      simp

theorem foldl_max_keys (f : Nat → List Name) (top : Nat) :
    ((List.range top).map (fun i => (i + 1, f (i + 1)))).foldl (fun m p => max m p.1) 0 = top := by
  induction top with
  | zero => rfl
  | succ top ih =>
    rw [List.range_succ, List.map_append, List.foldl_append, ih]
    simp

theorem foldl_max_ge (l : List Nat) (a : Nat) : a ≤ l.foldl max a ∧ ∀ x ∈ l, x ≤ l.foldl max a := by
  induction l generalizing a with
  | nil => simp
  | cons y ys ih =>
    simp only [List.foldl_cons]
    obtain ⟨h1, h2⟩ := ih (max a y)
    refine ⟨by omega, ?_⟩
    intro x hx
    rcases List.mem_cons.mp hx with rfl | hx
    · omega
    · exact h2 x hx

/-- **C11 (from scratch)**: running the completion on a valid complex with every order ≥ 1 seeded yields a
valid complex that contains the input unchanged, has the same points and edges, and has a simplex on a set
of ≥ 2 points exactly when every two of them are joined by an edge of the input. -/
theorem flagComplex_spec (cin : C) (hI : Inv cin) :
    ∃ c', flagComplex cin = (.ok (), c') ∧ Inv c' ∧ cin.simps.Sublist c'.simps ∧
      (∀ t ∈ c'.simps, t ∈ cin.simps ∨ 2 ≤ t.order) ∧
      ∀ X : Finset Name, 2 ≤ X.card →
        ((∃ s ∈ c'.simps, s.pts = X) ↔
          ∀ a ∈ X, ∀ b ∈ X, a ≠ b → ∃ e ∈ cin.simps, e.pts = {a, b}) := by
  classical
  set top := (cin.simps.map (·.order)).foldl max 1 with htop
  set f : Nat → List Name := fun j => (cin.ofOrder j).map (·.name) with hf
  have htop1 : 1 ≤ top := (foldl_max_ge _ 1).1
  have hord : ∀ t ∈ cin.simps, t.order ≤ top := fun t ht =>
    (foldl_max_ge _ 1).2 t.order (List.mem_map.mpr ⟨t, ht, rfl⟩)
  have hnss : (List.range top).map (fun i => (i + 1, f (i + 1))) ≠ [] := by
    intro h
    have := congrArg List.length h
    simp at this; omega
  have htopM : top ≤ cin.simps.length + 1 := by
    -- top is 1 or the order of some simplex
    by_cases h : ∃ t ∈ cin.simps, top ≤ t.order
    · obtain ⟨t, ht, hle⟩ := h
      have h1 := order_lt_points hI ht
      have h2 : (cin.ofOrder 0).length ≤ cin.simps.length := List.length_filter_le _ _
      omega
    · push Not at h
      -- all orders < top, so the fold stays at 1
      have : ∀ (l : List Nat) (a : Nat), (∀ x ∈ l, x ≤ a) → l.foldl max a = a := by
        intro l
        induction l with
        | nil => intro a _; rfl
        | cons y ys ih =>
          intro a ha
          simp only [List.foldl_cons]
          have : max a y = a := by have := ha y List.mem_cons_self; omega
          rw [this]; exact ih a (fun x hx => ha x (List.mem_cons_of_mem _ hx))
      by_cases h1 : top = 1
      · omega
      · exfalso
        -- some order equals top when top > 1 : use maximality
        have hmem : top = 1 ∨ top ∈ cin.simps.map (·.order) := by
          have : ∀ (l : List Nat) (a : Nat), l.foldl max a = a ∨ l.foldl max a ∈ l := by
            intro l
            induction l with
            | nil => intro a; left; rfl
            | cons y ys ih =>
              intro a
              simp only [List.foldl_cons]
              rcases ih (max a y) with h | h
              · by_cases hay : a ≤ y
                · right; rw [h]; have : max a y = y := by omega
                  rw [this]; exact List.mem_cons_self
                · left; rw [h]; omega
              · right; exact List.mem_cons_of_mem _ h
          exact this _ 1
        rcases hmem with h2 | h2
        · exact h1 h2
        · obtain ⟨t, ht, hto⟩ := List.mem_map.mp h2
          have := h t ht; omega
  have hL0 : LoopInv cin cin ((List.range top).map (fun i => (i + 1, f (i + 1)))) 1 top (cin.simps.length + 1) := by
    refine ⟨Nat.le_refl _, hI, List.Sublist.refl _, fun t ht => Or.inl ht, ?_, ?_, ?_, htopM, ?_⟩
    · intro t ht hto
      refine ⟨f t.order, nssGet_seed f top t.order hto (hord t ht), ?_⟩
      rw [hf]; simp only [List.mem_map]
      refine ⟨t, ?_, rfl⟩
      unfold Cx.ofOrder; rw [List.mem_filter]; exact ⟨ht, by simp⟩
    · intro t ht _; exact hord t ht
    · intro j hj hj1; omega
    · have : (cin.ofOrder 0).length ≤ cin.simps.length := List.length_filter_le _ _
      omega
  obtain ⟨c', hrun, hI', hsub, hnew, hcomp⟩ := completeLoop_spec cin hI (cin.simps.length + 1)
    (cin.simps.length + 3) cin _ 1 top hL0 (by omega)
  refine ⟨c', ?_, hI', hsub, hnew, ?_⟩
  · unfold flagComplex complete
    simp only
    rw [← htop]
    cases hc : (List.range top).map (fun j => (j + 1, (cin.ofOrder (j + 1)).map (·.name))) with
    | nil => exact absurd hc hnss
    | cons p ps =>
      simp only
      rw [← hc]
      have := foldl_max_keys f top
      rw [hf] at this
      rw [this]
      exact hrun
  · -- the clique characterisation
    intro X hX
    constructor
    · rintro ⟨s, hs, hsp⟩ a ha b hb hab
      have hsub2 : ({a, b} : Finset Name) ⊆ s.pts := by
        rw [hsp]; intro x hx
        simp only [Finset.mem_insert, Finset.mem_singleton] at hx
        rcases hx with rfl | rfl <;> assumption
      obtain ⟨e, he, hep⟩ := hI'.subset_simplex hs hsub2 ⟨a, by simp⟩
      rcases hnew e he with h | h
      · exact ⟨e, h, hep⟩
      · exfalso
        have := hI'.pts_card he
        rw [hep, Finset.card_pair hab] at this; omega
    · -- induction on the size of X
      intro hcl
      suffices H : ∀ (n : Nat) (X : Finset Name), X.card = n + 2 →
          (∀ a ∈ X, ∀ b ∈ X, a ≠ b → ∃ e ∈ cin.simps, e.pts = {a, b}) → ∃ s ∈ c'.simps, s.pts = X by
        exact H (X.card - 2) X (by omega) hcl
      intro n
      induction n with
      | zero =>
        intro X hX hcl
        obtain ⟨a, b, hab, rfl⟩ := Finset.card_eq_two.mp hX
        obtain ⟨e, he, hep⟩ := hcl a (by simp) b (by simp) hab
        exact ⟨e, hsub.subset he, hep⟩
      | succ n ih =>
        intro X hX hcl
        apply hcomp (n + 2) (by omega) X (by omega)
        intro Y hY
        rw [Finset.mem_powersetCard] at hY
        exact ih Y hY.2 (fun a ha b hb hab => hcl a (hY.1 ha) b (hY.1 hb) hab)

#print axioms flagComplex_spec
end Flat
