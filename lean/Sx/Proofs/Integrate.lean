import Sx.Model
import Mathlib.Algebra.BigOperators.Group.Finset.Basic
import Mathlib.Algebra.BigOperators.Ring.Finset
import Mathlib.Algebra.Order.BigOperators.Group.Finset
import Mathlib.Tactic.Ring
import Mathlib.Tactic.Linarith

/-! spike (C19): the arithmetic core of the Euler integral — summing, over levels `l = 0 … H-1`, the signed
count of simplices whose minimum height exceeds `l` gives the signed sum of the minimum heights. -/
open Finset

theorem sum_levels {σ : Type} [DecidableEq σ] (S : Finset σ) (w : σ → Int) (μ : σ → Nat) (H : Nat)
    (hH : ∀ s ∈ S, μ s ≤ H) :
    (∑ l ∈ range H, ∑ s ∈ S.filter (fun s => l < μ s), w s) = ∑ s ∈ S, w s * (μ s : Int) := by
  have h1 : ∀ l, (∑ s ∈ S.filter (fun s => l < μ s), w s) = ∑ s ∈ S, if l < μ s then w s else 0 := by
    intro l; rw [Finset.sum_filter]
  simp only [h1]
  rw [Finset.sum_comm]
  apply Finset.sum_congr rfl
  intro s hs
  have hμ := hH s hs
  -- Σ_{l<H} [l < μ s] w s = μ s * w s
  have : (∑ l ∈ range H, if l < μ s then w s else 0) = ∑ l ∈ range (μ s), w s := by
    rw [← Finset.sum_filter]
    apply Finset.sum_congr _ (fun _ _ => rfl)
    ext l
    simp only [Finset.mem_filter, Finset.mem_range]
    omega
  rw [this, Finset.sum_const, Finset.card_range]
  simp [mul_comm]

#print axioms sum_levels
