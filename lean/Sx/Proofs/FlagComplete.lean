import Sx.Model
import Sx.Proofs.FlagPass

/-! spike (C11) part 6: what one pass achieves for a (k+1)-set all of whose facets are present -/
namespace Flat
open Finset

theorem pass_complete {c0 c' : C} {k : Nat} (hk : 2 ≤ k) {L : List (Simp Name)} {newPrev : List Name}
    (hI0 : Inv c0) (hL : L = c0.ofOrder (k - 1)) (hP : PassInv k L c0 c')
    (hhandled : ∀ cand ∈ combosL (k + 1) L, touches newPrev cand = true → isClosed cand = true →
      ∃ s ∈ c'.simps, s.order = k ∧ setEqB s.faces (cand.map (·.name)) = true)
    {X : Finset Name} (hX : X.card = k + 1)
    (hfac : ∀ Y ∈ X.powersetCard k, ∃ t ∈ c0.simps, t.pts = Y)
    (htouch : ∃ t ∈ c0.simps, t.pts ⊆ X ∧ t.order = k - 1 ∧ t.name ∈ newPrev) :
    ∃ s ∈ c'.simps, s.pts = X := by
  classical
  set cand := L.filter (fun σ => decide (σ.pts ⊆ X)) with hcand
  have hLmem : ∀ σ ∈ L, σ ∈ c0.simps ∧ σ.order = k - 1 := by
    intro σ hσ
    rw [hL] at hσ
    unfold Cx.ofOrder at hσ
    rw [List.mem_filter] at hσ
    exact ⟨hσ.1, by simpa using hσ.2⟩
  have hcmem : ∀ σ ∈ cand, σ ∈ c0.simps ∧ σ.order = k - 1 := fun σ hσ => hLmem σ (List.mem_filter.mp hσ).1
  have hsn : c0.simps.Nodup := List.Nodup.of_map _ hI0.nodup
  have hLnd : L.Nodup := by rw [hL]; exact hsn.sublist List.filter_sublist
  have hcnd : cand.Nodup := hLnd.sublist List.filter_sublist
  have himg : cand.toFinset.image Simp.pts = X.powersetCard k := by
    ext Y
    simp only [Finset.mem_image, List.mem_toFinset, Finset.mem_powersetCard]
    constructor
    · rintro ⟨σ, hσ, rfl⟩
      have h1 := (List.mem_filter.mp hσ).2
      simp only [decide_eq_true_eq] at h1
      exact ⟨h1, by rw [hI0.pts_card (hcmem σ hσ).1, (hcmem σ hσ).2]; omega⟩
    · rintro ⟨hYX, hYc⟩
      obtain ⟨t, ht, htp⟩ := hfac Y (Finset.mem_powersetCard.mpr ⟨hYX, hYc⟩)
      have hto : t.order = k - 1 := by
        have := hI0.pts_card ht; rw [htp, hYc] at this; omega
      refine ⟨t, ?_, htp⟩
      rw [hcand, List.mem_filter]
      refine ⟨?_, by simpa [htp] using hYX⟩
      rw [hL]; unfold Cx.ofOrder; rw [List.mem_filter]
      exact ⟨ht, by simpa using hto⟩
  have hlen : cand.length = k + 1 := by
    rw [← List.toFinset_card_of_nodup hcnd, ← Finset.card_image_of_injOn (pts_injOn hI0 hcmem), himg,
      Finset.card_powersetCard, hX, Nat.choose_succ_self_right]
  have hclosed : isClosed cand = true := facets_closed hI0 hk hcnd hcmem hX himg
  have htch : touches newPrev cand = true := by
    obtain ⟨t, ht, htX, hto, htn⟩ := htouch
    unfold touches
    rw [List.any_eq_true]
    refine ⟨t, ?_, by simpa using htn⟩
    rw [hcand, List.mem_filter]
    refine ⟨?_, by simpa using htX⟩
    rw [hL]; unfold Cx.ofOrder; rw [List.mem_filter]
    exact ⟨ht, by simpa using hto⟩
  obtain ⟨s, hs, hso, hsf⟩ := hhandled cand (combosL_mem.mpr ⟨List.filter_sublist, hlen⟩) htch hclosed
  refine ⟨s, hs, ?_⟩
  symm
  apply Finset.eq_of_subset_of_card_le
  · intro x hx
    obtain ⟨Y, hY, hxY⟩ := facet_through hX hk hx
    rw [← himg] at hY
    obtain ⟨σ, hσ, rfl⟩ := Finset.mem_image.mp hY
    rw [List.mem_toFinset] at hσ
    have hσs : σ.name ∈ s.faces := by
      have := Finset.ext_iff.mp (setEqB_iff.mp hsf) σ.name
      simp only [List.mem_toFinset] at this
      exact this.mpr (List.mem_map.mpr ⟨σ, hσ, rfl⟩)
    have := (hP.inv.faces_are_facets hs (hP.sub.subset (hcmem σ hσ).1) (by omega)).mp hσs
    exact this.2 hxY
  · rw [hP.inv.pts_card hs, hX, hso]

#print axioms pass_complete
end Flat
