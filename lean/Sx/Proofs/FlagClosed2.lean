import Sx.Model
import Sx.Proofs.FlagClosed

/-! spike (C11) part 2: conversely, the facets of one k-set are closed -/
namespace Flat
open Finset

/-- the `k`-subsets of a `(k+1)`-set `B` containing a `(k-1)`-subset `τ` are the two sets `B \ {x}`, `x ∈ B \ τ` -/
theorem two_cofacets {B τ : Finset Name} {k : Nat} (hB : B.card = k + 1) (hτ : τ ⊆ B) (hτc : τ.card + 2 = k + 1) :
    ((B.powersetCard k).filter (fun X => τ ⊆ X)).card = 2 := by
  classical
  have himg : (B.powersetCard k).filter (fun X => τ ⊆ X) = (B \ τ).image (fun x => B.erase x) := by
    ext X
    simp only [Finset.mem_filter, Finset.mem_powersetCard, Finset.mem_image, Finset.mem_sdiff]
    constructor
    · rintro ⟨⟨hXB, hXc⟩, hτX⟩
      -- X misses exactly one element of B
      have hd : (B \ X).card = 1 := by rw [Finset.card_sdiff_of_subset hXB, hB, hXc]; omega
      obtain ⟨x, hx⟩ := Finset.card_eq_one.mp hd
      have hxm : x ∈ B \ X := by rw [hx]; exact Finset.mem_singleton_self x
      rw [Finset.mem_sdiff] at hxm
      refine ⟨x, ⟨hxm.1, fun h => hxm.2 (hτX h)⟩, ?_⟩
      ext y
      simp only [Finset.mem_erase]
      constructor
      · rintro ⟨hyx, hyB⟩
        by_contra hyX
        have : y ∈ B \ X := Finset.mem_sdiff.mpr ⟨hyB, hyX⟩
        rw [hx, Finset.mem_singleton] at this
        exact hyx this
      · intro hy
        exact ⟨fun e => hxm.2 (e ▸ hy), hXB hy⟩
    · rintro ⟨x, ⟨hxB, hxτ⟩, rfl⟩
      refine ⟨⟨Finset.erase_subset _ _, by rw [Finset.card_erase_of_mem hxB, hB]; rfl⟩, ?_⟩
      intro y hy
      exact Finset.mem_erase.mpr ⟨fun e => hxτ (e ▸ hy), hτ hy⟩
  rw [himg, Finset.card_image_of_injOn]
  · rw [Finset.card_sdiff_of_subset hτ, hB]; omega
  · intro x hx y hy hxy
    simp only [Finset.coe_sdiff, Set.mem_diff, Finset.mem_coe] at hx hy
    by_contra hne
    have : y ∈ B.erase x := Finset.mem_erase.mpr ⟨fun e => hne e.symm, hy.1⟩
    have hxy' : B.erase x = B.erase y := hxy
    rw [hxy'] at this
    exact (Finset.notMem_erase y B) this

theorem facets_closed {c : C} (hI : Inv c) {k : Nat} (hk : 2 ≤ k) {cand : List (Simp Name)}
    (hnd : cand.Nodup) (hmem : ∀ σ ∈ cand, σ ∈ c.simps ∧ σ.order = k - 1)
    {B : Finset Name} (hB : B.card = k + 1) (hF : cand.toFinset.image Simp.pts = B.powersetCard k) :
    isClosed cand = true := by
  classical
  have hinj := pts_injOn hI hmem
  unfold isClosed
  simp only [List.all_eq_true, beq_iff_eq]
  intro f hf
  rw [count_flatMap_faces cand (fun σ hσ => (hI.faces_len (hmem σ hσ).1).1)]
  -- f names a simplex u inside some candidate
  obtain ⟨σ0, hσ0, hfσ0⟩ := List.mem_flatMap.mp hf
  have hσ0' := hmem σ0 hσ0
  obtain ⟨-, -, hfex, -⟩ := hI.higher σ0 hσ0'.1 (by omega)
  obtain ⟨u, hu, hun, huo⟩ := hfex f hfσ0
  have huσ0 : u.pts ⊆ σ0.pts := ((hI.faces_are_facets hσ0'.1 hu (by omega)).mp (hun ▸ hfσ0)).2
  have hσ0B : σ0.pts ⊆ B := by
    have : σ0.pts ∈ cand.toFinset.image Simp.pts :=
      Finset.mem_image.mpr ⟨σ0, List.mem_toFinset.mpr hσ0, rfl⟩
    rw [hF, Finset.mem_powersetCard] at this; exact this.1
  have huc : u.pts.card + 2 = k + 1 := by rw [hI.pts_card hu]; omega
  have heq : cand.filter (fun σ => σ.faces.contains f) = cand.filter (fun σ => decide (u.pts ⊆ σ.pts)) := by
    apply List.filter_congr
    intro σ hσ
    have hσ' := hmem σ hσ
    have := hI.faces_are_facets hσ'.1 hu (by omega)
    rw [hun] at this
    by_cases h1 : u.pts ⊆ σ.pts
    · have : f ∈ σ.faces := this.mpr ⟨by omega, h1⟩
      simp [h1, this]
    · have : f ∉ σ.faces := fun hm => h1 (this.mp hm).2
      simp [h1, this]
  rw [heq]
  have hcount : (cand.filter (fun σ => decide (u.pts ⊆ σ.pts))).length =
      ((cand.toFinset.image Simp.pts).filter (fun X => u.pts ⊆ X)).card := by
    rw [Finset.filter_image, Finset.card_image_of_injOn (hinj.mono (by
      intro x hx; simp only [Finset.coe_filter, Set.mem_setOf_eq] at hx; exact hx.1))]
    rw [← List.toFinset_card_of_nodup (hnd.filter _)]
    congr 1
    ext σ
    simp
  rw [hcount, hF, two_cofacets hB (huσ0.trans hσ0B) huc]

#print axioms facets_closed
end Flat
