import Sx.Model
import Sx.Proofs.FlagClosed2

/-! spike (C03): the boundary of a boundary is empty — every simplex two orders below `s` is a face of an even
number (0 or 2) of the faces of `s`; hence consecutive boundary operators multiply to zero mod 2. -/
namespace Flat
open Finset

theorem bd_bd_even {c : C} (hI : Inv c) {s : Simp Name} (hs : s ∈ c.simps) (hk : 2 ≤ s.order) (n : Name) :
    (s.faces.filter (fun f => (c.facesOf f).contains n)).length % 2 = 0 := by
  classical
  obtain ⟨hfn, hfl, hfex, -⟩ := hI.higher s hs (by omega)
  -- the simplices behind the face names
  have hex : ∀ f ∈ s.faces, ∃ u, u ∈ c.simps ∧ u.name = f ∧ u.order + 1 = s.order := by
    intro f hf; obtain ⟨u, hu, hn, ho⟩ := hfex f hf; exact ⟨u, hu, hn, ho⟩
  have : Nonempty (Simp Name) := ⟨s⟩
  choose! g hg using hex
  set cand := s.faces.map g with hcand
  have hcmem : ∀ σ ∈ cand, σ ∈ c.simps ∧ σ.order = s.order - 1 := by
    intro σ hσ
    obtain ⟨f, hf, rfl⟩ := List.mem_map.mp hσ
    exact ⟨(hg f hf).1, by have := (hg f hf).2.2; omega⟩
  have hcnd : cand.Nodup := by
    apply List.Nodup.map_on _ hfn
    intro a ha b hb hab
    rw [← (hg a ha).2.1, ← (hg b hb).2.1, hab]
  -- the candidates' point sets are exactly the facets of s
  have hF : cand.toFinset.image Simp.pts = s.pts.powersetCard s.order := by
    apply Finset.eq_of_subset_of_card_le
    · intro X hX
      obtain ⟨σ, hσ, rfl⟩ := Finset.mem_image.mp hX
      rw [List.mem_toFinset] at hσ
      obtain ⟨f, hf, rfl⟩ := List.mem_map.mp hσ
      rw [Finset.mem_powersetCard]
      refine ⟨?_, by rw [hI.pts_card (hg f hf).1]; exact (hg f hf).2.2⟩
      have hgf : (g f).name ∈ s.faces := by rw [(hg f hf).2.1]; exact hf
      exact ((hI.faces_are_facets hs (hg f hf).1 (by omega)).mp hgf).2
    · rw [Finset.card_powersetCard, hI.pts_card hs, Nat.choose_succ_self_right,
        Finset.card_image_of_injOn (pts_injOn hI hcmem), List.toFinset_card_of_nodup hcnd, hcand,
        List.length_map, hfl]
  have hclosed := facets_closed (k := s.order) hI hk hcnd hcmem (hI.pts_card hs) hF
  -- read the parity off `isClosed`
  unfold isClosed at hclosed
  simp only [List.all_eq_true, beq_iff_eq] at hclosed
  have hcount := count_flatMap_faces cand (fun σ hσ => (hI.faces_len (hcmem σ hσ).1).1) n
  have heq : (s.faces.filter (fun f => (c.facesOf f).contains n)).length =
      (cand.filter (fun σ => σ.faces.contains n)).length := by
    rw [hcand, List.filter_map, List.length_map]
    congr 1
    apply List.filter_congr
    intro f hf
    simp only [Function.comp]
    rw [← (hg f hf).2.1, facesOf_of_mem hI (hg f hf).1, (hg f hf).2.1]
  rw [heq, ← hcount]
  by_cases hin : n ∈ cand.flatMap (·.faces)
  · exact hclosed n hin
  · rw [List.count_eq_zero_of_not_mem hin]

#print axioms bd_bd_even
end Flat
