import Sx.Model
import Sx.Proofs.FlatAdd

/-! canonical face / basis lists: same members as the given faces / the union of their bases -/
namespace Flat
set_option linter.unusedSectionVars false
variable {α : Type} [DecidableEq α]

theorem mem_canonFaces {c : Cx α} {k : Nat} {fs : List α}
    (hface : ∀ f ∈ fs, ∃ t ∈ c.simps, t.name = f ∧ t.order = k - 1) (f : α) :
    f ∈ canonFaces c k fs ↔ f ∈ fs := by
  rw [canonFaces, List.mem_filter, List.mem_map]
  constructor
  · rintro ⟨-, h2⟩; simpa using h2
  · intro hf
    obtain ⟨t, ht, hn, ho⟩ := hface f hf
    refine ⟨⟨t, ?_, hn⟩, by simpa using hf⟩
    unfold Cx.ofOrder; rw [List.mem_filter]; exact ⟨ht, by simpa using ho⟩

theorem mem_canonBasis {c : Cx α} (hI : Inv c) {fs : List α}
    (hface : ∀ f ∈ fs, ∃ t ∈ c.simps, t.name = f) (p : α) :
    p ∈ canonBasis c fs ↔ ∃ f ∈ fs, p ∈ c.basisOf f := by
  rw [canonBasis, List.mem_filter, List.mem_map]
  constructor
  · rintro ⟨-, h2⟩
    rw [List.any_eq_true] at h2
    obtain ⟨f, hf, hp⟩ := h2
    exact ⟨f, hf, by simpa using hp⟩
  · rintro ⟨f, hf, hp⟩
    obtain ⟨t, ht, hn⟩ := hface f hf
    have hb : c.basisOf f = t.basis := by
      rw [← hn]; unfold Cx.basisOf; rw [lookup_of_mem hI ht]; rfl
    rw [hb] at hp
    obtain ⟨q, hq, hqn, hq0, -⟩ := hI.basis_point t.order ht rfl p hp
    refine ⟨⟨q, ?_, hqn⟩, ?_⟩
    · unfold Cx.ofOrder; rw [List.mem_filter]; exact ⟨hq, by simpa using hq0⟩
    · rw [List.any_eq_true]
      exact ⟨f, hf, by rw [List.contains_iff_mem, hb]; exact hp⟩

theorem canonBasis_toFinset {c : Cx α} (hI : Inv c) {fs : List α}
    (hface : ∀ f ∈ fs, ∃ t ∈ c.simps, t.name = f) :
    (canonBasis c fs).toFinset = (dedupL (fs.flatMap c.basisOf)).toFinset := by
  ext p
  simp only [List.mem_toFinset, mem_canonBasis hI hface, mem_dedupL, List.mem_flatMap]

theorem canonFaces_toFinset {c : Cx α} {k : Nat} {fs : List α}
    (hface : ∀ f ∈ fs, ∃ t ∈ c.simps, t.name = f ∧ t.order = k - 1) :
    (canonFaces c k fs).toFinset = fs.toFinset := by
  ext f
  simp only [List.mem_toFinset, mem_canonFaces hface]

end Flat
