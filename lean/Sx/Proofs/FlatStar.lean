import Sx.Model
import Sx.Proofs.FlatClosure

namespace Flat
set_option linter.unusedSectionVars false
variable {α : Type} [DecidableEq α]

theorem orderOf_of_mem {c : Cx α} (hI : Inv c) {t : Simp α} (ht : t ∈ c.simps) :
    c.orderOf? t.name = some t.order := by
  unfold Cx.orderOf?; rw [lookup_of_mem hI ht]; rfl

theorem mem_cofaces {c : Cx α} (hI : Inv c) {s : Simp α} (hs : s ∈ c.simps) {n : α} :
    n ∈ c.cofaces s.name ↔ ∃ t ∈ c.simps, t.name = n ∧ t.order = s.order + 1 ∧ s.name ∈ t.faces := by
  unfold Cx.cofaces
  rw [orderOf_of_mem hI hs]
  simp only [List.mem_map, List.mem_filter, Cx.ofOrder, List.contains_iff_mem, beq_iff_eq]
  constructor
  · rintro ⟨t, ⟨⟨ht, ho⟩, hf⟩, rfl⟩; exact ⟨t, ht, rfl, ho, hf⟩
  · rintro ⟨t, ht, rfl, ho, hf⟩; exact ⟨t, ⟨⟨ht, ho⟩, hf⟩, rfl⟩

/-- soundness of the DFS: everything collected strictly contains `s`, at the recorded order -/
theorem partOfAux_sound {c : Cx α} (hI : Inv c) :
    ∀ (fuel : Nat) {s : Simp α}, s ∈ c.simps → ∀ {j : Nat} {n : α},
      (j, n) ∈ partOfAux c fuel s.name s.order →
      ∃ t ∈ c.simps, t.name = n ∧ t.order = j ∧ s.order < j ∧ s.pts ⊆ t.pts := by
  intro fuel
  induction fuel with
  | zero => intro s _ j n h; simp [partOfAux] at h
  | succ fuel ih =>
    intro s hs j n h
    simp only [partOfAux, List.mem_flatMap, List.mem_cons] at h
    obtain ⟨f, hf, hjn⟩ := h
    obtain ⟨u, hu, rfl, huo, hsu⟩ := (mem_cofaces hI hs).mp hf
    have hsub : s.pts ⊆ u.pts := ((hI.faces_are_facets hu hs (by omega)).mp hsu).2
    rcases hjn with heq | hrec
    · simp only [Prod.mk.injEq] at heq
      obtain ⟨rfl, rfl⟩ := heq
      exact ⟨u, hu, rfl, huo, by omega, hsub⟩
    · rw [← huo] at hrec
      obtain ⟨t, ht, h1, h2, h3, h4⟩ := ih hu hrec
      exact ⟨t, ht, h1, h2, by omega, hsub.trans h4⟩

/-- completeness of the DFS given enough fuel: every simplex strictly containing `s` is collected -/
theorem partOfAux_complete {c : Cx α} (hI : Inv c) :
    ∀ (r : Nat) (fuel : Nat), r + 1 ≤ fuel → ∀ {s t : Simp α}, s ∈ c.simps → t ∈ c.simps →
      t.order = s.order + r + 1 → s.pts ⊆ t.pts →
      (t.order, t.name) ∈ partOfAux c fuel s.name s.order := by
  classical
  intro r
  induction r with
  | zero =>
    intro fuel hf s t hs ht ho hsub
    obtain ⟨fuel, rfl⟩ : ∃ f', fuel = f' + 1 := ⟨fuel - 1, by omega⟩
    simp only [partOfAux, List.mem_flatMap, List.mem_cons]
    refine ⟨t.name, (mem_cofaces hI hs).mpr ⟨t, ht, rfl, by omega, ?_⟩, Or.inl (by rw [ho])⟩
    exact (hI.faces_are_facets ht hs (by omega)).mpr ⟨by omega, hsub⟩
  | succ r ih =>
    intro fuel hf s t hs ht ho hsub
    obtain ⟨fuel, rfl⟩ : ∃ f', fuel = f' + 1 := ⟨fuel - 1, by omega⟩
    -- an intermediate simplex u one order above s, inside t
    have hcs := hI.pts_card hs
    have hct := hI.pts_card ht
    obtain ⟨p, hpt, hps⟩ : ∃ p, p ∈ t.pts ∧ p ∉ s.pts := by
      by_contra hcon
      push_neg at hcon
      have : t.pts ⊆ s.pts := fun x hx => hcon x hx
      have := Finset.card_le_card this
      omega
    have hX : insert p s.pts ⊆ t.pts := Finset.insert_subset hpt hsub
    obtain ⟨u, hu, hup⟩ := hI.subset_simplex ht hX (Finset.insert_nonempty _ _)
    have huo : u.order = s.order + 1 := by
      have := hI.pts_card hu
      rw [hup, Finset.card_insert_of_notMem hps, hcs] at this; omega
    have hsu : s.name ∈ u.faces :=
      (hI.faces_are_facets hu hs (by omega)).mpr ⟨by omega, by rw [hup]; exact Finset.subset_insert _ _⟩
    simp only [partOfAux, List.mem_flatMap, List.mem_cons]
    refine ⟨u.name, (mem_cofaces hI hs).mpr ⟨u, hu, rfl, huo, hsu⟩, Or.inr ?_⟩
    rw [← huo]
    exact ih fuel (by omega) hu ht (by omega) (by rw [hup]; exact hX)

/-- **the star is exact** (C04 `partOf`, with fuel sufficiency): with fuel ≥ (max order − order of s),
the DFS collects exactly the simplices strictly containing `s`, tagged with their orders. -/
theorem partOfAux_spec {c : Cx α} (hI : Inv c) {s : Simp α} (hs : s ∈ c.simps) (fuel : Nat)
    (hfuel : ∀ t ∈ c.simps, t.order ≤ s.order + fuel) (j : Nat) (n : α) :
    (j, n) ∈ partOfAux c fuel s.name s.order ↔
      ∃ t ∈ c.simps, t.name = n ∧ t.order = j ∧ s.order < j ∧ s.pts ⊆ t.pts := by
  constructor
  · exact partOfAux_sound hI fuel hs
  · rintro ⟨t, ht, rfl, rfl, hlt, hsub⟩
    have := hfuel t ht
    exact partOfAux_complete hI (t.order - s.order - 1) fuel (by omega) hs ht (by omega) hsub

#print axioms partOfAux_spec
end Flat
