import Sx.Model
import Sx.Proofs.FlatBasis3
import Sx.Proofs.FlatStar

/-! spike (C02) part 3: specification of `simplexWithBasis`; `addSimplex` succeeds when its guards hold -/
namespace Flat

theorem setEqB_iff {a b : List Name} : setEqB a b = true ↔ a.toFinset = b.toFinset := by
  unfold setEqB subsetB
  simp only [Bool.and_eq_true, List.all_eq_true, List.contains_iff_mem]
  constructor
  · rintro ⟨h1, h2⟩
    ext z; simp only [List.mem_toFinset]; exact ⟨fun h => h1 z h, fun h => h2 z h⟩
  · intro h
    constructor
    · intro z hz; have := Finset.ext_iff.mp h z; simp only [List.mem_toFinset] at this; exact this.mp hz
    · intro z hz; have := Finset.ext_iff.mp h z; simp only [List.mem_toFinset] at this; exact this.mpr hz

def PtsIn (c : C) (b : List Name) : Prop := ∀ p ∈ b, ∃ t ∈ c.simps, t.name = p ∧ t.order = 0

theorem point_pts {c : C} (hI : Inv c) {t : Simp Name} (ht : t ∈ c.simps) (h0 : t.order = 0) :
    t.pts = {t.name} := by
  have := (hI.point t ht h0).2
  simp [Simp.pts, this]

theorem simplexWithBasis_spec {c : C} (hI : Inv c) {b : List Name} (hb : b.Nodup) (hne : b ≠ [])
    (hpts : PtsIn c b) :
    (∀ n, simplexWithBasis c b = some n → ∃ t ∈ c.simps, t.name = n ∧ t.pts = b.toFinset) ∧
    (simplexWithBasis c b = none → ¬ ∃ t ∈ c.simps, t.pts = b.toFinset) := by
  have hguard : (b.all (fun x => c.orderOf? x == some 0)) = true := by
    rw [List.all_eq_true]
    intro x hx
    obtain ⟨t, ht, rfl, h0⟩ := hpts x hx
    rw [orderOf_of_mem hI ht, h0]; simp
  unfold simplexWithBasis
  simp only [hguard, Bool.not_true, Bool.false_eq_true, if_false]
  match b, hb, hne, hpts with
  | [x], _, _, hpts =>
    obtain ⟨t, ht, hn, h0⟩ := hpts x List.mem_cons_self
    constructor
    · intro n hn'
      simp only [Option.some.injEq] at hn'
      subst hn'
      exact ⟨t, ht, hn, by rw [point_pts hI ht h0, hn]; simp⟩
    · intro h; simp at h
  | x :: y :: rest, hb, _, _ =>
    simp only
    constructor
    · intro n hn
      obtain ⟨t, htf, rfl⟩ := Option.map_eq_some_iff.mp hn
      have h1 := List.mem_of_find?_eq_some htf
      have h2 := List.find?_some htf
      unfold Cx.ofOrder at h1
      rw [List.mem_filter] at h1
      exact ⟨t, h1.1, rfl, by rw [Simp.pts]; exact setEqB_iff.mp h2⟩
    · intro hn ⟨t, ht, htp⟩
      rw [Option.map_eq_none_iff, List.find?_eq_none] at hn
      have hord : t.order = (x :: y :: rest).length - 1 := by
        have := hI.pts_card ht
        rw [htp, List.toFinset_card_of_nodup hb] at this
        omega
      have hmem : t ∈ c.ofOrder ((x :: y :: rest).length - 1) := by
        unfold Cx.ofOrder; rw [List.mem_filter]; exact ⟨ht, by simpa using hord⟩
      have := hn t hmem
      apply this
      exact setEqB_iff.mpr (by rw [← htp]; rfl)

/-- when every guard of `addSimplex` is met, it succeeds and inserts the expected simplex -/
theorem addSimplex_succeeds {c : C} {fs : List Name} {id : Name}
    (h1 : fs.length ≠ 1) (h2 : c.contains id = false) (h3 : fs.Nodup)
    (h4 : ((fs.length - 1 : Nat) : Int) ≤ c.maxOrder + 1) (hne : fs ≠ [])
    (h5 : ∀ f ∈ fs, c.contains f = true) (h6 : ∀ f ∈ fs, c.orderOf? f = some (fs.length - 1 - 1))
    (h7 : ∀ s ∈ c.ofOrder (fs.length - 1), setEqB s.faces fs = false) :
    c.addSimplex fs id = .ok { c with simps :=
      (insertSorted ⟨id, fs.length - 1, canonFaces c (fs.length - 1) fs, canonBasis c fs⟩ c.simps) } := by
  unfold Cx.addSimplex
  simp only
  rw [if_neg h1, if_neg (by simp [h2]), if_neg (by simpa using h3), if_neg (by omega)]
  rw [if_neg (by simpa using hne)]
  rw [if_neg, if_neg, if_neg]
  · simp only [Bool.not_eq_true, List.any_eq_false]
    intro s hs; simpa using h7 s hs
  · simp only [Bool.not_eq_true, List.any_eq_false]
    intro f hf; simp [h6 f hf]
  · simp only [Bool.not_eq_true, List.any_eq_false]
    intro f hf; simp [h5 f hf]

#print axioms simplexWithBasis_spec
#print axioms addSimplex_succeeds
end Flat
