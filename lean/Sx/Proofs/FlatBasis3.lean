import Sx.Model
import Sx.Proofs.FlatBasis2

/-! spike (C02) part 2: combinatorics of `dropOne` (= itertools.combinations(bs, len-1)) and the
specification of `simplexWithBasis`. -/
namespace Flat

theorem dropOne_mem {b p : List Name} (hp : p ∈ dropOne b) :
    p.Sublist b ∧ p.length + 1 = b.length := by
  induction b generalizing p with
  | nil => simp [dropOne] at hp
  | cons x xs ih =>
    simp only [dropOne, List.mem_append, List.mem_map, List.mem_singleton] at hp
    rcases hp with ⟨q, hq, rfl⟩ | hp
    · obtain ⟨h1, h2⟩ := ih hq
      exact ⟨h1.cons₂ x, by simp; omega⟩
    · rw [hp]; exact ⟨List.sublist_cons_self x xs, by simp⟩

/-- each facet is `b` minus one element (as a set), for `b` without repeats -/
theorem dropOne_toFinset {b p : List Name} (hb : b.Nodup) (hp : p ∈ dropOne b) :
    ∃ x ∈ b, p.toFinset = b.toFinset.erase x := by
  induction b generalizing p with
  | nil => simp [dropOne] at hp
  | cons y ys ih =>
    rw [List.nodup_cons] at hb
    simp only [dropOne, List.mem_append, List.mem_map, List.mem_singleton] at hp
    rcases hp with ⟨q, hq, rfl⟩ | rfl
    · obtain ⟨x, hx, hq'⟩ := ih hb.2 hq
      refine ⟨x, List.mem_cons_of_mem _ hx, ?_⟩
      have hxy : x ≠ y := fun e => hb.1 (e ▸ hx)
      ext z
      simp only [List.toFinset_cons, Finset.mem_insert, Finset.mem_erase, hq', List.mem_toFinset]
      constructor
      · rintro (rfl | ⟨h1, h2⟩)
        · exact ⟨fun e => hxy e.symm, Or.inl rfl⟩
        · exact ⟨h1, Or.inr h2⟩
      · rintro ⟨h1, rfl | h2⟩
        · exact Or.inl rfl
        · exact Or.inr ⟨h1, h2⟩
    · refine ⟨y, List.mem_cons_self, ?_⟩
      ext z
      simp only [List.toFinset_cons, Finset.mem_erase, Finset.mem_insert, List.mem_toFinset]
      constructor
      · intro hz; exact ⟨fun e => hb.1 (e ▸ hz), Or.inr hz⟩
      · rintro ⟨h1, rfl | h2⟩
        · exact absurd rfl h1
        · exact h2

/-- every one-element removal occurs among the facets -/
theorem dropOne_cover {b : List Name} (hb : b.Nodup) {x : Name} (hx : x ∈ b) :
    ∃ p ∈ dropOne b, p.toFinset = b.toFinset.erase x := by
  induction b with
  | nil => simp at hx
  | cons y ys ih =>
    rw [List.nodup_cons] at hb
    rcases List.mem_cons.mp hx with rfl | hx'
    · refine ⟨ys, by simp [dropOne], ?_⟩
      ext z
      simp only [List.toFinset_cons, Finset.mem_erase, Finset.mem_insert, List.mem_toFinset]
      constructor
      · intro hz; exact ⟨fun e => hb.1 (e ▸ hz), Or.inr hz⟩
      · rintro ⟨h1, rfl | h2⟩
        · exact absurd rfl h1
        · exact h2
    · obtain ⟨q, hq, hq'⟩ := ih hb.2 hx'
      refine ⟨y :: q, by simp only [dropOne, List.mem_append, List.mem_map]; exact Or.inl ⟨q, hq, rfl⟩, ?_⟩
      have hxy : x ≠ y := fun e => hb.1 (e ▸ hx')
      ext z
      simp only [List.toFinset_cons, Finset.mem_insert, Finset.mem_erase, hq', List.mem_toFinset]
      constructor
      · rintro (rfl | ⟨h1, h2⟩)
        · exact ⟨fun e => hxy e.symm, Or.inl rfl⟩
        · exact ⟨h1, Or.inr h2⟩
      · rintro ⟨h1, rfl | h2⟩
        · exact Or.inl rfl
        · exact Or.inr ⟨h1, h2⟩

/-- the facets are pairwise different as sets -/
theorem dropOne_pairwise {b : List Name} (hb : b.Nodup) :
    (dropOne b).Pairwise (fun p q => p.toFinset ≠ q.toFinset) := by
  induction b with
  | nil => simp [dropOne]
  | cons y ys ih =>
    rw [List.nodup_cons] at hb
    simp only [dropOne]
    rw [List.pairwise_append]
    refine ⟨?_, List.pairwise_singleton _ _, ?_⟩
    · rw [List.pairwise_map]
      apply (ih hb.2).imp_of_mem
      intro p q hp hq hpq heq
      apply hpq
      have hyp : y ∉ p := fun h => hb.1 ((dropOne_mem hp).1.subset h)
      have hyq : y ∉ q := fun h => hb.1 ((dropOne_mem hq).1.subset h)
      ext z
      have := Finset.ext_iff.mp heq z
      simp only [List.toFinset_cons, Finset.mem_insert, List.mem_toFinset] at this ⊢
      by_cases hz : z = y
      · subst hz
        exact ⟨fun h => absurd h hyp, fun h => absurd h hyq⟩
      · constructor
        · intro h; rcases this.mp (Or.inr h) with e | e
          · exact absurd e hz
          · exact e
        · intro h; rcases this.mpr (Or.inr h) with e | e
          · exact absurd e hz
          · exact e
    · intro p hp q hq
      rw [List.mem_singleton] at hq
      subst hq
      obtain ⟨p', hp', rfl⟩ := List.mem_map.mp hp
      intro heq
      have : y ∈ (y :: p').toFinset := by simp
      rw [heq, List.mem_toFinset] at this
      exact hb.1 this

end Flat
