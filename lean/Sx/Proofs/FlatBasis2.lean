import Sx.Model
import Sx.Proofs.FlatFresh
import Sx.Proofs.FlatClosed

/-! spike (C02): `_addSimplexWithBasis` after the D29 repair, restructured for proof:
the facet loop is a top-level function taking the recursive call as an argument. -/
namespace Flat

theorem inv_of_simps_eq {c c' : C} (h : c'.simps = c.simps) (hI : Inv c) : Inv c' := by
  obtain ⟨a, b, c1, d, e⟩ := hI
  exact ⟨h ▸ a, h ▸ b, h ▸ c1, h ▸ d, h ▸ e⟩

theorem contains_of_simps_eq {c c' : C} (h : c'.simps = c.simps) (n : Name) : c'.contains n = c.contains n := by
  unfold Cx.contains Cx.lookup; rw [h]

theorem newSimplex_idx {c : C} (hnd : (c.simps.map (·.name)).Nodup) (d : Nat) :
    ∃ i, (newSimplex c d).1 = .auto d i ∧ c.seq ≤ i ∧ (newSimplex c d).2.seq = i + 1 := by
  refine ⟨newSimplexAux c d (c.simps.length + 1) c.seq, rfl, ?_, rfl⟩
  exact (newSimplexAux_fresh hnd d (c.simps.length + 1) c.seq
    (by have := usedFrom_le c d c.seq; omega)).2

theorem newSimplexAvoid_spec {c : C} (hnd : (c.simps.map (·.name)).Nodup) (d : Nat) (id : Name) :
    c.contains (newSimplexAvoid c d id).1 = false ∧ (newSimplexAvoid c d id).1 ≠ id ∧
    (newSimplexAvoid c d id).2.simps = c.simps := by
  unfold newSimplexAvoid
  obtain ⟨h1, h2, h3⟩ := newSimplex_fresh hnd d
  simp only
  split_ifs with he
  · -- retry from the advanced counter
    have hnd' : ((newSimplex c d).2.simps.map (·.name)).Nodup := by rw [h2]; exact hnd
    obtain ⟨g1, g2, g3⟩ := newSimplex_fresh hnd' d
    refine ⟨?_, ?_, by rw [g2, h2]⟩
    · rw [← contains_of_simps_eq h2]; exact g1
    · -- the second name has a strictly larger index than the first (= id)
      obtain ⟨i, hi1, hi2, hi3⟩ := newSimplex_idx hnd d
      obtain ⟨j, hj1, hj2, hj3⟩ := newSimplex_idx hnd' d
      rw [hj1, ← he, hi1]
      intro heq
      injection heq with _ hidx
      omega
  · exact ⟨h1, he, h2⟩

#print axioms newSimplexAvoid_spec
end Flat
