import Sx.Model
import Sx.Proofs.FlatCmp
import Sx.Proofs.FlatClosed
import Mathlib.Order.Basic

/-! spike (C13): the logical core of the filtration — if births are monotone along faces, the simplices
born up to index `i` form a valid complex, and these complexes are nested (sub-complex relation of C10). -/
namespace Flat
set_option linter.unusedSectionVars false
variable {α : Type} [DecidableEq α] {ι : Type} [LinearOrder ι]

/-- births never decrease from a face to the simplex -/
def MonotoneBirth (c : Cx α) (birth : α → ι) : Prop :=
  ∀ s ∈ c.simps, ∀ f ∈ s.faces, birth f ≤ birth s.name

theorem visible_inv {c : Cx α} (hI : Inv c) {birth : α → ι} (hm : MonotoneBirth c birth) (i : ι) :
    Inv (visibleAt c birth i) := by
  have := hI.filter_upclosed (fun n => ¬ birth n ≤ i) (by
    intro t ht f hf hD hle
    exact hD ((hm t ht f hf).trans hle))
  unfold visibleAt
  convert this using 3
  simp

theorem visible_mono {c : Cx α} (hI : Inv c) {birth : α → ι} (hm : MonotoneBirth c birth) {i j : ι} (hij : i ≤ j) :
    le (visibleAt c birth i) (visibleAt c birth j) = true := by
  rw [le, isSub_iff (visible_inv hI hm i) (visible_inv hI hm j)]
  intro s hs
  simp only [visibleAt, List.mem_filter, decide_eq_true_eq] at hs ⊢
  exact ⟨s, ⟨hs.1, hs.2.trans hij⟩, rfl, rfl, fun _ => Iff.rfl⟩

/-- adding a simplex at index `i` all of whose faces are visible keeps births monotone -/
theorem monotone_add {c c' : Cx α} {birth : α → ι} (hm : MonotoneBirth c birth) {fs : List α} {id : α} {i : ι}
    (hvis : ∀ f ∈ fs, birth f ≤ i) (hfresh : ∀ t ∈ c.simps, t.name ≠ id ∧ id ∉ t.faces)
    (hc' : ∃ s : Simp α, s.name = id ∧ s.faces = fs ∧ ∀ x, x ∈ c'.simps ↔ x = s ∨ x ∈ c.simps) :
    MonotoneBirth c' (fun n => if n = id then i else birth n) := by
  obtain ⟨s, hsn, hsf, hmem⟩ := hc'
  intro t ht f hf
  rcases (hmem t).mp ht with rfl | hold
  · rw [hsf] at hf
    simp only [hsn, if_true]
    by_cases hfi : f = id
    · simp [hfi]
    · simp only [hfi, if_false]; exact hvis f hf
  · obtain ⟨h1, h2⟩ := hfresh t hold
    have hfi : f ≠ id := fun e => h2 (e ▸ hf)
    simp only [h1, hfi, if_false]
    exact hm t hold f hf

#print axioms visible_inv
#print axioms visible_mono
end Flat
