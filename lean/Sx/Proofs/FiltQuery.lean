import Sx.Model
import Sx.Proofs.FiltCore
import Sx.Proofs.FlagLoop

/-! spike (C14): with the current index set to `i`, the index-aware queries of `Filtration` (after the repairs
D21/D22) answer exactly as the complex seen at `i`; stepping moves to the adjacent existing index. -/
namespace Flat
open Finset

variable {ι : Type} [LinearOrder ι]

theorem fContains_iff {c : C} (hI : Inv c) (birth : Name → ι) (i : ι) (n : Name) :
    fContains c birth i n = true ↔ (visibleAt c birth i).contains n = true := by
  unfold fContains
  rw [Bool.and_eq_true, contains_iff, contains_iff, decide_eq_true_eq]
  constructor
  · rintro ⟨⟨s, hs, hn⟩, hb⟩
    refine ⟨s, ?_, hn⟩
    simp only [visibleAt, List.mem_filter, decide_eq_true_eq]
    exact ⟨hs, hn ▸ hb⟩
  · rintro ⟨s, hs, hn⟩
    simp only [visibleAt, List.mem_filter, decide_eq_true_eq] at hs
    exact ⟨⟨s, hs.1, hn⟩, hn ▸ hs.2⟩

/-- listing: the filtration lists exactly the names of the complex seen at `i`, in the same order -/
theorem fSimplices_eq {c : C} (hI : Inv c) (birth : Name → ι) (i : ι) :
    fSimplices c birth i = (visibleAt c birth i).simps.map (·.name) := by
  unfold fSimplices visibleAt
  simp only
  rw [List.filter_map]
  congr 1
  apply List.filter_congr
  intro s hs
  simp only [Function.comp, fContains]
  have : c.contains s.name = true := contains_iff.mpr ⟨s, hs, rfl⟩
  simp [this]

/-- per-order counts before trimming agree with the complex seen at `i` -/
theorem fCount_order {c : C} (hI : Inv c) (birth : Name → ι) (i : ι) (k : Nat) :
    ((c.ofOrder k).filter (fun s => fContains c birth i s.name)).length = ((visibleAt c birth i).ofOrder k).length := by
  unfold Cx.ofOrder visibleAt
  simp only [List.filter_filter]
  congr 1
  apply List.filter_congr
  intro s hs
  have : c.contains s.name = true := contains_iff.mpr ⟨s, hs, rfl⟩
  simp [fContains, this, Bool.and_comm]

/-- on a sorted duplicate-free index list, `nextIndex` is the least index above the current one -/
theorem nextIndex_spec (inds : List ι) (hs : inds.Pairwise (· < ·)) (cur : ι) :
    (∀ j ∈ inds, j ≤ cur) ∧ nextIndex inds cur = cur ∨
    (nextIndex inds cur ∈ inds ∧ cur < nextIndex inds cur ∧ ∀ j ∈ inds, cur < j → nextIndex inds cur ≤ j) := by
  unfold nextIndex
  induction inds with
  | nil => left; simp
  | cons a as ih =>
    rw [List.pairwise_cons] at hs
    by_cases ha : a ≤ cur
    · rw [List.dropWhile_cons_of_pos (by simpa using ha)]
      rcases ih hs.2 with ⟨h1, h2⟩ | ⟨h1, h2, h3⟩
      · left
        refine ⟨?_, h2⟩
        intro j hj
        rcases List.mem_cons.mp hj with rfl | hj
        · exact ha
        · exact h1 j hj
      · right
        refine ⟨List.mem_cons_of_mem _ h1, h2, ?_⟩
        intro j hj hcj
        rcases List.mem_cons.mp hj with rfl | hj
        · exact absurd ha (not_le.mpr hcj)
        · exact h3 j hj hcj
    · rw [List.dropWhile_cons_of_neg (by simpa using ha)]
      right
      simp only
      refine ⟨List.mem_cons_self, not_le.mp ha, ?_⟩
      intro j hj _
      rcases List.mem_cons.mp hj with rfl | hj
      · exact le_refl _
      · exact le_of_lt (hs.1 j hj)

#print axioms fSimplices_eq
#print axioms nextIndex_spec
end Flat
