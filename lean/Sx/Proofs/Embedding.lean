import Sx.Model
/-! spike (C20): the explicit-position / cache state machine of `Embedding` (core Lean only).
`compute` stands for `computePositionOf` (a parameter, as in the Python class hierarchy); the model logs
every call to it. Positions are lists of rationals-as-integers here; only their identity matters. -/
namespace Emb

variable {ν π : Type} [DecidableEq ν]

theorem lookup_insert_same (l : List (ν × π)) (s : ν) (p : π) : lookup (insert l s p) s = some p := by
  simp [lookup, insert]

theorem lookup_insert_ne (l : List (ν × π)) {s t : ν} (p : π) (h : t ≠ s) :
    lookup (insert l s p) t = lookup l t := by
  unfold lookup insert
  have hst : ((s, p).1 == t) = false := by simp; exact fun e => h e.symm
  rw [List.find?_cons, hst]
  simp only
  congr 1
  induction l with
  | nil => rfl
  | cons q qs ih =>
    by_cases hq : q.1 = s
    · have h1 : (q.1 != s) = false := by simp [hq]
      have h2 : (q.1 == t) = false := by simp [hq]; exact fun e => h e.symm
      rw [List.filter_cons]; simp only [h1, Bool.false_eq_true, if_false]
      rw [List.find?_cons, h2]; exact ih
    · have h1 : (q.1 != s) = true := by simp [hq]
      rw [List.filter_cons]; simp only [h1, if_true]
      rw [List.find?_cons, List.find?_cons]
      cases hqt : (q.1 == t) <;> simp [ih]

/-- an explicitly assigned position of the right dimension is what `positionOf` returns -/
theorem assigned_wins (st st' : State ν π) (len : π → Nat) (orderOf : ν → Option Nat) (compute : ν → π)
    (s : ν) (p : π) (h0 : orderOf s = some 0) (h : positionSimplex st len s p = .ok st') :
    positionOf st' orderOf compute s = (.ok p, st') := by
  unfold positionSimplex at h
  split at h
  · cases h
  · injection h with h; subst h
    unfold positionOf
    simp [h0, lookup_insert_same]

/-- reading a position never changes what later reads return, and computes at most once per point -/
theorem computed_once (st : State ν π) (orderOf : ν → Option Nat) (compute : ν → π) (s : ν)
    (h0 : orderOf s = some 0) :
    let r1 := positionOf st orderOf compute s
    let r2 := positionOf r1.2 orderOf compute s
    r2.1 = r1.1 ∧ r2.2 = r1.2 := by
  unfold positionOf
  simp only [h0]
  cases hl : lookup st.pos s with
  | some p => simp [hl]
  | none => simp [hl, lookup_insert_same]

/-- wrong dimension is rejected and changes nothing -/
theorem wrong_dim_rejected (st : State ν π) (len : π → Nat) (s : ν) (p : π) (h : len p ≠ st.dim) :
    positionSimplex st len s p = .error .value := by
  unfold positionSimplex; rw [if_pos h]

/-- positions are only available for 0-simplices -/
theorem higher_order_rejected (st : State ν π) (orderOf : ν → Option Nat) (compute : ν → π) (s : ν) (k : Nat)
    (hk : orderOf s = some (k + 1)) : positionOf st orderOf compute s = (.error .value, st) := by
  unfold positionOf; simp [hk]

/-- after `clearPositions` the computed position is returned again -/
theorem clear_recomputes (st : State ν π) (orderOf : ν → Option Nat) (compute : ν → π) (s : ν)
    (h0 : orderOf s = some 0) :
    (positionOf (clearPositions st) orderOf compute s).1 = .ok (compute s) := by
  unfold positionOf clearPositions; simp [h0, lookup]

#print axioms computed_once
end Emb
