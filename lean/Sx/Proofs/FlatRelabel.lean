import Sx.Model
import Sx.Proofs.FlatDelete

/-! spike (C15): renaming. `relabelSimplex` is a renaming of one name; an injective renaming of all
names carries the whole structure along and preserves the invariant. -/
namespace Flat
set_option linter.unusedSectionVars false
variable {α : Type} [DecidableEq α]

/-- all names occurring anywhere in the complex are simplex names (under `Inv`) -/
theorem Inv.faces_are_names {c : Cx α} (h : Inv c) {s : Simp α} (hs : s ∈ c.simps) :
    (∀ f ∈ s.faces, ∃ t ∈ c.simps, t.name = f) ∧ (∀ p ∈ s.basis, ∃ t ∈ c.simps, t.name = p) := by
  constructor
  · intro f hf
    rcases Nat.eq_zero_or_pos s.order with h0 | hp
    · rw [(h.point s hs h0).1] at hf; simp at hf
    · obtain ⟨-, -, hfex, -⟩ := h.higher s hs hp
      obtain ⟨t, ht, hn, -⟩ := hfex f hf; exact ⟨t, ht, hn⟩
  · intro p hp
    obtain ⟨t, ht, hn, -⟩ := h.basis_point s.order hs rfl p hp
    exact ⟨t, ht, hn⟩

/-- **an injective renaming preserves the invariant** and carries order, faces and basis along -/
theorem Inv.map {c : Cx α} (h : Inv c) (ρ : α → α)
    (hinj : ∀ s ∈ c.simps, ∀ t ∈ c.simps, ρ s.name = ρ t.name → s.name = t.name) :
    Inv (c.map ρ) := by
  -- injectivity on all names that occur
  have hinjN : ∀ a b, (∃ s ∈ c.simps, s.name = a) → (∃ t ∈ c.simps, t.name = b) → ρ a = ρ b → a = b := by
    rintro a b ⟨s, hs, rfl⟩ ⟨t, ht, rfl⟩ hab; exact hinj s hs t ht hab
  have hmem : ∀ x, x ∈ (c.map ρ).simps ↔ ∃ s ∈ c.simps, Simp.map ρ s = x := by
    intro x; simp [Cx.map, List.mem_map]
  refine ⟨?_, ?_, ?_, ?_, ?_⟩
  · -- sorted
    simp only [Cx.map]
    rw [List.pairwise_map]
    exact h.sorted.imp (fun hab => hab)
  · -- names nodup
    have hsn : c.simps.Nodup := List.Nodup.of_map _ h.nodup
    have : (c.map ρ).simps.map (·.name) = c.simps.map (fun s => ρ s.name) := by
      simp [Cx.map, List.map_map, Simp.map, Function.comp_def]
    rw [this]
    apply List.Nodup.map_on _ hsn
    intro a ha b hb hab
    exact h.name_inj ha hb (hinj a ha b hb hab)
  · rintro x hx h0
    obtain ⟨s, hs, rfl⟩ := (hmem x).mp hx
    obtain ⟨a, b⟩ := h.point s hs h0
    simp [Simp.map, a, b]
  · rintro x hx hpos
    obtain ⟨s, hs, rfl⟩ := (hmem x).mp hx
    obtain ⟨fn, fl, fex, bn, bl, biff⟩ := h.higher s hs hpos
    obtain ⟨hfN, hbN⟩ := h.faces_are_names hs
    refine ⟨?_, by simpa [Simp.map] using fl, ?_, ?_, by simpa [Simp.map] using bl, ?_⟩
    · apply List.Nodup.map_on _ fn
      intro a ha b hb hab; exact hinjN a b (hfN a ha) (hfN b hb) hab
    · intro f hf
      obtain ⟨g, hg, rfl⟩ := List.mem_map.mp hf
      obtain ⟨t, ht, hn, ho⟩ := fex g hg
      exact ⟨Simp.map ρ t, (hmem _).mpr ⟨t, ht, rfl⟩, by simp [Simp.map, hn], ho⟩
    · apply List.Nodup.map_on _ bn
      intro a ha b hb hab; exact hinjN a b (hbN a ha) (hbN b hb) hab
    · intro p
      change p ∈ s.basis.map ρ ↔ ∃ f ∈ s.faces.map ρ, ∃ t ∈ (c.map ρ).simps, t.name = f ∧ p ∈ t.basis
      constructor
      · intro hp
        obtain ⟨p0, hp0, rfl⟩ := List.mem_map.mp hp
        obtain ⟨f, hf, t, ht, hn, hpt⟩ := (biff p0).mp hp0
        refine ⟨ρ f, List.mem_map.mpr ⟨f, hf, rfl⟩, Simp.map ρ t, (hmem _).mpr ⟨t, ht, rfl⟩, ?_, ?_⟩
        · simp [Simp.map, hn]
        · exact List.mem_map.mpr ⟨p0, hpt, rfl⟩
      · rintro ⟨f', hf', t', ht', hn', hp'⟩
        obtain ⟨f, hf, rfl⟩ := List.mem_map.mp hf'
        obtain ⟨t, ht, rfl⟩ := (hmem t').mp ht'
        obtain ⟨p0, hp0, rfl⟩ := List.mem_map.mp (show p ∈ t.basis.map ρ from hp')
        obtain ⟨u, hu, hun, -⟩ := fex f hf
        have hn'' : ρ t.name = ρ f := hn'
        have : t.name = f := hinjN _ _ ⟨t, ht, rfl⟩ ⟨u, hu, hun⟩ hn''
        exact List.mem_map.mpr ⟨p0, (biff p0).mpr ⟨f, hf, t, ht, this, hp0⟩, rfl⟩
  · rintro x hx y hy ho hb
    obtain ⟨s, hs, rfl⟩ := (hmem x).mp hx
    obtain ⟨t, ht, rfl⟩ := (hmem y).mp hy
    have : s = t := by
      apply h.uniq s hs t ht ho
      intro p
      obtain ⟨-, hsN⟩ := h.faces_are_names hs
      obtain ⟨-, htN⟩ := h.faces_are_names ht
      have := hb (ρ p)
      change ρ p ∈ s.basis.map ρ ↔ ρ p ∈ t.basis.map ρ at this
      simp only [List.mem_map] at this
      constructor
      · intro hp
        obtain ⟨p', hp', he⟩ := this.mp ⟨p, hp, rfl⟩
        rw [← hinjN p' p (htN p' hp') (hsN p hp) he]; exact hp'
      · intro hp
        obtain ⟨p', hp', he⟩ := this.mpr ⟨p, hp, rfl⟩
        rw [← hinjN p' p (hsN p' hp') (htN p hp) he]; exact hp'
    rw [this]

/-- relabelling one simplex to an unused name preserves the invariant -/
theorem relabelSimplex_inv {c c' : Cx α} (h : Inv c) {s q : α} (hr : c.relabelSimplex s q = some c') :
    Inv c' := by
  unfold Cx.relabelSimplex at hr
  split at hr; · cases hr
  rename_i hq
  split at hr; · cases hr
  injection hr with hr; subst hr
  apply h.map
  intro a ha b hb hab
  have hqa : ∀ t ∈ c.simps, t.name ≠ q := fun t ht e => hq (contains_iff.mpr ⟨t, ht, e⟩)
  by_cases h1 : a.name = s <;> by_cases h2 : b.name = s
  · rw [h1, h2]
  · simp only [h1, h2, if_true, if_false] at hab; exact absurd hab.symm (hqa b hb)
  · simp only [h1, h2, if_true, if_false] at hab; exact absurd hab (hqa a ha)
  · simpa [h1, h2] using hab

#print axioms Inv.map
#print axioms relabelSimplex_inv
end Flat
