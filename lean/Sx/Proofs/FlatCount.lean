import Sx.Model
import Sx.Proofs.FlatBasis7
import Sx.Proofs.FlagClosed

/-! spike (C18): a complex that consists of *all* non-empty subsets of a point set `B` has
`C(|B|, j+1)` simplices of order `j` — the count behind `k_simplex`. -/
namespace Flat
open Finset

theorem full_simplex_counts {c : C} (hI : Inv c) (B : Finset Name)
    (hin : ∀ t ∈ c.simps, t.pts ⊆ B)
    (hall : ∀ X : Finset Name, X ⊆ B → X.Nonempty → ∃ t ∈ c.simps, t.pts = X) (j : Nat) :
    (c.ofOrder j).length = B.card.choose (j + 1) := by
  classical
  have hsn : c.simps.Nodup := List.Nodup.of_map _ hI.nodup
  have hnd : (c.ofOrder j).Nodup := hsn.sublist List.filter_sublist
  have hmem : ∀ σ ∈ c.ofOrder j, σ ∈ c.simps ∧ σ.order = j := by
    intro σ hσ
    unfold Cx.ofOrder at hσ
    rw [List.mem_filter] at hσ
    exact ⟨hσ.1, by simpa using hσ.2⟩
  rw [← List.toFinset_card_of_nodup hnd, ← Finset.card_image_of_injOn (pts_injOn hI hmem),
    ← Finset.card_powersetCard]
  congr 1
  ext X
  simp only [Finset.mem_image, List.mem_toFinset, Finset.mem_powersetCard]
  constructor
  · rintro ⟨σ, hσ, rfl⟩
    exact ⟨hin σ (hmem σ hσ).1, by rw [hI.pts_card (hmem σ hσ).1, (hmem σ hσ).2]⟩
  · rintro ⟨hXB, hXc⟩
    obtain ⟨t, ht, htp⟩ := hall X hXB (by rw [← Finset.card_pos]; omega)
    refine ⟨t, ?_, htp⟩
    unfold Cx.ofOrder
    rw [List.mem_filter]
    refine ⟨ht, ?_⟩
    have := hI.pts_card ht
    rw [htp, hXc] at this
    simp; omega

/-- after `_addSimplexWithBasis` on a basis `p` in a complex that had only the points of `p`,
the complex is the full simplex on `p` -/
theorem addWB_full {c c' : C} {p : List Name} {n : Name} {id : Name} {k : Nat}
    (hpts0 : ∀ t ∈ c.simps, t.pts ⊆ p.toFinset)
    (hext : Ext (fun X => X ⊆ p.toFinset) c c') (hnm : Names c' n p) (j : Nat) :
    (c'.ofOrder j).length = p.toFinset.card.choose (j + 1) := by
  apply full_simplex_counts hext.inv p.toFinset
  · intro t ht
    rcases hext.new t ht with h | h
    · exact hpts0 t h
    · exact h
  · intro X hX hne
    obtain ⟨t, ht, -, htp⟩ := hnm
    exact hext.inv.subset_simplex ht (htp ▸ hX) hne

#print axioms full_simplex_counts
end Flat
