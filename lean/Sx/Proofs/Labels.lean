import Sx.Model
import Sx.Proofs.Rank
import Mathlib.LinearAlgebra.Matrix.ToLin
import Mathlib.LinearAlgebra.Matrix.NonsingularInverse

/-! spike (C07): the invariant that makes the labels returned by `Z()` a cycle basis.
`KerEq C B Q` : the current matrix `C` and `B * Q` kill the same vectors, where `B` is the original
boundary operator and `Q` records the column operations (its columns are the labels, mod 2). -/
open Matrix

variable {m n : ℕ}

def KerEq (C B : Matrix (Fin m) (Fin n) F2) (Q : Matrix (Fin n) (Fin n) F2) : Prop :=
  ∀ v : Fin n → F2, C *ᵥ v = 0 ↔ (B * Q) *ᵥ v = 0

theorem KerEq.init (B : Matrix (Fin m) (Fin n) F2) : KerEq B B 1 := by
  intro v; rw [Matrix.mul_one]

/-- row operations (adding multiples of row `x` to other rows) do not change the kernel -/
theorem KerEq.rowop {C C' B : Matrix (Fin m) (Fin n) F2} {Q : Matrix (Fin n) (Fin n) F2}
    (h : KerEq C B Q) (x : Fin m) (c : Fin m → F2) (hcx : c x = 0)
    (hC : ∀ i, C' i = C i + c i • C x) : KerEq C' B Q := by
  intro v
  rw [← h v]
  have key : ∀ i, (C' *ᵥ v) i = (C *ᵥ v) i + c i * (C *ᵥ v) x := by
    intro i
    simp only [Matrix.mulVec, dotProduct, hC i, Pi.add_apply, Pi.smul_apply, smul_eq_mul]
    rw [Finset.mul_sum, ← Finset.sum_add_distrib]
    apply Finset.sum_congr rfl
    intro j _; ring
  constructor
  · intro h0
    have hx : (C *ᵥ v) x = 0 := by
      have := congrFun h0 x
      rw [key x, hcx] at this
      simpa using this
    funext i
    have := congrFun h0 i
    rw [key i, hx] at this
    simpa using this
  · intro h0
    funext i
    rw [key i, congrFun h0 i, congrFun h0 x]
    simp

/-- permuting rows does not change the kernel -/
theorem KerEq.rowperm {C B : Matrix (Fin m) (Fin n) F2} {Q : Matrix (Fin n) (Fin n) F2}
    (h : KerEq C B Q) (σ : Fin m ≃ Fin m) : KerEq (C.submatrix σ id) B Q := by
  intro v
  rw [← h v]
  constructor
  · intro h0
    funext i
    have := congrFun h0 (σ.symm i)
    simpa [Matrix.mulVec, dotProduct] using this
  · intro h0
    funext i
    have := congrFun h0 (σ i)
    simpa [Matrix.mulVec, dotProduct] using this

/-- a column operation, applied to the current matrix and to the label matrix alike, keeps the invariant -/
theorem KerEq.colop {C B : Matrix (Fin m) (Fin n) F2} {Q T : Matrix (Fin n) (Fin n) F2}
    (h : KerEq C B Q) : KerEq (C * T) B (Q * T) := by
  intro v
  rw [← Matrix.mul_assoc, ← Matrix.mulVec_mulVec, ← Matrix.mulVec_mulVec (v := v) (M := B * Q)]
  exact h (T *ᵥ v)

/-- **what `Z` returns**: if column `j` of the reduced matrix is zero, the chain recorded in column `j` of
`Q` has zero boundary -/
theorem KerEq.zero_col {C B : Matrix (Fin m) (Fin n) F2} {Q : Matrix (Fin n) (Fin n) F2}
    (h : KerEq C B Q) (j : Fin n) (hj : ∀ i, C i j = 0) : B *ᵥ (fun s => Q s j) = 0 := by
  have h1 : C *ᵥ (Pi.single j 1) = 0 := by
    funext i
    simp [Matrix.mulVec_single, hj i]
  have h2 := (h _).mp h1
  rw [← Matrix.mulVec_mulVec] at h2
  have : Q *ᵥ (Pi.single j 1) = fun s => Q s j := by
    funext s; simp [Matrix.mulVec_single]
  rw [this] at h2
  exact h2

/-- the recorded chains are linearly independent because `Q` is invertible -/
theorem cols_independent {Q Q' : Matrix (Fin n) (Fin n) F2} (hQ : Q' * Q = 1) :
    LinearIndependent F2 (fun j : Fin n => (fun s => Q s j)) := by
  rw [Fintype.linearIndependent_iff]
  intro g hg j
  -- Σ g_j • col_j = Q *ᵥ g
  have h1 : Q *ᵥ g = 0 := by
    funext s
    have := congrFun hg s
    simp only [Finset.sum_apply, Pi.smul_apply, smul_eq_mul, Pi.zero_apply] at this
    simp only [Matrix.mulVec, dotProduct, Pi.zero_apply]
    rw [← this]
    apply Finset.sum_congr rfl
    intro x _; ring
  have h2 : (Q' * Q) *ᵥ g = 0 := by rw [← Matrix.mulVec_mulVec, h1, Matrix.mulVec_zero]
  rw [hQ, Matrix.one_mulVec] at h2
  exact congrFun h2 j

#print axioms KerEq.rowop
#print axioms KerEq.zero_col
#print axioms cols_independent
