import Sx.Model

import Sx.Proofs.FlatBasis7
import Sx.Proofs.Cycle
import Sx.Proofs.FlatCmp

/-! spike (C11) part 1: `_isClosed` on k+1 distinct (k-1)-simplices of a valid complex means exactly
"they are the facets of one k-set" (cycle lemma + counting). -/
namespace Flat
open Finset

theorem count_flatMap_faces (cand : List (Simp Name)) (hnd : ∀ σ ∈ cand, σ.faces.Nodup) (f : Name) :
    (cand.flatMap (·.faces)).count f = (cand.filter (fun σ => σ.faces.contains f)).length := by
  induction cand with
  | nil => simp
  | cons σ rest ih =>
    rw [List.flatMap_cons, List.count_append, ih (fun τ hτ => hnd τ (List.mem_cons_of_mem _ hτ))]
    rw [List.filter_cons]
    by_cases hf : f ∈ σ.faces
    · have : σ.faces.contains f = true := by simpa using hf
      rw [if_pos this, List.count_eq_one_of_mem (hnd σ List.mem_cons_self) hf]
      simp; omega
    · have : σ.faces.contains f = false := by simpa using hf
      rw [this, List.count_eq_zero_of_not_mem hf]
      simp

/-- the point sets of same-order simplices of a valid complex determine the simplices -/
theorem pts_injOn {c : C} (hI : Inv c) {k : Nat} {cand : List (Simp Name)}
    (hmem : ∀ σ ∈ cand, σ ∈ c.simps ∧ σ.order = k) :
    Set.InjOn Simp.pts (cand.toFinset : Set (Simp Name)) := by
  intro a ha b hb hab
  simp only [Finset.mem_coe, List.mem_toFinset] at ha hb
  apply hI.uniq a (hmem a ha).1 b (hmem b hb).1 (by rw [(hmem a ha).2, (hmem b hb).2])
  intro p
  have := Finset.ext_iff.mp hab p
  simpa [Simp.pts] using this

theorem closed_facets {c : C} (hI : Inv c) {k : Nat} (hk : 2 ≤ k) {cand : List (Simp Name)}
    (hnd : cand.Nodup) (hmem : ∀ σ ∈ cand, σ ∈ c.simps ∧ σ.order = k - 1) (hlen : cand.length = k + 1)
    (hcl : isClosed cand = true) :
    ∃ B : Finset Name, B.card = k + 1 ∧ cand.toFinset.image Simp.pts = B.powersetCard k := by
  classical
  have hinj := pts_injOn hI hmem
  apply cycle_lemma k hk
  · intro X hX
    obtain ⟨σ, hσ, rfl⟩ := Finset.mem_image.mp hX
    rw [List.mem_toFinset] at hσ
    rw [hI.pts_card (hmem σ hσ).1, (hmem σ hσ).2]; omega
  · rw [Finset.card_image_of_injOn hinj, List.toFinset_card_of_nodup hnd, hlen]
  · intro τ hτ
    -- count through the list
    have hcount : ((cand.toFinset.image Simp.pts).filter (fun X => τ ⊆ X)).card =
        (cand.filter (fun σ => decide (τ ⊆ σ.pts))).length := by
      rw [Finset.filter_image, Finset.card_image_of_injOn (hinj.mono (by
        intro x hx; simp only [Finset.coe_filter, Set.mem_setOf_eq] at hx; exact hx.1))]
      rw [← List.toFinset_card_of_nodup (hnd.filter _)]
      congr 1
      ext σ
      simp [List.mem_filter]
    rw [hcount]
    by_cases hex : ∃ u ∈ c.simps, u.pts = τ
    · obtain ⟨u, hu, hup⟩ := hex
      have huo : u.order = k - 2 := by
        have := hI.pts_card hu; rw [hup, hτ] at this; omega
      have heq : cand.filter (fun σ => decide (τ ⊆ σ.pts)) = cand.filter (fun σ => σ.faces.contains u.name) := by
        apply List.filter_congr
        intro σ hσ
        have hσ' := hmem σ hσ
        have := hI.faces_are_facets hσ'.1 hu (by omega)
        by_cases h1 : τ ⊆ σ.pts
        · have : u.name ∈ σ.faces := this.mpr ⟨by omega, hup ▸ h1⟩
          simp [h1, this]
        · have : u.name ∉ σ.faces := fun hm => h1 (hup ▸ (this.mp hm).2)
          simp [h1, this]
      rw [heq, ← count_flatMap_faces cand (fun σ hσ => (hI.faces_len (hmem σ hσ).1).1)]
      by_cases hin : u.name ∈ cand.flatMap (·.faces)
      · unfold isClosed at hcl
        simp only [List.all_eq_true, beq_iff_eq] at hcl
        have := hcl u.name hin
        exact Nat.even_iff.mpr this
      · rw [List.count_eq_zero_of_not_mem hin]; exact ⟨0, rfl⟩
    · have : cand.filter (fun σ => decide (τ ⊆ σ.pts)) = [] := by
        rw [List.filter_eq_nil_iff]
        intro σ hσ hsub
        simp only [decide_eq_true_eq] at hsub
        apply hex
        have hne : τ.Nonempty := by rw [← Finset.card_pos]; omega
        exact hI.subset_simplex (hmem σ hσ).1 hsub hne
      rw [this]; exact ⟨0, rfl⟩

#print axioms closed_facets
end Flat
