import Sx.Model
import Sx.Proofs.FlatStar

namespace Flat
set_option linter.unusedSectionVars false
variable {α : Type} [DecidableEq α]

theorem forceDelete_eq_remove {c : Cx α} {n : α}
    (h : ∀ t ∈ c.simps, t.name ≠ n → n ∉ t.faces ∧ n ∉ t.basis) : c.forceDelete n = c.remove n := by
  unfold Cx.forceDelete Cx.remove
  congr 1
  conv_rhs => rw [← List.map_id (c.simps.filter (fun t => t.name != n))]
  apply List.map_congr_left
  intro t ht
  rw [List.mem_filter] at ht
  obtain ⟨ht1, ht2⟩ := ht
  have hne : t.name ≠ n := by simpa using ht2
  obtain ⟨hf, hb⟩ := h t ht1 hne
  have e1 : t.faces.filter (· != n) = t.faces := by
    rw [List.filter_eq_self]; intro x hx; simpa using fun (e : x = n) => hf (e ▸ hx)
  have e2 : t.basis.filter (· != n) = t.basis := by
    rw [List.filter_eq_self]; intro x hx; simpa using fun (e : x = n) => hb (e ▸ hx)
  cases t; simp_all

/-- an up-closed set that contains a simplex contains everything above it -/
theorem UpClosed.of_subset {c : Cx α} (h : Inv c) {D : α → Prop} (hD : UpClosed c D) :
    ∀ (r : Nat) {t u : Simp α}, t ∈ c.simps → u ∈ c.simps → u.order = t.order + r → t.pts ⊆ u.pts →
      D t.name → D u.name := by
  classical
  intro r
  induction r with
  | zero =>
    intro t u ht hu ho hsub hDt
    have : t = u := by
      apply h.uniq t ht u hu (by omega)
      have hc : t.pts = u.pts := by
        apply Finset.eq_of_subset_of_card_le hsub
        rw [h.pts_card ht, h.pts_card hu]; omega
      intro p
      have := Finset.ext_iff.mp hc p
      simpa [Simp.pts] using this
    rw [← this]; exact hDt
  | succ r ih =>
    intro t u ht hu ho hsub hDt
    -- a facet v of u that still contains t
    obtain ⟨p, hpu, hpt⟩ : ∃ p, p ∈ u.pts ∧ p ∉ t.pts := by
      by_contra hcon
      push Not at hcon
      have : u.pts ⊆ t.pts := fun x hx => hcon x hx
      have := Finset.card_le_card this
      rw [h.pts_card ht, h.pts_card hu] at this; omega
    obtain ⟨v, hv, hvf, hvo, hvp⟩ := h.facets_exist hu (by omega) (X := u.pts.erase p)
      (Finset.erase_subset _ _) (by rw [Finset.card_erase_of_mem hpu, h.pts_card hu]; omega)
    have htv : t.pts ⊆ v.pts := by
      rw [hvp]; intro x hx
      exact Finset.mem_erase.mpr ⟨fun e => hpt (e ▸ hx), hsub hx⟩
    have hDv : D v.name := ih ht hv (by omega) htv hDt
    exact hD u hu v.name hvf hDv

/-- **deleting an up-closed set, highest orders first, by repeated `forceDelete` is plain removal**
— for *any* order of deletion that is non-increasing in simplex order (Python's order inside one
level is unspecified). -/
theorem foldl_forceDelete {c : Cx α} (hI : Inv c) (L : List (Simp α))
    (hL : ∀ t ∈ L, t ∈ c.simps) (hnd : L.Nodup)
    (hsorted : L.Pairwise (fun a b => b.order ≤ a.order))
    (hup : UpClosed c (fun n => ∃ t ∈ L, t.name = n)) :
    (L.map (·.name)).foldl Cx.forceDelete c =
      { c with simps := c.simps.filter (fun s => ¬ ∃ t ∈ L, t.name = s.name) } ∧
    Inv ((L.map (·.name)).foldl Cx.forceDelete c) := by
  classical
  induction L generalizing c with
  | nil =>
    simp only [List.map_nil, List.foldl_nil, List.not_mem_nil, false_and, exists_false,
      not_false_eq_true, decide_true, List.filter_true]
    exact ⟨by first | rfl | trivial, hI⟩
  | cons t L ih =>
    have ht : t ∈ c.simps := hL t (List.mem_cons_self)
    rw [List.pairwise_cons] at hsorted
    rw [List.nodup_cons] at hnd
    -- nothing else mentions t
    have hmention : ∀ u ∈ c.simps, u.name ≠ t.name → t.name ∉ u.faces ∧ t.name ∉ u.basis := by
      intro u hu hne
      have hDu_absurd : (∃ x ∈ t :: L, x.name = u.name) → t.pts ⊆ u.pts → t.order < u.order → False := by
        rintro ⟨x, hx, hxn⟩ _ hlt
        have hxu : x = u := hI.name_inj (hL x hx) hu hxn
        subst hxu
        rcases List.mem_cons.mp hx with rfl | hxL
        · exact hne rfl
        · have := hsorted.1 x hxL; omega
      constructor
      · intro hf
        have hpos : 0 < u.order := by
          rcases Nat.eq_zero_or_pos u.order with h0 | hp
          · rw [(hI.point u hu h0).1] at hf; simp at hf
          · exact hp
        have hfac := (hI.faces_are_facets hu ht hpos).mp hf
        have hDu := hup u hu t.name hf ⟨t, List.mem_cons_self, rfl⟩
        exact hDu_absurd hDu hfac.2 (by omega)
      · intro hb
        obtain ⟨q, hq, hqn, hq0, hqsub⟩ := hI.basis_point u.order hu rfl t.name hb
        have hqt : q = t := hI.name_inj hq ht hqn
        subst hqt
        have hlt : q.order < u.order := by
          rcases Nat.eq_zero_or_pos u.order with h0 | hp
          · exfalso
            have := (hI.point u hu h0).2
            rw [this, List.mem_singleton] at hb
            exact hne hb.symm
          · omega
        have hDu : ∃ x ∈ q :: L, x.name = u.name :=
          UpClosed.of_subset hI hup (u.order - q.order) hq hu (by omega) hqsub ⟨q, List.mem_cons_self, rfl⟩
        exact hDu_absurd hDu hqsub hlt
    have hstep : c.forceDelete t.name = c.remove t.name := forceDelete_eq_remove hmention
    -- {t} is up-closed, so removal keeps Inv
    have hI1 : Inv (c.remove t.name) := by
      have := hI.filter_upclosed (fun n => n = t.name) (by
        intro u hu f hf hft
        by_contra hne
        exact (hmention u hu hne).1 (hft ▸ hf))
      have e : c.remove t.name = { c with simps := c.simps.filter (fun s => ¬ s.name = t.name) } := by
        unfold Cx.remove; congr 1; apply List.filter_congr; intro x _
        by_cases hx : x.name = t.name <;> simp [hx]
      rw [e]; exact this
    have hmem1 : ∀ x, x ∈ (c.remove t.name).simps ↔ x ∈ c.simps ∧ x.name ≠ t.name := by
      intro x; simp [Cx.remove, List.mem_filter]
    have hL1 : ∀ x ∈ L, x ∈ (c.remove t.name).simps := by
      intro x hx
      refine (hmem1 x).mpr ⟨hL x (List.mem_cons_of_mem _ hx), ?_⟩
      intro hn
      have : x = t := hI.name_inj (hL x (List.mem_cons_of_mem _ hx)) ht hn
      exact hnd.1 (this ▸ hx)
    have hup1 : UpClosed (c.remove t.name) (fun n => ∃ x ∈ L, x.name = n) := by
      intro u hu f hf ⟨x, hx, hxn⟩
      obtain ⟨hu1, hu2⟩ := (hmem1 u).mp hu
      obtain ⟨y, hy, hyn⟩ := hup u hu1 f hf ⟨x, List.mem_cons_of_mem _ hx, hxn⟩
      rcases List.mem_cons.mp hy with rfl | hyL
      · exact absurd hyn.symm (fun e => hu2 e)
      · exact ⟨y, hyL, hyn⟩
    obtain ⟨ih1, ih2⟩ := ih hI1 hL1 hnd.2 hsorted.2 hup1
    simp only [List.map_cons, List.foldl_cons]
    rw [hstep]
    refine ⟨?_, ih2⟩
    rw [ih1]
    simp only [Cx.remove, List.filter_filter]
    congr 1
    apply List.filter_congr
    intro x _
    by_cases h1 : x.name = t.name
    · have : ∃ y ∈ t :: L, y.name = x.name := ⟨t, List.mem_cons_self, h1.symm⟩
      simp [h1, this]
    · by_cases h2 : ∃ y ∈ L, y.name = x.name
      · have : ∃ y ∈ t :: L, y.name = x.name := by
          obtain ⟨y, hy, hyn⟩ := h2; exact ⟨y, List.mem_cons_of_mem _ hy, hyn⟩
        simp [h2, this]
      · have : ¬ ∃ y ∈ t :: L, y.name = x.name := by
          rintro ⟨y, hy, hyn⟩
          rcases List.mem_cons.mp hy with rfl | hyL
          · exact h1 hyn.symm
          · exact h2 ⟨y, hyL, hyn⟩
        have h1' : ¬ t.name = x.name := fun e => h1 e.symm
        simp [h1, h1', h2]

#print axioms foldl_forceDelete
end Flat
