import Sx.Model
import Mathlib.Tactic.Linarith
import Mathlib.Tactic.FieldSimp
import Mathlib.Tactic.Ring
import Mathlib.Tactic.Positivity
import Mathlib.Data.Rat.Defs
import Mathlib.Algebra.Order.Field.Basic

/-! spike (C20): `TriangularLatticeEmbedding.computePositionOf` over ℚ. For a lattice with `nr` rows and `nc`
columns embedded in a `h × w` box (`h, w > 0`), the point `(i, j)` goes to
`x = (w / (2 nc)) · (2 j + (i mod 2))`, `y = h − (h / nr) · i`. Distinct lattice points get distinct
positions, all inside the box. (Float rounding is not modelled.) -/
namespace Lattice

def posX (w : ℚ) (nc i j : ℕ) : ℚ := (w / (2 * nc)) * (2 * j + (i % 2 : ℕ))
def posY (h : ℚ) (nr i : ℕ) : ℚ := h - (h / nr) * i

theorem posY_inj {h : ℚ} (hh : 0 < h) {nr : ℕ} (hnr : 0 < nr) {i i' : ℕ} (he : posY h nr i = posY h nr i') :
    i = i' := by
  unfold posY at he
  have hn : (nr : ℚ) ≠ 0 := by positivity
  have : (h / nr) * (i : ℚ) = (h / nr) * (i' : ℚ) := by linarith
  have hpos : (0 : ℚ) < h / nr := by positivity
  have := mul_left_cancel₀ (ne_of_gt hpos) this
  exact_mod_cast this

theorem posX_inj {w : ℚ} (hw : 0 < w) {nc : ℕ} (hnc : 0 < nc) {i j j' : ℕ}
    (he : posX w nc i j = posX w nc i j') : j = j' := by
  unfold posX at he
  have hpos : (0 : ℚ) < w / (2 * nc) := by positivity
  have := mul_left_cancel₀ (ne_of_gt hpos) he
  have h2 : (2 * (j : ℚ)) = 2 * (j' : ℚ) := by linarith
  have : (j : ℚ) = j' := by linarith
  exact_mod_cast this

/-- distinct lattice points are placed at distinct positions -/
theorem lattice_injective {h w : ℚ} (hh : 0 < h) (hw : 0 < w) {nr nc : ℕ} (hnr : 0 < nr) (hnc : 0 < nc)
    {i j i' j' : ℕ} (hx : posX w nc i j = posX w nc i' j') (hy : posY h nr i = posY h nr i') :
    i = i' ∧ j = j' := by
  have hi := posY_inj hh hnr hy
  subst hi
  exact ⟨rfl, posX_inj hw hnc hx⟩

/-- every lattice point lies inside the `h × w` box -/
theorem lattice_in_box {h w : ℚ} (hh : 0 < h) (hw : 0 < w) {nr nc i j : ℕ} (hi : i < nr) (hj : j < nc) :
    0 ≤ posX w nc i j ∧ posX w nc i j ≤ w ∧ 0 ≤ posY h nr i ∧ posY h nr i ≤ h := by
  have hnr : (0 : ℚ) < nr := by exact_mod_cast (Nat.lt_of_le_of_lt (Nat.zero_le _) hi)
  have hnc : (0 : ℚ) < nc := by exact_mod_cast (Nat.lt_of_le_of_lt (Nat.zero_le _) hj)
  have hmod : ((i % 2 : ℕ) : ℚ) ≤ 1 := by
    have : i % 2 < 2 := Nat.mod_lt _ (by omega)
    exact_mod_cast (by omega : i % 2 ≤ 1)
  have hj' : (j : ℚ) + 1 ≤ nc := by exact_mod_cast hj
  have hi' : (i : ℚ) + 1 ≤ nr := by exact_mod_cast hi
  refine ⟨?_, ?_, ?_, ?_⟩
  · unfold posX; positivity
  · unfold posX
    rw [div_mul_eq_mul_div, div_le_iff₀ (by positivity)]
    have : (2 * (j : ℚ) + ((i % 2 : ℕ) : ℚ)) ≤ 2 * nc := by linarith
    nlinarith
  · unfold posY
    have : h / nr * i ≤ h := by
      rw [div_mul_eq_mul_div, div_le_iff₀ hnr]
      nlinarith
    linarith
  · unfold posY
    have : 0 ≤ h / nr * i := by positivity
    linarith

#print axioms lattice_injective
#print axioms lattice_in_box
end Lattice
