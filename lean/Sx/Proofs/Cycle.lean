import Sx.Model
import Mathlib.Data.Finset.Powerset
import Mathlib.Data.Finset.Card
import Mathlib.Algebra.Group.Even
import Mathlib.Algebra.Ring.Parity
import Mathlib.Data.Nat.Choose.Basic

open Finset

/-- **Cycle lemma.** `k+1` distinct `k`-sets such that every `(k-1)`-set lies in an even number of them
are exactly the `k`-subsets of one `(k+1)`-set.  (`k ≥ 2`.) -/
theorem cycle_lemma {V : Type*} [DecidableEq V] (k : ℕ) (hk : 2 ≤ k) (F : Finset (Finset V))
    (hcard : ∀ σ ∈ F, σ.card = k) (hF : F.card = k + 1)
    (heven : ∀ τ : Finset V, τ.card = k - 1 → Even ((F.filter (fun σ => τ ⊆ σ)).card)) :
    ∃ B : Finset V, B.card = k + 1 ∧ F = B.powersetCard k := by
  classical
  -- pick σ
  have hne : F.Nonempty := by
    rw [← Finset.card_pos]; omega
  obtain ⟨σ, hσ⟩ := hne
  have hσc := hcard σ hσ
  -- every facet of σ lies in another member
  have step1 : ∀ v ∈ σ, ∃ σ' w, σ' ∈ F ∧ σ' ≠ σ ∧ w ∉ σ ∧ σ' = insert w (σ.erase v) := by
    intro v hv
    have hτ : (σ.erase v).card = k - 1 := by rw [Finset.card_erase_of_mem hv, hσc]
    have hev := heven _ hτ
    have hmem : σ ∈ F.filter (fun σ' => σ.erase v ⊆ σ') := by
      simp [hσ, Finset.erase_subset]
    have h2 : 1 < (F.filter (fun σ' => σ.erase v ⊆ σ')).card := by
      have hpos : 0 < (F.filter (fun σ' => σ.erase v ⊆ σ')).card := Finset.card_pos.mpr ⟨σ, hmem⟩
      rcases hev with ⟨r, hr⟩
      omega
    obtain ⟨a, ha, b, hb, hab⟩ := Finset.one_lt_card.mp h2
    -- one of a, b differs from σ
    obtain ⟨σ', hσ'mem, hσ'ne⟩ : ∃ σ', σ' ∈ F.filter (fun σ' => σ.erase v ⊆ σ') ∧ σ' ≠ σ := by
      by_cases h : a = σ
      · exact ⟨b, hb, fun hb' => hab (h.trans hb'.symm)⟩
      · exact ⟨a, ha, h⟩
    rw [Finset.mem_filter] at hσ'mem
    obtain ⟨hσ'F, hsub⟩ := hσ'mem
    have hσ'c := hcard σ' hσ'F
    -- σ' \ erase has exactly one element
    have hdiff : (σ' \ σ.erase v).card = 1 := by
      rw [Finset.card_sdiff_of_subset hsub, hσ'c, hτ]; omega
    obtain ⟨w, hw⟩ := Finset.card_eq_one.mp hdiff
    have hwmem : w ∈ σ' \ σ.erase v := by rw [hw]; exact Finset.mem_singleton_self w
    rw [Finset.mem_sdiff] at hwmem
    have hσ'eq : σ' = insert w (σ.erase v) := by
      ext x
      constructor
      · intro hx
        by_cases hxe : x ∈ σ.erase v
        · exact Finset.mem_insert_of_mem hxe
        · have : x ∈ σ' \ σ.erase v := Finset.mem_sdiff.mpr ⟨hx, hxe⟩
          rw [hw, Finset.mem_singleton] at this
          rw [this]; exact Finset.mem_insert_self _ _
      · intro hx
        rcases Finset.mem_insert.mp hx with rfl | hx
        · exact hwmem.1
        · exact hsub hx
    refine ⟨σ', w, hσ'F, hσ'ne, ?_, hσ'eq⟩
    intro hwσ
    -- then w = v and σ' = σ
    have : w = v := by
      by_contra hne
      exact hwmem.2 (Finset.mem_erase.mpr ⟨hne, hwσ⟩)
    subst this
    apply hσ'ne
    rw [hσ'eq, Finset.insert_erase hv]
  choose! g w hg using step1
  -- g is injective on σ, and g v ≠ σ
  have hginj : Set.InjOn g σ := by
    intro v hv v' hv' hgv
    have h1 := (hg v hv).2.2.2
    have h2 := (hg v' hv').2.2.2
    have hw1 := (hg v hv).2.2.1
    have hw2 := (hg v' hv').2.2.1
    -- σ ∩ g v = σ.erase v
    have e1 : σ ∩ g v = σ.erase v := by
      rw [h1]; ext x; simp only [Finset.mem_inter, Finset.mem_insert, Finset.mem_erase]
      constructor
      · rintro ⟨hxσ, rfl | hx⟩
        · exact absurd hxσ hw1
        · exact hx
      · intro hx; exact ⟨hx.2, Or.inr hx⟩
    have e2 : σ ∩ g v' = σ.erase v' := by
      rw [h2]; ext x; simp only [Finset.mem_inter, Finset.mem_insert, Finset.mem_erase]
      constructor
      · rintro ⟨hxσ, rfl | hx⟩
        · exact absurd hxσ hw2
        · exact hx
      · intro hx; exact ⟨hx.2, Or.inr hx⟩
    have : σ.erase v = σ.erase v' := by rw [← e1, ← e2, hgv]
    by_contra hne
    have : v' ∈ σ.erase v := Finset.mem_erase.mpr ⟨fun h => hne h.symm, hv'⟩
    rw [‹σ.erase v = σ.erase v'›] at this
    exact (Finset.notMem_erase v' σ) this
  -- F = insert σ (σ.image g)
  have hF' : insert σ (σ.image g) = F := by
    apply Finset.eq_of_subset_of_card_le
    · intro x hx
      rcases Finset.mem_insert.mp hx with rfl | hx
      · exact hσ
      · obtain ⟨v, hv, rfl⟩ := Finset.mem_image.mp hx
        exact (hg v hv).1
    · have hnot : σ ∉ σ.image g := by
        intro h
        obtain ⟨v, hv, hgv⟩ := Finset.mem_image.mp h
        exact (hg v hv).2.1 hgv
      rw [Finset.card_insert_of_notMem hnot, Finset.card_image_of_injOn hginj, hσc, hF]
  -- all w agree
  have hwall : ∀ v ∈ σ, ∀ v' ∈ σ, v ≠ v' → w v' = w v := by
    intro v hv v' hv' hne
    have hgv := (hg v hv).2.2.2
    have hwv := (hg v hv).2.2.1
    set ρ := insert (w v) ((σ.erase v).erase v') with hρ
    have hρc : ρ.card = k - 1 := by
      have hv'mem : v' ∈ σ.erase v := Finset.mem_erase.mpr ⟨fun h => hne h.symm, hv'⟩
      have hnot : w v ∉ (σ.erase v).erase v' := fun h => hwv (Finset.mem_of_mem_erase (Finset.mem_of_mem_erase h))
      rw [hρ, Finset.card_insert_of_notMem hnot, Finset.card_erase_of_mem hv'mem,
        Finset.card_erase_of_mem hv, hσc]
      omega
    have hev := heven ρ hρc
    have hρsub : ρ ⊆ g v := by
      rw [hgv, hρ]
      exact Finset.insert_subset_insert _ (Finset.erase_subset _ _)
    have hmem : g v ∈ F.filter (fun σ' => ρ ⊆ σ') := Finset.mem_filter.mpr ⟨(hg v hv).1, hρsub⟩
    have h2 : 1 < (F.filter (fun σ' => ρ ⊆ σ')).card := by
      have hpos : 0 < (F.filter (fun σ' => ρ ⊆ σ')).card := Finset.card_pos.mpr ⟨_, hmem⟩
      rcases hev with ⟨r, hr⟩
      omega
    obtain ⟨a, ha, b, hb, hab⟩ := Finset.one_lt_card.mp h2
    obtain ⟨X, hXmem, hXne⟩ : ∃ X, X ∈ F.filter (fun σ' => ρ ⊆ σ') ∧ X ≠ g v := by
      by_cases h : a = g v
      · exact ⟨b, hb, fun hb' => hab (h.trans hb'.symm)⟩
      · exact ⟨a, ha, h⟩
    rw [Finset.mem_filter] at hXmem
    obtain ⟨hXF, hρX⟩ := hXmem
    have hwX : w v ∈ X := hρX (Finset.mem_insert_self _ _)
    rw [← hF'] at hXF
    rcases Finset.mem_insert.mp hXF with rfl | hXim
    · exact absurd hwX hwv
    · obtain ⟨u, hu, rfl⟩ := Finset.mem_image.mp hXim
      have hgu := (hg u hu).2.2.2
      have hwu := (hg u hu).2.2.1
      have huv : u ≠ v := fun h => hXne (by rw [h])
      -- w v = w u
      have hwvu : w v = w u := by
        rw [hgu] at hwX
        rcases Finset.mem_insert.mp hwX with h | h
        · exact h
        · exact absurd (Finset.mem_of_mem_erase h) hwv
      -- u = v'
      have huv' : u = v' := by
        by_contra hne'
        have humem : u ∈ ρ := by
          rw [hρ]
          exact Finset.mem_insert_of_mem (Finset.mem_erase.mpr ⟨hne', Finset.mem_erase.mpr ⟨huv, hu⟩⟩)
        have := hρX humem
        rw [hgu] at this
        rcases Finset.mem_insert.mp this with h | h
        · exact hwu (h ▸ hu)
        · exact (Finset.notMem_erase u σ) h
      rw [← huv', ← hwvu]
  -- a common apex
  have hσne : σ.Nonempty := by rw [← Finset.card_pos]; omega
  obtain ⟨v0, hv0⟩ := hσne
  have hw0 : ∀ v ∈ σ, w v = w v0 := by
    intro v hv
    by_cases h : v = v0
    · rw [h]
    · exact hwall v0 hv0 v hv (fun h' => h h'.symm)
  have hw0σ : w v0 ∉ σ := (hg v0 hv0).2.2.1
  refine ⟨insert (w v0) σ, ?_, ?_⟩
  · rw [Finset.card_insert_of_notMem hw0σ, hσc]
  · apply Finset.eq_of_subset_of_card_le
    · intro X hX
      rw [Finset.mem_powersetCard]
      refine ⟨?_, hcard X hX⟩
      rw [← hF'] at hX
      rcases Finset.mem_insert.mp hX with rfl | hXim
      · exact Finset.subset_insert _ _
      · obtain ⟨u, hu, rfl⟩ := Finset.mem_image.mp hXim
        rw [(hg u hu).2.2.2, hw0 u hu]
        exact Finset.insert_subset_insert _ (Finset.erase_subset _ _)
    · rw [Finset.card_powersetCard, Finset.card_insert_of_notMem hw0σ, hσc, hF,
        Nat.choose_succ_self_right]

#print axioms cycle_lemma
