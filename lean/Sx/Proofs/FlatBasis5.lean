import Sx.Model
import Sx.Proofs.FlatBasis4

/-! spike (C02) part 4: helper lemmas for the effect theorem of `_addSimplexWithBasis` -/
namespace Flat

theorem dropOne_length (b : List Name) : (dropOne b).length = b.length := by
  induction b with
  | nil => simp [dropOne]
  | cons x xs ih => simp [dropOne, ih]

theorem sublist_insertSorted (s : Simp Name) (l : List (Simp Name)) : l.Sublist (insertSorted s l) := by
  induction l with
  | nil => simp [insertSorted]
  | cons t ts ih =>
    unfold insertSorted
    split
    · exact ih.cons₂ t
    · exact List.sublist_cons_self s (t :: ts)

theorem maxOrder_ge {c : C} (hI : Inv c) {t : Simp Name} (ht : t ∈ c.simps) : (t.order : Int) ≤ c.maxOrder := by
  unfold Cx.maxOrder
  cases hl : c.simps.getLast? with
  | none =>
    rw [List.getLast?_eq_none_iff] at hl
    rw [hl] at ht; simp at ht
  | some s =>
    simp only
    have hs : s ∈ c.simps := List.mem_of_getLast? hl
    -- s is the last element; sortedness gives t.order ≤ s.order
    obtain ⟨l, hl'⟩ : ∃ l, c.simps = l ++ [s] := by
      have := List.getLast?_eq_some_iff.mp hl
      exact this
    have hsorted := hI.sorted
    rw [hl'] at hsorted ht
    rw [List.pairwise_append] at hsorted
    rcases List.mem_append.mp ht with h | h
    · have := hsorted.2.2 t h s (by simp)
      exact_mod_cast this
    · simp at h; subst h; exact le_refl _

/-- extension of a complex by simplices whose point sets satisfy `P` -/
structure Ext (P : Finset Name → Prop) (c c' : C) : Prop where
  inv : Inv c'
  sub : c.simps.Sublist c'.simps
  new : ∀ t ∈ c'.simps, t ∈ c.simps ∨ P t.pts

theorem Ext.refl {P : Finset Name → Prop} {c : C} (h : Inv c) : Ext P c c :=
  ⟨h, List.Sublist.refl _, fun _ ht => Or.inl ht⟩

theorem Ext.trans {P Q : Finset Name → Prop} {c c' c'' : C} (h1 : Ext P c c') (h2 : Ext Q c' c'')
    (hQP : ∀ X, Q X → P X) : Ext P c c'' :=
  ⟨h2.inv, h1.sub.trans h2.sub, fun t ht => by
    rcases h2.new t ht with h | h
    · exact h1.new t h
    · exact Or.inr (hQP _ h)⟩

theorem Ext.mono {P Q : Finset Name → Prop} {c c' : C} (h : Ext Q c c') (hQP : ∀ X, Q X → P X) : Ext P c c' :=
  ⟨h.inv, h.sub, fun t ht => (h.new t ht).imp id (hQP _)⟩

theorem PtsIn.mono {c c' : C} {b : List Name} (h : PtsIn c b) (hs : c.simps.Sublist c'.simps) : PtsIn c' b :=
  fun p hp => by obtain ⟨t, ht, h1, h2⟩ := h p hp; exact ⟨t, hs.subset ht, h1, h2⟩

theorem PtsIn.sublist {c : C} {b q : List Name} (h : PtsIn c b) (hq : q.Sublist b) : PtsIn c q :=
  fun p hp => h p (hq.subset hp)

theorem contains_false_iff {c : C} {n : Name} : c.contains n = false ↔ ∀ t ∈ c.simps, t.name ≠ n := by
  rw [← Bool.not_eq_true, contains_iff]
  push Not
  rfl

/-- the union of the facets of a list with ≥ 2 distinct elements is the whole list -/
theorem facets_cover {b : List Name} (hb : b.Nodup) (h2 : 2 ≤ b.length) {x : Name} (hx : x ∈ b) :
    ∃ q ∈ dropOne b, x ∈ q := by
  -- remove some other element y ≠ x
  obtain ⟨y, hy, hxy⟩ : ∃ y ∈ b, y ≠ x := by
    match b, hb, h2, hx with
    | a :: a' :: rest, hb, _, hx =>
      rw [List.nodup_cons] at hb
      by_cases h : a = x
      · refine ⟨a', by simp, ?_⟩
        intro e; apply hb.1; rw [h, ← e]; simp
      · exact ⟨a, by simp, h⟩
  obtain ⟨q, hq, hqe⟩ := dropOne_cover hb hy
  refine ⟨q, hq, ?_⟩
  have : x ∈ q.toFinset := by
    rw [hqe, Finset.mem_erase]; exact ⟨fun e => hxy e.symm, List.mem_toFinset.mpr hx⟩
  exact List.mem_toFinset.mp this

end Flat
