import Sx.Model
/-! spike (C08/C09): the heap layer. Representations and attribute dicts are cells with identities;
a complex object is a handle (index of its representation cell). A *copying* constructor allocates fresh
cells; a *sharing* one (the current `flagComplex` via `copy.copy`, `compose` passing `c[s]`) re-uses ids.
Core Lean only. -/
namespace Heap

variable {σ δ : Type}

/-- a frame lemma: mutating `h` leaves every other representation and every dict alone -/
theorem mutate_frame (w : World σ δ) (h : Nat) (f : Rep σ → Rep σ) :
    (∀ i, i ≠ h → (w.mutate h f).rep? i = w.rep? i) ∧ (∀ d, (w.mutate h f).dict? d = w.dict? d) := by
  constructor
  · intro i hi
    unfold World.mutate World.rep?
    cases hh : w.reps[h]? with
    | none => rfl
    | some r => simp only; rw [List.getElem?_set_ne (fun e => hi e.symm)]
  · intro d; rfl

theorem dictSet_frame (w : World σ δ) (d : Nat) (g : δ → δ) :
    (∀ i, (w.dictSet d g).rep? i = w.rep? i) ∧ (∀ e, e ≠ d → (w.dictSet d g).dict? e = w.dict? e) := by
  constructor
  · intro i; rfl
  · intro e he
    unfold World.dictSet World.dict?
    cases hh : w.dicts[d]? with
    | none => rfl
    | some x => simp only; rw [List.getElem?_set_ne (fun e' => he e'.symm)]

/-- **a copying constructor returns fresh cells and changes no existing cell** (C08 for `copy`, C09 freshness) -/
theorem copyCx_fresh (w w' : World σ δ) (h h' : Nat) (hc : w.copyCx h = some (h', w')) :
    h' = w.reps.length ∧
    (∀ i, i < w.reps.length → w'.rep? i = w.rep? i) ∧
    (∀ d, d < w.dicts.length → w'.dict? d = w.dict? d) ∧
    (∀ r', w'.rep? h' = some r' → ∀ d ∈ r'.attrs, w.dicts.length ≤ d) := by
  unfold World.copyCx at hc
  cases hr : w.reps[h]? with
  | none => rw [hr] at hc; cases hc
  | some r =>
    rw [hr] at hc
    simp only [Option.some.injEq, Prod.mk.injEq] at hc
    obtain ⟨rfl, rfl⟩ := hc
    refine ⟨rfl, ?_, ?_, ?_⟩
    · intro i hi; simp [World.rep?, List.getElem?_append_left hi]
    · intro d hd; simp [World.dict?, List.getElem?_append_left hd]
    · intro r' hr' d hd
      simp only [World.rep?, List.getElem?_append_right (Nat.le_refl _), Nat.sub_self,
        List.getElem?_cons_zero, Option.some.injEq] at hr'
      subst hr'
      simp only [List.mem_map, List.mem_range] at hd
      obtain ⟨a, -, rfl⟩ := hd
      omega

/-- **independence** (C09): after a copying constructor, any mutation of the copy (its representation or one
of its dicts) is invisible through the source handle, and vice versa -/
theorem copy_independent (w w' : World σ δ) (h h' : Nat) (hc : w.copyCx h = some (h', w'))
    (hh : h < w.reps.length) (f : Rep σ → Rep σ) :
    (w'.mutate h' f).rep? h = w.rep? h ∧ (w'.mutate h f).rep? h' = w'.rep? h' := by
  obtain ⟨e, hreps, -, -⟩ := copyCx_fresh w w' h h' hc
  constructor
  · rw [(mutate_frame w' h' f).1 h (by omega), hreps h hh]
  · exact (mutate_frame w' h f).1 h' (by omega)

theorem copy_dict_independent (w w' : World σ δ) (h h' : Nat) (hc : w.copyCx h = some (h', w'))
    (r' : Rep σ) (hr' : w'.rep? h' = some r') (d : Nat) (hd : d ∈ r'.attrs) (g : δ → δ) :
    ∀ e, e < w.dicts.length → (w'.dictSet d g).dict? e = w.dict? e := by
  obtain ⟨_, _, hdicts, hfresh⟩ := copyCx_fresh w w' h h' hc
  intro e he
  rw [(dictSet_frame w' d g).2 e (by have := hfresh r' hr' d hd; omega), hdicts e he]

/-- whereas the sharing constructor is *not* independent: a mutation through the new handle is a mutation
of the receiver (this is D10) -/
theorem shallow_aliases (w : World σ δ) (h : Nat) (f : Rep σ → Rep σ) (r : Rep σ) (hr : w.rep? h = some r) :
    ((w.shallow h).2.mutate (w.shallow h).1 f).rep? h = some (f r) := by
  unfold World.shallow World.mutate World.rep? at *
  simp only [hr]
  rw [List.getElem?_set_self]
  exact (List.getElem?_eq_some_iff.mp hr).1

#print axioms copyCx_fresh
#print axioms copy_independent
end Heap
