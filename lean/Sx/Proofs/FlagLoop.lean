import Sx.Model
import Sx.Proofs.FlagComplete
import Sx.Proofs.FlatDelete

/-! spike (C11) part 7: the outer `while` loop of `_completePotentialSimplices`, from-scratch case
(every simplex of order ≥ 1 is listed in `nss`, as `flagComplex` seeds it after the repair) -/
namespace Flat
open Finset

theorem nssGet_set_same (nss : List (Nat × List Name)) (k : Nat) (v : List Name) :
    nssGet (nssSet nss k v) k = some v := by
  simp [nssGet, nssSet]

theorem find?_filter_ne (nss : List (Nat × List Name)) {k j : Nat} (h : j ≠ k) :
    (nss.filter (fun x => x.1 != k)).find? (fun x => x.1 == j) = nss.find? (fun x => x.1 == j) := by
  induction nss with
  | nil => rfl
  | cons p ps ih =>
    obtain ⟨a, b⟩ := p
    by_cases hp : a = k
    · subst hp
      have h1 : ((a, b).1 != a) = false := by simp
      have h2 : ((a, b).1 == j) = false := by simp; omega
      rw [List.filter_cons]
      simp only [h1, Bool.false_eq_true, if_false]
      rw [List.find?_cons, h2]
      exact ih
    · have h1 : ((a, b).1 != k) = true := by simp [hp]
      rw [List.filter_cons]
      simp only [h1, if_true]
      rw [List.find?_cons, List.find?_cons]
      by_cases hpj : a = j
      · have : ((a, b).1 == j) = true := by simp [hpj]
        rw [this]
      · have : ((a, b).1 == j) = false := by simp [hpj]
        rw [this]; exact ih

theorem nssGet_set_ne (nss : List (Nat × List Name)) {k j : Nat} (v : List Name) (h : j ≠ k) :
    nssGet (nssSet nss k v) j = nssGet nss j := by
  unfold nssGet nssSet
  have hkj : ((k, v).1 == j) = false := by simp; omega
  rw [List.find?_cons, hkj]
  simp only
  rw [find?_filter_ne nss h]

/-- every (j+1)-set all of whose facets are simplices is itself a simplex -/
def CompleteAt (c : C) (j : Nat) : Prop :=
  ∀ X : Finset Name, X.card = j + 1 → (∀ Y ∈ X.powersetCard j, ∃ t ∈ c.simps, t.pts = Y) →
    ∃ s ∈ c.simps, s.pts = X

theorem filter_eq_of_sublist {β : Type} {p : β → Bool} {l1 l2 : List β} (h : l1.Sublist l2) (hnd : l2.Nodup)
    (hp : ∀ t ∈ l2, t ∉ l1 → p t = false) : l2.filter p = l1.filter p := by
  induction h with
  | slnil => rfl
  | cons a h ih =>
    rename_i l1 l2
    rw [List.nodup_cons] at hnd
    have ha : a ∉ l1 := fun hin => hnd.1 (h.subset hin)
    rw [List.filter_cons_of_neg (by simpa using hp a List.mem_cons_self ha)]
    exact ih hnd.2 (fun t ht hnot => hp t (List.mem_cons_of_mem _ ht) hnot)
  | cons_cons a h ih =>
    rename_i l1 l2
    rw [List.nodup_cons] at hnd
    simp only [List.filter_cons]
    rw [ih hnd.2 (fun t ht hnot => hp t (List.mem_cons_of_mem _ ht) (by
      intro hin
      rcases List.mem_cons.mp hin with rfl | hin
      · exact hnd.1 ht
      · exact hnot hin))]

/-- the order of a simplex is below the number of points -/
theorem order_lt_points {c : C} (hI : Inv c) {t : Simp Name} (ht : t ∈ c.simps) :
    t.order + 1 ≤ (c.ofOrder 0).length := by
  classical
  have hsub : t.pts ⊆ ((c.ofOrder 0).map (·.name)).toFinset := by
    intro p hp
    rw [Simp.pts, List.mem_toFinset] at hp
    obtain ⟨q, hq, hqn, hq0, -⟩ := hI.basis_point t.order ht rfl p hp
    rw [List.mem_toFinset, List.mem_map]
    refine ⟨q, ?_, hqn⟩
    unfold Cx.ofOrder; rw [List.mem_filter]; exact ⟨hq, by simpa using hq0⟩
  have := Finset.card_le_card hsub
  rw [hI.pts_card ht] at this
  exact this.trans ((List.toFinset_card_le _).trans (by simp))

structure LoopInv (cin c : C) (nss : List (Nat × List Name)) (k maxk M : Nat) : Prop where
  kpos : 1 ≤ k
  inv : Inv c
  sub : cin.simps.Sublist c.simps
  new : ∀ t ∈ c.simps, t ∈ cin.simps ∨ 2 ≤ t.order
  cover : ∀ t ∈ c.simps, 1 ≤ t.order → ∃ names, nssGet nss t.order = some names ∧ t.name ∈ names
  bound : ∀ t ∈ c.simps, 1 ≤ t.order → t.order ≤ maxk
  complete : ∀ j, 2 ≤ j → j ≤ k → CompleteAt c j
  mkM : maxk ≤ M
  pm : (cin.ofOrder 0).length ≤ M + 1

/-- once `k` has passed `maxk + 1`, everything above is complete as well -/
theorem LoopInv.finish {cin c nss k maxk M} (h : LoopInv cin c nss k maxk M) (hk : maxk + 1 < k) :
    ∀ j, 2 ≤ j → CompleteAt c j := by
  intro j hj
  by_cases hjk : j ≤ k
  · exact h.complete j hj hjk
  · intro X hX hfac
    exfalso
    -- some facet exists, of order j-1 > maxk
    have hne : (X.powersetCard j).Nonempty := by
      rw [Finset.powersetCard_nonempty]; omega
    obtain ⟨Y, hY⟩ := hne
    obtain ⟨t, ht, htp⟩ := hfac Y hY
    have hto : t.order + 1 = j := by
      have := h.inv.pts_card ht
      rw [htp, (Finset.mem_powersetCard.mp hY).2] at this; omega
    have := h.bound t ht (by omega)
    omega

theorem completeLoop_spec (cin : C) (hIin : Inv cin) (M : Nat) :
    ∀ (fuel : Nat) (c : C) (nss : List (Nat × List Name)) (k maxk : Nat),
      LoopInv cin c nss k maxk M → M + 3 ≤ fuel + k →
      ∃ c', completeLoop fuel c nss k maxk = (.ok (), c') ∧ Inv c' ∧ cin.simps.Sublist c'.simps ∧
        (∀ t ∈ c'.simps, t ∈ cin.simps ∨ 2 ≤ t.order) ∧ ∀ j, 2 ≤ j → CompleteAt c' j := by
  intro fuel
  induction fuel with
  | zero =>
    intro c nss k maxk hL hf
    refine ⟨c, rfl, hL.inv, hL.sub, hL.new, hL.finish (by have := hL.mkM; omega)⟩
  | succ fuel ih =>
    intro c nss k maxk hL hf
    unfold completeLoop
    by_cases hk : k ≤ maxk + 1
    · rw [if_pos hk]
      simp only
      -- no simplices of order k ⇒ nothing to do at order k+1
      have hempty : (∀ t ∈ c.simps, t.order ≠ k) → CompleteAt c (k + 1) := by
        intro hno X hX hfac
        exfalso
        have hne : (X.powersetCard (k + 1)).Nonempty := by
          rw [Finset.powersetCard_nonempty]; omega
        obtain ⟨Y, hY⟩ := hne
        obtain ⟨t, ht, htp⟩ := hfac Y hY
        have := hL.inv.pts_card ht
        rw [htp, (Finset.mem_powersetCard.mp hY).2] at this
        exact hno t ht (by omega)
      have hnext : ∀ (hc : CompleteAt c (k + 1)), LoopInv cin c nss (k + 1) maxk M := by
        intro hc
        refine ⟨by omega, hL.inv, hL.sub, hL.new, hL.cover, hL.bound, ?_, hL.mkM, hL.pm⟩
        intro j hj hjk
        by_cases h : j ≤ k
        · exact hL.complete j hj h
        · have : j = k + 1 := by omega
          subst this; exact hc
      have hk1 : k + 1 - 1 = k := by omega
      rw [hk1]
      cases hget : nssGet nss k with
      | none =>
        simp only
        apply ih c nss (k + 1) maxk (hnext (hempty _)) (by omega)
        intro t ht hto
        obtain ⟨names, hn, -⟩ := hL.cover t ht (by have := hL.kpos; omega)
        rw [hto, hget] at hn; cases hn
      | some newPrev =>
        cases newPrev with
        | nil =>
          simp only
          apply ih c nss (k + 1) maxk (hnext (hempty _)) (by omega)
          intro t ht hto
          obtain ⟨names, hn, hmem⟩ := hL.cover t ht (by have := hL.kpos; omega)
          rw [hto, hget] at hn
          injection hn with hn; subst hn; simp at hmem
        | cons x xs =>
          simp only
          -- run the pass at order k+1
          have hk2 : 2 ≤ k + 1 := by have := hL.kpos; omega
          have hP0 : PassInv (k + 1) (c.ofOrder k) c c :=
            ⟨hL.inv, List.Sublist.refl _, fun t ht => Or.inl ht, by rw [hk1]⟩
          obtain ⟨added, c', hrun, hP, hsub, hhandled, hadded⟩ :=
            passLoop_spec (x :: xs) hk2 (c.ofOrder k) c
              (combosL (k + 1 + 1) (c.ofOrder k)) c [] hP0
              (fun cand hc => combosL_mem.mp hc)
          rw [hrun]
          simp only [List.nil_append]
          -- completeness at order k+1 in c'
          have hcomplete : CompleteAt c' (k + 1) := by
            intro X hX hfac
            -- the facets live at order k, which the pass did not change
            have hfac0 : ∀ Y ∈ X.powersetCard (k + 1), ∃ t ∈ c.simps, t.pts = Y := by
              intro Y hY
              obtain ⟨t, ht, htp⟩ := hfac Y hY
              have hto : t.order = k := by
                have := hP.inv.pts_card ht
                rw [htp, (Finset.mem_powersetCard.mp hY).2] at this; omega
              rcases hP.new t ht with h | h
              · exact ⟨t, h, htp⟩
              · omega
            apply pass_complete hk2 hL.inv (by rw [hk1]) hP (newPrev := x :: xs) hhandled hX hfac0
            -- any facet touches: all order-k simplices are listed in nss[k]
            have hne : (X.powersetCard (k + 1)).Nonempty := by
              rw [Finset.powersetCard_nonempty]; omega
            obtain ⟨Y, hY⟩ := hne
            obtain ⟨t, ht, htp⟩ := hfac0 Y hY
            have hto : t.order = k := by
              have := hL.inv.pts_card ht
              rw [htp, (Finset.mem_powersetCard.mp hY).2] at this; omega
            obtain ⟨names, hn, hmem⟩ := hL.cover t ht (by have := hL.kpos; omega)
            rw [hto, hget] at hn
            injection hn with hn; subst hn
            exact ⟨t, ht, by rw [htp]; exact (Finset.mem_powersetCard.mp hY).1, by omega, hmem⟩
          -- the next loop invariant
          have hLnext : LoopInv cin c' (nssSet nss (k + 1) ((nssGet nss (k + 1)).getD [] ++ added)) (k + 1)
              (if added.isEmpty then maxk else max maxk (k + 1)) M := by
            refine ⟨by omega, hP.inv, hL.sub.trans hsub, ?_, ?_, ?_, ?_, ?_, hL.pm⟩
            · intro t ht
              rcases hP.new t ht with h | h
              · exact hL.new t h
              · exact Or.inr (by omega)
            · intro t ht hto
              by_cases hold : t ∈ c.simps
              · obtain ⟨names, hn, hmem⟩ := hL.cover t hold hto
                by_cases hk' : t.order = k + 1
                · rw [hk', nssGet_set_same]
                  refine ⟨_, rfl, List.mem_append_left _ ?_⟩
                  rw [hk'] at hn; rw [hn]; exact hmem
                · rw [nssGet_set_ne _ _ hk']; exact ⟨names, hn, hmem⟩
              · have hord : t.order = k + 1 := by
                  rcases hP.new t ht with h | h
                  · exact absurd h hold
                  · exact h
                rw [hord, nssGet_set_same]
                exact ⟨_, rfl, List.mem_append_right _ ((hadded t.name).mpr ⟨t, ht, rfl, hold⟩)⟩
            · intro t ht hto
              by_cases hold : t ∈ c.simps
              · have := hL.bound t hold hto
                split_ifs <;> omega
              · have hord : t.order = k + 1 := by
                  rcases hP.new t ht with h | h
                  · exact absurd h hold
                  · exact h
                have hne : added ≠ [] := by
                  intro he
                  have := (hadded t.name).mpr ⟨t, ht, rfl, hold⟩
                  rw [he] at this; simp at this
                have : added.isEmpty = false := by simpa using hne
                rw [this]; simp; omega
            · intro j hj hjk
              by_cases h : j ≤ k
              · -- lower orders: unchanged by the pass
                intro X hX hfac
                have hfac0 : ∀ Y ∈ X.powersetCard j, ∃ t ∈ c.simps, t.pts = Y := by
                  intro Y hY
                  obtain ⟨t, ht, htp⟩ := hfac Y hY
                  have hto : t.order + 1 = j := by
                    have := hP.inv.pts_card ht
                    rw [htp, (Finset.mem_powersetCard.mp hY).2] at this; omega
                  rcases hP.new t ht with h' | h'
                  · exact ⟨t, h', htp⟩
                  · omega
                obtain ⟨s, hs, hsp⟩ := hL.complete j hj h X hX hfac0
                exact ⟨s, hsub.subset hs, hsp⟩
              · have : j = k + 1 := by omega
                subst this; exact hcomplete
            · split_ifs with he
              · exact hL.mkM
              · -- a simplex of order k+1 exists, so k+1 ≤ #points - 1 ≤ M
                have hne : added ≠ [] := by simpa using he
                obtain ⟨n, hn⟩ := List.exists_mem_of_ne_nil _ hne
                obtain ⟨t, ht, -, hold⟩ := (hadded n).mp hn
                have hord : t.order = k + 1 := by
                  rcases hP.new t ht with h | h
                  · exact absurd h hold
                  · exact h
                have h1 := order_lt_points hP.inv ht
                have h2 : (c'.ofOrder 0) = (cin.ofOrder 0) := by
                  unfold Cx.ofOrder
                  apply filter_eq_of_sublist (hL.sub.trans hsub) (List.Nodup.of_map _ hP.inv.nodup)
                  intro u hu hnot
                  rcases hP.new u hu with h | h
                  · rcases hL.new u h with h' | h'
                    · exact absurd h' hnot
                    · simp; omega
                  · simp; omega
                have := hL.pm
                have := hL.mkM
                rw [h2] at h1
                omega
          exact ih c' _ (k + 1) _ hLnext (by omega)
    · rw [if_neg hk]
      exact ⟨c, rfl, hL.inv, hL.sub, hL.new, hL.finish (by omega)⟩

#print axioms completeLoop_spec
end Flat
