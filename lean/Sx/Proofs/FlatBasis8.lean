import Sx.Model
import Sx.Proofs.FlatBasis7

/-! spike (C02): the public `addSimplexWithBasis` (after the repairs D03/D29/D31: validate first, create the
missing points, generate the top name last), for a basis of ≥ 2 distinct names. -/
namespace Flat
open Finset

theorem addPoint_spec {c : C} (hI : Inv c) {b : Name} (hb : c.contains b = false) :
    ∃ c', c.addSimplex [] b = .ok c' ∧ Inv c' ∧ c'.simps = insertSorted ⟨b, 0, [], [b]⟩ c.simps := by
  have hadd : c.addSimplex [] b = .ok { c with simps := (insertSorted ⟨b, 0, [], [b]⟩ c.simps) } := by
    unfold Cx.addSimplex
    simp only [List.length_nil, List.isEmpty_nil, if_true]
    rw [if_neg (by omega), if_neg (by simp [hb]), if_neg (by simp)]
    have : ¬ ((0 - 1 : Nat) : Int) > c.maxOrder + 1 := by
      have : (-1 : Int) ≤ c.maxOrder := by
        unfold Cx.maxOrder; cases c.simps.getLast? <;> simp
      simp; omega
    rw [if_neg this]
  exact ⟨_, hadd, addSimplex_ok_inv hI (Or.inl rfl) hadd, rfl⟩

/-- after `ensurePoints`, every name of the basis is a point; old simplices are untouched; the new ones are
points named in the basis -/
theorem ensurePoints_spec : ∀ (bs : List Name) (c : C), Inv c →
    (∀ b ∈ bs, c.contains b = true → ∃ t ∈ c.simps, t.name = b ∧ t.order = 0) →
    ∃ c', ensurePoints c bs = .ok c' ∧ Inv c' ∧ c.simps.Sublist c'.simps ∧ PtsIn c' bs ∧
      (∀ t ∈ c'.simps, t ∈ c.simps ∨ (t.order = 0 ∧ t.name ∈ bs)) := by
  intro bs
  induction bs with
  | nil => intro c hI _; exact ⟨c, rfl, hI, List.Sublist.refl _, by intro p hp; simp at hp, fun t ht => Or.inl ht⟩
  | cons b bs ih =>
    intro c hI hpt
    unfold ensurePoints
    by_cases hc : c.contains b = true
    · rw [if_pos hc]
      obtain ⟨c', h1, h2, h3, h4, h5⟩ := ih c hI (fun x hx => hpt x (List.mem_cons_of_mem _ hx))
      refine ⟨c', h1, h2, h3, ?_, ?_⟩
      · intro p hp
        rcases List.mem_cons.mp hp with rfl | hp
        · obtain ⟨t, ht, hn, h0⟩ := hpt p List.mem_cons_self hc
          exact ⟨t, h3.subset ht, hn, h0⟩
        · exact h4 p hp
      · intro t ht
        rcases h5 t ht with h | ⟨h, h'⟩
        · exact Or.inl h
        · exact Or.inr ⟨h, List.mem_cons_of_mem _ h'⟩
    · rw [if_neg hc]
      obtain ⟨c1, hadd, hI1, hs1⟩ := addPoint_spec hI (by simpa using hc)
      rw [hadd]
      simp only
      have hmem1 : ∀ x, x ∈ c1.simps ↔ x = ⟨b, 0, [], [b]⟩ ∨ x ∈ c.simps := by
        intro x; rw [hs1]; exact mem_insertSorted
      obtain ⟨c', h1, h2, h3, h4, h5⟩ := ih c1 hI1 (by
        intro x hx hcx
        obtain ⟨t, ht, hn⟩ := contains_iff.mp hcx
        rcases (hmem1 t).mp ht with rfl | hold
        · exact ⟨_, (hmem1 _).mpr (Or.inl rfl), hn, rfl⟩
        · obtain ⟨t', ht', hn', h0⟩ := hpt x (List.mem_cons_of_mem _ hx) (contains_iff.mpr ⟨t, hold, hn⟩)
          exact ⟨t', (hmem1 t').mpr (Or.inr ht'), hn', h0⟩)
      have hsub1 : c.simps.Sublist c1.simps := by rw [hs1]; exact sublist_insertSorted _ _
      refine ⟨c', h1, h2, hsub1.trans h3, ?_, ?_⟩
      · intro p hp
        rcases List.mem_cons.mp hp with rfl | hp
        · exact ⟨_, h3.subset ((hmem1 _).mpr (Or.inl rfl)), rfl, rfl⟩
        · exact h4 p hp
      · intro t ht
        rcases h5 t ht with h | ⟨h, h'⟩
        · rcases (hmem1 t).mp h with rfl | hold
          · exact Or.inr ⟨rfl, List.mem_cons_self⟩
          · exact Or.inl hold
        · exact Or.inr ⟨h, List.mem_cons_of_mem _ h'⟩

/-- **`addSimplexWithBasis`** on a repeat-free basis of ≥ 2 names, none of which is a higher simplex, whose
vertex set is not yet a simplex, with an unused (or generated) name: it succeeds, returns the requested name
if one was given, and extends the complex exactly by the missing points of the basis and simplices inside it. -/
theorem addSimplexWithBasis_spec {c : C} (hI : Inv c) {bs : List Name} (hnd : bs.Nodup) (h2 : 2 ≤ bs.length)
    (hpt : ∀ b ∈ bs, c.contains b = true → ∃ t ∈ c.simps, t.name = b ∧ t.order = 0)
    (hnone : ¬ ∃ t ∈ c.simps, t.pts = bs.toFinset)
    (id : Option Name) (hid : ∀ n, id = some n → c.contains n = false ∧ n ∉ bs) :
    ∃ n c', addSimplexWithBasis' c bs id = (.ok n, c') ∧ Inv c' ∧ c.simps.Sublist c'.simps ∧
      Names c' n bs ∧ (∀ m, id = some m → n = m) ∧
      (∀ t ∈ c'.simps, t ∈ c.simps ∨ t.pts ⊆ bs.toFinset) := by
  classical
  have hne : bs ≠ [] := by intro e; rw [e] at h2; simp at h2
  unfold addSimplexWithBasis'
  -- guard 1: the requested name is unused
  have g1 : idUsed c id = false := by
    cases hidc : id with
    | none => rfl
    | some n => exact (hid n hidc).1
  rw [g1]
  simp only [Bool.false_eq_true, if_false]
  -- guard 1b: the requested name is not a member of the basis
  have g1b : idInBasis bs id = false := by
    cases hidc : id with
    | none => rfl
    | some n => simpa [idInBasis] using (hid n hidc).2
  rw [g1b]
  simp only [Bool.false_eq_true, if_false]
  -- guard 2: no higher simplex among the present members
  have g2 : (bs.any (fun b => c.contains b && c.orderOf? b != some 0)) = false := by
    rw [List.any_eq_false]
    intro b hb
    by_cases hcb : c.contains b = true
    · obtain ⟨t, ht, hn, h0⟩ := hpt b hb hcb
      rw [← hn, orderOf_of_mem hI ht, h0]; simp
    · simp [hcb]
  rw [g2]
  simp only [Bool.false_eq_true, if_false]
  -- guard 3: the vertex set is new
  have g3 : (simplexWithBasis c bs).isSome = false := by
    cases hq : simplexWithBasis c bs with
    | none => rfl
    | some n =>
      exfalso
      have hguard : (bs.all (fun x => c.orderOf? x == some 0)) = true := by
        by_contra hg
        unfold simplexWithBasis at hq
        rw [if_pos (by simpa using hg)] at hq; cases hq
      have hpts : PtsIn c bs := by
        intro p hp
        rw [List.all_eq_true] at hguard
        have := hguard p hp
        simp only [beq_iff_eq] at this
        unfold Cx.orderOf? at this
        obtain ⟨t, ht, hto⟩ := Option.map_eq_some_iff.mp this
        obtain ⟨htm, htn⟩ := lookup_some ht
        exact ⟨t, htm, htn, hto⟩
      obtain ⟨t, ht, -, htp⟩ := (simplexWithBasis_spec hI hnd hne hpts).1 n hq
      exact hnone ⟨t, ht, htp⟩
  rw [g3]
  simp only [Bool.false_eq_true, if_false]
  obtain ⟨c1, he, hI1, hsub1, hpts1, hnew1⟩ := ensurePoints_spec bs c hI hpt
  rw [he]
  simp only
  -- still no simplex on bs (only points were added, and |bs| ≥ 2)
  have hnone1 : ¬ ∃ t ∈ c1.simps, t.pts = bs.toFinset := by
    rintro ⟨t, ht, htp⟩
    rcases hnew1 t ht with h | ⟨h0, -⟩
    · exact hnone ⟨t, h, htp⟩
    · have := hI1.pts_card ht
      rw [htp, List.toFinset_card_of_nodup hnd, h0] at this; omega
  -- the name used for the top simplex, fresh in c1
  have hname : ∃ nm c2, topName c1 (bs.length - 1) id = (nm, c2) ∧
      c2.simps = c1.simps ∧ c2.contains nm = false ∧ (∀ m, id = some m → nm = m) := by
    cases hidc : id with
    | some n =>
      refine ⟨n, c1, rfl, rfl, ?_, fun m hm => by injection hm⟩
      rw [contains_false_iff]
      intro t ht htn
      rcases hnew1 t ht with h | ⟨-, hb⟩
      · exact absurd (contains_iff.mpr ⟨t, h, htn⟩) (by rw [(hid n hidc).1]; exact Bool.false_ne_true)
      · exact (hid n hidc).2 (htn ▸ hb)
    | none =>
      obtain ⟨f1, f2, -⟩ := newSimplex_fresh hI1.nodup (bs.length - 1)
      refine ⟨(newSimplex c1 (bs.length - 1)).1, (newSimplex c1 (bs.length - 1)).2, rfl, f2, ?_,
        fun m hm => by cases hm⟩
      rw [contains_of_simps_eq f2]; exact f1
  obtain ⟨nm, c2, hr, hs2, hfr2, hidn⟩ := hname
  rw [hr]
  simp only
  have hI2 : Inv c2 := inv_of_simps_eq hs2 hI1
  obtain ⟨n, c', hrun, hext, hnm, -, htop⟩ := addWB_spec nm (bs.length - 1) bs.length c2 bs hI2 hnd hne (Nat.le_refl _)
    (by intro p hp; obtain ⟨t, ht, h1, h0⟩ := hpts1 p hp; exact ⟨t, hs2 ▸ ht, h1, h0⟩)
    hfr2 (Nat.le_refl _) (fun _ => by rw [hs2]; exact hnone1)
  refine ⟨n, c', hrun, hext.inv, ?_, hnm, ?_, ?_⟩
  · exact hsub1.trans (hs2 ▸ hext.sub)
  · intro m hm; rw [htop rfl]; exact hidn m hm
  · intro t ht
    rcases hext.new t ht with h | h
    · rw [hs2] at h
      rcases hnew1 t h with h' | ⟨h0, hb⟩
      · exact Or.inl h'
      · right
        rw [point_pts hI1 h h0]
        intro x hx; rw [Finset.mem_singleton] at hx; rw [hx]; exact List.mem_toFinset.mpr hb
    · exact Or.inr h

#print axioms addSimplexWithBasis_spec
end Flat
