import Sx.Model
import Sx.Proofs.FlagClosed2

/-! spike (C11) part 3: `combosL n L` = exactly the sublists of `L` of length `n` -/
namespace Flat

theorem combosL_sound {β : Type} : ∀ (n : Nat) (L l : List β), l ∈ combosL n L → l.Sublist L ∧ l.length = n := by
  intro n L
  induction L generalizing n with
  | nil =>
    intro l hl
    cases n with
    | zero => simp [combosL] at hl; subst hl; exact ⟨List.Sublist.refl _, rfl⟩
    | succ n => simp [combosL] at hl
  | cons x xs ih =>
    intro l hl
    cases n with
    | zero => simp [combosL] at hl; subst hl; exact ⟨List.nil_sublist _, rfl⟩
    | succ n =>
      simp only [combosL, List.mem_append, List.mem_map] at hl
      rcases hl with ⟨l', hl', rfl⟩ | hl
      · obtain ⟨h1, h2⟩ := ih n l' hl'
        exact ⟨h1.cons₂ x, by simp [h2]⟩
      · obtain ⟨h1, h2⟩ := ih (n + 1) l hl
        exact ⟨h1.cons x, h2⟩

theorem combosL_complete {β : Type} : ∀ (L l : List β), l.Sublist L → l ∈ combosL l.length L := by
  intro L l h
  induction h with
  | slnil => simp [combosL]
  | cons x h ih =>
    rename_i l1 l2
    cases hl : l1.length with
    | zero =>
      have : l1 = [] := List.length_eq_zero_iff.mp hl
      subst this; simp [combosL]
    | succ n =>
      simp only [combosL, List.mem_append, List.mem_map]
      right; rw [← hl]; exact ih
  | cons_cons x h ih =>
    rename_i l1 l2
    simp only [List.length_cons, combosL, List.mem_append, List.mem_map]
    left; exact ⟨l1, ih, rfl⟩

theorem combosL_mem {β : Type} {n : Nat} {L l : List β} : l ∈ combosL n L ↔ l.Sublist L ∧ l.length = n :=
  ⟨combosL_sound n L l, fun ⟨h1, h2⟩ => h2 ▸ combosL_complete L l h1⟩

end Flat
