import Sx.Model
import Sx.Proofs.FlagAdd

/-! spike (C11) part 5: one pass of `_completePotentialSimplices` at order `k` -/
namespace Flat
open Finset

theorem filter_insertSorted_ne (s : Simp Name) (l : List (Simp Name)) (j : Nat) (h : s.order ≠ j) :
    (insertSorted s l).filter (fun t => t.order == j) = l.filter (fun t => t.order == j) := by
  induction l with
  | nil => simp [insertSorted, h]
  | cons t ts ih =>
    unfold insertSorted
    split
    · simp only [List.filter_cons, ih]
    · simp [List.filter_cons, h]

/-- the state during pass `k`: a valid complex that extends the pass's start state `c0` by order-`k`
simplices only, so that the level below (`L`) is frozen -/
structure PassInv (k : Nat) (L : List (Simp Name)) (c0 c : C) : Prop where
  inv : Inv c
  sub : c0.simps.Sublist c.simps
  new : ∀ t ∈ c.simps, t ∈ c0.simps ∨ t.order = k
  lvl : c.ofOrder (k - 1) = L

theorem PassInv.of_simps_eq {k L c0 c c'} (h : PassInv k L c0 c) (he : c'.simps = c.simps) : PassInv k L c0 c' :=
  ⟨inv_of_simps_eq he h.inv, he ▸ h.sub, he ▸ h.new, by unfold Cx.ofOrder; rw [he]; exact h.lvl⟩

/-- a facet of `B` through any given point, when `B` has at least 3 points -/
theorem facet_through {B : Finset Name} {k : Nat} (hB : B.card = k + 1) (hk : 2 ≤ k) {x : Name} (hx : x ∈ B) :
    ∃ X ∈ B.powersetCard k, x ∈ X := by
  classical
  have : 1 < B.card := by omega
  obtain ⟨y, hy, hxy⟩ := Finset.exists_mem_ne this x
  refine ⟨B.erase y, ?_, Finset.mem_erase.mpr ⟨fun e => hxy e.symm, hx⟩⟩
  rw [Finset.mem_powersetCard]
  exact ⟨Finset.erase_subset _ _, by rw [Finset.card_erase_of_mem hy, hB]; rfl⟩

def touches (newPrev : List Name) (cand : List (Simp Name)) : Bool := cand.any (fun s => newPrev.contains s.name)

theorem passLoop_spec (newPrev : List Name) {k : Nat} (hk : 2 ≤ k) (L : List (Simp Name)) (c0 : C) :
    ∀ (rest : List (List (Simp Name))) (c : C) (newK : List Name),
      PassInv k L c0 c → (∀ cand ∈ rest, cand.Sublist L ∧ cand.length = k + 1) →
      ∃ added c', passLoop newPrev c newK rest = (.ok (newK ++ added), c') ∧ PassInv k L c0 c' ∧
        c.simps.Sublist c'.simps ∧
        (∀ cand ∈ rest, touches newPrev cand = true → isClosed cand = true →
          ∃ s ∈ c'.simps, s.order = k ∧ setEqB s.faces (cand.map (·.name)) = true) ∧
        (∀ n, n ∈ added ↔ ∃ t ∈ c'.simps, t.name = n ∧ t ∉ c.simps) := by
  intro rest
  induction rest with
  | nil =>
    intro c newK hP _
    refine ⟨[], c, by simp [passLoop], hP, List.Sublist.refl _, by simp, ?_⟩
    intro n; simp only [List.not_mem_nil, false_iff, not_exists, not_and, not_not]
    intro t ht _; exact ht
  | cons cand rest ih =>
    intro c newK hP hrest
    have hcand := hrest cand List.mem_cons_self
    have hrest' : ∀ cand ∈ rest, cand.Sublist L ∧ cand.length = k + 1 :=
      fun x hx => hrest x (List.mem_cons_of_mem _ hx)
    unfold passLoop
    by_cases hcond : (cand.any (fun s => newPrev.contains s.name) && isClosed cand) = true
    · rw [if_pos hcond]
      simp only [Bool.and_eq_true] at hcond
      simp only
      -- facts about the candidates
      have hLmem : ∀ σ ∈ L, σ ∈ c.simps ∧ σ.order = k - 1 := by
        intro σ hσ
        rw [← hP.lvl] at hσ
        unfold Cx.ofOrder at hσ
        rw [List.mem_filter] at hσ
        exact ⟨hσ.1, by simpa using hσ.2⟩
      have hcmem : ∀ σ ∈ cand, σ ∈ c.simps ∧ σ.order = k - 1 := fun σ hσ => hLmem σ (hcand.1.subset hσ)
      have hsn : c.simps.Nodup := List.Nodup.of_map _ hP.inv.nodup
      have hLnd : L.Nodup := by rw [← hP.lvl]; exact hsn.sublist List.filter_sublist
      have hcnd : cand.Nodup := hLnd.sublist hcand.1
      have hlen : (cand.map (·.name)).length = k + 1 := by simp [hcand.2]
      cases hswf : simplexWithFaces c (cand.map (·.name)) with
      | some n =>
        simp only
        obtain ⟨added, c', h1, h2, h3, h4, h5⟩ := ih c newK hP hrest'
        refine ⟨added, c', h1, h2, h3, ?_, h5⟩
        intro x hx ht hc
        rcases List.mem_cons.mp hx with rfl | hx
        · obtain ⟨s, hs, -, hso, hsf⟩ := simplexWithFaces_some hswf
          exact ⟨s, h3.subset hs, by rw [hso, hlen]; rfl, hsf⟩
        · exact h4 x hx ht hc
      | none =>
        simp only
        obtain ⟨B, hB, hF⟩ := closed_facets hP.inv hk hcnd hcmem hcand.2 hcond.2
        have hnmnd : (cand.map (·.name)).Nodup := by
          apply List.Nodup.map_on _ hcnd
          intro a ha b hb hab
          exact hP.inv.name_inj (hcmem a ha).1 (hcmem b hb).1 hab
        have hfr := newSimplex_fresh hP.inv.nodup ((cand.map (·.name)).length - 1)
        obtain ⟨c'', fs', bs, hadd, hI'', hsimps'', hfs', hbs, hseq⟩ := addFacets (cN := c) (fs := cand.map (·.name))
          (nm := (newSimplex c ((cand.map (·.name)).length - 1)).1) (k := k) (B := B) hP.inv (by omega) hnmnd hlen
          (by
            intro f hf
            obtain ⟨σ, hσ, rfl⟩ := List.mem_map.mp hf
            refine ⟨σ, (hcmem σ hσ).1, rfl, (hcmem σ hσ).2, ?_⟩
            have : σ.pts ∈ cand.toFinset.image Simp.pts :=
              Finset.mem_image.mpr ⟨σ, List.mem_toFinset.mpr hσ, rfl⟩
            rw [hF, Finset.mem_powersetCard] at this; exact this.1)
          (by
            intro x hx
            obtain ⟨X, hX, hxX⟩ := facet_through hB hk hx
            rw [← hF] at hX
            obtain ⟨σ, hσ, rfl⟩ := Finset.mem_image.mp hX
            rw [List.mem_toFinset] at hσ
            exact ⟨σ.name, List.mem_map.mpr ⟨σ, hσ, rfl⟩, σ, (hcmem σ hσ).1, rfl, hxX⟩)
          hB hfr.1
          (by have := simplexWithFaces_none hswf; rw [hlen] at this; exact this)
        unfold addS
        simp only [hadd]
        -- the state after the addition
        set cNext : C := { c'' with seq := (newSimplex c ((cand.map (·.name)).length - 1)).2.seq } with hcNext
        have hsimpsNext : cNext.simps = insertSorted ⟨(newSimplex c ((cand.map (·.name)).length - 1)).1, k,
            fs', bs⟩ c.simps := hsimps''
        have hPnext : PassInv k L c0 cNext := by
          refine ⟨inv_of_simps_eq (c := c'') rfl hI'', ?_, ?_, ?_⟩
          · rw [hsimpsNext]; exact hP.sub.trans (sublist_insertSorted _ _)
          · intro t ht
            rw [hsimpsNext] at ht
            rcases mem_insertSorted.mp ht with rfl | h
            · exact Or.inr rfl
            · exact hP.new t h
          · unfold Cx.ofOrder
            rw [hsimpsNext, filter_insertSorted_ne _ _ _ (by simp; omega)]
            exact hP.lvl
        obtain ⟨added, c', h1, h2, h3, h4, h5⟩ := ih cNext (newK ++ [(newSimplex c ((cand.map (·.name)).length - 1)).1])
          hPnext hrest'
        have hsubNext : c.simps.Sublist cNext.simps := by rw [hsimpsNext]; exact sublist_insertSorted _ _
        refine ⟨(newSimplex c ((cand.map (·.name)).length - 1)).1 :: added, c', ?_, h2, hsubNext.trans h3, ?_, ?_⟩
        · rw [h1]; simp
        · intro x hx ht hc
          rcases List.mem_cons.mp hx with rfl | hx
          · refine ⟨_, h3.subset (by rw [hsimpsNext]; exact mem_insertSorted.mpr (Or.inl rfl)), rfl, ?_⟩
            exact setEqB_iff.mpr hfs'
          · exact h4 x hx ht hc
        · intro n
          rw [List.mem_cons, h5 n]
          constructor
          · rintro (rfl | ⟨t, ht, hn, hnot⟩)
            · refine ⟨_, h3.subset (by rw [hsimpsNext]; exact mem_insertSorted.mpr (Or.inl rfl)), rfl, ?_⟩
              intro hin
              have := contains_iff.mpr ⟨_, hin, rfl⟩
              rw [hfr.1] at this; exact Bool.false_ne_true this
            · exact ⟨t, ht, hn, fun hin => hnot (hsubNext.subset hin)⟩
          · rintro ⟨t, ht, hn, hnot⟩
            by_cases hin : t ∈ cNext.simps
            · left
              rw [hsimpsNext] at hin
              rcases mem_insertSorted.mp hin with rfl | h
              · exact hn.symm
              · exact absurd h hnot
            · exact Or.inr ⟨t, ht, hn, hin⟩
    · rw [if_neg hcond]
      obtain ⟨added, c', h1, h2, h3, h4, h5⟩ := ih c newK hP hrest'
      refine ⟨added, c', h1, h2, h3, ?_, h5⟩
      intro x hx ht hc
      rcases List.mem_cons.mp hx with rfl | hx
      · exfalso; apply hcond
        simp only [Bool.and_eq_true]; exact ⟨ht, hc⟩
      · exact h4 x hx ht hc

#print axioms passLoop_spec
end Flat
