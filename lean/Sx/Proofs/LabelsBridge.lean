import Sx.Model
import Sx.Proofs.RankBridge
import Sx.Proofs.Labels2

/-! spike (C07) part 3: the mirror of `_reduceBoundaries` *with column labels*, and the theorem that the
labels of the zero columns form a basis of the kernel of the original boundary matrix. -/
open Matrix

namespace M2

theorem stepL_fst (B : Mat) (cl : List (List Nat)) (x k l : Nat) : (stepL B cl x k l).1 = step B x k l := rfl

theorem reduceL_fst (B : Mat) (cl : List (List Nat)) (x fuel : Nat) : (reduceL B cl x fuel).1 = reduce B x fuel := by
  induction fuel generalizing B cl x with
  | zero => rfl
  | succ fuel ih =>
    simp only [reduceL, reduce]
    split_ifs
    · rfl
    · cases findPivot B x with
      | none => rfl
      | some kl => obtain ⟨k, l⟩ := kl; simp only; rw [ih]; rfl

/-- the label matrix: entry (s, j) is the parity of the number of occurrences of `s` in `cl[j]` -/
def Qof (n : ℕ) (cl : List (List Nat)) : Matrix (Fin n) (Fin n) F2 :=
  fun s j => b2f (decide ((cl.getD j []).count (s : ℕ) % 2 = 1))

theorem b2f_parity_add (a b : Nat) :
    b2f (decide ((a + b) % 2 = 1)) = b2f (decide (a % 2 = 1)) + b2f (decide (b % 2 = 1)) := by
  rcases Nat.mod_two_eq_zero_or_one a with ha | ha <;> rcases Nat.mod_two_eq_zero_or_one b with hb | hb <;>
    simp [b2f, Nat.add_mod, ha, hb] <;> decide

variable {m n : ℕ}

theorem getD_range_map {β : Type} (f : Nat → β) (N j : Nat) (d : β) (hj : j < N) :
    ((List.range N).map f).getD j d = f j := by
  simp [List.getD_eq_getElem?_getD, hj]

theorem Qof_swap (cl : List (List Nat)) (hlen : cl.length = n) (x l : Nat) (hx : x < n) (hl : l < n) :
    Qof n (swapLabels cl x l) = (Qof n cl).submatrix id (Equiv.swap ⟨x, hx⟩ ⟨l, hl⟩) := by
  ext s j
  have e : (swapLabels cl x l).getD j [] = cl.getD ((Equiv.swap (⟨x, hx⟩ : Fin n) ⟨l, hl⟩ j : Fin n) : ℕ) [] := by
    unfold swapLabels
    rw [getD_range_map _ _ _ _ (by rw [hlen]; exact j.2)]
    rw [show swapN x l j = swapN (⟨x, hx⟩ : Fin n) (⟨l, hl⟩ : Fin n) j from rfl, swapN_eq_swap]
  simp only [Qof, submatrix_apply, id, e]

theorem Qof_pass (B3 : Mat) (cl : List (List Nat)) (hlen : cl.length = n) (x : Nat) (hx : x < n) :
    ∀ s j, Qof n (passLabels B3 cl x) s j =
      Qof n cl s j + b2f (decide (x < (j : ℕ)) && B3.get x j) * Qof n cl s ⟨x, hx⟩ := by
  intro s j
  have e : (passLabels B3 cl x).getD j [] =
      if (decide (x < (j : ℕ)) && B3.get x j) = true then cl.getD j [] ++ cl.getD x [] else cl.getD j [] := by
    unfold passLabels
    rw [getD_range_map _ _ _ _ (by rw [hlen]; exact j.2)]
  simp only [Qof, e]
  by_cases hc : (decide (x < (j : ℕ)) && B3.get x j) = true
  · simp only [hc, if_true, List.count_append, b2f_parity_add]; simp [b2f]
  · have : (decide (x < (j : ℕ)) && B3.get x j) = false := by simpa using hc
    simp only [this, Bool.false_eq_true, if_false]; simp [b2f]

theorem toM_rowSwap (B : Mat) (hm : B.m = m) (hn : B.n = n) (x k : Nat) (hx : x < m) (hk : k < m) :
    toM m n (rowSwap B x k) = (toM m n B).submatrix (Equiv.swap ⟨x, hx⟩ ⟨k, hk⟩) id := by
  ext i j
  simp only [toM, rowSwap, submatrix_apply, id]
  rw [get_mk (by omega) (by omega)]
  rw [show swapN x k i = swapN (⟨x, hx⟩ : Fin m) (⟨k, hk⟩ : Fin m) i from rfl, swapN_eq_swap]

theorem toM_colSwap (B : Mat) (hm : B.m = m) (hn : B.n = n) (x l : Nat) (hx : x < n) (hl : l < n) :
    toM m n (colSwap B x l) = (toM m n B).submatrix id (Equiv.swap ⟨x, hx⟩ ⟨l, hl⟩) := by
  ext i j
  simp only [toM, colSwap, submatrix_apply, id]
  rw [get_mk (by omega) (by omega)]
  rw [show swapN x l j = swapN (⟨x, hx⟩ : Fin n) (⟨l, hl⟩ : Fin n) j from rfl, swapN_eq_swap]

theorem toM_rowPass (B : Mat) (hm : B.m = m) (hn : B.n = n) (x : Nat) (hx : x < m) :
    ∀ i, toM m n (rowPass B x) i = toM m n B i +
      b2f (decide (x < (i : ℕ)) && B.get i x) • toM m n B ⟨x, hx⟩ := by
  intro i; ext j
  simp only [toM, rowPass, Pi.add_apply, Pi.smul_apply, smul_eq_mul]
  rw [get_mk (by omega) (by omega)]
  by_cases hc : (decide (x < (i : ℕ)) && B.get i x) = true
  · rw [if_pos hc, b2f_xor, hc]; simp [b2f]
  · rw [if_neg hc]
    have : (decide (x < (i : ℕ)) && B.get i x) = false := by simpa using hc
    rw [this]; simp [b2f]

theorem toM_colPass (B : Mat) (hm : B.m = m) (hn : B.n = n) (x : Nat) (hx : x < n) :
    ∀ i j, toM m n (colPass B x) i j = toM m n B i j +
      b2f (decide (x < (j : ℕ)) && B.get x j) * toM m n B i ⟨x, hx⟩ := by
  intro i j
  simp only [toM, colPass]
  rw [get_mk (by omega) (by omega)]
  by_cases hc : (decide (x < (j : ℕ)) && B.get x j) = true
  · rw [if_pos hc, b2f_xor, hc]; simp [b2f]
  · rw [if_neg hc]
    have : (decide (x < (j : ℕ)) && B.get x j) = false := by simpa using hc
    rw [this]; simp [b2f]

/-- what is maintained: same kernel as `B0 · Q`, `Q` of full rank, shapes -/
structure LInv (B0 : Matrix (Fin m) (Fin n) F2) (B : Mat) (cl : List (List Nat)) : Prop where
  hm : B.m = m
  hn : B.n = n
  len : cl.length = n
  ker : KerEq (toM m n B) B0 (Qof n cl)
  full : (Qof n cl).rank = n

theorem swapLabels_length (cl : List (List Nat)) (x l : Nat) : (swapLabels cl x l).length = cl.length := by
  simp [swapLabels]
theorem passLabels_length (B3 : Mat) (cl : List (List Nat)) (x : Nat) : (passLabels B3 cl x).length = cl.length := by
  simp [passLabels]

theorem stepL_inv {B0 : Matrix (Fin m) (Fin n) F2} {B : Mat} {cl : List (List Nat)} (h : LInv B0 B cl)
    (x k l : Nat) (hxm : x < m) (hxn : x < n) (hk : k < m) (hl : l < n) :
    LInv B0 (stepL B cl x k l).1 (stepL B cl x k l).2 := by
  obtain ⟨hm, hn, hlen, hker, hfull⟩ := h
  -- shapes of the intermediate matrices
  have s1m : (rowSwap B x k).m = m := by simpa [rowSwap] using hm
  have s1n : (rowSwap B x k).n = n := by simpa [rowSwap] using hn
  have s2m : (colSwap (rowSwap B x k) x l).m = m := by simpa [colSwap] using s1m
  have s2n : (colSwap (rowSwap B x k) x l).n = n := by simpa [colSwap] using s1n
  have s3m : (rowPass (colSwap (rowSwap B x k) x l) x).m = m := by simpa [rowPass] using s2m
  have s3n : (rowPass (colSwap (rowSwap B x k) x l) x).n = n := by simpa [rowPass] using s2n
  -- kernel invariant step by step
  have k1 : KerEq (toM m n (rowSwap B x k)) B0 (Qof n cl) := by
    rw [toM_rowSwap B hm hn x k hxm hk]; exact hker.rowperm _
  have k2 : KerEq (toM m n (colSwap (rowSwap B x k) x l)) B0 (Qof n (swapLabels cl x l)) := by
    rw [toM_colSwap _ s1m s1n x l hxn hl, Qof_swap cl hlen x l hxn hl]; exact k1.colswap _
  have k3 : KerEq (toM m n (rowPass (colSwap (rowSwap B x k) x l) x)) B0 (Qof n (swapLabels cl x l)) :=
    k2.rowop ⟨x, hxm⟩ _ (by simp [b2f]) (toM_rowPass _ s2m s2n x hxm)
  have hlen2 : (swapLabels cl x l).length = n := by rw [swapLabels_length, hlen]
  have k4 := k3.colpass ⟨x, hxn⟩ (fun j => b2f (decide (x < (j : ℕ)) &&
      (rowPass (colSwap (rowSwap B x k) x l) x).get x j)) (by simp [b2f])
    (toM_colPass _ s3m s3n x hxn) (Qof_pass _ (swapLabels cl x l) hlen2 x hxn)
  refine ⟨by simpa [stepL, colPass] using s3m, by simpa [stepL, colPass] using s3n, ?_, k4, ?_⟩
  · simp only [stepL]; rw [passLabels_length, swapLabels_length, hlen]
  · -- full rank is preserved by both label operations
    simp only [stepL]
    have hs : ((Qof n cl).submatrix id (Equiv.swap (⟨x, hxn⟩ : Fin n) ⟨l, hl⟩)).rank = (Qof n cl).rank :=
      rank_submatrix (Qof n cl) (Equiv.refl _) (Equiv.swap _ _)
    rw [rank_colop (Qof n (swapLabels cl x l)) _ ⟨x, hxn⟩ _ (by simp [b2f]) (Qof_pass _ _ hlen2 x hxn),
      Qof_swap cl hlen x l hxn hl, hs]
    exact hfull

theorem reduceL_inv {B0 : Matrix (Fin m) (Fin n) F2} :
    ∀ (fuel : Nat) (B : Mat) (cl : List (List Nat)) (x : Nat), LInv B0 B cl →
      LInv B0 (reduceL B cl x fuel).1 (reduceL B cl x fuel).2 := by
  intro fuel
  induction fuel with
  | zero => intro B cl x h; exact h
  | succ fuel ih =>
    intro B cl x h
    simp only [reduceL]
    split_ifs with hx
    · exact h
    · cases hp : findPivot B x with
      | none => exact h
      | some kl =>
        obtain ⟨k, l⟩ := kl
        simp only
        obtain ⟨hk, hkm, hl, hln, -⟩ := findPivot_some hp
        have hm := h.hm; have hn := h.hn
        exact ih _ _ _ (stepL_inv h x k l (by omega) (by omega) (by omega) (by omega))

/-- initial labels `[[0], [1], …, [n-1]]` give the identity matrix -/
theorem Qof_init (n : ℕ) : Qof n ((List.range n).map (fun j => [j])) = 1 := by
  ext s j
  simp only [Qof]
  rw [getD_range_map _ _ _ _ j.2]
  by_cases hsj : s = j
  · subst hsj; simp [b2f]
  · have : (j : ℕ) ≠ s := fun e => hsj (Fin.ext e.symm)
    simp [b2f, Matrix.one_apply, hsj, List.count_cons, this]

/-- **C07 core**: run the labelled reduction on `B`; for every zero column `j` of the result, the chain
recorded in `cLabels[j]` (read mod 2) is in the kernel of `B`; and the label matrix has full rank, so the
recorded chains are linearly independent. -/
theorem Z_core (B : Mat) :
    let r := reduceL B ((List.range B.n).map (fun j => [j])) 0 (min B.m B.n)
    (∀ j : Fin B.n, (∀ i : Fin B.m, r.1.get i j = false) →
        toM B.m B.n B *ᵥ (fun s => Qof B.n r.2 s j) = 0) ∧
    (Qof B.n r.2).rank = B.n ∧ r.1 = snf B := by
  intro r
  have h0 : LInv (toM B.m B.n B) B ((List.range B.n).map (fun j => [j])) :=
    ⟨rfl, rfl, by simp, by rw [Qof_init]; exact KerEq.init _, by rw [Qof_init, rank_one]; simp⟩
  have h := reduceL_inv (min B.m B.n) B _ 0 h0
  refine ⟨?_, h.full, reduceL_fst _ _ _ _⟩
  intro j hj
  apply h.ker.zero_col j
  intro i
  simp only [toM]
  rw [hj i]; rfl

#print axioms Z_core
end M2
