import Sx.Model
import Sx.Proofs.FlagMain

/-! spike (C01/C02): the algorithm `deleteSimplex(s)` = `for t in partOf(s, reverse=True): forceDelete(t)` removes
exactly the star of `s`, keeps every other simplex untouched, and preserves the invariant. -/
namespace Flat

theorem deleteSimplex_spec {c : C} (hI : Inv c) {s : Simp Name} (hs : s ∈ c.simps) :
    ∃ c', deleteSimplex c s.name = some c' ∧ Inv c' ∧
      c' = { c with simps := c.simps.filter (fun t => ¬ s.pts ⊆ t.pts) } := by
  classical
  unfold deleteSimplex
  rw [orderOf_of_mem hI hs]
  simp only
  set fuel := c.simps.length with hfuel
  have hfuelOK : ∀ t ∈ c.simps, t.order ≤ s.order + fuel := by
    intro t ht
    have h1 := order_lt_points hI ht
    have h2 : (c.ofOrder 0).length ≤ c.simps.length := List.length_filter_le _ _
    omega
  have hspec := partOfAux_spec hI hs fuel hfuelOK
  set ps := dedupL (partOfAux c fuel s.name s.order) with hps
  have hpsmem : ∀ j n, (j, n) ∈ ps ↔ ∃ t ∈ c.simps, t.name = n ∧ t.order = j ∧ s.order < j ∧ s.pts ⊆ t.pts := by
    intro j n; rw [hps, mem_dedupL]; exact hspec j n
  have hpsnd : ps.Nodup := nodup_dedupL _
  set top := (ps.map (·.1)).foldl max s.order with htop
  have htopge : ∀ p ∈ ps, p.1 ≤ top := fun p hp =>
    (foldl_max_ge _ s.order).2 p.1 (List.mem_map.mpr ⟨p, hp, rfl⟩)
  set starNames := (List.range (top + 1)).reverse.flatMap (fun j => (ps.filter (fun p => p.1 == j)).map (·.2)) with hstar
  have hstarmem : ∀ n, n ∈ starNames ↔ ∃ j, (j, n) ∈ ps := by
    intro n
    rw [hstar, List.mem_flatMap]
    constructor
    · rintro ⟨j, -, hn⟩
      obtain ⟨p, hp, rfl⟩ := List.mem_map.mp hn
      rw [List.mem_filter] at hp
      exact ⟨p.1, hp.1⟩
    · rintro ⟨j, hj⟩
      refine ⟨j, by rw [List.mem_reverse, List.mem_range]; have := htopge _ hj; omega, ?_⟩
      exact List.mem_map.mpr ⟨(j, n), List.mem_filter.mpr ⟨hj, by simp⟩, rfl⟩
  -- the simplex behind each name to delete
  have hN : ∀ n ∈ starNames ++ [s.name], ∃ t, t ∈ c.simps ∧ t.name = n ∧ s.pts ⊆ t.pts := by
    intro n hn
    rcases List.mem_append.mp hn with h | h
    · obtain ⟨j, hj⟩ := (hstarmem n).mp h
      obtain ⟨t, ht, h1, -, -, h4⟩ := (hpsmem j n).mp hj
      exact ⟨t, ht, h1, h4⟩
    · rw [List.mem_singleton] at h; subst h
      exact ⟨s, hs, rfl, Finset.Subset.refl _⟩
  have : Nonempty (Simp Name) := ⟨s⟩
  choose! g hg using hN
  set L := (starNames ++ [s.name]).map g with hL
  have hLnames : L.map (·.name) = starNames ++ [s.name] := by
    rw [hL, List.map_map]
    conv_rhs => rw [← List.map_id (starNames ++ [s.name])]
    apply List.map_congr_left
    intro n hn
    exact (hg n hn).2.1
  -- order of g n
  have hgord : ∀ j n, (j, n) ∈ ps → (g n).order = j := by
    intro j n hj
    obtain ⟨t, ht, h1, h2, -, -⟩ := (hpsmem j n).mp hj
    have hn : n ∈ starNames ++ [s.name] := List.mem_append_left _ ((hstarmem n).mpr ⟨j, hj⟩)
    have : g n = t := hI.name_inj (hg n hn).1 ht ((hg n hn).2.1.trans h1.symm)
    rw [this, h2]
  have hgs : g s.name = s := hI.name_inj (hg s.name (by simp)).1 hs (hg s.name (by simp)).2.1
  -- names are distinct
  have hNnd : (starNames ++ [s.name]).Nodup := by
    rw [List.nodup_append]
    refine ⟨?_, List.nodup_singleton _, ?_⟩
    · rw [hstar, List.nodup_flatMap]
      constructor
      · intro j _
        apply List.Nodup.map_on _ (hpsnd.filter _)
        intro p hp q hq hpq
        rw [List.mem_filter] at hp hq
        have h1 : p.1 = j := by simpa using hp.2
        have h2 : q.1 = j := by simpa using hq.2
        exact Prod.ext (h1.trans h2.symm) hpq
      · have hrn : (List.range (top + 1)).reverse.Nodup := List.nodup_reverse.mpr List.nodup_range
        refine List.Pairwise.imp_of_mem (fun {a b} _ _ hab => ?_) hrn
        intro n hna hnb
        obtain ⟨p, hp, rfl⟩ := List.mem_map.mp hna
        obtain ⟨q, hq, hqn⟩ := List.mem_map.mp hnb
        rw [List.mem_filter] at hp hq
        have h1 : p.1 = a := by simpa using hp.2
        have h2 : q.1 = b := by simpa using hq.2
        have e1 := hgord p.1 p.2 hp.1
        have e2 := hgord q.1 q.2 hq.1
        rw [hqn] at e2
        exact hab (by rw [← h1, ← h2, ← e1, ← e2])
    · intro n hn m hm
      rw [List.mem_singleton] at hm; subst hm
      intro hnm; subst hnm
      obtain ⟨j, hj⟩ := (hstarmem _).mp hn
      obtain ⟨t, ht, h1, h2, h3, -⟩ := (hpsmem j _).mp hj
      have : t = s := hI.name_inj ht hs h1
      rw [this] at h2; omega
  have hLnd : L.Nodup := by
    rw [hL]
    apply List.Nodup.map_on _ hNnd
    intro a ha b hb hab
    rw [← (hg a ha).2.1, ← (hg b hb).2.1, hab]
  have hLmem : ∀ t ∈ L, t ∈ c.simps := by
    intro t ht
    obtain ⟨n, hn, rfl⟩ := List.mem_map.mp ht
    exact (hg n hn).1
  have hLsorted : L.Pairwise (fun a b => b.order ≤ a.order) := by
    rw [hL, List.map_append, List.pairwise_append]
    refine ⟨?_, by simp, ?_⟩
    · rw [List.pairwise_map, hstar, List.pairwise_flatMap]
      constructor
      · intro j _
        rw [List.pairwise_map]
        refine List.Pairwise.imp_of_mem (fun {p q} hp hq _ => ?_)
          (List.pairwise_of_forall (R := fun _ _ => True) (fun _ _ => trivial))
        rw [List.mem_filter] at hp hq
        have h1 : p.1 = j := by simpa using hp.2
        have h2 : q.1 = j := by simpa using hq.2
        rw [hgord p.1 p.2 hp.1, hgord q.1 q.2 hq.1]; omega
      · rw [List.pairwise_reverse]
        refine List.Pairwise.imp_of_mem (fun {a b} _ _ hab => ?_) (List.pairwise_lt_range (n := top + 1))
        intro x hx y hy
        obtain ⟨p, hp, rfl⟩ := List.mem_map.mp hx
        obtain ⟨q, hq, rfl⟩ := List.mem_map.mp hy
        rw [List.mem_filter] at hp hq
        have h1 : p.1 = b := by simpa using hp.2
        have h2 : q.1 = a := by simpa using hq.2
        rw [hgord p.1 p.2 hp.1, hgord q.1 q.2 hq.1]; omega
    · intro a ha b hb
      obtain ⟨n, hn, rfl⟩ := List.mem_map.mp ha
      simp only [List.map_cons, List.map_nil, List.mem_singleton] at hb
      subst hb
      obtain ⟨j, hj⟩ := (hstarmem n).mp hn
      obtain ⟨t, ht, h1, h2, h3, -⟩ := (hpsmem j n).mp hj
      rw [hgs, hgord j n hj]; omega
  -- membership of L = the star of s
  have hLstar : ∀ n, (∃ t ∈ L, t.name = n) ↔ ∃ t ∈ c.simps, t.name = n ∧ s.pts ⊆ t.pts := by
    intro n
    constructor
    · rintro ⟨t, ht, rfl⟩
      obtain ⟨m, hm, rfl⟩ := List.mem_map.mp ht
      exact ⟨g m, (hg m hm).1, rfl, (hg m hm).2.2⟩
    · rintro ⟨t, ht, rfl, hsub⟩
      have hmemN : t.name ∈ starNames ++ [s.name] := by
        by_cases hts : t = s
        · rw [hts]; simp
        · apply List.mem_append_left
          apply (hstarmem t.name).mpr
          refine ⟨t.order, (hpsmem t.order t.name).mpr ⟨t, ht, rfl, rfl, ?_, hsub⟩⟩
          -- strict: t ≠ s with s ⊆ t forces a larger order
          by_contra hle
          have hc := Finset.card_le_card hsub
          rw [hI.pts_card hs, hI.pts_card ht] at hc
          have hoe : t.order = s.order := by omega
          apply hts
          apply hI.uniq t ht s hs hoe
          have heq : s.pts = t.pts := Finset.eq_of_subset_of_card_le hsub (by
            rw [hI.pts_card hs, hI.pts_card ht, hoe])
          intro p
          have := Finset.ext_iff.mp heq p
          simp only [Simp.pts, List.mem_toFinset] at this
          exact this.symm
      refine ⟨g t.name, List.mem_map.mpr ⟨t.name, hmemN, rfl⟩, (hg _ hmemN).2.1⟩
  have hup : UpClosed c (fun n => ∃ t ∈ L, t.name = n) := by
    intro t ht f hf hD
    rw [hLstar] at hD ⊢
    obtain ⟨u, hu, hun, hsub⟩ := hD
    have := star_upclosed hI s.pts t ht f hf ⟨u, hu, hun, hsub⟩
    exact this
  obtain ⟨heq, hInv⟩ := foldl_forceDelete hI L hLmem hLnd hLsorted hup
  rw [hLnames] at heq hInv
  refine ⟨_, rfl, hInv, ?_⟩
  have hpr : partOfRev c fuel s.name s.order = starNames ++ [s.name] := rfl
  rw [hpr, heq]
  congr 1
  apply List.filter_congr
  intro t ht
  have := hLstar t.name
  by_cases hsub : s.pts ⊆ t.pts
  · have h1 : ∃ u ∈ L, u.name = t.name := this.mpr ⟨t, ht, rfl, hsub⟩
    simp [hsub, h1]
  · have h1 : ¬ ∃ u ∈ L, u.name = t.name := by
      intro h
      obtain ⟨u, hu, hun, husub⟩ := this.mp h
      have : u = t := hI.name_inj hu ht hun
      exact hsub (this ▸ husub)
    simp [hsub, h1]

#print axioms deleteSimplex_spec
end Flat
