import Sx.Model
import Mathlib.LinearAlgebra.Matrix.Rank
import Mathlib.Data.ZMod.Basic
import Mathlib.Algebra.Field.ZMod

open Matrix Module

abbrev F2 := ZMod 2
instance : Fact (Nat.Prime 2) := ⟨Nat.prime_two⟩

variable {m n : ℕ}

/-- batch row operation: every row gets a multiple of row `x` added (row `x` itself unchanged) -/
theorem rank_rowop (M M' : Matrix (Fin m) (Fin n) F2) (x : Fin m) (c : Fin m → F2) (hcx : c x = 0)
    (h : ∀ i, M' i = M i + c i • M x) : M'.rank = M.rank := by
  rw [rank_eq_finrank_span_row, rank_eq_finrank_span_row]
  have hx : M' x = M x := by rw [h x, hcx, zero_smul, add_zero]
  suffices hs : Submodule.span F2 (Set.range M'.row) = Submodule.span F2 (Set.range M.row) by rw [hs]
  apply le_antisymm
  · rw [Submodule.span_le]
    rintro _ ⟨i, rfl⟩
    show M' i ∈ _
    rw [h i]
    exact Submodule.add_mem _ (Submodule.subset_span ⟨i, rfl⟩)
      (Submodule.smul_mem _ _ (Submodule.subset_span ⟨x, rfl⟩))
  · rw [Submodule.span_le]
    rintro _ ⟨i, rfl⟩
    show M i ∈ _
    have : M i = M' i - c i • M' x := by rw [hx, h i]; abel
    rw [this]
    exact Submodule.sub_mem _ (Submodule.subset_span ⟨i, rfl⟩)
      (Submodule.smul_mem _ _ (Submodule.subset_span ⟨x, rfl⟩))

/-- batch column operation -/
theorem rank_colop (M M' : Matrix (Fin m) (Fin n) F2) (x : Fin n) (c : Fin n → F2) (hcx : c x = 0)
    (h : ∀ i j, M' i j = M i j + c j * M i x) : M'.rank = M.rank := by
  rw [← rank_transpose M', ← rank_transpose M]
  apply rank_rowop Mᵀ M'ᵀ x c hcx
  intro j; ext i
  simp [h i j, transpose_apply]

theorem rank_swap (M : Matrix (Fin m) (Fin n) F2) (e : Fin m ≃ Fin m) (f : Fin n ≃ Fin n) :
    (M.submatrix e f).rank = M.rank := rank_submatrix M e f

/-- a rectangular partial identity has rank `r` -/
theorem rank_partialId (r : ℕ) (hrm : r ≤ m) (hrn : r ≤ n) (M : Matrix (Fin m) (Fin n) F2)
    (h : ∀ i j, M i j = if (i : ℕ) = j ∧ (i : ℕ) < r then 1 else 0) : M.rank = r := by
  apply le_antisymm
  · -- rank ≤ r : M = A * B through Fin r
    let A : Matrix (Fin m) (Fin r) F2 := fun i k => if (i : ℕ) = k then 1 else 0
    let B : Matrix (Fin r) (Fin n) F2 := fun k j => if (k : ℕ) = j then 1 else 0
    have hM : M = A * B := by
      ext i j
      rw [h i j, Matrix.mul_apply]
      by_cases hij : (i : ℕ) = j ∧ (i : ℕ) < r
      · rw [if_pos hij]
        rw [Finset.sum_eq_single ⟨i, hij.2⟩]
        · simp [A, B, hij.1]
        · intro k _ hk
          have : (i : ℕ) ≠ k := fun e => hk (Fin.ext e.symm)
          simp [A, this]
        · simp
      · rw [if_neg hij]
        symm
        apply Finset.sum_eq_zero
        intro k _
        by_cases h1 : (i : ℕ) = k
        · by_cases h2 : (k : ℕ) = j
          · exact absurd ⟨h1.trans h2, h1 ▸ k.2⟩ hij
          · simp [B, h2]
        · simp [A, h1]
    rw [hM]
    calc (A * B).rank ≤ A.rank := rank_mul_le_left A B
      _ ≤ Fintype.card (Fin r) := rank_le_card_width A
      _ = r := Fintype.card_fin r
  · -- rank ≥ r : the r×r identity is a submatrix
    have : (1 : Matrix (Fin r) (Fin r) F2) = M.submatrix (Fin.castLE hrm) (Fin.castLE hrn) := by
      ext i j
      simp only [submatrix_apply, h, Fin.val_castLE, Matrix.one_apply]
      by_cases hij : i = j
      · subst hij; simp
      · have : (i : ℕ) ≠ j := fun e => hij (Fin.ext e)
        simp [hij, this]
    calc r = Fintype.card (Fin r) := (Fintype.card_fin r).symm
      _ = (1 : Matrix (Fin r) (Fin r) F2).rank := (rank_one).symm
      _ = (M.submatrix (Fin.castLE hrm) (Fin.castLE hrn)).rank := by rw [this]
      _ ≤ M.rank := rank_submatrix_le _ _ _

#print axioms rank_rowop
#print axioms rank_partialId
