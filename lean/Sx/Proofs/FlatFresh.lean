import Sx.Model
import Sx.Proofs.FlatAdd

/-! spike (C01 "auto-generated names never collide"): the fuelled mirror of `newSimplex`'s `while True`
loop returns an unused name when the fuel exceeds the number of simplices — so `|simplices| + 1`
iterations always suffice (termination of the Python loop) and the result is fresh. -/
namespace Flat

/-- how many simplices carry a generated name `auto d j` with `j ≥ i` -/
def usedFrom (c : C) (d i : Nat) : Nat :=
  (c.simps.filter (fun s => match s.name with | .auto d' j => d' == d && decide (i ≤ j) | _ => false)).length

theorem usedFrom_le (c : C) (d i : Nat) : usedFrom c d i ≤ c.simps.length := List.length_filter_le _ _

theorem usedFrom_succ {c : C} (hnd : (c.simps.map (·.name)).Nodup) {d i : Nat}
    (h : c.contains (.auto d i) = true) : usedFrom c d (i + 1) + 1 ≤ usedFrom c d i := by
  obtain ⟨s, hs, hn⟩ := contains_iff.mp h
  unfold usedFrom
  -- the filter for i+1 is a strict sub-filter: it misses s
  set p1 : Simp Name → Bool := fun s => match s.name with | .auto d' j => d' == d && decide (i + 1 ≤ j) | _ => false
  set p0 : Simp Name → Bool := fun s => match s.name with | .auto d' j => d' == d && decide (i ≤ j) | _ => false
  have himp : ∀ x, p1 x = true → p0 x = true := by
    intro x hx
    simp only [p1, p0] at hx ⊢
    split at hx <;> simp_all
    omega
  have hs0 : p0 s = true := by simp [p0, hn]
  have hs1 : p1 s = false := by simp [p1, hn]
  -- count via filter of filter
  have e : c.simps.filter p1 = (c.simps.filter p0).filter p1 := by
    rw [List.filter_filter]
    apply List.filter_congr
    intro x _
    by_cases hx : p1 x = true
    · simp [hx, himp x hx]
    · simp [hx]
  rw [e]
  have hmem : s ∈ c.simps.filter p0 := List.mem_filter.mpr ⟨hs, hs0⟩
  have hlt : ((c.simps.filter p0).filter p1).length < (c.simps.filter p0).length := by
    apply List.length_filter_lt_length_iff_exists.mpr
    exact ⟨s, hmem, by simp [hs1]⟩
  omega

/-- the search never stops on a used name as long as fuel remains above the number of used names -/
theorem newSimplexAux_fresh {c : C} (hnd : (c.simps.map (·.name)).Nodup) (d : Nat) :
    ∀ (fuel i : Nat), usedFrom c d i < fuel →
      c.contains (.auto d (newSimplexAux c d fuel i)) = false ∧ i ≤ newSimplexAux c d fuel i := by
  intro fuel
  induction fuel with
  | zero => intro i h; omega
  | succ fuel ih =>
    intro i h
    unfold newSimplexAux
    by_cases hc : c.contains (.auto d i) = true
    · rw [if_pos hc]
      have := usedFrom_succ hnd hc
      obtain ⟨h1, h2⟩ := ih (i + 1) (by omega)
      exact ⟨h1, by omega⟩
    · rw [if_neg hc]
      exact ⟨by simpa using hc, Nat.le_refl _⟩

/-- **newSimplex is fresh, and `|simplices| + 1` iterations suffice** -/
theorem newSimplex_fresh {c : C} (hnd : (c.simps.map (·.name)).Nodup) (d : Nat) :
    c.contains (newSimplex c d).1 = false ∧ (newSimplex c d).2.simps = c.simps ∧ c.seq < (newSimplex c d).2.seq := by
  unfold newSimplex
  have h := newSimplexAux_fresh hnd d (c.simps.length + 1) c.seq (by have := usedFrom_le c d c.seq; omega)
  exact ⟨h.1, rfl, by simp; omega⟩

#print axioms newSimplex_fresh
end Flat
