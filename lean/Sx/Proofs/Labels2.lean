import Sx.Model
import Sx.Proofs.Labels

/-! spike (C07) part 2: entry-wise forms of the column operations, as the Python loops perform them:
`col_j += c_j * col_x` on the matrix, `label_j += c_j * label_x` on the labels (with `c_x = 0`). -/
open Matrix

variable {m n : ℕ}

/-- the substitution on vectors that undoes a batch column operation -/
def vsub (x : Fin n) (c : Fin n → F2) (v : Fin n → F2) : Fin n → F2 :=
  fun j => if j = x then v x + ∑ l, c l * v l else v j

theorem colop_mulVec {r : ℕ} (M M' : Matrix (Fin r) (Fin n) F2) (x : Fin n) (c : Fin n → F2) (hcx : c x = 0)
    (h : ∀ i j, M' i j = M i j + c j * M i x) (v : Fin n → F2) :
    M' *ᵥ v = M *ᵥ (vsub x c v) := by
  funext i
  simp only [Matrix.mulVec, dotProduct, h i, vsub]
  -- Σ_j (M i j + c j M i x) v j = Σ_j M i j v' j
  have h1 : ∑ j, (M i j + c j * M i x) * v j = ∑ j, M i j * v j + M i x * ∑ l, c l * v l := by
    rw [Finset.mul_sum, ← Finset.sum_add_distrib]
    apply Finset.sum_congr rfl; intro j _; ring
  have h2 : ∑ j, M i j * (if j = x then v x + ∑ l, c l * v l else v j) =
      ∑ j, M i j * v j + M i x * ∑ l, c l * v l := by
    have : ∀ j, M i j * (if j = x then v x + ∑ l, c l * v l else v j) =
        M i j * v j + (if j = x then M i x * ∑ l, c l * v l else 0) := by
      intro j
      by_cases hj : j = x
      · subst hj; simp; ring
      · simp [hj]
    simp only [this]
    rw [Finset.sum_add_distrib]
    simp
  rw [h1, h2]

/-- the batch column operation acts on `B * Q` exactly as on `Q` -/
theorem colop_mul {r : ℕ} (B : Matrix (Fin r) (Fin n) F2) (Q Q' : Matrix (Fin n) (Fin n) F2) (x : Fin n)
    (c : Fin n → F2) (h : ∀ s j, Q' s j = Q s j + c j * Q s x) :
    ∀ i j, (B * Q') i j = (B * Q) i j + c j * (B * Q) i x := by
  intro i j
  simp only [Matrix.mul_apply, h]
  rw [Finset.mul_sum, ← Finset.sum_add_distrib]
  apply Finset.sum_congr rfl; intro s _; ring

/-- the column pass of `_reduceBoundaries`, applied to the matrix and to the labels, keeps the invariant -/
theorem KerEq.colpass {C C' B : Matrix (Fin m) (Fin n) F2} {Q Q' : Matrix (Fin n) (Fin n) F2}
    (hK : KerEq C B Q) (x : Fin n) (c : Fin n → F2) (hcx : c x = 0)
    (hC : ∀ i j, C' i j = C i j + c j * C i x) (hQ : ∀ s j, Q' s j = Q s j + c j * Q s x) :
    KerEq C' B Q' := by
  intro v
  rw [colop_mulVec C C' x c hcx hC v, colop_mulVec (B * Q) (B * Q') x c hcx (colop_mul B Q Q' x c hQ) v]
  exact hK _

/-- the column swap, applied to both, keeps the invariant -/
theorem KerEq.colswap {C B : Matrix (Fin m) (Fin n) F2} {Q : Matrix (Fin n) (Fin n) F2}
    (hK : KerEq C B Q) (σ : Fin n ≃ Fin n) : KerEq (C.submatrix id σ) B (Q.submatrix id σ) := by
  intro v
  have h1 : (C.submatrix id σ) *ᵥ v = C *ᵥ (v ∘ σ.symm) := by
    funext i
    simp only [Matrix.mulVec, dotProduct, Matrix.submatrix_apply, id]
    exact Fintype.sum_equiv σ _ _ (fun j => by simp)
  have h2 : (B * Q.submatrix id σ) *ᵥ v = (B * Q) *ᵥ (v ∘ σ.symm) := by
    funext i
    simp only [Matrix.mulVec, dotProduct, Matrix.mul_apply, Matrix.submatrix_apply, id]
    exact Fintype.sum_equiv σ _ _ (fun j => by simp)
  rw [h1, h2]
  exact hK _

#print axioms KerEq.colpass
#print axioms KerEq.colswap
