import Sx.Model
import Sx.Proofs.MatProofs
import Mathlib.Algebra.BigOperators.Group.Finset.Basic
import Mathlib.Algebra.BigOperators.Ring.Finset
import Mathlib.Tactic.Ring
import Mathlib.Tactic.Linarith

/-! spike: counting zero columns / non-zero rows of the computed normal form; Euler–Poincaré for the
model's Betti numbers needs only the *shape* theorem. -/
namespace M2

theorem range_filter_lt_length (n r : Nat) (h : r ≤ n) :
    ((List.range n).filter (fun j => decide (j < r))).length = r := by
  induction n with
  | zero => simp at h; simp [h]
  | succ n ih =>
    rw [List.range_succ, List.filter_append, List.length_append]
    by_cases hr : r ≤ n
    · rw [ih hr]
      have : ¬ n < r := by omega
      simp [this]
    · have hrn : r = n + 1 := by omega
      subst hrn
      have : ∀ j ∈ List.range n, decide (j < n + 1) = true := by
        intro j hj; rw [List.mem_range] at hj; simp; omega
      rw [List.filter_eq_self.mpr this]
      simp

theorem range_filter_ge_length (n r : Nat) (h : r ≤ n) :
    ((List.range n).filter (fun j => decide (r ≤ j))).length = n - r := by
  have h1 := range_filter_lt_length n r h
  have h2 : ((List.range n).filter (fun j => decide (j < r))).length +
      ((List.range n).filter (fun j => !decide (j < r))).length = (List.range n).length := by
    rw [← List.length_append]
    exact (List.filter_append_perm _ _).length_eq
  rw [List.length_range, h1] at h2
  have : (List.range n).filter (fun j => decide (r ≤ j)) = (List.range n).filter (fun j => !decide (j < r)) := by
    apply List.filter_congr; intro j _
    by_cases hj : j < r
    · have : ¬ r ≤ j := by omega
      simp [hj, this]
    · have : r ≤ j := by omega
      simp [hj, this]
  rw [this]; omega

/-- counts on a partial identity -/
theorem partialId_counts (B : Mat) (r : Nat) (hr : r ≤ min B.m B.n)
    (h : ∀ i j, i < B.m → j < B.n → B.get i j = decide (i = j ∧ i < r)) :
    zeroCols B = B.n - r ∧ nonzeroRows B = r := by
  constructor
  · unfold zeroCols
    rw [← range_filter_ge_length B.n r (by omega)]
    congr 1
    apply List.filter_congr
    intro j hj
    rw [List.mem_range] at hj
    by_cases hjr : r ≤ j
    · simp only [hjr, decide_true, List.all_eq_true, List.mem_range, Bool.not_eq_eq_eq_not, Bool.not_true]
      intro i hi; rw [h i j hi hj]; simp; omega
    · have hjm : j < B.m := by omega
      simp only [hjr, decide_false, List.all_eq_false, List.mem_range]
      exact ⟨j, hjm, by rw [h j j hjm hj]; simp; omega⟩
  · unfold nonzeroRows
    rw [← range_filter_lt_length B.m r (by omega)]
    congr 1
    apply List.filter_congr
    intro i hi
    rw [List.mem_range] at hi
    by_cases hir : i < r
    · have hin : i < B.n := by omega
      simp only [hir, decide_true, List.any_eq_true, List.mem_range]
      exact ⟨i, hin, by rw [h i i hi hin]; simp [hir]⟩
    · simp only [hir, decide_false, List.any_eq_false, List.mem_range]
      intro j hj; rw [h i j hi hj]; simp; omega

/-- for every matrix: the normal form has `n - r` zero columns and `r` non-zero rows, `r ≤ min m n` -/
theorem snf_counts (B : Mat) : ∃ r, r ≤ min B.m B.n ∧ zeroCols (snf B) = B.n - r ∧ nonzeroRows (snf B) = r := by
  obtain ⟨r, hr, hm, hn, hall⟩ := snf_shape B
  refine ⟨r, hr, ?_⟩
  have := partialId_counts (snf B) r (by rw [hm, hn]; exact hr)
    (fun i j hi hj => hall i j (by rw [← hm]; exact hi) (by rw [← hn]; exact hj))
  rw [hn] at this; exact this

/-- the rank the model computes for a matrix -/
noncomputable def rk (B : Mat) : Nat := Classical.choose (snf_counts B)
theorem rk_spec (B : Mat) : rk B ≤ min B.m B.n ∧ zeroCols (snf B) = B.n - rk B ∧ nonzeroRows (snf B) = rk B :=
  Classical.choose_spec (snf_counts B)

/-- **Euler–Poincaré for the model**: if consecutive shapes fit (`(d (k+1)).m = (d k).n`), the bottom
operator has rank 0 rows (`(d 0).m ≤ 1` and is zero — here: `rk (d 0) = 0`) and the top one is empty,
the alternating sum of the computed Betti numbers is the alternating sum of the simplex counts. -/
theorem euler_poincare (d : Nat → Mat) (K : Nat)
    (h0 : rk (d 0) = 0) (hK : rk (d (K + 1)) = 0) :
    (Finset.range (K + 1)).sum (fun k => (-1 : Int) ^ k * betti d k) =
    (Finset.range (K + 1)).sum (fun k => (-1 : Int) ^ k * ((d k).n : Int)) := by
  have hb : ∀ k, betti d k = ((d k).n : Int) - rk (d k) - rk (d (k + 1)) := by
    intro k
    unfold betti
    obtain ⟨h1, h2, -⟩ := rk_spec (d k)
    obtain ⟨-, -, h3⟩ := rk_spec (d (k + 1))
    rw [h2, h3]
    have : rk (d k) ≤ (d k).n := by omega
    omega
  simp only [hb]
  -- telescoping
  have tele : ∀ K, (Finset.range (K + 1)).sum (fun k => (-1 : Int) ^ k * ((rk (d k) : Int) + rk (d (k + 1)))) =
      (rk (d 0) : Int) + (-1) ^ K * rk (d (K + 1)) := by
    intro K
    induction K with
    | zero => simp
    | succ K ih =>
      rw [Finset.sum_range_succ, ih]
      ring
  have := tele K
  rw [h0, hK] at this
  have split : (Finset.range (K + 1)).sum (fun k => (-1 : Int) ^ k * (((d k).n : Int) - rk (d k) - rk (d (k + 1)))) =
      (Finset.range (K + 1)).sum (fun k => (-1 : Int) ^ k * ((d k).n : Int)) -
      (Finset.range (K + 1)).sum (fun k => (-1 : Int) ^ k * ((rk (d k) : Int) + rk (d (k + 1)))) := by
    rw [← Finset.sum_sub_distrib]
    apply Finset.sum_congr rfl
    intro k _; ring
  rw [split, this]; simp

#print axioms euler_poincare
end M2
