import Sx.Model
import Sx.Proofs.MatProofs
import Sx.Proofs.Rank

open Matrix

namespace M2

def b2f (a : Bool) : F2 := if a then 1 else 0

theorem b2f_xor (a b : Bool) : b2f (a != b) = b2f a + b2f b := by
  cases a <;> cases b <;> simp [b2f] <;> decide

/-- the GF(2) matrix denoted by a list matrix -/
def toM (m n : ℕ) (B : Mat) : Matrix (Fin m) (Fin n) F2 := fun i j => b2f (B.get i j)

theorem step_eq (B : Mat) (x k l : Nat) :
    step B x k l = colPass (rowPass (colSwap (rowSwap B x k) x l) x) x := rfl

theorem swapN_eq_swap {m : ℕ} (a b : Fin m) (i : Fin m) :
    swapN a b i = ((Equiv.swap a b) i : ℕ) := by
  unfold swapN
  by_cases h1 : i = a
  · subst h1; simp
  · by_cases h2 : i = b
    · subst h2
      have : (i : ℕ) ≠ a := fun h => h1 (Fin.ext h)
      simp [this]
    · have e1 : (i : ℕ) ≠ a := fun h => h1 (Fin.ext h)
      have e2 : (i : ℕ) ≠ b := fun h => h2 (Fin.ext h)
      simp [e1, e2, Equiv.swap_apply_of_ne_of_ne h1 h2]

variable {m n : ℕ}

theorem rank_rowSwap (B : Mat) (hm : B.m = m) (hn : B.n = n) (x k : Nat) (hx : x < m) (hk : k < m) :
    (toM m n (rowSwap B x k)).rank = (toM m n B).rank := by
  have : toM m n (rowSwap B x k) = (toM m n B).submatrix (Equiv.swap ⟨x, hx⟩ ⟨k, hk⟩) (Equiv.refl _) := by
    ext i j
    simp only [toM, rowSwap, submatrix_apply, Equiv.refl_apply]
    rw [get_mk (by omega) (by omega)]
    rw [show swapN x k i = swapN (⟨x, hx⟩ : Fin m) (⟨k, hk⟩ : Fin m) i from rfl, swapN_eq_swap]
  rw [this, rank_submatrix]

theorem rank_colSwap (B : Mat) (hm : B.m = m) (hn : B.n = n) (x l : Nat) (hx : x < n) (hl : l < n) :
    (toM m n (colSwap B x l)).rank = (toM m n B).rank := by
  have : toM m n (colSwap B x l) = (toM m n B).submatrix (Equiv.refl _) (Equiv.swap ⟨x, hx⟩ ⟨l, hl⟩) := by
    ext i j
    simp only [toM, colSwap, submatrix_apply, Equiv.refl_apply]
    rw [get_mk (by omega) (by omega)]
    rw [show swapN x l j = swapN (⟨x, hx⟩ : Fin n) (⟨l, hl⟩ : Fin n) j from rfl, swapN_eq_swap]
  rw [this, rank_submatrix]

theorem rank_rowPass (B : Mat) (hm : B.m = m) (hn : B.n = n) (x : Nat) (hx : x < m) :
    (toM m n (rowPass B x)).rank = (toM m n B).rank := by
  apply rank_rowop (toM m n B) (toM m n (rowPass B x)) ⟨x, hx⟩
    (fun i => b2f (decide (x < (i : ℕ)) && B.get i x))
  · simp [b2f]
  · intro i; ext j
    simp only [toM, rowPass, Pi.add_apply, Pi.smul_apply, smul_eq_mul]
    rw [get_mk (by omega) (by omega)]
    by_cases hc : (decide (x < (i : ℕ)) && B.get i x) = true
    · rw [if_pos hc, b2f_xor, hc]; simp [b2f]
    · rw [if_neg hc]
      have : (decide (x < (i : ℕ)) && B.get i x) = false := by simpa using hc
      rw [this]; simp [b2f]

theorem rank_colPass (B : Mat) (hm : B.m = m) (hn : B.n = n) (x : Nat) (hx : x < n) :
    (toM m n (colPass B x)).rank = (toM m n B).rank := by
  apply rank_colop (toM m n B) (toM m n (colPass B x)) ⟨x, hx⟩
    (fun j => b2f (decide (x < (j : ℕ)) && B.get x j))
  · simp [b2f]
  · intro i j
    simp only [toM, colPass]
    rw [get_mk (by omega) (by omega)]
    by_cases hc : (decide (x < (j : ℕ)) && B.get x j) = true
    · rw [if_pos hc, b2f_xor, hc]; simp [b2f]
    · rw [if_neg hc]
      have : (decide (x < (j : ℕ)) && B.get x j) = false := by simpa using hc
      rw [this]; simp [b2f]

theorem rank_step (B : Mat) (hm : B.m = m) (hn : B.n = n) (x k l : Nat)
    (hxm : x < m) (hxn : x < n) (hk : k < m) (hl : l < n) :
    (toM m n (step B x k l)).rank = (toM m n B).rank := by
  rw [step_eq]
  rw [rank_colPass _ (by simpa [rowPass, colSwap, rowSwap] using hm) (by simpa [rowPass, colSwap, rowSwap] using hn) x hxn]
  rw [rank_rowPass _ (by simpa [colSwap, rowSwap] using hm) (by simpa [colSwap, rowSwap] using hn) x hxm]
  rw [rank_colSwap _ (by simpa [rowSwap] using hm) (by simpa [rowSwap] using hn) x l hxn hl]
  rw [rank_rowSwap _ hm hn x k hxm hk]

/-- the reduction never changes the GF(2) rank -/
theorem reduce_rank (B : Mat) (hm : B.m = m) (hn : B.n = n) (x fuel : Nat) :
    (toM m n (reduce B x fuel)).rank = (toM m n B).rank := by
  induction fuel generalizing B x with
  | zero => rfl
  | succ fuel ih =>
    simp only [reduce]
    split_ifs with hx
    · rfl
    · cases hp : findPivot B x with
      | none => rfl
      | some kl =>
        obtain ⟨k, l⟩ := kl
        simp only
        obtain ⟨hk, hkm, hl, hln, -⟩ := findPivot_some hp
        have hs := step_shape B x k l
        rw [ih (step B x k l) (by rw [hs.1, hm]) (by rw [hs.2, hn])]
        exact rank_step B hm hn x k l (by omega) (by omega) (by omega) (by omega)

/-- **C06 core**: the Smith normal form computed by the model is a partial identity whose number
of ones is the GF(2) rank of the input. -/
theorem snf_rank (B : Mat) :
    ∃ r, r = (toM B.m B.n B).rank ∧ (snf B).m = B.m ∧ (snf B).n = B.n ∧
      ∀ i j, i < B.m → j < B.n → (snf B).get i j = decide (i = j ∧ i < r) := by
  obtain ⟨r, hr, hm, hn, hall⟩ := snf_shape B
  refine ⟨r, ?_, hm, hn, hall⟩
  have h1 : (toM B.m B.n (snf B)).rank = (toM B.m B.n B).rank := reduce_rank B rfl rfl 0 _
  rw [← h1]
  symm
  apply rank_partialId r (by omega) (by omega)
  intro i j
  simp only [toM]
  rw [hall i j i.2 j.2]
  by_cases h : (i : ℕ) = j ∧ (i : ℕ) < r <;> simp [h, b2f]

#print axioms snf_rank
end M2
