import Sx.Model
import Sx.Proofs.FlatInv
import Mathlib.Data.List.Perm.Subperm
import Mathlib.Data.List.Dedup

namespace Flat
set_option linter.unusedSectionVars false
variable {α : Type} [DecidableEq α]

/-! ### insertSorted -/
theorem mem_insertSorted {s x : Simp α} {l : List (Simp α)} :
    x ∈ insertSorted s l ↔ x = s ∨ x ∈ l := by
  induction l with
  | nil => simp [insertSorted]
  | cons t ts ih =>
    unfold insertSorted
    split
    · simp [ih]; tauto
    · simp

theorem insertSorted_perm (s : Simp α) (l : List (Simp α)) : (insertSorted s l).Perm (s :: l) := by
  induction l with
  | nil => simp [insertSorted]
  | cons t ts ih =>
    unfold insertSorted
    split
    · exact (List.Perm.cons t ih).trans (List.Perm.swap s t ts)
    · exact List.Perm.refl _

theorem insertSorted_sorted {s : Simp α} {l : List (Simp α)}
    (h : l.Pairwise (fun a b => a.order ≤ b.order)) :
    (insertSorted s l).Pairwise (fun a b => a.order ≤ b.order) := by
  induction l with
  | nil => simp [insertSorted]
  | cons t ts ih =>
    unfold insertSorted
    rw [List.pairwise_cons] at h
    split
    · rename_i hle
      rw [List.pairwise_cons]
      refine ⟨?_, ih h.2⟩
      intro x hx
      rcases mem_insertSorted.mp hx with rfl | hx
      · exact hle
      · exact h.1 x hx
    · rename_i hnle
      rw [List.pairwise_cons]
      refine ⟨?_, List.pairwise_cons.mpr h⟩
      intro x hx
      rcases List.mem_cons.mp hx with rfl | hx
      · omega
      · have := h.1 x hx; omega

/-! ### dedupL -/
theorem mem_dedupL {x : α} {l : List α} : x ∈ dedupL l ↔ x ∈ l := by
  induction l with
  | nil => simp [dedupL]
  | cons y ys ih =>
    simp only [dedupL]
    split
    · rename_i hc
      rw [List.contains_iff_mem] at hc
      rw [ih, List.mem_cons]
      constructor
      · exact Or.inr
      · rintro (rfl | h)
        · exact ih.mp hc
        · exact h
    · simp [ih]

theorem nodup_dedupL (l : List α) : (dedupL l).Nodup := by
  induction l with
  | nil => simp [dedupL]
  | cons y ys ih =>
    simp only [dedupL]
    split
    · exact ih
    · rename_i hc
      rw [List.contains_iff_mem] at hc
      exact List.nodup_cons.mpr ⟨hc, ih⟩

/-! ### lookups -/
theorem lookup_some {c : Cx α} {n : α} {s : Simp α} (h : c.lookup n = some s) :
    s ∈ c.simps ∧ s.name = n := by
  unfold Cx.lookup at h
  have h1 := List.mem_of_find?_eq_some h
  have h2 := List.find?_some h
  exact ⟨h1, by simpa using h2⟩

theorem lookup_of_mem {c : Cx α} (hI : Inv c) {s : Simp α} (hs : s ∈ c.simps) :
    c.lookup s.name = some s := by
  unfold Cx.lookup
  cases hf : c.simps.find? (fun t => t.name == s.name) with
  | none =>
    have := List.find?_eq_none.mp hf s hs
    simp at this
  | some t =>
    have h1 := List.mem_of_find?_eq_some hf
    have h2 := List.find?_some hf
    simp only [beq_iff_eq] at h2
    rw [hI.name_inj h1 hs h2]

theorem contains_iff {c : Cx α} {n : α} : c.contains n = true ↔ ∃ s ∈ c.simps, s.name = n := by
  unfold Cx.contains
  constructor
  · intro h
    obtain ⟨s, hs⟩ := Option.isSome_iff_exists.mp h
    exact ⟨s, lookup_some hs⟩
  · rintro ⟨s, hs, rfl⟩
    unfold Cx.lookup
    rw [List.find?_isSome]
    exact ⟨s, hs, by simp⟩

/-- the contract of `addSimplex(fs)`: the faces span exactly `fs.length` points -/
def InContract (c : Cx α) (fs : List α) : Prop :=
  fs = [] ∨ (dedupL (fs.flatMap c.basisOf)).length = fs.length

theorem addSimplex_ok_inv {c c' : Cx α} {fs : List α} {id : α} (hI : Inv c)
    (hc : InContract c fs) (h : c.addSimplex fs id = .ok c') : Inv c' := by
  unfold Cx.addSimplex at h
  simp only at h
  split at h; · cases h
  rename_i hlen1
  split at h; · cases h
  rename_i hcont
  split at h; · cases h
  rename_i hnd
  split at h; · cases h
  rename_i hmax
  have hidnot : ∀ t ∈ c.simps, t.name ≠ id := by
    intro t ht hn
    exact hcont (contains_iff.mpr ⟨t, ht, hn⟩)
  split at h
  · -- a point
    rename_i hemp
    have hfs : fs = [] := by simpa using hemp
    injection h with h; subst h
    set s : Simp α := ⟨id, 0, [], [id]⟩ with hs
    have hmem : ∀ x, x ∈ insertSorted s c.simps ↔ x = s ∨ x ∈ c.simps := fun x => mem_insertSorted
    refine ⟨insertSorted_sorted hI.sorted, ?_, ?_, ?_, ?_⟩
    · have := (insertSorted_perm s c.simps).map (·.name)
      rw [this.nodup_iff, List.map_cons, List.nodup_cons]
      refine ⟨?_, hI.nodup⟩
      intro hin
      obtain ⟨t, ht, hn⟩ := List.mem_map.mp hin
      exact hidnot t ht hn
    · intro x hx h0
      rcases (hmem x).mp hx with rfl | hx
      · exact ⟨rfl, rfl⟩
      · exact hI.point x hx h0
    · intro x hx hpos
      rcases (hmem x).mp hx with rfl | hx
      · simp [hs] at hpos
      · obtain ⟨a, b, c1, d, e, f⟩ := hI.higher x hx hpos
        refine ⟨a, b, ?_, d, e, ?_⟩
        · intro g hg; obtain ⟨t, ht, h1, h2⟩ := c1 g hg
          exact ⟨t, (hmem t).mpr (Or.inr ht), h1, h2⟩
        · intro p; rw [f p]
          constructor
          · rintro ⟨g, hg, t, ht, h1, h2⟩; exact ⟨g, hg, t, (hmem t).mpr (Or.inr ht), h1, h2⟩
          · rintro ⟨g, hg, t, ht, h1, h2⟩
            rcases (hmem t).mp ht with rfl | ht
            · -- t = new point named id, but g is a face name of an old simplex ⇒ g ∈ names
              obtain ⟨t', ht', h1', -⟩ := c1 g hg
              exact absurd (h1'.trans h1.symm) (hidnot t' ht')
            · exact ⟨g, hg, t, ht, h1, h2⟩
    · intro x hx y hy ho hb
      rcases (hmem x).mp hx with rfl | hx <;> rcases (hmem y).mp hy with rfl | hy
      · rfl
      · -- new point vs old point with the same basis [id]
        have h0 : y.order = 0 := by simpa [hs] using ho.symm
        have := (hI.point y hy h0).2
        have hid : id ∈ y.basis := (hb id).mp (by simp [hs])
        rw [this] at hid
        exact absurd (List.mem_singleton.mp hid).symm (hidnot y hy)
      · have h0 : x.order = 0 := by simpa [hs] using ho
        have := (hI.point x hx h0).2
        have hid : id ∈ x.basis := (hb id).mpr (by simp [hs])
        rw [this] at hid
        exact absurd (List.mem_singleton.mp hid).symm (hidnot x hx)
      · exact hI.uniq x hx y hy ho hb
  · -- a higher simplex
    rename_i hemp
    split at h; · cases h
    rename_i hknown
    split at h; · cases h
    rename_i hord
    split at h; · cases h
    rename_i hdup
    injection h with h; subst h
    have hne : fs ≠ [] := by simpa using hemp
    have hlen2 : 2 ≤ fs.length := by
      have : fs.length ≠ 0 := by simpa using hne
      omega
    set k := fs.length - 1 with hk
    set bs0 := dedupL (fs.flatMap c.basisOf) with hbs0
    set fs' := canonFaces c k fs with hfs'
    set bs := canonBasis c fs with hbs
    set s : Simp α := ⟨id, k, fs', bs⟩ with hs
    have hmem : ∀ x, x ∈ insertSorted s c.simps ↔ x = s ∨ x ∈ c.simps := fun x => mem_insertSorted
    -- every face is an existing simplex of order k-1
    have hface : ∀ f ∈ fs, ∃ t ∈ c.simps, t.name = f ∧ t.order + 1 = k := by
      intro f hf
      have h1 : c.contains f = true := by
        by_contra hcon
        exact hknown (List.any_eq_true.mpr ⟨f, hf, by simpa using hcon⟩)
      have h2 : c.orderOf? f = some (k - 1) := by
        by_contra hcon
        exact hord (List.any_eq_true.mpr ⟨f, hf, by simpa using hcon⟩)
      unfold Cx.orderOf? at h2
      obtain ⟨t, ht, hto⟩ := Option.map_eq_some_iff.mp h2
      obtain ⟨htm, htn⟩ := lookup_some ht
      exact ⟨t, htm, htn, by omega⟩
    have hbasisOf : ∀ t ∈ c.simps, c.basisOf t.name = t.basis := by
      intro t ht; unfold Cx.basisOf; rw [lookup_of_mem hI ht]; rfl
    have hbs0mem : ∀ p, p ∈ bs0 ↔ ∃ f ∈ fs, ∃ t ∈ c.simps, t.name = f ∧ p ∈ t.basis := by
      intro p
      rw [hbs0, mem_dedupL, List.mem_flatMap]
      constructor
      · rintro ⟨f, hf, hp⟩
        obtain ⟨t, ht, hn, -⟩ := hface f hf
        refine ⟨f, hf, t, ht, hn, ?_⟩
        rw [← hn, hbasisOf t ht] at hp; exact hp
      · rintro ⟨f, hf, t, ht, hn, hp⟩
        refine ⟨f, hf, ?_⟩
        rw [← hn, hbasisOf t ht]; exact hp
    have hbs0len : bs0.length = k + 1 := by
      rcases hc with hc | hc
      · exact absurd hc hne
      · rw [hbs0, hc]; omega
    -- names of any one order are distinct
    have hnamesnd : ∀ j, ((c.ofOrder j).map (·.name)).Nodup := fun j =>
      hI.nodup.sublist (List.Sublist.map _ List.filter_sublist)
    -- the canonical face list: same members as fs, no repeats
    have hfs'mem : ∀ f, f ∈ fs' ↔ f ∈ fs := by
      intro f
      rw [hfs', canonFaces, List.mem_filter, List.mem_map]
      constructor
      · rintro ⟨-, h2⟩; simpa using h2
      · intro hf
        obtain ⟨t, ht, hn, ho⟩ := hface f hf
        refine ⟨⟨t, ?_, hn⟩, by simpa using hf⟩
        unfold Cx.ofOrder; rw [List.mem_filter]; exact ⟨ht, by simp; omega⟩
    have hfs'nd : fs'.Nodup := (hnamesnd (k - 1)).filter _
    have hfs'perm : fs'.Perm fs :=
      (List.perm_ext_iff_of_nodup hfs'nd (by simpa using hnd)).mpr hfs'mem
    -- the canonical basis list: same members as the union of the faces' bases, no repeats
    have hbsmem : ∀ p, p ∈ bs ↔ ∃ f ∈ fs, ∃ t ∈ c.simps, t.name = f ∧ p ∈ t.basis := by
      intro p
      rw [hbs, canonBasis, List.mem_filter, List.mem_map]
      constructor
      · rintro ⟨-, h2⟩
        rw [List.any_eq_true] at h2
        obtain ⟨f, hf, hp⟩ := h2
        rw [List.contains_iff_mem] at hp
        obtain ⟨t, ht, hn, -⟩ := hface f hf
        refine ⟨f, hf, t, ht, hn, ?_⟩
        rw [← hn, hbasisOf t ht] at hp; exact hp
      · rintro ⟨f, hf, t, ht, hn, hp⟩
        obtain ⟨q, hq, hqn, hq0, -⟩ := hI.basis_point t.order ht rfl p hp
        refine ⟨⟨q, ?_, hqn⟩, ?_⟩
        · unfold Cx.ofOrder; rw [List.mem_filter]; exact ⟨hq, by simpa using hq0⟩
        · rw [List.any_eq_true]
          refine ⟨f, hf, ?_⟩
          rw [List.contains_iff_mem, ← hn, hbasisOf t ht]; exact hp
    have hbsnd : bs.Nodup := (hnamesnd 0).filter _
    have hbslen : bs.length = k + 1 := by
      have : bs.Perm bs0 := (List.perm_ext_iff_of_nodup hbsnd (nodup_dedupL _)).mpr
        (fun p => (hbsmem p).trans (hbs0mem p).symm)
      rw [this.length_eq, hbs0len]
    refine ⟨insertSorted_sorted hI.sorted, ?_, ?_, ?_, ?_⟩
    · have := (insertSorted_perm s c.simps).map (·.name)
      rw [this.nodup_iff, List.map_cons, List.nodup_cons]
      refine ⟨?_, hI.nodup⟩
      intro hin
      obtain ⟨t, ht, hn⟩ := List.mem_map.mp hin
      exact hidnot t ht hn
    · intro x hx h0
      rcases (hmem x).mp hx with rfl | hx
      · simp [hs] at h0; omega
      · exact hI.point x hx h0
    · intro x hx hpos
      rcases (hmem x).mp hx with rfl | hx
      · refine ⟨hfs'nd, by show fs'.length = k + 1; rw [hfs'perm.length_eq]; omega, ?_, hbsnd, hbslen, ?_⟩
        · intro f hf
          obtain ⟨t, ht, h1, h2⟩ := hface f ((hfs'mem f).mp hf)
          exact ⟨t, (hmem t).mpr (Or.inr ht), h1, h2⟩
        · intro p
          show p ∈ bs ↔ ∃ f ∈ fs', ∃ t ∈ insertSorted s c.simps, t.name = f ∧ p ∈ t.basis
          rw [hbsmem p]
          constructor
          · rintro ⟨g, hg, t, ht, h1, h2⟩
            exact ⟨g, (hfs'mem g).mpr hg, t, (hmem t).mpr (Or.inr ht), h1, h2⟩
          · rintro ⟨g, hg, t, ht, h1, h2⟩
            have hg' := (hfs'mem g).mp hg
            rcases (hmem t).mp ht with rfl | ht
            · obtain ⟨t', ht', h1', -⟩ := hface g hg'
              exact absurd (h1'.trans h1.symm) (hidnot t' ht')
            · exact ⟨g, hg', t, ht, h1, h2⟩
      · obtain ⟨a, b, c1, d, e, f⟩ := hI.higher x hx hpos
        refine ⟨a, b, ?_, d, e, ?_⟩
        · intro g hg; obtain ⟨t, ht, h1, h2⟩ := c1 g hg
          exact ⟨t, (hmem t).mpr (Or.inr ht), h1, h2⟩
        · intro p; rw [f p]
          constructor
          · rintro ⟨g, hg, t, ht, h1, h2⟩; exact ⟨g, hg, t, (hmem t).mpr (Or.inr ht), h1, h2⟩
          · rintro ⟨g, hg, t, ht, h1, h2⟩
            rcases (hmem t).mp ht with rfl | ht
            · obtain ⟨t', ht', h1', -⟩ := c1 g hg
              exact absurd (h1'.trans h1.symm) (hidnot t' ht')
            · exact ⟨g, hg, t, ht, h1, h2⟩
    · -- uniqueness of bases: an old simplex with the new basis would have the same faces
      have key : ∀ y ∈ c.simps, y.order = k → (∀ p, p ∈ bs ↔ p ∈ y.basis) → False := by
        intro y hy hyo hb
        have hypos : 0 < y.order := by omega
        obtain ⟨yfn, yfl, -⟩ := hI.higher y hy hypos
        -- fs ⊆ y.faces
        have hsub : fs ⊆ y.faces := by
          intro f hf
          obtain ⟨t, ht, hn, ho⟩ := hface f hf
          rw [← hn]
          apply (hI.faces_are_facets hy ht hypos).mpr
          refine ⟨by omega, ?_⟩
          intro p hp
          rw [Simp.pts, List.mem_toFinset] at hp ⊢
          exact (hb p).mp ((hbsmem p).mpr ⟨f, hf, t, ht, hn, hp⟩)
        have hperm : fs.Perm y.faces := by
          apply (List.subperm_of_subset (by simpa using hnd) hsub).perm_of_length_le
          rw [yfl]; omega
        apply hdup
        rw [List.any_eq_true]
        refine ⟨y, ?_, ?_⟩
        · unfold Cx.ofOrder; rw [List.mem_filter]; exact ⟨hy, by simpa using hyo⟩
        · unfold setEqB subsetB
          simp only [Bool.and_eq_true, List.all_eq_true, List.contains_iff_mem]
          exact ⟨fun x hx => hperm.symm.subset hx, fun x hx => hperm.subset hx⟩
      intro x hx y hy ho hb
      rcases (hmem x).mp hx with rfl | hx <;> rcases (hmem y).mp hy with rfl | hy
      · rfl
      · exact (key y hy ho.symm hb).elim
      · exact (key x hx ho (fun p => (hb p).symm)).elim
      · exact hI.uniq x hx y hy ho hb

#print axioms addSimplex_ok_inv
end Flat
