import Sx.Model
import Sx.Proofs.FlatRestrict

/-! spike (C02): `restrictBasisTo` keeps exactly the simplices all of whose points lie in the given set -/
namespace Flat
open Finset

/-- the state after some names have been processed -/
def Killed (c0 : C) (retain P : List Name) (t : Simp Name) : Prop :=
  ∃ u ∈ c0.simps, u.name ∈ P ∧ u.name ∉ retain ∧ u.pts ⊆ t.pts

instance (c0 : C) (retain P : List Name) (t : Simp Name) : Decidable (Killed c0 retain P t) := by
  unfold Killed; infer_instance

theorem restrictLoop_spec (c0 : C) (hI0 : Inv c0) (retain : List Name) :
    ∀ (ns P : List Name) (c : C), Inv c → (∀ n ∈ ns, ∃ u ∈ c0.simps, u.name = n) →
      c = { c0 with simps := c0.simps.filter (fun t => ¬ Killed c0 retain P t) } →
      ∃ c', restrictLoop retain c ns = c' ∧ Inv c' ∧
        c' = { c0 with simps := c0.simps.filter (fun t => ¬ Killed c0 retain (P ++ ns) t) } := by
  classical
  intro ns
  induction ns with
  | nil => intro P c hI _ hc; exact ⟨c, rfl, hI, by simpa using hc⟩
  | cons n ns ih =>
    intro P c hI hns hc
    obtain ⟨u, hu, hun⟩ := hns n List.mem_cons_self
    have hns' : ∀ m ∈ ns, ∃ u ∈ c0.simps, u.name = m := fun m hm => hns m (List.mem_cons_of_mem _ hm)
    have hmemc : ∀ t, t ∈ c.simps ↔ t ∈ c0.simps ∧ ¬ Killed c0 retain P t := by
      intro t; rw [hc]; simp [List.mem_filter]
    unfold restrictLoop
    by_cases hcond : (c.contains n && !retain.contains n) = true
    · rw [if_pos hcond]
      simp only [Bool.and_eq_true, Bool.not_eq_true', List.contains_eq_mem, decide_eq_false_iff_not] at hcond
      obtain ⟨hcont, hnr⟩ := hcond
      -- u is still present
      obtain ⟨u', hu', hun'⟩ := contains_iff.mp hcont
      have huu : u' = u := hI0.name_inj ((hmemc u').mp hu').1 hu (hun'.trans hun.symm)
      subst huu
      obtain ⟨c', hdel, hI', hc'⟩ := deleteSimplex_spec hI hu'
      rw [hun'] at hdel
      rw [hdel]
      simp only [Option.getD_some]
      have := ih (P ++ [n]) c' hI' hns' (by
        rw [hc', hc]
        simp only [List.filter_filter]
        congr 1
        apply List.filter_congr
        intro t ht
        have hiff : Killed c0 retain (P ++ [n]) t ↔ (Killed c0 retain P t ∨ u'.pts ⊆ t.pts) := by
          constructor
          · rintro ⟨w, hw, hwP, hwr, hwt⟩
            rcases List.mem_append.mp hwP with h | h
            · exact Or.inl ⟨w, hw, h, hwr, hwt⟩
            · rw [List.mem_singleton] at h
              have : w = u' := hI0.name_inj hw ((hmemc u').mp hu').1 (h.trans hun'.symm)
              exact Or.inr (this ▸ hwt)
          · rintro (⟨w, hw, hwP, hwr, hwt⟩ | h)
            · exact ⟨w, hw, List.mem_append_left _ hwP, hwr, hwt⟩
            · exact ⟨u', ((hmemc u').mp hu').1, by rw [hun']; simp, by rw [hun']; exact hnr, h⟩
        by_cases h1 : Killed c0 retain P t <;> by_cases h2 : u'.pts ⊆ t.pts <;> simp [hiff, h1, h2])
      simpa [List.append_assoc] using this
    · rw [if_neg hcond]
      have := ih (P ++ [n]) c hI hns' (by
        rw [hc]
        congr 1
        apply List.filter_congr
        intro t ht
        have hiff : Killed c0 retain (P ++ [n]) t ↔ Killed c0 retain P t := by
          constructor
          · rintro ⟨w, hw, hwP, hwr, hwt⟩
            rcases List.mem_append.mp hwP with h | h
            · exact ⟨w, hw, h, hwr, hwt⟩
            · rw [List.mem_singleton] at h
              have hwu : w = u := hI0.name_inj hw hu (h.trans hun.symm)
              subst hwu
              -- n is not retained (else hwr fails), so c does not contain it: w was killed already
              have hnc : c.contains n = false := by
                by_contra hcon
                apply hcond
                simp only [Bool.and_eq_true, Bool.not_eq_true', List.contains_eq_mem, decide_eq_false_iff_not]
                exact ⟨by simpa using hcon, by rw [← h]; exact hwr⟩
              have hwnot : w ∉ c.simps := fun hin => by
                have := contains_iff.mpr ⟨w, hin, h⟩
                rw [hnc] at this; exact Bool.false_ne_true this
              have hk : Killed c0 retain P w := by
                by_contra hnk
                exact hwnot ((hmemc w).mpr ⟨hw, hnk⟩)
              obtain ⟨v, hv, hvP, hvr, hvw⟩ := hk
              exact ⟨v, hv, hvP, hvr, hvw.trans hwt⟩
          · rintro ⟨w, hw, hwP, hwr, hwt⟩
            exact ⟨w, hw, List.mem_append_left _ hwP, hwr, hwt⟩
        simp [hiff])
      simpa [List.append_assoc] using this

/-- **`restrictBasisTo` keeps exactly the simplices inside the given point set** -/
theorem restrict_spec {c : C} (hI : Inv c) {bs : List Name} (hpts : PtsIn c bs) :
    ∃ c', restrictBasisTo c bs = some c' ∧ Inv c' ∧
      c' = { c with simps := c.simps.filter (fun t => t.pts ⊆ bs.toFinset) } := by
  classical
  unfold restrictBasisTo
  have hguard : (bs.all (fun x => c.orderOf? x == some 0)) = true := by
    rw [List.all_eq_true]
    intro x hx
    obtain ⟨t, ht, rfl, h0⟩ := hpts x hx
    rw [orderOf_of_mem hI ht, h0]; simp
  simp only [hguard, Bool.not_true, Bool.false_eq_true, if_false]
  set retain := restrictRetain c (c.simps.length + 1) bs bs with hretain
  -- the meaning of retain
  have hret : ∀ n, n ∈ retain ↔ ∃ t ∈ c.simps, t.name = n ∧ (t.pts ∩ bs.toFinset).Nonempty := by
    apply restrictRetain_spec hI bs.toFinset (c.simps.length + 1) 0 bs bs
    · intro n
      constructor
      · intro hn
        obtain ⟨t, ht, h1, h0⟩ := hpts n hn
        refine ⟨t, ht, h1, h0, ⟨n, ?_⟩⟩
        rw [Finset.mem_inter, point_pts hI ht h0, h1]
        exact ⟨Finset.mem_singleton_self _, List.mem_toFinset.mpr hn⟩
      · rintro ⟨t, ht, rfl, h0, ⟨p, hp⟩⟩
        rw [Finset.mem_inter, point_pts hI ht h0, Finset.mem_singleton] at hp
        rw [← hp.1]; exact List.mem_toFinset.mp hp.2
    · intro n
      constructor
      · intro hn
        obtain ⟨t, ht, h1, h0⟩ := hpts n hn
        refine ⟨t, ht, h1, by omega, ⟨n, ?_⟩⟩
        rw [Finset.mem_inter, point_pts hI ht h0, h1]
        exact ⟨Finset.mem_singleton_self _, List.mem_toFinset.mpr hn⟩
      · rintro ⟨t, ht, rfl, h0, ⟨p, hp⟩⟩
        have h0' : t.order = 0 := by omega
        rw [Finset.mem_inter, point_pts hI ht h0', Finset.mem_singleton] at hp
        rw [← hp.1]; exact List.mem_toFinset.mp hp.2
    · intro t ht
      have h1 := order_lt_points hI ht
      have h2 : (c.ofOrder 0).length ≤ c.simps.length := List.length_filter_le _ _
      omega
    · omega
  obtain ⟨c', hrun, hI', hc'⟩ := restrictLoop_spec c hI retain (c.simps.map (·.name)) [] c hI
    (by intro n hn; obtain ⟨u, hu, rfl⟩ := List.mem_map.mp hn; exact ⟨u, hu, rfl⟩)
    (by
      have : ∀ t, ¬ Killed c retain [] t := by rintro t ⟨u, -, hP, -⟩; simp at hP
      simp [this])
  refine ⟨c', by rw [hrun], hI', ?_⟩
  rw [hc']
  congr 1
  apply List.filter_congr
  intro t ht
  -- killed ⇔ some point of t lies outside bs
  have hiff : Killed c retain ([] ++ c.simps.map (·.name)) t ↔ ¬ t.pts ⊆ bs.toFinset := by
    constructor
    · rintro ⟨u, hu, -, hur, hut⟩ hsub
      apply hur
      rw [hret]
      have hne : u.pts.Nonempty := by rw [← Finset.card_pos, hI.pts_card hu]; omega
      obtain ⟨p, hp⟩ := hne
      exact ⟨u, hu, rfl, ⟨p, Finset.mem_inter.mpr ⟨hp, hsub (hut hp)⟩⟩⟩
    · intro hns
      rw [Finset.not_subset] at hns
      obtain ⟨q, hqt, hqb⟩ := hns
      rw [Simp.pts, List.mem_toFinset] at hqt
      obtain ⟨u, hu, hun, hu0, husub⟩ := hI.basis_point t.order ht rfl q hqt
      refine ⟨u, hu, by simp; exact ⟨u, hu, rfl⟩, ?_, husub⟩
      rw [hret]
      rintro ⟨u', hu', hun', ⟨p, hp⟩⟩
      have : u' = u := hI.name_inj hu' hu hun'
      subst this
      rw [Finset.mem_inter, point_pts hI hu hu0, Finset.mem_singleton] at hp
      rw [hp.1, hun] at hp
      exact hqb hp.2
  rw [List.nil_append] at hiff
  by_cases h : t.pts ⊆ bs.toFinset <;> simp [hiff, h]

#print axioms restrict_spec
end Flat
