import Sx.Model
import Mathlib.Data.List.Basic
/-! spike (C04): `disjoint(ss)` after the repair — accumulate the union of the closures seen so far and
test each new closure against it — decides exactly pairwise disjointness of the closures. -/
namespace Disj
variable {α : Type} [DecidableEq α]

def Dis (a b : List α) : Prop := ∀ z ∈ a, z ∉ b

theorem disjAcc_iff (acc : List α) (xs : List (List α)) :
    disjAcc acc xs = true ↔ (∀ x ∈ xs, Dis acc x) ∧ xs.Pairwise Dis := by
  induction xs generalizing acc with
  | nil => simp [disjAcc]
  | cons x xs ih =>
    unfold disjAcc
    by_cases h : (x.all (fun z => !acc.contains z)) = true
    · rw [if_pos h, ih]
      rw [List.all_eq_true] at h
      have hax : Dis acc x := by
        intro z hz hzx
        have := h z hzx
        simp at this; exact this hz
      constructor
      · rintro ⟨h1, h2⟩
        refine ⟨?_, List.pairwise_cons.mpr ⟨?_, h2⟩⟩
        · intro y hy
          rcases List.mem_cons.mp hy with rfl | hy
          · exact hax
          · intro z hz; exact h1 y hy z (List.mem_append_left _ hz)
        · intro y hy z hz; exact h1 y hy z (List.mem_append_right _ hz)
      · rintro ⟨h1, h2⟩
        rw [List.pairwise_cons] at h2
        refine ⟨?_, h2.2⟩
        intro y hy z hz
        rcases List.mem_append.mp hz with hz | hz
        · exact h1 y (List.mem_cons_of_mem _ hy) z hz
        · exact h2.1 y hy z hz
    · rw [if_neg h]
      simp only [Bool.false_eq_true, false_iff, not_and]
      intro h1
      exfalso; apply h
      rw [List.all_eq_true]
      intro z hz
      have := h1 x List.mem_cons_self
      simp; intro hza; exact this z hza hz

/-- **`disjoint` is exact**: true iff the closures are pairwise disjoint -/
theorem disjointL_iff (ls : List (List α)) : disjointL ls = true ↔ ls.Pairwise Dis := by
  cases ls with
  | nil => simp [disjointL]
  | cons x xs =>
    unfold disjointL
    rw [disjAcc_iff, List.pairwise_cons]

#print axioms disjointL_iff
end Disj
