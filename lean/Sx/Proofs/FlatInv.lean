import Sx.Model

import Mathlib.Data.Finset.Powerset
import Mathlib.Data.Finset.Card
import Mathlib.Data.List.Basic
import Mathlib.Data.Nat.Choose.Basic

namespace Flat
set_option linter.unusedSectionVars false
variable {α : Type} [DecidableEq α]

/-- the C01 invariant on the flat Layer-A state -/
structure Inv (c : Cx α) : Prop where
  sorted : c.simps.Pairwise (fun a b => a.order ≤ b.order)
  nodup  : (c.simps.map (·.name)).Nodup
  point  : ∀ s ∈ c.simps, s.order = 0 → s.faces = [] ∧ s.basis = [s.name]
  higher : ∀ s ∈ c.simps, 0 < s.order →
      s.faces.Nodup ∧ s.faces.length = s.order + 1 ∧
      (∀ f ∈ s.faces, ∃ t ∈ c.simps, t.name = f ∧ t.order + 1 = s.order) ∧
      s.basis.Nodup ∧ s.basis.length = s.order + 1 ∧
      (∀ p, p ∈ s.basis ↔ ∃ f ∈ s.faces, ∃ t ∈ c.simps, t.name = f ∧ p ∈ t.basis)
  uniq   : ∀ s ∈ c.simps, ∀ t ∈ c.simps, s.order = t.order →
      (∀ p, p ∈ s.basis ↔ p ∈ t.basis) → s = t

theorem Inv.name_inj {c : Cx α} (h : Inv c) {s t : Simp α} (hs : s ∈ c.simps) (ht : t ∈ c.simps)
    (hn : s.name = t.name) : s = t := by
  have := h.nodup
  exact List.inj_on_of_nodup_map this hs ht hn

theorem Inv.basis_card {c : Cx α} (h : Inv c) {s : Simp α} (hs : s ∈ c.simps) :
    s.basis.Nodup ∧ s.basis.length = s.order + 1 := by
  rcases Nat.eq_zero_or_pos s.order with h0 | hpos
  · have := (h.point s hs h0).2
    rw [this, h0]; simp
  · have := h.higher s hs hpos
    exact ⟨this.2.2.2.1, this.2.2.2.2.1⟩

/-- the finset of points of a simplex -/
def Simp.pts (s : Simp α) : Finset α := s.basis.toFinset

theorem Inv.pts_card {c : Cx α} (h : Inv c) {s : Simp α} (hs : s ∈ c.simps) :
    s.pts.card = s.order + 1 := by
  have := h.basis_card hs
  rw [Simp.pts, List.toFinset_card_of_nodup this.1, this.2]

/-- **faces are exactly the facets**: under `Inv`, the faces of `s` are precisely the simplices one
order down whose points all lie in `s`. -/
theorem Inv.faces_are_facets {c : Cx α} (h : Inv c) {s t : Simp α} (hs : s ∈ c.simps)
    (ht : t ∈ c.simps) (hk : 0 < s.order) :
    t.name ∈ s.faces ↔ (t.order + 1 = s.order ∧ t.pts ⊆ s.pts) := by
  obtain ⟨hfn, hfl, hfex, hbn, hbl, hbiff⟩ := h.higher s hs hk
  constructor
  · intro hmem
    obtain ⟨t', ht', hn, ho⟩ := hfex _ hmem
    have : t' = t := h.name_inj ht' ht hn
    subst this
    refine ⟨ho, ?_⟩
    intro p hp
    rw [Simp.pts, List.mem_toFinset] at hp ⊢
    exact (hbiff p).mpr ⟨_, hmem, t', ht', rfl, hp⟩
  · rintro ⟨ho, hsub⟩
    -- choose the simplex behind each face name
    have hex : ∀ f ∈ s.faces, ∃ u, u ∈ c.simps ∧ u.name = f ∧ u.order + 1 = s.order := by
      intro f hf; obtain ⟨u, hu, hn, ho⟩ := hfex f hf; exact ⟨u, hu, hn, ho⟩
    haveI : Nonempty (Simp α) := ⟨s⟩
    choose! u hu using hex
    -- φ : face name ↦ its point set, lands in the k-subsets of s.pts
    let k := s.order
    let img : Finset (Finset α) := s.faces.toFinset.image (fun f => (u f).pts)
    have himg_sub : img ⊆ s.pts.powersetCard k := by
      intro X hX
      obtain ⟨f, hf, rfl⟩ := Finset.mem_image.mp hX
      rw [List.mem_toFinset] at hf
      obtain ⟨hu1, hu2, hu3⟩ := hu f hf
      rw [Finset.mem_powersetCard]
      refine ⟨?_, ?_⟩
      · intro p hp
        rw [Simp.pts, List.mem_toFinset] at hp ⊢
        exact (hbiff p).mpr ⟨f, hf, u f, hu1, hu2, hp⟩
      · rw [h.pts_card hu1]; exact hu3
    have hinj : Set.InjOn (fun f => (u f).pts) (s.faces.toFinset : Set α) := by
      intro f hf f' hf' heq
      simp only [Finset.mem_coe, List.mem_toFinset] at hf hf'
      obtain ⟨hu1, hu2, hu3⟩ := hu f hf
      obtain ⟨hu1', hu2', hu3'⟩ := hu f' hf'
      have : u f = u f' := by
        apply h.uniq _ hu1 _ hu1' (by omega)
        intro p
        have := Finset.ext_iff.mp heq p
        simpa [Simp.pts] using this
      rw [← hu2, ← hu2', this]
    have himg_card : img.card = k + 1 := by
      rw [Finset.card_image_of_injOn hinj, List.toFinset_card_of_nodup hfn, hfl]
    have himg_eq : img = s.pts.powersetCard k := by
      apply Finset.eq_of_subset_of_card_le himg_sub
      rw [Finset.card_powersetCard, h.pts_card hs, himg_card, Nat.choose_succ_self_right]
    have htin : t.pts ∈ img := by
      rw [himg_eq, Finset.mem_powersetCard]
      exact ⟨hsub, by rw [h.pts_card ht]; omega⟩
    obtain ⟨f, hf, hfe⟩ := Finset.mem_image.mp htin
    rw [List.mem_toFinset] at hf
    obtain ⟨hu1, hu2, hu3⟩ := hu f hf
    have : u f = t := by
      apply h.uniq _ hu1 _ ht (by omega)
      intro p
      have := Finset.ext_iff.mp hfe p
      simpa [Simp.pts] using this
    rw [← this, hu2]; exact hf

/-- under `Inv`, every point of a simplex's basis is (the name of) an order-0 simplex inside it -/
theorem Inv.basis_point {c : Cx α} (h : Inv c) :
    ∀ (k : Nat) {u : Simp α}, u ∈ c.simps → u.order = k → ∀ p ∈ u.basis,
      ∃ t ∈ c.simps, t.name = p ∧ t.order = 0 ∧ t.pts ⊆ u.pts := by
  intro k
  induction k with
  | zero =>
    intro u hu h0 p hp
    have := (h.point u hu h0).2
    rw [this, List.mem_singleton] at hp
    subst hp
    exact ⟨u, hu, rfl, h0, Finset.Subset.refl _⟩
  | succ k ih =>
    intro u hu hk p hp
    obtain ⟨-, -, hfex, -, -, hbiff⟩ := h.higher u hu (by omega)
    obtain ⟨f, hf, t, ht, hn, hpt⟩ := (hbiff p).mp hp
    obtain ⟨t', ht', hn', ho'⟩ := hfex f hf
    have : t' = t := h.name_inj ht' ht (hn'.trans hn.symm)
    subst this
    obtain ⟨q, hq, h1, h2, h3⟩ := ih ht' (by omega) p hpt
    refine ⟨q, hq, h1, h2, h3.trans ?_⟩
    exact ((h.faces_are_facets hu ht' (by omega)).mp (hn' ▸ hf)).2


#print axioms Inv.faces_are_facets
end Flat
