import Sx.Model
import Sx.Proofs.FlagMain

/-! spike (C11) part 9: the incremental case. `c` is a valid complex in which every clique of *old* edges
(size ≥ 3) is already a simplex (it was a flag complex before some edges `E` were added), and `nss` lists,
per order, at least the simplices that contain a new edge. Then the completion loop makes the complex
complete at every order ≥ 2 — i.e. it becomes the flag complex of the enlarged graph. -/
namespace Flat
open Finset

/-- `X` contains (both endpoints of) a new edge -/
def HasNew (E : List (Finset Name)) (X : Finset Name) : Prop := ∃ e ∈ E, e ⊆ X

structure GInv (E : List (Finset Name)) (cin c : C) (nss : List (Nat × List Name)) (k maxk M : Nat) : Prop where
  kpos : 1 ≤ k
  inv : Inv c
  sub : cin.simps.Sublist c.simps
  new : ∀ t ∈ c.simps, t ∈ cin.simps ∨ 2 ≤ t.order
  /-- every simplex that contains a new edge is listed (at its order) -/
  cover : ∀ t ∈ c.simps, 1 ≤ t.order → HasNew E t.pts → ∃ names, nssGet nss t.order = some names ∧ t.name ∈ names
  /-- above `maxk` nothing contains a new edge -/
  bound : ∀ t ∈ c.simps, 1 ≤ t.order → HasNew E t.pts → t.order ≤ maxk
  /-- a set without new edge all of whose facets are present is present (the complex was flag before) -/
  old : ∀ j, 2 ≤ j → ∀ X : Finset Name, X.card = j + 1 → ¬ HasNew E X →
      (∀ Y ∈ X.powersetCard j, ∃ t ∈ c.simps, t.pts = Y) → ∃ s ∈ c.simps, s.pts = X
  complete : ∀ j, 2 ≤ j → j ≤ k → CompleteAt c j
  mkM : maxk ≤ M
  pm : (cin.ofOrder 0).length ≤ M + 1
  esz : ∀ e ∈ E, e.card = 2

/-- a set with ≥ 3 points containing a new edge has a facet that still contains it -/
theorem facet_keeps_edge {E : List (Finset Name)} {X : Finset Name} {j : Nat} (hX : X.card = j + 1) (hj : 2 ≤ j)
    (hE : ∀ e ∈ E, e.card = 2) (hn : HasNew E X) : ∃ Y ∈ X.powersetCard j, HasNew E Y := by
  classical
  obtain ⟨e, he, heX⟩ := hn
  have hlt : e.card < X.card := by rw [hE e he, hX]; omega
  obtain ⟨p, hpX, hpe⟩ : ∃ p, p ∈ X ∧ p ∉ e := by
    by_contra hcon
    push Not at hcon
    have : X ⊆ e := fun x hx => hcon x hx
    have := Finset.card_le_card this; omega
  refine ⟨X.erase p, ?_, e, he, ?_⟩
  · rw [Finset.mem_powersetCard]
    exact ⟨Finset.erase_subset _ _, by rw [Finset.card_erase_of_mem hpX, hX]; rfl⟩
  · intro x hx
    exact Finset.mem_erase.mpr ⟨fun e' => hpe (e' ▸ hx), heX hx⟩

theorem GInv.finish {E cin c nss k maxk M} (h : GInv E cin c nss k maxk M) (hk : maxk + 1 < k) :
    ∀ j, 2 ≤ j → CompleteAt c j := by
  intro j hj
  by_cases hjk : j ≤ k
  · exact h.complete j hj hjk
  · intro X hX hfac
    by_cases hn : HasNew E X
    · exfalso
      obtain ⟨Y, hY, hYn⟩ := facet_keeps_edge hX hj h.esz hn
      obtain ⟨t, ht, htp⟩ := hfac Y hY
      have hto : t.order + 1 = j := by
        have := h.inv.pts_card ht
        rw [htp, (Finset.mem_powersetCard.mp hY).2] at this; omega
      have := h.bound t ht (by omega) (htp ▸ hYn)
      omega
    · exact h.old j hj X hX hn hfac

theorem growLoop_spec (E : List (Finset Name)) (cin : C) (M : Nat) :
    ∀ (fuel : Nat) (c : C) (nss : List (Nat × List Name)) (k maxk : Nat),
      GInv E cin c nss k maxk M → M + 3 ≤ fuel + k →
      ∃ c', completeLoop fuel c nss k maxk = (.ok (), c') ∧ Inv c' ∧ cin.simps.Sublist c'.simps ∧
        (∀ t ∈ c'.simps, t ∈ cin.simps ∨ 2 ≤ t.order) ∧ ∀ j, 2 ≤ j → CompleteAt c' j := by
  classical
  intro fuel
  induction fuel with
  | zero =>
    intro c nss k maxk hL hf
    refine ⟨c, rfl, hL.inv, hL.sub, hL.new, hL.finish (by have := hL.mkM; omega)⟩
  | succ fuel ih =>
    intro c nss k maxk hL hf
    unfold completeLoop
    by_cases hk : k ≤ maxk + 1
    · rw [if_pos hk]
      simp only
      have hk1 : k + 1 - 1 = k := by omega
      -- if nothing new lives at order k, order k+1 is already complete
      have hempty : (∀ t ∈ c.simps, t.order = k → ¬ HasNew E t.pts) → CompleteAt c (k + 1) := by
        intro hno X hX hfac
        by_cases hn : HasNew E X
        · exfalso
          obtain ⟨Y, hY, hYn⟩ := facet_keeps_edge hX (by have := hL.kpos; omega) hL.esz hn
          obtain ⟨t, ht, htp⟩ := hfac Y hY
          have hto : t.order = k := by
            have := hL.inv.pts_card ht
            rw [htp, (Finset.mem_powersetCard.mp hY).2] at this; omega
          exact hno t ht hto (htp ▸ hYn)
        · exact hL.old (k + 1) (by have := hL.kpos; omega) X hX hn hfac
      have hnext : ∀ (hc : CompleteAt c (k + 1)), GInv E cin c nss (k + 1) maxk M := by
        intro hc
        refine ⟨by omega, hL.inv, hL.sub, hL.new, hL.cover, hL.bound, hL.old, ?_, hL.mkM, hL.pm, hL.esz⟩
        intro j hj hjk
        by_cases h : j ≤ k
        · exact hL.complete j hj h
        · have : j = k + 1 := by omega
          subst this; exact hc
      rw [hk1]
      cases hget : nssGet nss k with
      | none =>
        simp only
        apply ih c nss (k + 1) maxk (hnext (hempty _)) (by omega)
        intro t ht hto hn
        obtain ⟨names, hnm, -⟩ := hL.cover t ht (by have := hL.kpos; omega) hn
        rw [hto, hget] at hnm; cases hnm
      | some newPrev =>
        cases newPrev with
        | nil =>
          simp only
          apply ih c nss (k + 1) maxk (hnext (hempty _)) (by omega)
          intro t ht hto hn
          obtain ⟨names, hnm, hmem⟩ := hL.cover t ht (by have := hL.kpos; omega) hn
          rw [hto, hget] at hnm
          injection hnm with hnm; subst hnm; simp at hmem
        | cons x xs =>
          simp only
          have hk2 : 2 ≤ k + 1 := by have := hL.kpos; omega
          have hP0 : PassInv (k + 1) (c.ofOrder k) c c :=
            ⟨hL.inv, List.Sublist.refl _, fun t ht => Or.inl ht, by rw [hk1]⟩
          obtain ⟨added, c', hrun, hP, hsub, hhandled, hadded⟩ :=
            passLoop_spec (x :: xs) hk2 (c.ofOrder k) c
              (combosL (k + 1 + 1) (c.ofOrder k)) c [] hP0
              (fun cand hc => combosL_mem.mp hc)
          rw [hrun]
          simp only [List.nil_append]
          have hfacDown : ∀ {j : Nat} {X : Finset Name}, j ≤ k + 1 →
              (∀ Y ∈ X.powersetCard j, ∃ t ∈ c'.simps, t.pts = Y) →
              ∀ Y ∈ X.powersetCard j, ∃ t ∈ c.simps, t.pts = Y := by
            intro j X hj hfac Y hY
            obtain ⟨t, ht, htp⟩ := hfac Y hY
            have hto : t.order + 1 = j := by
              have := hP.inv.pts_card ht
              rw [htp, (Finset.mem_powersetCard.mp hY).2] at this; omega
            rcases hP.new t ht with h' | h'
            · exact ⟨t, h', htp⟩
            · omega
          have hcomplete : CompleteAt c' (k + 1) := by
            intro X hX hfac
            have hfac0 := hfacDown (Nat.le_refl _) hfac
            by_cases hn : HasNew E X
            · apply pass_complete hk2 hL.inv (by rw [hk1]) hP (newPrev := x :: xs) hhandled hX hfac0
              obtain ⟨Y, hY, hYn⟩ := facet_keeps_edge hX hk2 hL.esz hn
              obtain ⟨t, ht, htp⟩ := hfac0 Y hY
              have hto : t.order = k := by
                have := hL.inv.pts_card ht
                rw [htp, (Finset.mem_powersetCard.mp hY).2] at this; omega
              obtain ⟨names, hnm, hmem⟩ := hL.cover t ht (by have := hL.kpos; omega) (htp ▸ hYn)
              rw [hto, hget] at hnm
              injection hnm with hnm; subst hnm
              exact ⟨t, ht, by rw [htp]; exact (Finset.mem_powersetCard.mp hY).1, by omega, hmem⟩
            · obtain ⟨s, hs, hsp⟩ := hL.old (k + 1) hk2 X hX hn hfac0
              exact ⟨s, hsub.subset hs, hsp⟩
          have hLnext : GInv E cin c' (nssSet nss (k + 1) ((nssGet nss (k + 1)).getD [] ++ added)) (k + 1)
              (if added.isEmpty then maxk else max maxk (k + 1)) M := by
            refine ⟨by omega, hP.inv, hL.sub.trans hsub, ?_, ?_, ?_, ?_, ?_, ?_, hL.pm, hL.esz⟩
            · intro t ht
              rcases hP.new t ht with h | h
              · exact hL.new t h
              · exact Or.inr (by omega)
            · intro t ht hto hn
              by_cases hold : t ∈ c.simps
              · obtain ⟨names, hnm, hmem⟩ := hL.cover t hold hto hn
                by_cases hk' : t.order = k + 1
                · rw [hk', nssGet_set_same]
                  refine ⟨_, rfl, List.mem_append_left _ ?_⟩
                  rw [hk'] at hnm; rw [hnm]; exact hmem
                · rw [nssGet_set_ne _ _ hk']; exact ⟨names, hnm, hmem⟩
              · have hord : t.order = k + 1 := by
                  rcases hP.new t ht with h | h
                  · exact absurd h hold
                  · exact h
                rw [hord, nssGet_set_same]
                exact ⟨_, rfl, List.mem_append_right _ ((hadded t.name).mpr ⟨t, ht, rfl, hold⟩)⟩
            · intro t ht hto hn
              by_cases hold : t ∈ c.simps
              · have := hL.bound t hold hto hn
                split_ifs <;> omega
              · have hord : t.order = k + 1 := by
                  rcases hP.new t ht with h | h
                  · exact absurd h hold
                  · exact h
                have hne : added ≠ [] := by
                  intro he
                  have := (hadded t.name).mpr ⟨t, ht, rfl, hold⟩
                  rw [he] at this; simp at this
                have : added.isEmpty = false := by simpa using hne
                rw [this]; simp; omega
            · -- the "old" clause persists: facets come down to c, the simplex goes up to c'
              intro j hj X hX hn hfac
              by_cases hjk : j ≤ k + 1
              · obtain ⟨s, hs, hsp⟩ := hL.old j hj X hX hn (hfacDown hjk hfac)
                exact ⟨s, hsub.subset hs, hsp⟩
              · -- facets of order j-1 ≥ k+1 in c' : those of order exactly k+1 may be new
                -- but then they contain a new edge? not necessarily; use completeness instead
                by_cases hjk2 : j = k + 2
                · subst hjk2
                  -- facets have order k+1; each is in c or was added in this pass
                  -- added simplices have all facets in c, so X's (k)-subsets are all in c: use old twice
                  have hsubsets : ∀ Y ∈ X.powersetCard (k + 1 + 1), ∃ t ∈ c.simps, t.pts = Y := by
                    intro Y hY
                    obtain ⟨t, ht, htp⟩ := hfac Y hY
                    have hYn : ¬ HasNew E Y := by
                      rintro ⟨e, he, heY⟩
                      exact hn ⟨e, he, heY.trans (Finset.mem_powersetCard.mp hY).1⟩
                    have hYc := (Finset.mem_powersetCard.mp hY).2
                    apply hL.old (k + 1) hk2 Y (by omega) hYn
                    intro Z hZ
                    have hZY := Finset.mem_powersetCard.mp hZ
                    obtain ⟨u, hu, hup⟩ := hP.inv.subset_simplex ht (htp ▸ hZY.1)
                      (by rw [← Finset.card_pos, hZY.2]; omega)
                    have huo : u.order = k := by
                      have := hP.inv.pts_card hu; rw [hup, hZY.2] at this; omega
                    rcases hP.new u hu with h' | h'
                    · exact ⟨u, h', hup⟩
                    · omega
                  obtain ⟨s, hs, hsp⟩ := hL.old (k + 2) hj X hX hn hsubsets
                  exact ⟨s, hsub.subset hs, hsp⟩
                · -- j ≥ k+3 : facets have order ≥ k+2, untouched by the pass
                  have hfac0 : ∀ Y ∈ X.powersetCard j, ∃ t ∈ c.simps, t.pts = Y := by
                    intro Y hY
                    obtain ⟨t, ht, htp⟩ := hfac Y hY
                    have hto : t.order + 1 = j := by
                      have := hP.inv.pts_card ht
                      rw [htp, (Finset.mem_powersetCard.mp hY).2] at this; omega
                    rcases hP.new t ht with h' | h'
                    · exact ⟨t, h', htp⟩
                    · omega
                  obtain ⟨s, hs, hsp⟩ := hL.old j hj X hX hn hfac0
                  exact ⟨s, hsub.subset hs, hsp⟩
            · intro j hj hjk
              by_cases h : j ≤ k
              · intro X hX hfac
                obtain ⟨s, hs, hsp⟩ := hL.complete j hj h X hX (hfacDown (by omega) hfac)
                exact ⟨s, hsub.subset hs, hsp⟩
              · have : j = k + 1 := by omega
                subst this; exact hcomplete
            · split_ifs with he
              · exact hL.mkM
              · have hne : added ≠ [] := by simpa using he
                obtain ⟨n, hn⟩ := List.exists_mem_of_ne_nil _ hne
                obtain ⟨t, ht, -, hold⟩ := (hadded n).mp hn
                have hord : t.order = k + 1 := by
                  rcases hP.new t ht with h | h
                  · exact absurd h hold
                  · exact h
                have h1 := order_lt_points hP.inv ht
                have h2 : (c'.ofOrder 0) = (cin.ofOrder 0) := by
                  unfold Cx.ofOrder
                  apply filter_eq_of_sublist (hL.sub.trans hsub) (List.Nodup.of_map _ hP.inv.nodup)
                  intro u hu hnot
                  rcases hP.new u hu with h | h
                  · rcases hL.new u h with h' | h'
                    · exact absurd h' hnot
                    · simp; omega
                  · simp; omega
                have := hL.pm
                have := hL.mkM
                rw [h2] at h1
                omega
          exact ih c' _ (k + 1) _ hLnext (by omega)
    · rw [if_neg hk]
      exact ⟨c, rfl, hL.inv, hL.sub, hL.new, hL.finish (by omega)⟩

#print axioms growLoop_spec
end Flat
