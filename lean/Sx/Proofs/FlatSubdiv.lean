import Sx.Model
import Sx.Proofs.FlatBasis8
import Sx.Proofs.FlatDelete2

/-! spike (C02): `barycentricSubdivide` — add a fresh point, delete the star of `s`, join the new point to every
facet of `s`. `order` is the list Python obtains from `list(self.basisOf(simplex))`; the theorem holds for every
enumeration of the basis. -/
namespace Flat
open Finset

/-- state during the cone loop -/
structure ConeInv (mid : Name) (S : Finset Name) (c2 c : C) (done : Finset Name) : Prop where
  inv : Inv c
  sub : c2.simps.Sublist c.simps
  /-- new simplices are cones `X ∪ {mid}` over a subset `X` of a processed facet `S \\ {p}`, `p ∈ done` -/
  new : ∀ t ∈ c.simps, t ∈ c2.simps ∨ (mid ∈ t.pts ∧ ∃ p ∈ done, t.pts ⊆ insert mid (S.erase p))
  /-- the cone over every processed facet is present -/
  cones : ∀ p ∈ done, ∃ t ∈ c.simps, t.pts = insert mid (S.erase p)

theorem coneLoop_spec (mid : Name) (pts : List Name) (hnd : pts.Nodup) (h2 : 2 ≤ pts.length) (hmid : mid ∉ pts)
    (c2 : C) :
    ∀ (is : List Nat) (c : C) (done : Finset Name), is.Nodup → (∀ i ∈ is, i < pts.length) →
      (∀ i ∈ is, ∀ h : i < pts.length, pts[i] ∉ done) → done ⊆ pts.toFinset →
      ConeInv mid pts.toFinset c2 c done → PtsIn c (pts ++ [mid]) →
      (∀ t ∈ c2.simps, mid ∉ t.pts ∨ t.pts = {mid}) →
      (∀ q ∈ pts, ∃ u ∈ c2.simps, u.pts = pts.toFinset.erase q) →
      ∃ c', coneLoop mid pts c is = .ok c' ∧
        ConeInv mid pts.toFinset c2 c' (done ∪ (is.map (fun i => pts.getD i mid)).toFinset) := by
  classical
  intro is
  induction is with
  | nil =>
    intro c done _ _ _ _ hC _ _ _
    exact ⟨c, rfl, by simpa using hC⟩
  | cons i is ih =>
    intro c done hisnd hlt hfresh hdone hC hP hc2 hfacets
    rw [List.nodup_cons] at hisnd
    have hi : i < pts.length := hlt i List.mem_cons_self
    set p := pts[i] with hp
    have hpmem : p ∈ pts := List.getElem_mem hi
    have hpnd : p ∉ done := hfresh i List.mem_cons_self hi
    set bs := pts.eraseIdx i ++ [mid] with hbs
    have herase : (pts.eraseIdx i).toFinset = pts.toFinset.erase p := by
      ext x
      simp only [List.mem_toFinset, Finset.mem_erase]
      rw [List.mem_eraseIdx_iff_getElem?]
      constructor
      · rintro ⟨j, hji, hjx⟩
        obtain ⟨hj, rfl⟩ := List.getElem?_eq_some_iff.mp hjx
        refine ⟨?_, List.getElem_mem hj⟩
        intro e
        exact hji ((hnd.getElem_inj_iff).mp e)
      · rintro ⟨hxp, hx⟩
        obtain ⟨j, hj, rfl⟩ := List.getElem_of_mem hx
        exact ⟨j, fun e => hxp (by subst e; rfl), List.getElem?_eq_getElem hj⟩
    have hbsF : bs.toFinset = insert mid (pts.toFinset.erase p) := by
      rw [hbs, List.toFinset_append, herase]
      ext x; simp [Finset.mem_union, or_comm]
    have hbsnd : bs.Nodup := by
      rw [hbs, List.nodup_append]
      refine ⟨hnd.sublist (List.eraseIdx_sublist _ _), List.nodup_singleton _, ?_⟩
      intro a ha b hb
      rw [List.mem_singleton] at hb; subst hb
      intro e; subst e
      exact hmid ((List.eraseIdx_sublist _ _).subset ha)
    have hbslen : 2 ≤ bs.length := by
      rw [hbs, List.length_append, List.length_eraseIdx, if_pos hi]; simp; omega
    -- not yet a simplex
    have hnone : ¬ ∃ t ∈ c.simps, t.pts = bs.toFinset := by
      rintro ⟨t, ht, htp⟩
      rw [hbsF] at htp
      have hmt : mid ∈ t.pts := by rw [htp]; exact Finset.mem_insert_self _ _
      have hcard : t.pts.card = pts.length := by
        rw [htp, Finset.card_insert_of_notMem (by
          intro h; exact hmid (List.mem_toFinset.mp (Finset.mem_of_mem_erase h))),
          Finset.card_erase_of_mem (List.mem_toFinset.mpr hpmem), List.toFinset_card_of_nodup hnd]
        omega
      rcases hC.new t ht with h | ⟨-, q, hq, hsub⟩
      · rcases hc2 t h with h' | h'
        · exact h' hmt
        · rw [h'] at hcard; simp at hcard; omega
      · -- t ⊆ cone over S \ {q} with q ≠ p, but t contains S \ {p} ∋ q
        have hqp : q ≠ p := fun e => hpnd (e ▸ hq)
        have hqt : q ∈ t.pts := by
          rw [htp]; exact Finset.mem_insert_of_mem (Finset.mem_erase.mpr ⟨hqp, hdone hq⟩)
        have := hsub hqt
        rw [Finset.mem_insert, Finset.mem_erase] at this
        rcases this with e | ⟨e, -⟩
        · exact hmid (e ▸ List.mem_toFinset.mp (hdone hq))
        · exact e rfl
    have hPbs : ∀ b ∈ bs, c.contains b = true → ∃ t ∈ c.simps, t.name = b ∧ t.order = 0 := by
      intro b hb _
      apply hP b
      rw [hbs] at hb
      rcases List.mem_append.mp hb with h | h
      · exact List.mem_append_left _ ((List.eraseIdx_sublist _ _).subset h)
      · exact List.mem_append_right _ h
    obtain ⟨n, c', hrun, hI', hsub', hnm', -, hnew'⟩ :=
      addSimplexWithBasis_spec hC.inv hbsnd hbslen hPbs hnone none (fun n hn => by cases hn)
    unfold coneLoop
    rw [hrun]
    simp only
    have hCnext : ConeInv mid pts.toFinset c2 c' (insert p done) := by
      refine ⟨hI', hC.sub.trans hsub', ?_, ?_⟩
      · intro t ht
        rcases hnew' t ht with h | h
        · rcases hC.new t h with h' | ⟨h1, q, hq, h2⟩
          · exact Or.inl h'
          · exact Or.inr ⟨h1, q, Finset.mem_insert_of_mem hq, h2⟩
        · -- t inside the new cone: either it has mid, or it is an old face (already in c, hence handled)
          by_cases hmt : mid ∈ t.pts
          · exact Or.inr ⟨hmt, p, Finset.mem_insert_self _ _, hbsF ▸ h⟩
          · -- t ⊆ S \ {p}: it already existed in c (closedness is not needed: use `new` of the old state)
            by_cases hold : t ∈ c.simps
            · rcases hC.new t hold with h' | ⟨h1, -⟩
              · exact Or.inl h'
              · exact absurd h1 hmt
            · -- impossible: its point set is a non-empty subset of the facet S \ {p}, which survived in c2;
              -- by closedness c already has a simplex with that point set, and bases are unique in c'
              exfalso
              have htsub : t.pts ⊆ pts.toFinset.erase p := by
                intro x hx
                have := h hx
                rw [hbsF, Finset.mem_insert] at this
                rcases this with e | e
                · exact absurd (e ▸ hx) hmt
                · exact e
              obtain ⟨u, hu, hup⟩ := hfacets p hpmem
              have hne : t.pts.Nonempty := by rw [← Finset.card_pos, hI'.pts_card ht]; omega
              obtain ⟨v, hv, hvp⟩ := hC.inv.subset_simplex (hC.sub.subset hu) (hup ▸ htsub) hne
              have : t = v := by
                apply hI'.uniq t ht v (hsub'.subset hv)
                · have e1 := hI'.pts_card ht; have e2 := hI'.pts_card (hsub'.subset hv)
                  rw [← hvp] at e1; omega
                · intro x
                  have := Finset.ext_iff.mp hvp.symm x
                  simpa [Simp.pts] using this
              exact hold (this ▸ hv)
      · intro q hq
        rcases Finset.mem_insert.mp hq with rfl | hq
        · obtain ⟨t, ht, -, htp⟩ := hnm'
          exact ⟨t, ht, by rw [htp, hbsF]⟩
        · obtain ⟨t, ht, htp⟩ := hC.cones q hq
          exact ⟨t, hsub'.subset ht, htp⟩
    obtain ⟨c'', hrun'', hC''⟩ := ih c' (insert p done) hisnd.2 (fun j hj => hlt j (List.mem_cons_of_mem _ hj))
      (by
        intro j hj hjl hmem
        rcases Finset.mem_insert.mp hmem with e | e
        · have : j = i := (hnd.getElem_inj_iff).mp e
          exact hisnd.1 (this ▸ hj)
        · exact hfresh j (List.mem_cons_of_mem _ hj) hjl e)
      (by
        intro x hx
        rcases Finset.mem_insert.mp hx with rfl | hx
        · exact List.mem_toFinset.mpr hpmem
        · exact hdone hx)
      hCnext (hP.mono hsub') hc2 hfacets
    refine ⟨c'', hrun'', ?_⟩
    convert hC'' using 1
    ext x
    simp only [List.map_cons, List.toFinset_cons, Finset.mem_union, Finset.mem_insert]
    have : pts.getD i mid = p := by simp [List.getD_eq_getElem?_getD, hi, hp]
    rw [this]; tauto

end Flat

namespace Flat
open Finset

theorem range_getD_toFinset (pts : List Name) (mid : Name) :
    ((List.range pts.length).map (fun i => pts.getD i mid)).toFinset = pts.toFinset := by
  ext x
  simp only [List.mem_toFinset, List.mem_map, List.mem_range]
  constructor
  · rintro ⟨i, hi, rfl⟩
    simp [List.getD_eq_getElem?_getD, hi]
  · intro hx
    obtain ⟨i, hi, rfl⟩ := List.getElem_of_mem hx
    exact ⟨i, hi, by simp [List.getD_eq_getElem?_getD, hi]⟩

/-- **barycentric subdivision** (C02): for a simplex `s` of order ≥ 1 and any enumeration `order` of its basis,
the call succeeds and returns a fresh point `mid`; the result is a valid complex whose simplices are exactly
the old ones outside the star of `s` (untouched) together with the cones `Y ∪ {mid}` over the proper
subsets `Y ⊊ pts s` (including `Y = ∅`, the point `mid` itself). -/
theorem subdivide_spec {c : C} (hI : Inv c) {s : Simp Name} (hs : s ∈ c.simps) (hk : 1 ≤ s.order)
    {order : List Name} (hond : order.Nodup) (hoS : order.toFinset = s.pts) :
    ∃ mid c3, subdivide c s.name order = .ok (mid, c3) ∧ Inv c3 ∧ c.contains mid = false ∧
      (c.simps.filter (fun t => ¬ s.pts ⊆ t.pts)).Sublist c3.simps ∧
      ∀ X : Finset Name, (∃ t ∈ c3.simps, t.pts = X) ↔
        ((∃ t ∈ c.simps, t.pts = X ∧ ¬ s.pts ⊆ X) ∨ (mid ∈ X ∧ X.erase mid ⊆ s.pts ∧ X.erase mid ≠ s.pts)) := by
  classical
  unfold subdivide
  rw [orderOf_of_mem hI hs]
  obtain ⟨k, hk'⟩ : ∃ k, s.order = k + 1 := ⟨s.order - 1, by omega⟩
  rw [hk']
  simp only
  -- the fresh point
  obtain ⟨f1, f2, -⟩ := newSimplex_fresh hI.nodup 0
  set mid := (newSimplex c 0).1 with hmid
  set cr := (newSimplex c 0).2 with hcr
  have hIr : Inv cr := inv_of_simps_eq f2 hI
  have hfr : cr.contains mid = false := by rw [contains_of_simps_eq f2]; exact f1
  obtain ⟨c1, hadd, hI1, hs1⟩ := addPoint_spec hIr hfr
  rw [hadd]
  simp only
  have hmem1 : ∀ x, x ∈ c1.simps ↔ x = ⟨mid, 0, [], [mid]⟩ ∨ x ∈ c.simps := by
    intro x; rw [hs1, f2]; exact mem_insertSorted
  have hs1' : s ∈ c1.simps := (hmem1 s).mpr (Or.inr hs)
  obtain ⟨c2, hdel, hI2, hc2eq⟩ := deleteSimplex_spec hI1 hs1'
  rw [hdel]
  simp only
  have hmem2 : ∀ x, x ∈ c2.simps ↔ x ∈ c1.simps ∧ ¬ s.pts ⊆ x.pts := by
    intro x; rw [hc2eq]; simp [List.mem_filter]
  have hScard : s.pts.card = k + 2 := by rw [hI.pts_card hs, hk']
  have holen : order.length = k + 2 := by rw [← List.toFinset_card_of_nodup hond, hoS, hScard]
  -- mid is not a point of any old simplex
  have hmidold : ∀ t ∈ c.simps, mid ∉ t.pts := by
    intro t ht hm
    rw [Simp.pts, List.mem_toFinset] at hm
    obtain ⟨q, hq, hqn, -⟩ := hI.basis_point t.order ht rfl mid hm
    exact absurd (contains_iff.mpr ⟨q, hq, hqn⟩) (by rw [f1]; exact Bool.false_ne_true)
  have hmidS : mid ∉ s.pts := hmidold s hs
  have hmido : mid ∉ order := fun h => hmidS (hoS ▸ List.mem_toFinset.mpr h)
  have hmidpt : (⟨mid, 0, [], [mid]⟩ : Simp Name) ∈ c2.simps := by
    refine (hmem2 _).mpr ⟨(hmem1 _).mpr (Or.inl rfl), ?_⟩
    intro hsub
    have := Finset.card_le_card hsub
    rw [hScard] at this; simp [Simp.pts] at this
  -- hypotheses of the cone loop
  have hPts : PtsIn c2 (order ++ [mid]) := by
    intro p hp
    rcases List.mem_append.mp hp with h | h
    · have hpS : p ∈ s.pts := hoS ▸ List.mem_toFinset.mpr h
      rw [Simp.pts, List.mem_toFinset] at hpS
      obtain ⟨q, hq, hqn, hq0, -⟩ := hI.basis_point s.order hs rfl p hpS
      refine ⟨q, (hmem2 q).mpr ⟨(hmem1 q).mpr (Or.inr hq), ?_⟩, hqn, hq0⟩
      intro hsub
      have := Finset.card_le_card hsub
      rw [hScard, hI.pts_card hq, hq0] at this; omega
    · rw [List.mem_singleton] at h; subst h
      exact ⟨_, hmidpt, rfl, rfl⟩
  have hc2mid : ∀ t ∈ c2.simps, mid ∉ t.pts ∨ t.pts = {mid} := by
    intro t ht
    rcases (hmem1 t).mp ((hmem2 t).mp ht).1 with rfl | h
    · right; simp [Simp.pts]
    · left; exact hmidold t h
  have hfacets : ∀ q ∈ order, ∃ u ∈ c2.simps, u.pts = order.toFinset.erase q := by
    intro q hq
    have hqS : q ∈ s.pts := hoS ▸ List.mem_toFinset.mpr hq
    obtain ⟨u, hu, -, -, hup⟩ := hI.facets_exist hs (by omega) (X := s.pts.erase q)
      (Finset.erase_subset _ _) (by rw [Finset.card_erase_of_mem hqS, hScard, hk']; rfl)
    refine ⟨u, (hmem2 u).mpr ⟨(hmem1 u).mpr (Or.inr hu), ?_⟩, by rw [hoS]; exact hup⟩
    intro hsub
    have := Finset.card_le_card hsub
    rw [hup, Finset.card_erase_of_mem hqS] at this; omega
  obtain ⟨c3, hrun, hC⟩ := coneLoop_spec mid order hond (by omega) hmido c2 (List.range order.length) c2 ∅
    List.nodup_range (fun i hi => List.mem_range.mp hi) (fun i _ _ h => by simp at h) (by simp)
    ⟨hI2, List.Sublist.refl _, fun t ht => Or.inl ht, by simp⟩ hPts hc2mid hfacets
  rw [hrun]
  simp only
  rw [Finset.empty_union, range_getD_toFinset, hoS] at hC
  refine ⟨mid, c3, rfl, hC.inv, f1, ?_, ?_⟩
  · -- frame: the survivors, in order
    have h1 : (c.simps.filter (fun t => ¬ s.pts ⊆ t.pts)).Sublist c2.simps := by
      rw [hc2eq]
      apply List.Sublist.filter
      rw [hs1, f2]; exact sublist_insertSorted _ _
    exact h1.trans hC.sub
  · intro X
    constructor
    · rintro ⟨t, ht, rfl⟩
      rcases hC.new t ht with h | ⟨hm, p, hp, hsub⟩
      · obtain ⟨h1, h2⟩ := (hmem2 t).mp h
        rcases (hmem1 t).mp h1 with rfl | hold
        · right
          refine ⟨by simp [Simp.pts], ?_, ?_⟩
          · simp [Simp.pts]
          · intro e
            have := congrArg Finset.card e
            rw [hScard] at this; simp [Simp.pts] at this
        · left; exact ⟨t, hold, rfl, h2⟩
      · right
        refine ⟨hm, ?_, ?_⟩
        · intro x hx
          rw [Finset.mem_erase] at hx
          have := hsub hx.2
          rw [Finset.mem_insert] at this
          rcases this with e | e
          · exact absurd e hx.1
          · exact Finset.mem_of_mem_erase e
        · intro e
          have hpin : p ∈ t.pts.erase mid := by rw [e]; exact hp
          have := hsub (Finset.mem_of_mem_erase hpin)
          rw [Finset.mem_insert, Finset.mem_erase] at this
          rcases this with e' | ⟨e', -⟩
          · exact hmidS (e' ▸ hp)
          · exact e' rfl
    · rintro (⟨t, ht, rfl, hns⟩ | ⟨hm, hsub, hne⟩)
      · exact ⟨t, hC.sub.subset ((hmem2 t).mpr ⟨(hmem1 t).mpr (Or.inr ht), hns⟩), rfl⟩
      · -- X = insert mid Y with Y ⊊ S : choose p ∈ S \ Y; X ⊆ cone over S \ {p}
        obtain ⟨p, hpS, hpY⟩ : ∃ p, p ∈ s.pts ∧ p ∉ X.erase mid := by
          by_contra hcon
          push Not at hcon
          exact hne (Finset.Subset.antisymm hsub (fun x hx => hcon x hx))
        obtain ⟨t, ht, htp⟩ := hC.cones p hpS
        have hXsub : X ⊆ t.pts := by
          rw [htp]; intro x hx
          by_cases hxm : x = mid
          · rw [hxm]; exact Finset.mem_insert_self _ _
          · have hxe : x ∈ X.erase mid := Finset.mem_erase.mpr ⟨hxm, hx⟩
            exact Finset.mem_insert_of_mem (Finset.mem_erase.mpr ⟨fun e => hpY (e ▸ hxe), hsub hxe⟩)
        exact hC.inv.subset_simplex ht hXsub ⟨mid, hm⟩

#print axioms subdivide_spec
end Flat
