import Sx.Model
import Sx.Proofs.FlatDelete2

/-! spike (C02): `restrictBasisTo` — the coface fixed point (`retain`) and its meaning -/
namespace Flat
open Finset

/-- names of the order-`j` simplices that have a point in `B` -/
def TouchLevel (c : C) (B : Finset Name) (j : Nat) (l : List Name) : Prop :=
  ∀ n, n ∈ l ↔ ∃ t ∈ c.simps, t.name = n ∧ t.order = j ∧ (t.pts ∩ B).Nonempty

/-- one round of cofaces moves from the order-`j` simplices touching `B` to the order-`j+1` ones -/
theorem touch_step {c : C} (hI : Inv c) {B : Finset Name} {j : Nat} {l : List Name} (hl : TouchLevel c B j l) :
    TouchLevel c B (j + 1) (dedupL (l.flatMap c.cofaces)) := by
  classical
  intro n
  rw [mem_dedupL, List.mem_flatMap]
  constructor
  · rintro ⟨m, hm, hn⟩
    obtain ⟨u, hu, rfl, huo, hne⟩ := (hl m).mp hm
    obtain ⟨t, ht, rfl, hto, huf⟩ := (mem_cofaces hI hu).mp hn
    have hsub := ((hI.faces_are_facets ht hu (by omega)).mp huf).2
    obtain ⟨p, hp⟩ := hne
    rw [Finset.mem_inter] at hp
    exact ⟨t, ht, rfl, by omega, ⟨p, Finset.mem_inter.mpr ⟨hsub hp.1, hp.2⟩⟩⟩
  · rintro ⟨t, ht, rfl, hto, ⟨p, hp⟩⟩
    rw [Finset.mem_inter] at hp
    -- a facet of t that still contains p
    have hct := hI.pts_card ht
    have h2 : 1 < t.pts.card := by omega
    obtain ⟨q, hq, hqp⟩ := Finset.exists_mem_ne h2 p
    obtain ⟨u, hu, huf, huo, hup⟩ := hI.facets_exist ht (by omega) (X := t.pts.erase q)
      (Finset.erase_subset _ _) (by rw [Finset.card_erase_of_mem hq, hct]; omega)
    have hpu : p ∈ u.pts := by rw [hup]; exact Finset.mem_erase.mpr ⟨fun e => hqp e.symm, hp.1⟩
    refine ⟨u.name, (hl u.name).mpr ⟨u, hu, rfl, by omega, ⟨p, Finset.mem_inter.mpr ⟨hpu, hp.2⟩⟩⟩, ?_⟩
    exact (mem_cofaces hI hu).mpr ⟨t, ht, rfl, by omega, huf⟩

/-- the fixed point collects exactly the simplices that have a point in `B` -/
theorem restrictRetain_spec {c : C} (hI : Inv c) (B : Finset Name) :
    ∀ (fuel j : Nat) (retain source : List Name),
      TouchLevel c B j source →
      (∀ n, n ∈ retain ↔ ∃ t ∈ c.simps, t.name = n ∧ t.order ≤ j ∧ (t.pts ∩ B).Nonempty) →
      (∀ t ∈ c.simps, t.order ≤ j + fuel) → 1 ≤ fuel →
      ∀ n, n ∈ restrictRetain c fuel retain source ↔ ∃ t ∈ c.simps, t.name = n ∧ (t.pts ∩ B).Nonempty := by
  classical
  intro fuel
  induction fuel with
  | zero => intro j retain source _ _ _ h1; omega
  | succ fuel ih =>
    intro j retain source hsrc hret hbound _ n
    unfold restrictRetain
    have hnext := touch_step hI hsrc
    set target := dedupL (source.flatMap c.cofaces) with htarget
    by_cases hall : (target.all (fun n => retain.contains n)) = true
    · rw [if_pos hall]
      -- target ⊆ retain, but target lives at order j+1 > j : so target = [] and nothing lies above j
      have htempty : ∀ m, m ∉ target := by
        intro m hm
        rw [List.all_eq_true] at hall
        have := hall m hm
        rw [List.contains_iff_mem] at this
        obtain ⟨t, ht, hn, ho, -⟩ := (hret m).mp this
        obtain ⟨t', ht', hn', ho', -⟩ := (hnext m).mp hm
        have : t = t' := hI.name_inj ht ht' (hn.trans hn'.symm)
        subst this; omega
      -- no simplex touching B above order j (closedness: it would have a touching facet chain down to j+1)
      have hnone : ∀ t ∈ c.simps, (t.pts ∩ B).Nonempty → t.order ≤ j := by
        intro t ht hne
        by_contra hgt
        push Not at hgt
        -- descend to order j+1
        obtain ⟨p, hp⟩ := hne
        rw [Finset.mem_inter] at hp
        -- pick a subset of size j+2 containing p
        have hct := hI.pts_card ht
        have : ∃ X ⊆ t.pts, p ∈ X ∧ X.card = j + 2 := by
          obtain ⟨Y, hY1, hY2⟩ := Finset.exists_subset_card_eq (s := t.pts.erase p) (n := j + 1)
            (by rw [Finset.card_erase_of_mem hp.1, hct]; omega)
          refine ⟨insert p Y, ?_, Finset.mem_insert_self _ _, ?_⟩
          · intro x hx
            rcases Finset.mem_insert.mp hx with rfl | hx
            · exact hp.1
            · exact Finset.mem_of_mem_erase (hY1 hx)
          · rw [Finset.card_insert_of_notMem (fun h => (Finset.notMem_erase p t.pts) (hY1 h)), hY2]
        obtain ⟨X, hXs, hpX, hXc⟩ := this
        obtain ⟨u, hu, hup⟩ := hI.subset_simplex ht hXs ⟨p, hpX⟩
        have huo : u.order = j + 1 := by
          have := hI.pts_card hu; rw [hup, hXc] at this; omega
        exact htempty u.name ((hnext u.name).mpr ⟨u, hu, rfl, huo, ⟨p, Finset.mem_inter.mpr ⟨hup ▸ hpX, hp.2⟩⟩⟩)
      rw [hret n]
      constructor
      · rintro ⟨t, ht, h1, -, h3⟩; exact ⟨t, ht, h1, h3⟩
      · rintro ⟨t, ht, h1, h3⟩; exact ⟨t, ht, h1, hnone t ht h3, h3⟩
    · rw [if_neg hall]
      -- some simplex exists at order j+1, so fuel ≥ 2 … or the bound gives it
      by_cases hf : fuel = 0
      · -- fuel exhausted: then every simplex has order ≤ j+1 and retain ++ target is already everything
        subst hf
        simp only [restrictRetain]
        rw [List.mem_append, hret n, hnext n]
        constructor
        · rintro (⟨t, ht, h1, -, h3⟩ | ⟨t, ht, h1, -, h3⟩) <;> exact ⟨t, ht, h1, h3⟩
        · rintro ⟨t, ht, h1, h3⟩
          have := hbound t ht
          by_cases hto : t.order ≤ j
          · exact Or.inl ⟨t, ht, h1, hto, h3⟩
          · exact Or.inr ⟨t, ht, h1, by omega, h3⟩
      · apply ih (j + 1) (retain ++ target) target hnext ?_ (fun t ht => by have := hbound t ht; omega) (by omega)
        intro m
        rw [List.mem_append, hret m, hnext m]
        constructor
        · rintro (⟨t, ht, h1, h2, h3⟩ | ⟨t, ht, h1, h2, h3⟩)
          · exact ⟨t, ht, h1, by omega, h3⟩
          · exact ⟨t, ht, h1, by omega, h3⟩
        · rintro ⟨t, ht, h1, h2, h3⟩
          by_cases hto : t.order ≤ j
          · exact Or.inl ⟨t, ht, h1, hto, h3⟩
          · exact Or.inr ⟨t, ht, h1, by omega, h3⟩

#print axioms restrictRetain_spec
end Flat
