import Sx.Model.Flat
namespace Flat
variable {α : Type} [DecidableEq α]
def Simp.map (ρ : α → α) (s : Simp α) : Simp α :=
  ⟨ρ s.name, s.order, s.faces.map ρ, s.basis.map ρ⟩

/-- apply a renaming to every name in the complex (names, faces, bases) -/
def Cx.map (ρ : α → α) (c : Cx α) : Cx α := { c with simps := c.simps.map (Simp.map ρ) }

/-- mirror of `ReferenceRepresentation.relabelSimplex(s, q)` at Layer A; `none` = ValueError / KeyError -/
def Cx.relabelSimplex (c : Cx α) (s q : α) : Option (Cx α) :=
  if c.contains q then none else
  if !c.contains s then none else
  some (c.map (fun n => if n = s then q else n))

end Flat
