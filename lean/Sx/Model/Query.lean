import Sx.Model.Basis
namespace Flat
variable {α : Type} [DecidableEq α]
/-- mirror of the loop in `closureOf`: `cs[fk-1] = ⋃ faces(t) for t in cs[fk]`, from order `k` down to 0.
Returns `[cs[k], cs[k-1], …, cs[0]]`. -/
def closureLevels (c : Cx α) (lvl : List α) : Nat → List (List α)
  | 0 => [lvl]
  | k + 1 => lvl :: closureLevels c (dedupL (lvl.flatMap c.facesOf)) k

/-- mirror of `closureOf(s, reverse, exclude_self)`; `none` = KeyError -/
def closureOf (c : Cx α) (s : α) (reverse excludeSelf : Bool) : Option (List α) :=
  match c.orderOf? s with
  | none => none
  | some k =>
    let lv := closureLevels c [s] k
    let lv' := if excludeSelf then lv.tail else lv
    some (if reverse then lv'.flatten else lv'.reverse.flatten)

/-- mirror of `ReferenceRepresentation.cofaces`: the order-(k+1) simplices having `n` among their faces -/
def Cx.cofaces (c : Cx α) (n : α) : List α :=
  match c.orderOf? n with
  | none => []
  | some k => ((c.ofOrder (k + 1)).filter (fun t => t.faces.contains n)).map (·.name)

/-- mirror of `_partOf(s, k)`: depth-first over cofaces, collecting `(order, name)`; fuel bounds the depth -/
def partOfAux (c : Cx α) : Nat → α → Nat → List (Nat × α)
  | 0, _, _ => []
  | fuel + 1, n, k => (c.cofaces n).flatMap (fun f => (k + 1, f) :: partOfAux c fuel f (k + 1))

end Flat
