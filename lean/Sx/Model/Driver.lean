import Sx.Model.World

/-! The line protocol: one operation per input line, one canonical result line per operation.
The Python harness executes the same lines on the real library and compares the two streams. -/
namespace Drv
open Flat W

/-! ### parsing -/

/-- split at `sep` outside brackets -/
def splitTop (sep : Char) (cs : List Char) : List (List Char) :=
  let rec go (cs : List Char) (depth : Nat) (cur : List Char) (acc : List (List Char)) : List (List Char) :=
    match cs with
    | [] => acc ++ [cur.reverse]
    | c :: rest =>
      if c == sep && depth == 0 then go rest depth [] (acc ++ [cur.reverse])
      else if c == '[' || c == '{' || c == '(' then go rest (depth + 1) (c :: cur) acc
      else if c == ']' || c == '}' || c == ')' then go rest (depth - 1) (c :: cur) acc
      else go rest depth (c :: cur) acc
  go cs 0 [] []

def str (cs : List Char) : String := String.ofList cs

def parseNat (cs : List Char) : Option Nat := (str cs).toNat?
def parseInt (cs : List Char) : Option Int := (str cs).toInt?

/-- `u12`, `a1.0`, `w<k>.<u>.<name>` -/
partial def parseName (cs : List Char) : Option Name :=
  match cs with
  | 'u' :: rest => (parseNat rest).map Name.u
  | 'a' :: rest =>
    match splitTop '.' rest with
    | [d, i] => do let d ← parseNat d; let i ← parseNat i; pure (Name.auto d i)
    | _ => none
  | 'w' :: rest =>
    -- split off the first two dot-separated fields only
    let k := rest.takeWhile (· != '.')
    let r1 := (rest.dropWhile (· != '.')).drop 1
    let u := r1.takeWhile (· != '.')
    let r2 := (r1.dropWhile (· != '.')).drop 1
    do let k ← parseNat k; let u ← parseNat u; let b ← parseName r2; pure (Name.arrow b k u)
  | _ => none

/-- strip one pair of enclosing brackets -/
def inner (cs : List Char) : List Char := (cs.drop 1).dropLast

def parseList {β : Type} (p : List Char → Option β) (cs : List Char) : Option (List β) :=
  let body := inner cs
  if body.isEmpty then some [] else (splitTop ',' body).mapM p

def parseNames := parseList parseName
def parseOptName (cs : List Char) : Option (Option Name) := if cs == ['-'] then some none else (parseName cs).map some

def parsePair {β γ : Type} (p : List Char → Option β) (q : List Char → Option γ) (sep : Char) (cs : List Char) : Option (β × γ) :=
  match splitTop sep cs with
  | [a, b] => do let a ← p a; let b ← q b; pure (a, b)
  | _ => none

def parseRen (cs : List Char) : Option (List (Name × Name)) := parseList (parsePair parseName parseName ':') cs
def parseDict (cs : List Char) : Option Dict := parseList (parsePair parseInt parseInt ':') cs

/-! ### printing -/

def pName (n : Name) : String := n.str
def pList (l : List String) : String := "[" ++ String.intercalate "," l ++ "]"
def pSet (l : List String) : String := "{" ++ String.intercalate "," l ++ "}"
def pNames (l : List Name) : String := pList (l.map pName)
def pNameSet (l : List Name) : String := pSet (l.map pName)
def pBool (b : Bool) : String := if b then "T" else "F"
def pMat (B : M2.Mat) : String :=
  s!"{B.m}x{B.n}:" ++ String.intercalate "|" ((List.range B.m).map (fun i =>
    String.ofList ((List.range B.n).map (fun j => if B.get i j then '1' else '0'))))
def pDict (d : Dict) : String := pSet (d.map (fun p => s!"{p.1}:{p.2}"))

/-- consecutive runs of equal order: `[0:{a,b},1:{ab}]` — the order inside a run is not specified by the library -/
def pRuns (l : List (Nat × Name)) : String :=
  let rec go (l : List (Nat × Name)) (cur : Option (Nat × List Name)) (acc : List String) : List String :=
    match l, cur with
    | [], none => acc
    | [], some (k, ns) => acc ++ [s!"{k}:{pNameSet ns}"]
    | (k, n) :: rest, none => go rest (some (k, [n])) acc
    | (k, n) :: rest, some (k', ns) =>
      if k == k' then go rest (some (k', ns ++ [n])) acc
      else go rest (some (k, [n])) (acc ++ [s!"{k'}:{pNameSet ns}"])
  pList (go l none [])

def res {ρ : Type} (f : ρ → String) : Except Err ρ → String
  | .ok v => "ok " ++ f v
  | .error _ => "rej"

def resU : Except Err Unit → String := res (fun _ => "-")

/-! ### observation of a whole object -/

def obsC (w : World) (o : Obj) : String :=
  let c := o.c
  let simps := c.simps.map (fun s =>
    s!"{pName s.name}:{s.order}:{pNameSet s.faces}:{pNameSet s.basis}:{pDict (o.dictOf w s.name)}")
  let base := s!"max={c.maxOrder} counts={pList ((countsOf c).map toString)} S=[{String.intercalate ";" simps}] seq={pName (newSimplex c 0).1}"
  match o.filt with
  | none => base
  | some f => base ++ s!" idx={f.index} keys={pSet (f.keys.map toString)} births={pSet (f.births.map (fun p => s!"{pName p.1}:{p.2}"))}"

/-- identities renumbered by first appearance -/
def aliasLine (w : World) : String :=
  let ids : List Nat := w.objs.flatMap (fun p => p.2.rep :: p.2.attrs.map (·.2)) ++ w.udict.map (·.2)
  let canon := ids.eraseDups
  let num := fun (i : Nat) => toString (canon.findIdx (· == i))
  let objs := w.objs.map (fun p => s!"{p.1}:{num p.2.rep}:{pList (p.2.attrs.map (fun a => num a.2))}")
  let ud := w.udict.map (fun p => s!"{p.1}:{num p.2}")
  s!"objs=[{String.intercalate ";" objs}] D=[{String.intercalate ";" ud}]"

/-! ### loading a dumped state (for `judge`) -/

def parseSimp (cs : List Char) : Option (Simp Name × Dict) :=
  match splitTop ':' cs with
  | [n, k, fs, bs, d] => do
    let n ← parseName n; let k ← parseNat k; let fs ← parseNames fs; let bs ← parseNames bs; let d ← parseDict d
    pure (⟨n, k, fs, bs⟩, d)
  | _ => none

/-- `S=[...]` body of an `obs` line → structural state (seq is not loaded) -/
def parseSimps (cs : List Char) : Option (List (Simp Name × Dict)) :=
  let body := inner cs
  if body.isEmpty then some [] else (splitTop ';' body).mapM parseSimp

/-! ### the judge predicates -/

/-- `chains` (lists of order-k names, read mod 2) form a basis of the cycle group of order k: each is a
k-chain with empty boundary, their number is the nullity of the order-k boundary operator, and they are
independent mod 2 -/
def isCycleBasis (c : C) (k : Nat) (chains : List (List Name)) : Bool :=
  let cols := (c.ofOrder k).map (·.name)
  let B := bopMat c k
  let rank := M2.nonzeroRows (M2.snf B)
  let mod2 := fun (ch : List Name) => cols.filter (fun n => ch.count n % 2 == 1)
  chains.all (fun ch => ch.all (fun n => cols.contains n)) &&
  chains.all (fun ch => match boundaryChain c (mod2 ch) with | some [] => true | _ => false) &&
  chains.length + rank == cols.length &&
  (let Mx := M2.mk cols.length chains.length (fun i j =>
      match cols[i]?, chains[j]? with
      | some n, some ch => ch.count n % 2 == 1
      | _, _ => false)
   M2.nonzeroRows (M2.snf Mx) == chains.length)

/-! ### one step -/

def tok (l : List String) (i : Nat) : List Char := (l.getD i "").toList

def withObj (w : World) (h : String) (f : Obj → String) : String :=
  match w.obj? h with
  | some o => f o
  | none => "err no-object " ++ h

def isNewFlag (s : String) : Bool := s == "new"

def optCell (w : World) (cs : List Char) : Option (Option Nat) :=
  if cs == ['-'] then some none
  else match w.udict.find? (fun p => p.1 == str cs) with
    | some p => some (some p.2)
    | none => none

def cmpOp (op : String) (a b : C) : Option Bool :=
  match op with
  | "le" => some (Flat.le a b) | "lt" => some (Flat.lt a b) | "ge" => some (Flat.ge a b)
  | "gt" => some (Flat.gt a b) | "eq" => some (Flat.eq a b) | "ne" => some (Flat.ne a b)
  | _ => none

def metricOf (w : World) (o : Obj) (key dflt : Int) (n : Name) : Int :=
  ((o.dictOf w n).get? key).getD dflt

def query (w : World) (o : Obj) (args : List String) : String :=
  let c := o.c
  let f := o.fs
  let a := fun i => tok args i
  match args.getD 0 "" with
  | "closure" | "part" =>
    match parseName (a 1) with
    | none => "err name"
    | some s =>
      let rev := args.getD 2 "F" == "T"
      let excl := args.getD 3 "F" == "T"
      let withOrd := fun (l : List Name) => l.map (fun n => ((c.orderOf? n).getD 0, n))
      if args.getD 0 "" == "closure" then
        match closureOf c s rev excl with
        | none => "rej"
        | some l => "ok " ++ pRuns (withOrd l)
      else
        match partOfPairs c s, c.orderOf? s with
        | some ps, some k =>
          let top := (ps.map (·.1)).foldl max k
          let lv := (List.range (top + 1)).flatMap (fun j => ps.filter (fun p => p.1 == j))
          let lv := if rev then ((List.range (top + 1)).reverse.flatMap (fun j => ps.filter (fun p => p.1 == j))) else lv
          let l := if excl then lv else (if rev then lv ++ [(k, s)] else (k, s) :: lv)
          "ok " ++ pRuns l
        | _, _ => "rej"
  | "cofaces" => match parseName (a 1) with
    | some s => if c.contains s then "ok " ++ pNameSet (c.cofaces s) else "rej"
    | none => "err name"
  | "faces" => match parseName (a 1) with
    | some s => if c.contains s then "ok " ++ pNameSet (c.facesOf s) else "rej"
    | none => "err name"
  | "basis" => match parseName (a 1) with
    | some s => if c.contains s then "ok " ++ pNameSet (c.basisOf s) else "rej"
    | none => "err name"
  | "order" => match parseName (a 1) with
    | some s => match c.orderOf? s with | some k => s!"ok {k}" | none => "rej"
    | none => "err name"
  | "index" => match parseName (a 1) with
    | some s => match c.orderOf? s with
      | some k => s!"ok {((c.ofOrder k).map (·.name)).findIdx (· == s)}"
      | none => "rej"
    | none => "err name"
  | "swb" => match parseNames (a 1) with
    | some bs => "ok " ++ (match simplexWithBasis c bs with | some n => pName n | none => "-")
    | none => "err names"
  | "swf" => match parseNames (a 1) with
    | some fs => "ok " ++ (match simplexWithFaces c fs with | some n => pName n | none => "-")
    | none => "err names"
  | "isbasis" => match parseNames (a 1) with
    | some bs => "ok " ++ pBool (bs.all (fun b => c.orderOf? b == some 0))
    | none => "err names"
  | "disjoint" => match parseNames (a 1) with
    | some ss => (match disjointQ c ss with | some b => "ok " ++ pBool b | none => "rej")
    | none => "err names"
  | "boundary" => match parseNames (a 1) with
    | some ss => (match boundaryChain c ss with | some l => "ok " ++ pNameSet l | none => "rej")
    | none => "err names"
  | "bop" => match parseNat (a 1) with | some k => "ok " ++ pMat (bopMat c k) | none => "err k"
  | "snf" => match parseNat (a 1) with | some k => "ok " ++ pMat (snfK c k) | none => "err k"
  | "Z" =>
    let ks : Option (List Nat) := if args.length < 2 then some ((List.range (c.maxOrder + 1).toNat).drop 1) else parseList parseNat (a 1)
    (match ks with
    | some ks => "ok " ++ pSet (ks.eraseDups.map (fun k => s!"{k}:{pList ((Zk c k).map pNames)}"))   -- a dict: one entry per order
    | none => "err ks")
  | "betti" =>
    let ks : Option (List Nat) := if args.length < 2 then some (List.range (c.maxOrder + 1).toNat) else parseList parseNat (a 1)
    (match ks with
    | some ks => "ok " ++ pSet (ks.eraseDups.map (fun k => s!"{k}:{bettiK c k}"))
    | none => "err ks")
  | "euler" => (match f with | none => s!"ok {euler c}" | some f => s!"ok {f.euler}")
  | "count" => (match f with | none => s!"ok {c.simps.length}" | some f => s!"ok {f.count}")
  | "counts" => "ok " ++ pList (((match f with | none => countsOf c | some f => f.counts)).map toString)
  | "max" => s!"ok {c.maxOrder}"
  | "simplices" =>
    let l := (match f with | none => c.names | some f => f.simplices)
    let rev := args.getD 1 "F" == "T"
    -- reverse = highest order first, listing order kept within an order
    let l := if rev then
        let top := (c.maxOrder + 1).toNat
        (List.range top).reverse.flatMap (fun k => l.filter (fun n => c.orderOf? n == some k))
      else l
    "ok " ++ pNames l
  | "oforder" => (match parseNat (a 1) with | some k => "ok " ++ pNames ((c.ofOrder k).map (·.name)) | none => "err k")
  | "contains" => (match parseName (a 1) with
    | some s => "ok " ++ pBool (match f with | none => c.contains s | some f => f.visible s)
    | none => "err name")
  | "attr" => (match parseName (a 1) with
    | some s => if c.contains s then "ok " ++ pDict (o.dictOf w s) else "rej"
    | none => "err name")
  | "le" | "lt" | "ge" | "gt" | "eq" | "ne" =>
    (match w.obj? (args.getD 1 "") with
    | some o2 => (match cmpOp (args.getD 0 "") c o2.c with | some b => "ok " ++ pBool b | none => "err op")
    | none => "err no-object")
  | "integrate" =>
    (match parseInt (a 1), parseInt (a 2) with
    | some key, some dflt => s!"ok {integrate c (metricOf w o key dflt)}"
    | _, _ => "err args")
  | "added" => (match f, parseName (a 1) with
    | some f, some s => (match f.birth? s with | some i => s!"ok {i}" | none => "rej")
    | _, _ => "err args")
  | "addedat" => (match f, parseInt (a 1) with
    | some f, some i => (match f.addedAt i with | some l => "ok " ++ pRuns l | none => "rej")
    | _, _ => "err args")
  | "indices" => (match f with | some f => "ok " ++ pList (f.indices.map toString) | none => "err not-filt")
  | "getidx" => (match f with | some f => s!"ok {f.index}" | none => "err not-filt")
  | q => "err unknown-query " ++ q

/-- rational `a/b` in lowest terms with positive denominator, as text -/
def pRat (num : Int) (den : Nat) : String :=
  let g := Nat.gcd num.natAbs den
  if g == 0 then "0/1" else s!"{num / (g : Int)}/{den / g}"

/-- `TriangularLatticeEmbedding.computePositionOf` over ℚ: `[x, y]` as two rationals -/
def latticePos (rows cols h wd n : Nat) : List String :=
  let i := n / cols
  let j := n % cols
  -- y = h - (h / rows) * i ;  x = (wd / (2*cols)) * (2j or 2j+1)
  let y := pRat ((h * rows : Nat) - (h * i : Nat) : Int) rows
  let x := pRat ((wd * (if i % 2 == 0 then 2 * j else 2 * j + 1) : Nat) : Int) (2 * cols)
  [x, y]

def pPos (p : List Int) : String := pList (p.map toString)

def embOrderOf (w : World) (e : EObj) (s : Name) : Option Nat :=
  match w.obj? e.cx with
  | some o => o.c.orderOf? s
  | none => none

def step (w : World) (line : String) : World × String :=
  let t := (line.splitOn " ").filter (· != "")
  let a := fun i => tok t i
  let h := t.getD 1 ""
  match t.getD 0 "" with
  | "reset" => ({}, "ok -")
  | "new" => (newCx w h, "ok -")
  | "newf" => (match parseInt (a 2) with | some i => (newFilt w h i, "ok -") | none => (w, "err idx"))
  | "dict" => (match parseDict (a 2) with
    | some d => let r := w.alloc d; ({ r.2 with udict := r.2.udict.filter (·.1 != h) ++ [(h, r.1)] }, "ok -")
    | none => (w, "err dict"))
  | "add" => (match parseOptName (a 2), parseNames (a 3), optCell w (a 4) with
    | some id, some fs, some d => let r := addFacesOp w h fs id d; (r.2, res pName r.1)
    | _, _, _ => (w, "err args"))
  | "addb" => (match parseOptName (a 2), parseNames (a 3), optCell w (a 4) with
    | some id, some bs, some d =>
      (match w.obj? h with
      | some o =>
        (match o.fs with
        | some f => if f.basisCallModelled bs id then let r := addBasisOp w h bs id d; (r.2, res pName r.1) else (w, "unmodelled")
        | none => let r := addBasisOp w h bs id d; (r.2, res pName r.1))
      | none => (w, "err no-object"))
    | _, _, _ => (w, "err args"))
  | "addfrom" => (match parseRen (a 3) with
    | some ρ => let r := addFromOp w h (t.getD 2 "") ρ; (r.2, res pNames r.1)
    | none => (w, "err ren"))
  | "del" => (match parseName (a 2) with | some s => let r := deleteOp w h s; (r.2, resU r.1) | none => (w, "err name"))
  | "delb" => (match parseNames (a 2) with | some bs => let r := deleteBasisOp w h bs; (r.2, resU r.1) | none => (w, "err names"))
  | "dels" => (match parseNames (a 2) with | some ss => let r := deleteManyOp w h ss; (r.2, resU r.1) | none => (w, "err names"))
  | "restrict" => (match parseNames (a 2) with | some bs => let r := restrictOp w h bs; (r.2, resU r.1) | none => (w, "err names"))
  | "subdiv" => (match parseName (a 2), parseNames (a 3) with
    | some s, some order => let r := subdivideOp w h s order; (r.2, res pName r.1)
    | _, _ => (w, "err args"))
  | "relabel" => (match parseRen (a 2) with
    | some ρ => let r := relabelOp w h ρ; (r.2, res (fun m => pSet (m.map (fun p => s!"{pName p.1}:{pName p.2}"))) r.1)
    | none => (w, "err ren"))
  | "relabel1" => (match parseName (a 2), parseName (a 3) with
    | some x, some q => let r := relabelOneOp w h x q; (r.2, resU r.1)
    | _, _ => (w, "err args"))
  | "delsorder" => (match parseNat (a 2) with
    | some k =>
      let ss := match w.obj? h with | some o => (o.c.ofOrder k).map (·.name) | none => []
      let r := deleteManyOp w h ss; (r.2, resU r.1)
    | none => (w, "err k"))
  | "relabeldisj" =>
    let r := relabelDisjointOp w h (t.getD 2 ""); (r.2, res (fun m => pSet (m.map (fun p => s!"{pName p.1}:{pName p.2}"))) r.1)
  | "setattr" => (match parseName (a 2), optCell w (a 3) with
    | some s, some (some d) => let r := setAttrOp w h s d; (r.2, resU r.1)
    | _, _ => (w, "err args"))
  | "dset" => (match parseName (a 2), parseInt (a 3), parseInt (a 4) with
    | some s, some k, some v => let r := dictSetOp w h s k v; (r.2, resU r.1)
    | _, _, _ => (w, "err args"))
  | "ddset" => (match w.udict.find? (fun p => p.1 == h), parseInt (a 2), parseInt (a 3) with
    | some p, some k, some v => (w.setCell p.2 (Dict.set ((w.cell? p.2).getD []) k v), "ok -")
    | _, _, _ => (w, "err args"))
  | "copy" => let r := copyOp w h (t.getD 2 ""); (r.2, resU r.1)
  | "copyinto" => let r := copyIntoOp w h (t.getD 2 ""); (r.2, resU r.1)
  | "deepcopy" => let r := deepcopyOp w h (t.getD 2 ""); (r.2, resU r.1)
  | "compose" => let r := composeOp w h (t.getD 2 "") (t.getD 3 ""); (r.2, resU r.1)
  | "composeinto" => let r := composeIntoOp w h (t.getD 2 "") (t.getD 3 ""); (r.2, resU r.1)
  | "flag" => let r := flagOp w h (t.getD 2 ""); (r.2, resU r.1)
  | "json" => let r := jsonOp w h (t.getD 2 ""); (r.2, resU r.1)
  | "grow" => (match parseNames (a 2) with | some ss => let r := growOp w h ss; (r.2, resU r.1) | none => (w, "err names"))
  | "ksimplex" => (match parseNat (a 3), parseOptName (a 4), optCell w (a 5) with
    | some k, some id, some d =>
      -- the attr object (or a fresh dict) goes to the top simplex only
      let al := argDict w d
      let c0 := if isNewFlag (t.getD 2 "") then emptyC else ((w.obj? h).map (·.c)).getD emptyC
      let top : Option Name := match kSimplex k id c0 with | .ok (n, _) => some n | .error _ => none
      let r := genOp al.2 h (isNewFlag (t.getD 2 "")) (fun c => (kSimplex k id c).map (·.2))
        (fun _ n => if some n == top then some al.1 else none)
      (r.2, resU r.1)
    | _, _, _ => (w, "err args"))
  | "kvoid" => (match parseNat (a 3) with
    | some k => let r := genOp w h (isNewFlag (t.getD 2 "")) (kVoid k) (fun _ => noSpecial); (r.2, resU r.1)
    | none => (w, "err k"))
  | "kskel" => (match parseNat (a 3) with
    | some k => let r := genOp w h (isNewFlag (t.getD 2 "")) (kSkeleton k) (fun _ => noSpecial); (r.2, resU r.1)
    | none => (w, "err k"))
  | "ring" => (match parseNat (a 3) with
    | some n => let r := genOp w h (isNewFlag (t.getD 2 "")) (ring n) (fun _ => noSpecial); (r.2, resU r.1)
    | none => (w, "err n"))
  | "lattice" => (match parseNat (a 2), parseNat (a 3) with
    | some r, some cl =>
      -- each by-basis call shares one fresh dict between its top simplex and nothing else (no new points)
      let x := genOp w h true (fun _ => lattice r cl) (fun _ => noSpecial); (x.2, resU x.1)
    | _, _ => (w, "err args"))
  | "setidx" => (match parseInt (a 2) with
    | some i => let r := filtOp w h (fun f => (.ok (), f.setIndex i)); (r.2, resU r.1)
    | none => (w, "err idx"))
  | "next" => let r := filtOp w h FS.next; (r.2, res toString r.1)
  | "prev" => let r := filtOp w h FS.prev; (r.2, res toString r.1)
  | "minidx" => let r := filtOp w h FS.toMin; (r.2, resU r.1)
  | "maxidx" => let r := filtOp w h FS.toMax; (r.2, resU r.1)
  | "snap" => let r := snapOp w h (t.getD 2 ""); (r.2, resU r.1)
  | "fcopy" => (match parseNames (a 3) with
    | some order => let r := fcopyOp w h (t.getD 2 "") order; (r.2, resU r.1)
    | none => (w, "err names"))
  | "iter" =>
    (match w.obj? h with
    | some o =>
      (match o.fs with
      | some f =>
        let r := f.iterate
        let dumps := r.1.map (fun c => pList (c.simps.map (fun s => s!"{pName s.name}:{s.order}:{pNameSet s.faces}")))
        (w.setObj h (o.withFS r.2), "ok " ++ pList dumps)
      | none => (w, "err not-filt"))
    | none => (w, "err no-object"))
  | "emb" => (match parseNat (a 3) with
    | some d => ({ w with embs := w.embs.filter (·.1 != h) ++ [(h, { cx := t.getD 2 "", st := { dim := d, pos := [], calls := [] } })] }, "ok -")
    | none => (w, "err dim"))
  | "lemb" => (match (w.obj? (t.getD 2 "")), parseNat (a 3), parseNat (a 4), parseNat (a 5), parseNat (a 6) with
    | some _, some r, some cl, some hh, some ww =>
      ({ w with embs := w.embs.filter (·.1 != h) ++ [(h, { cx := t.getD 2 "", st := { dim := 2, pos := [], calls := [] }, lattice := some (r, cl, hh, ww) })] }, "ok -")
    | _, _, _, _, _ => (w, "err args"))
  | "pos" => (match w.embs.find? (·.1 == h), parseName (a 2), parseList parseInt (a 3) with
    | some e, some s, some p =>
      (match Emb.positionSimplex e.2.st List.length s p with
      | .ok st => ({ w with embs := w.embs.map (fun x => if x.1 == h then (h, { e.2 with st := st }) else x) }, "ok -")
      | .error _ => (w, "rej"))
    | _, _, _ => (w, "err args"))
  | "posof" => (match w.embs.find? (·.1 == h), parseName (a 2) with
    | some e, some s =>
      (match e.2.lattice with
      | none =>
        let r := Emb.positionOf e.2.st (embOrderOf w e.2) (fun _ => List.replicate e.2.st.dim (0 : Int)) s
        ({ w with embs := w.embs.map (fun x => if x.1 == h then (h, { e.2 with st := r.2 }) else x) },
          match r.1 with | .ok p => "ok " ++ pPos p ++ s!" calls={r.2.calls.length}" | .error _ => "rej")
      | some (rows, cols, hh, ww) =>
        -- lattice positions are computed by index: answer in ℚ unless explicitly positioned
        (match embOrderOf w e.2 s with
        | none => (w, "rej")
        | some k =>
          if k > 0 then (w, "rej") else
          match Emb.lookup e.2.st.pos s with
          | some p => (w, "ok " ++ pPos p)
          | none =>
            let idx := match w.obj? e.2.cx with
              | some o => ((o.c.ofOrder 0).map (·.name)).findIdx (· == s)
              | none => 0
            (w, "ok " ++ pList (latticePos rows cols hh ww idx))))
    | _, _ => (w, "err args"))
  | "clearpos" => (match w.embs.find? (·.1 == h) with
    | some e => ({ w with embs := w.embs.map (fun x => if x.1 == h then (h, { e.2 with st := Emb.clearPositions e.2.st }) else x) }, "ok -")
    | none => (w, "err no-emb"))
  | "elen" => (match w.embs.find? (·.1 == h) with
    | some e => (w, match w.obj? e.2.cx with | some o => s!"ok {(o.c.ofOrder 0).length}" | none => "err no-object")
    | none => (w, "err no-emb"))
  | "ein" => (match w.embs.find? (·.1 == h), parseName (a 2) with
    | some e, some s => (w, match w.obj? e.2.cx with | some o => "ok " ++ pBool (o.c.orderOf? s == some 0) | none => "err no-object")
    | _, _ => (w, "err args"))
  | "eposall" => (match w.embs.find? (·.1 == h) with
    | some e =>
      (match w.obj? e.2.cx with
      | some o =>
        -- `positionsOf()`: positionOf for every point in listing order (fills the cache)
        let pts := (o.c.ofOrder 0).map (·.name)
        let st := match e.2.lattice with
          | some _ => e.2.st
          | none => pts.foldl (fun st s => (Emb.positionOf st (embOrderOf w e.2) (fun _ => List.replicate e.2.st.dim (0 : Int)) s).2) e.2.st
        ({ w with embs := w.embs.map (fun x => if x.1 == h then (h, { e.2 with st := st }) else x) }, "ok " ++ pNameSet pts)
      | none => (w, "err no-object"))
    | none => (w, "err no-emb"))
  | "vr" =>
    -- vr <emb> <new> [i.j,i.j,...] : closeness of point pairs as decided by the real distance function
    (match w.embs.find? (·.1 == h), parseList (parsePair parseNat parseNat '.') (a 3) with
    | some e, some close =>
      (match w.obj? e.2.cx with
      | some o =>
        (match vietorisRips ((o.c.ofOrder 0).map (·.name)) close with
        | .ok c' =>
          let r := w.freshId
          let ob : Obj := { rep := r.1, c := emptyC, attrs := [] }
          let y := sync r.2 ob c' noSpecial emptyContent
          (y.2.setObj (t.getD 2 "") y.1, "ok -")
        | .error _ => (w, "rej"))
      | none => (w, "err no-object"))
    | _, _ => (w, "err args"))
  | "rnew" => ({ w with reps := w.reps.filter (·.1 != h) ++ [(h, MatRep.Rep.empty)] }, "ok -")
  | "radd" => (match w.reps.find? (·.1 == h), parseName (a 2), parseNames (a 3) with
    | some r, some id, some fs =>
      (match r.2.addSimplex fs id with
      | .ok r' => ({ w with reps := w.reps.map (fun x => if x.1 == h then (h, r') else x) }, "ok " ++ pName id)
      | .error _ => (w, "rej"))
    | _, _, _ => (w, "err args"))
  | "rrel" => (match w.reps.find? (·.1 == h), parseName (a 2), parseName (a 3) with
    | some r, some x, some q =>
      (match r.2.relabelSimplex x q with
      | .ok r' => ({ w with reps := w.reps.map (fun y => if y.1 == h then (h, r') else y) }, "ok -")
      | .error _ => (w, "rej"))
    | _, _, _ => (w, "err args"))
  | "rdel" => (match w.reps.find? (·.1 == h), parseName (a 2) with
    | some r, some x =>
      if r.2.contains x then ({ w with reps := w.reps.map (fun y => if y.1 == h then (h, r.2.forceDeleteSimplex x) else y) }, "ok -")
      else (w, "rej")
    | _, _ => (w, "err args"))
  | "robs" => (match w.reps.find? (·.1 == h) with
    | some r =>
      let top := (r.2.maxOrder + 1).toNat
      let idx := (List.range top).map (fun k => pNames (r.2.simplicesOfOrder k))
      let bops := (List.range (top + 1)).map (fun k => s!"{k}:{pMat (r.2.boundaryOperator k)}")
      let bases := (List.range top).map (fun k => s!"{k}:{pMat (r.2.bs k)}")
      let per := r.2.simplices.map (fun x => s!"{pName x}:{pNameSet (r.2.faces x)}:{pNameSet (r.2.cofaces x)}:{pNameSet (r.2.basisOf x)}:{(r.2.orderOf? x).getD 0}:{(r.2.indexOf? x).getD 0}")
      (w, s!"ok max={r.2.maxOrder} I={pList idx} B={pList bops} S={pList bases} Q=[{String.intercalate ";" per}]")
    | none => (w, "err no-rep"))
  | "q" => (w, withObj w h (fun o => query w o (t.drop 2)))
  | "obs" => (w, withObj w h (fun o => "ok " ++ obsC w o))
  | "alias" => (w, "ok " ++ aliasLine w)
  | "load" =>
    -- load <h> S=[...]  : a structural state observed from the implementation
    (match parseSimps ((a 2).drop 2) with
    | some l =>
      let c : C := { simps := l.map (·.1), seq := 0 }
      let r := w.freshId
      let o : Obj := { rep := r.1, c := emptyC, attrs := [] }
      let y := sync r.2 o c noSpecial (fun n => ((l.find? (fun p => p.1.name == n)).map (·.2)).getD [])
      (y.2.setObj h y.1, "ok -")
    | none => (w, "err dump"))
  | "judge" =>
    (match t.getD 1 "" with
    | "inv" => (w, withObj w (t.getD 2 "") (fun o => "ok " ++ pBool (checkInv o.c)))
    | "finv" => (w, withObj w (t.getD 2 "") (fun o => "ok " ++ pBool (match o.fs with | some f => checkInv o.c && f.checkFInv | none => false)))
    | "zbasis" =>
      (match parseNat (a 3), parseList parseNames (a 4) with
      | some k, some chains => (w, withObj w (t.getD 2 "") (fun o => "ok " ++ pBool (isCycleBasis o.c k chains)))
      | _, _ => (w, "err args"))
    | p => (w, "err unknown-predicate " ++ p))
  | "" => (w, "")
  | op => (w, "err unknown-op " ++ op)

end Drv
