import Sx.Model.Basis
namespace Flat
variable {α : Type} [DecidableEq α] {ι : Type} [LE ι] [DecidableLE ι]
/-- the complex seen at index `i` -/
def visibleAt (c : Cx α) (birth : α → ι) (i : ι) : Cx α :=
  { c with simps := c.simps.filter (fun s => decide (birth s.name ≤ i)) }

/-- `Filtration.containsSimplex`: in the representation and born at or before the current index -/
def fContains (c : C) (birth : Name → ι) (i : ι) (n : Name) : Bool :=
  c.contains n && decide (birth n ≤ i)

/-- `Filtration.simplices()`: `[s for s in super().simplices() if s in self]` -/
def fSimplices (c : C) (birth : Name → ι) (i : ι) : List Name :=
  (c.simps.map (·.name)).filter (fun n => fContains c birth i n)

/-- `Filtration.numberOfSimplicesOfOrder()` after repair D22: count the visible simplices per order, drop
the empty tail -/
def dropZeros : List Nat → List Nat
  | [] => []
  | x :: xs => match dropZeros xs with
    | [] => if x = 0 then [] else [x]
    | ys => x :: ys

def fCounts (c : C) (birth : Name → ι) (i : ι) (top : Nat) : List Nat :=
  dropZeros ((List.range (top + 1)).map (fun k =>
    ((c.ofOrder k).filter (fun s => fContains c birth i s.name)).length))

/-- `setNextIndex` after repair D21: the element after the current one in the sorted index list, or the
current one at the end -/
def nextIndex (inds : List ι) (cur : ι) : ι :=
  match inds.dropWhile (fun j => decide (j ≤ cur)) with
  | [] => cur
  | j :: _ => j

end Flat
