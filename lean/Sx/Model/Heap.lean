namespace Heap
structure Rep (σ : Type) where
  shape : σ                 -- the structural part (Layer-A state without attribute payloads)
  attrs : List Nat          -- ids of the attribute-dict cells of its simplices, in listing order
deriving Repr

structure World (σ δ : Type) where
  reps  : List (Rep σ)
  dicts : List δ

variable {σ δ : Type}

def World.rep? (w : World σ δ) (h : Nat) : Option (Rep σ) := w.reps[h]?

def World.dict? (w : World σ δ) (d : Nat) : Option δ := w.dicts[d]?

/-- a mutator on the complex with handle `h`: rewrites only that representation cell -/
def World.mutate (w : World σ δ) (h : Nat) (f : Rep σ → Rep σ) : World σ δ :=
  { w with reps := match w.reps[h]? with | some r => w.reps.set h (f r) | none => w.reps }

/-- in-place change of one attribute dict (`c[s]['k'] = v`) -/
def World.dictSet (w : World σ δ) (d : Nat) (g : δ → δ) : World σ δ :=
  { w with dicts := match w.dicts[d]? with | some x => w.dicts.set d (g x) | none => w.dicts }

/-- `copy()` / `copy.deepcopy`: a new representation cell whose attribute dicts are fresh copies -/
def World.copyCx (w : World σ δ) (h : Nat) : Option (Nat × World σ δ) :=
  match w.reps[h]? with
  | none => none
  | some r =>
    let copies := r.attrs.filterMap (fun d => w.dicts[d]?)
    let base := w.dicts.length
    let r' : Rep σ := { shape := r.shape, attrs := (List.range copies.length).map (· + base) }
    some (w.reps.length, { reps := w.reps ++ [r'], dicts := w.dicts ++ copies })

/-- the *sharing* constructor (`copy.copy(self)`): a second handle to the same cell -/
def World.shallow (w : World σ δ) (h : Nat) : Nat × World σ δ := (h, w)

end Heap
