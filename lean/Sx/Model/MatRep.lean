import Sx.Model.Basis
import Sx.Model.Mat
import Sx.Model.Query
import Sx.Model.Relabel
import Sx.Model.Delete

/-! # Layer R: the matrix representation (`ReferenceRepresentation` of `simplicialcomplex.py`)

State, mirroring the Python fields:

* `indices`    = `_indices`   : per order, the simplex names in matrix order;
* `boundaries` = `_boundaries`: per order `k ≥ 1` the 0/1 matrix with rows = order-(k-1) names and
  columns = order-k names (`boundaries[0]` is a dummy 0×0 matrix);
* `bases`      = `_bases`     : per order `k` the 0/1 matrix with rows = points, columns = order-k names;
* `seq`        = `_sequence`.

`_maxOrder` is `indices.length - 1`.  `_simplices` (name ↦ (order, index)) is not stored: it is recomputed
from `indices` by `Rep.find?` (the Python keeps the two in step: `addSimplex` appends, `relabelSimplex`
rewrites one slot, `forceDeleteSimplex` re-indexes the tail of the order).  `_attributes` is not modelled.

**Normalisation.** When `forceDeleteSimplex` empties the top order the Python deletes `_boundaries[k]` and
`_bases[k]`, decrements `_maxOrder`, but leaves the now-empty list `_indices[k]` in place; a later
`addSimplex` of that order then `append`s a *second* empty list at the end of `_indices` and goes on using
the stale one at position `k`.  So in the Python `_indices = (the lists of orders 0.._maxOrder) ++ (some
number of empty lists)`, and no method ever looks at the tail except `simplices()`, which flattens it away.
The model drops the stale tail (it removes `indices[k]` together with the two matrices), so that
`_maxOrder = indices.length - 1` always.  Everything else is mirrored step by step. -/
namespace MatRep
open Flat M2

/-- `numpy.zeros([m, n])` -/
def zeros (m n : Nat) : Mat := mk m n (fun _ _ => false)

/-- `B[i, j] = 1` -/
def setOne (B : Mat) (i j : Nat) : Mat := mk B.m B.n (fun r c => if r = i ∧ c = j then true else B.get r c)

structure Rep where
  indices    : List (List Name)
  boundaries : List Mat
  bases      : List Mat
  seq        : Nat
deriving Repr

/-- `ReferenceRepresentation.__init__` -/
def Rep.empty : Rep := ⟨[], [], [], 0⟩

/-- number of orders, `_maxOrder + 1` -/
def Rep.len (r : Rep) : Nat := r.indices.length
/-- `_maxOrder` -/
def Rep.maxOrder (r : Rep) : Int := (r.indices.length : Int) - 1
/-- `_indices[k]` (empty beyond the maximum order) -/
def Rep.idx (r : Rep) (k : Nat) : List Name := r.indices.getD k []
/-- `_boundaries[k]` -/
def Rep.bd (r : Rep) (k : Nat) : Mat := r.boundaries.getD k (zeros 0 0)
/-- `_bases[k]` -/
def Rep.bs (r : Rep) (k : Nat) : Mat := r.bases.getD k (zeros 0 0)

/-! ## queries -/

/-- `_simplices[s]` = `(order, index)`; `none` = `s not in self._simplices` -/
def Rep.find? (r : Rep) (s : Name) : Option (Nat × Nat) :=
  (List.range r.len).findSome? (fun k => ((r.idx k).idxOf? s).map (fun i => (k, i)))

/-- `containsSimplex` -/
def Rep.contains (r : Rep) (s : Name) : Bool := (r.find? s).isSome
/-- `orderOf`; `none` = KeyError -/
def Rep.orderOf? (r : Rep) (s : Name) : Option Nat := (r.find? s).map (·.1)
/-- `indexOf`; `none` = KeyError -/
def Rep.indexOf? (r : Rep) (s : Name) : Option Nat := (r.find? s).map (·.2)

/-- the names marked in column `i` of `_boundaries[k]` (`faces` for the simplex at `(k, i)`) -/
def Rep.facesAt (r : Rep) (k i : Nat) : List Name :=
  if k = 0 then [] else decodeCol (r.idx (k - 1)) (r.bd k) i
/-- the points marked in column `i` of `_bases[k]` (`basisOf` for the simplex at `(k, i)`) -/
def Rep.basisAt (r : Rep) (k i : Nat) : List Name := decodeCol (r.idx 0) (r.bs k) i

/-- `faces(s)` (the empty list for an unknown name, as `Flat.Cx.facesOf`) -/
def Rep.faces (r : Rep) (s : Name) : List Name :=
  match r.find? s with
  | none => []
  | some (k, i) => r.facesAt k i

/-- `basisOf(s)` -/
def Rep.basisOf (r : Rep) (s : Name) : List Name :=
  match r.find? s with
  | none => []
  | some (k, i) => r.basisAt k i

/-- `cofaces(s)`: read row `i` of `_boundaries[k + 1]` against `_indices[k + 1]` -/
def Rep.cofaces (r : Rep) (s : Name) : List Name :=
  match r.find? s with
  | none => []
  | some (k, i) =>
    if (k : Int) = r.maxOrder then []
    else
      let ss := r.idx (k + 1)
      (List.range ss.length).filterMap (fun j => if (r.bd (k + 1)).get i j then ss[j]? else none)

/-- `simplicesOfOrder(k)` -/
def Rep.simplicesOfOrder (r : Rep) (k : Nat) : List Name := if (k : Int) ≤ r.maxOrder then r.idx k else []

/-- `boundaryOperator(k)` -/
def Rep.boundaryOperator (r : Rep) (k : Nat) : Mat :=
  if k = 0 then zeros 1 (r.simplicesOfOrder 0).length
  else if (k : Int) > r.maxOrder then zeros 0 0
  else r.bd k

/-- `simplices(reverse = False)` -/
def Rep.simplices (r : Rep) : List Name := r.indices.flatten

/-! ## the abstraction to Layer A -/

/-- the Layer-A record of the simplex called `n` at position `(k, i)` -/
def Rep.simpAt (r : Rep) (k i : Nat) (n : Name) : Simp Name := ⟨n, k, r.facesAt k i, r.basisAt k i⟩

/-- the Layer-A records of order `k`, in listing order -/
def Rep.level (r : Rep) (k : Nat) : List (Simp Name) := (r.idx k).mapIdx (fun i n => r.simpAt k i n)

/-- **the abstraction function**: orders ascending, listing order within an order -/
def abs (r : Rep) : C := ⟨(List.range r.len).flatMap r.level, r.seq⟩

/-! ## `addSimplex` -/

/-- "add empty structures" for the new top order `k` -/
def Rep.newOrder (r : Rep) (k : Nat) : Rep :=
  { r with indices    := r.indices ++ [[]]
           boundaries := r.boundaries ++ [zeros (r.idx (k - 1)).length 0]
           bases      := r.bases ++ [zeros (r.idx 0).length 0] }

/-- "if we have simplices in the order above this one, extend that order's boundary operator" -/
def Rep.extendAbove (r : Rep) (k : Nat) : Rep :=
  if r.maxOrder > k then { r with boundaries := r.boundaries.modify (k + 1) appendZeroRow } else r

/-- the new row and column of `_bases[0]` for the point with index `si` -/
def newPointBasis (B : Mat) (si : Nat) : Mat :=
  if B.m = 0 then mk 1 1 (fun _ _ => true)
  else setOne (appendZeroRow (appendCol B (fun _ => false))) si si

/-- "add the 0-simplex" -/
def Rep.addPoint (r : Rep) (id : Name) : Rep :=
  let si := (r.idx 0).length
  { r with indices := r.indices.modify 0 (· ++ [id])
           bases   := r.bases.mapIdx (fun i B => if i = 0 then newPointBasis B si else appendZeroRow B) }

/-- the boundary column `bk` of a new simplex with faces `fs`: `bk[fi] = 1` for `(k-1, fi) = _simplices[f]` -/
def Rep.bdCol (r : Rep) (k : Nat) (fs : List Name) : Nat → Bool :=
  fun row => fs.any (fun f => r.find? f == some (k - 1, row))

/-- the basis column: `bs = ⋃ basisOf(f)`, then `_bases[k][bi, si] = 1` for `(_, bi) = _simplices[b]`, `b ∈ bs` -/
def Rep.bsCol (r : Rep) (fs : List Name) : Nat → Bool :=
  fun row => fs.any (fun f => (r.basisOf f).any (fun b => r.indexOf? b == some row))

/-- "build the boundary operator for the new higher simplex … add simplex" -/
def Rep.addHigher (r : Rep) (k : Nat) (fs : List Name) (id : Name) : Rep :=
  { r with indices    := r.indices.modify k (· ++ [id])
           boundaries := r.boundaries.modify k (fun B => appendCol B (r.bdCol k fs))
           bases      := r.bases.modify k (fun B => appendCol B (r.bsCol fs)) }

/-- `simplexWithFaces(fs) is not None`, as `addSimplex` uses it (`0 < k ≤ maxOrder`, faces of order `k-1`) -/
def Rep.hasSimplexWithFaces (r : Rep) (k : Nat) (fs : List Name) : Bool :=
  (List.range (r.idx k).length).any (fun j => setEqB (r.facesAt k j) fs)

/-- mirror of `ReferenceRepresentation.addSimplex(fs, id, attr)` with an explicit `id`: the guard chain of
`Flat.Cx.addSimplex`, then the matrix edits -/
def Rep.addSimplex (r : Rep) (fs : List Name) (id : Name) : Except Err Rep :=
  let k := fs.length - 1
  if fs.length = 1 then .error .value else
  if r.contains id then .error .key else
  if ¬ fs.Nodup then .error .key else
  if (k : Int) > r.maxOrder + 1 then .error .value else
  if fs.isEmpty then
    .ok (((if (k : Int) > r.maxOrder then r.newOrder k else r).extendAbove k).addPoint id)
  else
    if fs.any (fun f => !r.contains f) then .error .key else
    if fs.any (fun f => r.orderOf? f != some (k - 1)) then .error .value else
    if r.hasSimplexWithFaces k fs then .error .key else
    .ok (((if (k : Int) > r.maxOrder then r.newOrder k else r).extendAbove k).addHigher k fs id)

/-! ## `relabelSimplex` -/

/-- mirror of `relabelSimplex(s, q)`: ValueError when `q` is in use, KeyError when `s` is unknown,
otherwise `(_indices[k])[i] = q` -/
def Rep.relabelSimplex (r : Rep) (s q : Name) : Except Err Rep :=
  if r.contains q then .error .value else
  match r.find? s with
  | none => .error .key
  | some (k, i) => .ok { r with indices := r.indices.modify k (fun l => l.set i q) }

/-! ## `forceDeleteSimplex` -/

/-- mirror of `forceDeleteSimplex(s)` (an unknown name, a KeyError in the Python, leaves the state alone) -/
def Rep.forceDeleteSimplex (r : Rep) (s : Name) : Rep :=
  match r.find? s with
  | none => r
  | some (k, i) =>
    -- delete from the basis matrices
    let bases1 := r.bases.modify k (fun B => deleteCol B i)
    let bases2 := if k = 0 then bases1.map (fun B => deleteRow B i) else bases1
    -- delete from boundary matrices
    let bd1 := if k > 0 then r.boundaries.modify k (fun B => deleteCol B i) else r.boundaries
    let bd2 := if (k : Int) < r.maxOrder then bd1.modify (k + 1) (fun B => deleteRow B i) else bd1
    -- delete from the indices array
    let ind := r.indices.modify k (fun l => l.eraseIdx i)
    -- if we've emptied the maximum order, reduce it by one and delete the now-empty matrices
    if (k : Int) = r.maxOrder ∧ (ind.getD k []).isEmpty then
      ⟨ind.eraseIdx k, bd2.eraseIdx k, bases2.eraseIdx k, r.seq⟩
    else ⟨ind, bd2, bases2, r.seq⟩

end MatRep
