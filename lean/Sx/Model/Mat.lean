/-! spike: GF(2) matrices with explicit shape; every operation is an entry formula (core Lean only) -/
namespace M2

structure Mat where
  m : Nat
  n : Nat
  e : List (List Bool)
deriving Repr, DecidableEq

def mk (m n : Nat) (f : Nat → Nat → Bool) : Mat :=
  ⟨m, n, (List.range m).map (fun i => (List.range n).map (fun j => f i j))⟩

def Mat.get (B : Mat) (i j : Nat) : Bool := (B.e.getD i []).getD j false

def swapN (a b i : Nat) : Nat := if i = a then b else if i = b then a else i

/-- first (k,l) in row-major order with x ≤ k < m, x ≤ l < n and B[k,l] -/
def findPivot (B : Mat) (x : Nat) : Option (Nat × Nat) :=
  ((List.range B.m).filter (x ≤ ·)).findSome? (fun k =>
    (((List.range B.n).filter (x ≤ ·)).find? (fun l => B.get k l)).map (fun l => (k, l)))

def step (B : Mat) (x k l : Nat) : Mat :=
  let B1 := mk B.m B.n (fun i j => B.get (swapN x k i) j)
  let B2 := mk B.m B.n (fun i j => B1.get i (swapN x l j))
  let B3 := mk B.m B.n (fun i j => if x < i && B2.get i x then (B2.get i j != B2.get x j) else B2.get i j)
  mk B.m B.n (fun i j => if x < j && B3.get x j then (B3.get i j != B3.get i x) else B3.get i j)

/-- mirror of `_reduceBoundaries` (labels omitted in this spike) -/
def reduce (B : Mat) (x : Nat) : Nat → Mat
  | 0 => B
  | fuel + 1 =>
    if x ≥ min B.m B.n then B else
    match findPivot B x with
    | none => B
    | some (k, l) => reduce (step B x k l) (x + 1) fuel

def snf (B : Mat) : Mat := reduce B 0 (min B.m B.n)

end M2

namespace M2
def rowSwap (B : Mat) (x k : Nat) : Mat := mk B.m B.n (fun i j => B.get (swapN x k i) j)

def colSwap (B : Mat) (x l : Nat) : Mat := mk B.m B.n (fun i j => B.get i (swapN x l j))

def rowPass (B : Mat) (x : Nat) : Mat :=
  mk B.m B.n (fun i j => if x < i && B.get i x then (B.get i j != B.get x j) else B.get i j)

def colPass (B : Mat) (x : Nat) : Mat :=
  mk B.m B.n (fun i j => if x < j && B.get x j then (B.get i j != B.get i x) else B.get i j)

/-- names selected by column `c` of `B` (rows are indexed by `names`), in listing order -/
def decodeCol {ν : Type} (names : List ν) (B : Mat) (c : Nat) : List ν :=
  (List.range names.length).filterMap (fun r => if B.get r c then names[r]? else none)

/-- `numpy.c_[B, col]` -/
def appendCol (B : Mat) (col : Nat → Bool) : Mat :=
  mk B.m (B.n + 1) (fun r c => if c < B.n then B.get r c else col r)

/-- `numpy.r_[B, zeros(1, n)]` -/
def appendZeroRow (B : Mat) : Mat :=
  mk (B.m + 1) B.n (fun r c => if r < B.m then B.get r c else false)

/-- `numpy.delete(B, i, axis=0)` -/
def deleteRow (B : Mat) (i : Nat) : Mat :=
  mk (B.m - 1) B.n (fun r c => B.get (if r < i then r else r + 1) c)

/-- `numpy.delete(B, i, axis=1)` -/
def deleteCol (B : Mat) (i : Nat) : Mat :=
  mk B.m (B.n - 1) (fun r c => B.get r (if c < i then c else c + 1))

def skip (i r : Nat) : Nat := if r < i then r else r + 1

/-- labels after the column swap -/
def swapLabels (cl : List (List Nat)) (x l : Nat) : List (List Nat) :=
  (List.range cl.length).map (fun j => cl.getD (swapN x l j) [])

/-- labels after the column pass: `cLabels[j] = cLabels[j] + cLabels[x]` where the pivot row has a 1 -/
def passLabels (B3 : Mat) (cl : List (List Nat)) (x : Nat) : List (List Nat) :=
  (List.range cl.length).map (fun j => if x < j && B3.get x j then cl.getD j [] ++ cl.getD x [] else cl.getD j [])

def stepL (B : Mat) (cl : List (List Nat)) (x k l : Nat) : Mat × List (List Nat) :=
  let B3 := rowPass (colSwap (rowSwap B x k) x l) x
  (colPass B3 x, passLabels B3 (swapLabels cl x l) x)

/-- mirror of `_reduceBoundaries(B, rLabels, cLabels, x)` (row labels are never used by callers) -/
def reduceL (B : Mat) (cl : List (List Nat)) (x : Nat) : Nat → Mat × List (List Nat)
  | 0 => (B, cl)
  | fuel + 1 =>
    if x ≥ min B.m B.n then (B, cl) else
    match findPivot B x with
    | none => (B, cl)
    | some (k, l) => reduceL (stepL B cl x k l).1 (stepL B cl x k l).2 (x + 1) fuel

/-- mirror of `[numpy.all(A[:, j] == 0) for j in range(ca)].count(True)` -/
def zeroCols (B : Mat) : Nat :=
  ((List.range B.n).filter (fun j => (List.range B.m).all (fun i => !B.get i j))).length

/-- mirror of `[numpy.all(B[i, :] == 0) for i in range(rb)].count(False)` -/
def nonzeroRows (B : Mat) : Nat :=
  ((List.range B.m).filter (fun i => (List.range B.n).any (fun j => B.get i j))).length

/-- Betti numbers as `bettiNumbers` computes them from a chain of boundary matrices
`d 0, d 1, …, d (K+1)` (with `d 0` the 1×n₀ zero row and `d (K+1)` the 0×0 matrix) -/
def betti (d : Nat → Mat) (k : Nat) : Int := (zeroCols (snf (d k)) : Int) - (nonzeroRows (snf (d (k + 1))) : Int)

end M2


