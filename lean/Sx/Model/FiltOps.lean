import Sx.Model.Ops

/-! Mirror of `Filtration` (filtration.py, after the `fix:` commits): a complex plus a birth index per
simplex, the set of existing indices (the keys of `_includes`) and the current index. Indices are `Int`
(numerators over a fixed denominator chosen by the harness, so 0.5, -1, 3 are exact). Core Lean only. -/
namespace Flat

structure FS where
  c      : C
  index  : Int
  births : List (Name × Int)      -- `_appears`
  keys   : List Int               -- keys of `_includes` (an index can exist with nothing born at it)
deriving Repr

def FS.birth? (f : FS) (n : Name) : Option Int := (f.births.find? (fun p => p.1 == n)).map (·.2)

/-- `Filtration.containsSimplex`: present and born at or before the current index -/
def FS.visible (f : FS) (n : Name) : Bool :=
  f.c.contains n && (match f.birth? n with | some b => decide (b ≤ f.index) | none => false)

def insertInt (x : Int) : List Int → List Int
  | [] => [x]
  | y :: ys => if x ≤ y then x :: y :: ys else y :: insertInt x ys

def sortInts (l : List Int) : List Int := l.foldr insertInt []

/-- `indices()` -/
def FS.indices (f : FS) : List Int := sortInts f.keys

def FS.ensureKey (f : FS) (i : Int) : FS := if f.keys.contains i then f else { f with keys := f.keys ++ [i] }

def newFS (ind : Int) : FS := { c := emptyC, index := ind, births := [], keys := [ind] }

/-- `setIndex(ind)` -/
def FS.setIndex (f : FS) (i : Int) : FS := ({ f with index := i }).ensureKey i

/-- record the births of every simplex of `c'` that is not yet registered, at the current index -/
def FS.register (f : FS) (c' : C) : FS :=
  let news := c'.names.filter (fun n => !f.c.contains n)
  if news.isEmpty then { f with c := c' }
  else ({ f with c := c', births := f.births ++ news.map (fun n => (n, f.index)) }).ensureKey f.index

/-- `Filtration.addSimplex(fs, id)`: a face that exists but is not visible at the current index is rejected -/
def FS.addByFaces (f : FS) (fs : List Name) (id : Option Name) : Except Err Name × FS :=
  if fs.any (fun x => f.c.contains x && !f.visible x) then (.error .key, f) else
  match addS f.c fs id with
  | (.ok n, c') => (.ok n, f.register c')
  | (.error e, _) => (.error e, f)

/-- the calls for which `addSimplexWithBasis` on a filtration behaves like the plain one followed by
registering the new simplices: every name mentioned, and every existing simplex inside the basis, is
visible (or absent). Outside this the driver answers `unmodelled` and the harness does not generate it. -/
def FS.basisCallModelled (f : FS) (bs : List Name) (id : Option Name) : Bool :=
  (bs ++ id.toList).all (fun n => !f.c.contains n || f.visible n) &&
  f.c.simps.all (fun s => !subsetB s.basis bs || f.visible s.name)

def FS.addByBasis (f : FS) (bs : List Name) (id : Option Name) : Except Err Name × FS :=
  match addSimplexWithBasisQ f.c bs id with
  | (.ok n, c') => (.ok n, f.register c')
  | (.error e, _) => (.error e, f)

/-- after a structural deletion: forget the births of the deleted simplices and drop every index that a
deletion emptied (`forceDeleteSimplex`) -/
def FS.afterDelete (f : FS) (c' : C) : FS :=
  let gone := f.births.filter (fun p => !c'.contains p.1)
  let births' := f.births.filter (fun p => c'.contains p.1)
  let emptied := fun (k : Int) => gone.any (fun p => p.2 == k) && !births'.any (fun p => p.2 == k)
  { f with c := c', births := births', keys := f.keys.filter (fun k => !emptied k) }

/-- `deleteSimplex(s)` on a filtration: the whole star across all indices -/
def FS.delete (f : FS) (s : Name) : Option FS :=
  match deleteSimplex f.c s with
  | none => none
  | some c' => some (f.afterDelete c')

/-- the complex seen at the current index -/
def FS.visibleC (f : FS) : C := { f.c with simps := f.c.simps.filter (fun s => f.visible s.name) }

/-- `snap()`: a plain complex built from the simplices visible now -/
def FS.snap (f : FS) : R (List Name) := copyNew f.visibleC

def FS.simplices (f : FS) : List Name := f.c.names.filter f.visible

/-- `numberOfSimplices()` -/
def FS.count (f : FS) : Nat := (f.births.filter (fun p => decide (p.2 ≤ f.index))).length

/-- `numberOfSimplicesOfOrder()` after the repair -/
def FS.counts (f : FS) : List Nat :=
  dropZeros ((List.range (f.c.maxOrder + 1).toNat).map (fun k =>
    ((f.c.ofOrder k).filter (fun s => f.visible s.name)).length))

def FS.euler (f : FS) : Int := eulerOfCounts f.counts

/-- position of the current index in `indices()`; `none` = `list.index` raises ValueError -/
def idxOf (l : List Int) (x : Int) : Option Nat :=
  let i := l.findIdx (· == x)
  if i < l.length then some i else none

def FS.next (f : FS) : Except Err Int × FS :=
  let inds := f.indices
  match idxOf inds f.index with
  | none => (.error .value, f)
  | some i => if i + 1 = inds.length then (.ok f.index, f)
              else let j := inds.getD (i + 1) f.index; (.ok j, { f with index := j })

def FS.prev (f : FS) : Except Err Int × FS :=
  let inds := f.indices
  match idxOf inds f.index with
  | none => (.error .value, f)
  | some i => if i = 0 then (.ok f.index, f)
              else let j := inds.getD (i - 1) f.index; (.ok j, { f with index := j })

def FS.toMin (f : FS) : Except Err Unit × FS :=
  match f.indices with
  | [] => (.error .key, f)
  | i :: _ => (.ok (), f.setIndex i)

def FS.toMax (f : FS) : Except Err Unit × FS :=
  match f.indices.getLast? with
  | none => (.error .key, f)
  | some i => (.ok (), f.setIndex i)

/-- `simplicesAddedAtIndex(ind)`; `none` = ValueError for a value that is not an index -/
def FS.addedAt (f : FS) (i : Int) : Option (List (Nat × Name)) :=
  if f.keys.contains i then
    some ((f.c.simps.filter (fun s => f.birth? s.name == some i)).map (fun s => (s.order, s.name)))
  else none

/-- `complexes()`: for every index in ascending order set it, snapshot, set the old index back -/
def FS.iterate (f : FS) : List C × FS :=
  f.indices.foldl (fun (acc : List C × FS) ind =>
    let old := acc.2.index
    let g := acc.2.setIndex ind
    let snap := g.snap.2
    (acc.1 ++ [snap], g.setIndex old)) ([], f)

/-- `Filtration.copy()`: replay the simplices index by index (ascending), within an index in the order
`order` (what `simplicesAddedAtIndex` returned: by simplex order, Python set order within one order);
the copy's current index is the smallest index -/
def FS.copyF (f : FS) (order : List Name) : Except Err FS :=
  match f.indices with
  | [] => .ok (newFS f.index)      -- no index left (everything was deleted): an empty copy at the current index
  | i0 :: _ =>
    let g0 := newFS i0
    let r := f.indices.foldl (fun (acc : Except Err FS) ind =>
      match acc with
      | .error e => .error e
      | .ok g =>
        let g := g.setIndex ind
        (order.filter (fun n => f.birth? n == some ind)).foldl (fun (acc : Except Err FS) n =>
          match acc with
          | .error e => .error e
          | .ok g =>
            match (g.addByFaces (f.c.facesOf n) (some n)) with
            | (.ok _, g') => .ok g'
            | (.error e, _) => .error e) (.ok g)) (.ok g0)
    match r with
    | .error e => .error e
    | .ok g => .ok (g.setIndex i0)

/-- the filtration invariant of C13, decidable form: births cover exactly the names, every birth index is a
key, faces are born no later than their cofaces -/
def FS.checkFInv (f : FS) : Bool :=
  f.c.names.all (fun n => (f.birth? n).isSome) &&
  f.births.all (fun p => f.c.contains p.1 && f.keys.contains p.2) &&
  nodupB (f.births.map (·.1)) &&
  f.c.simps.all (fun s => s.faces.all (fun x =>
    match f.birth? x, f.birth? s.name with
    | some a, some b => decide (a ≤ b)
    | _, _ => false))

end Flat
