import Sx.Model.Basis
namespace Flat
/-- the loop of `compose(c)`: `d` is the (copy of the) receiver being extended, checks are made against `a` -/
def composeLoop (a : C) : C → List (Simp Name) → Except Err C
  | d, [] => .ok d
  | d, s :: rest =>
    let q := simplexWithBasis a s.basis
    if a.contains s.name then
      match q with
      | none => .error .value
      | some n => if n = s.name then composeLoop a d rest else .error .value
    else
      match q with
      | some _ => .error .value
      | none =>
        match d.addSimplex s.faces s.name with
        | .ok d' => composeLoop a d' rest
        | .error e => .error e

def compose (a b : C) : Except Err C := composeLoop a a b.simps

end Flat
