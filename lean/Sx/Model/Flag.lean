import Sx.Model.Basis
/-! spike (C11): executable mirror of `_isClosed`, `simplexWithFaces`, `_completePotentialSimplices`,
`flagComplex` (after repairs D10/D11/D27) and `growFlagComplex` on the flat model. Core Lean only. -/
namespace Flat

/-- `_isClosed`: the mod-2 sum of the candidates' boundary columns is zero, i.e. every face name occurs an
even number of times among the candidates' faces -/
def isClosed (cand : List (Simp Name)) : Bool :=
  let allf := cand.flatMap (·.faces)
  allf.all (fun f => allf.count f % 2 == 0)

/-- `simplexWithFaces` for well-formed arguments (all faces of one order): `matches.pop()` -/
def simplexWithFaces (c : C) (fs : List Name) : Option Name :=
  (((c.ofOrder (fs.length - 1)).filter (fun s => setEqB s.faces fs)).getLast?).map (·.name)

/-- all sublists of length `n` in `itertools.combinations` order -/
def combosL {β : Type} : Nat → List β → List (List β)
  | 0, _ => [[]]
  | _ + 1, [] => []
  | n + 1, x :: xs => (combosL n xs).map (x :: ·) ++ combosL (n + 1) xs

/-- one pass of the inner `for fs in combinations(range(ks), k + 1)` loop; `newPrev` = names of the
new order-(k-1) simplices, `newK` accumulates the names added at order k -/
def passLoop (newPrev : List Name) : C → List Name → List (List (Simp Name)) → Except Err (List Name) × C
  | c, newK, [] => (.ok newK, c)
  | c, newK, cand :: rest =>
    if cand.any (fun s => newPrev.contains s.name) && isClosed cand then
      let cfs := cand.map (·.name)
      match simplexWithFaces c cfs with
      | some _ => passLoop newPrev c newK rest
      | none =>
        match addS c cfs none with
        | (.ok n, c') => passLoop newPrev c' (newK ++ [n]) rest
        | (.error e, c') => (.error e, c')
    else passLoop newPrev c newK rest

def nssGet (nss : List (Nat × List Name)) (k : Nat) : Option (List Name) := (nss.find? (·.1 == k)).map (·.2)
def nssSet (nss : List (Nat × List Name)) (k : Nat) (v : List Name) : List (Nat × List Name) :=
  (k, v) :: nss.filter (·.1 != k)

/-- the `while k <= maxk + 1` loop; `k` is the value *before* the increment at the top of the body -/
def completeLoop : Nat → C → List (Nat × List Name) → Nat → Nat → Except Err Unit × C
  | 0, c, _, _, _ => (.ok (), c)
  | fuel + 1, c, nss, k, maxk =>
    if k ≤ maxk + 1 then
      let k := k + 1
      match nssGet nss (k - 1) with
      | none => completeLoop fuel c nss k maxk
      | some [] => completeLoop fuel c nss k maxk
      | some newPrev =>
        let newK0 := (nssGet nss k).getD []
        match passLoop newPrev c [] (combosL (k + 1) (c.ofOrder (k - 1))) with
        | (.error e, c') => (.error e, c')
        | (.ok added, c') =>
          completeLoop fuel c' (nssSet nss k (newK0 ++ added)) k (if added.isEmpty then maxk else max maxk k)
    else (.ok (), c)

def complete (c : C) (nss : List (Nat × List Name)) : Except Err Unit × C :=
  match nss with
  | [] => (.ok (), c)
  | _ => completeLoop (c.simps.length + 3) c nss 1 (nss.foldl (fun m p => max m p.1) 0)

/-- `flagComplex` on (a copy of) `c`: seed every order ≥ 1 -/
def flagComplex (c : C) : Except Err Unit × C :=
  let top := (c.simps.map (·.order)).foldl max 1
  complete c ((List.range top).map (fun j => (j + 1, (c.ofOrder (j + 1)).map (·.name))))

/-- `growFlagComplex(newSimplices)` -/
def growFlag (c : C) (news : List Name) : Except Err Unit × C :=
  let ks := (news.filterMap c.orderOf?).eraseDups
  complete c (ks.map (fun k => (k, news.filter (fun n => c.orderOf? n == some k))))

end Flat


