namespace Emb
structure State (ν π : Type) where
  dim    : Nat
  pos    : List (ν × π)          -- `_position`: explicit positions and cached computed ones
  calls  : List ν                -- log of computePositionOf calls
deriving Repr

variable {ν π : Type} [DecidableEq ν]

def lookup (l : List (ν × π)) (s : ν) : Option π := (l.find? (fun p => p.1 == s)).map (·.2)

def insert (l : List (ν × π)) (s : ν) (p : π) : List (ν × π) := (s, p) :: l.filter (fun q => q.1 != s)

inductive Err | value | key
deriving DecidableEq, Repr

/-- `positionSimplex(s, pos)` / `e[s] = pos` -/
def positionSimplex (st : State ν π) (len : π → Nat) (s : ν) (p : π) : Except Err (State ν π) :=
  if len p ≠ st.dim then .error .value else .ok { st with pos := insert st.pos s p }

/-- `positionOf(s)` / `e[s]`; `orderOf s = none` = unknown simplex (KeyError) -/
def positionOf (st : State ν π) (orderOf : ν → Option Nat) (compute : ν → π) (s : ν) :
    Except Err π × State ν π :=
  match orderOf s with
  | none => (.error .key, st)
  | some k =>
    if k > 0 then (.error .value, st) else
    match lookup st.pos s with
    | some p => (.ok p, st)
    | none => let p := compute s; (.ok p, { st with pos := insert st.pos s p, calls := st.calls ++ [s] })

def clearPositions (st : State ν π) : State ν π := { st with pos := [] }

end Emb
