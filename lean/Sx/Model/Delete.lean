import Sx.Model.Query
namespace Flat
variable {α : Type} [DecidableEq α]
/-- mirror of `forceDeleteSimplex`: drop the simplex, and its row from every matrix it indexes
(= its name from every other simplex's faces and basis) -/
def Cx.forceDelete (c : Cx α) (n : α) : Cx α :=
  { c with simps := ((c.simps.filter (fun t => t.name != n)).map
      (fun t => { t with faces := t.faces.filter (· != n), basis := t.basis.filter (· != n) })) }

/-- plain removal of one name -/
def Cx.remove (c : Cx α) (n : α) : Cx α := { c with simps := c.simps.filter (fun t => t.name != n) }

/-- `sorted(psos, key=order, reverse=True)`, the names, then `s` itself last.
Within one order the model uses first-occurrence order; the theorem does not depend on it. -/
def partOfRev (c : C) (fuel : Nat) (s : Name) (k : Nat) : List Name :=
  let ps := dedupL (partOfAux c fuel s k)
  let top := (ps.map (·.1)).foldl max k
  ((List.range (top + 1)).reverse.flatMap (fun j => (ps.filter (fun p => p.1 == j)).map (·.2))) ++ [s]

/-- `deleteSimplex`; `none` = KeyError for an unknown simplex -/
def deleteSimplex (c : C) (s : Name) : Option C :=
  match c.orderOf? s with
  | none => none
  | some k => some ((partOfRev c c.simps.length s k).foldl Cx.forceDelete c)

/-- the `while True` loop of `restrictBasisTo`: `retain`/`source` grow by cofaces until nothing new appears -/
def restrictRetain (c : C) : Nat → List Name → List Name → List Name
  | 0, retain, _ => retain
  | fuel + 1, retain, source =>
    let target := dedupL (source.flatMap c.cofaces)
    if target.all (fun n => retain.contains n) then retain
    else restrictRetain c fuel (retain ++ target) target

/-- `for s in list(self.simplices()): if self.containsSimplex(s) and s not in retain: self.deleteSimplex(s)` -/
def restrictLoop (retain : List Name) : C → List Name → C
  | c, [] => c
  | c, n :: ns =>
    if c.contains n && !retain.contains n then restrictLoop retain ((deleteSimplex c n).getD c) ns
    else restrictLoop retain c ns

/-- `restrictBasisTo(bs)`; `none` = KeyError/ValueError from `isBasis(bs, fatal=True)` -/
def restrictBasisTo (c : C) (bs : List Name) : Option C :=
  if !(bs.all (fun b => c.orderOf? b == some 0)) then none
  else some (restrictLoop (restrictRetain c (c.simps.length + 1) bs bs) c (c.simps.map (·.name)))

end Flat
