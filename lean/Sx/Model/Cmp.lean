import Sx.Model.Flat
namespace Flat
variable {α : Type} [DecidableEq α]
/-- `isSubComplexOf`: every simplex of `a` is in `b` with the same order and its faces among `b`'s -/
def isSub (a b : Cx α) : Bool :=
  a.simps.all (fun s => match b.lookup s.name with
    | none => false
    | some t => t.order == s.order && subsetB s.faces t.faces)

def le (a b : Cx α) : Bool := isSub a b

def lt (a b : Cx α) : Bool := isSub a b && decide (a.simps.length < b.simps.length)

def eq (a b : Cx α) : Bool := isSub a b && decide (a.simps.length = b.simps.length)

def ge (a b : Cx α) : Bool := le b a

def gt (a b : Cx α) : Bool := lt b a

def ne (a b : Cx α) : Bool := !eq a b

end Flat
