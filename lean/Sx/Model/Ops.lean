import Sx.Model.Flat
import Sx.Model.Basis
import Sx.Model.Query
import Sx.Model.Delete
import Sx.Model.Subdiv
import Sx.Model.Relabel
import Sx.Model.Cmp
import Sx.Model.Flag
import Sx.Model.Compose
import Sx.Model.Filt
import Sx.Model.Mat
import Sx.Model.Disjoint

/-! The remaining public operations of `SimplicialComplex` (base.py) over the flat Layer-A state, one
Lean function per Python method, same control flow (after the `fix:` commits). Core Lean only. -/
namespace Flat

def Cx.names (c : C) : List Name := c.simps.map (·.name)

/-- a renaming given as a Python dict (possibly partial): unmentioned names stay -/
def renameOf (ρ : List (Name × Name)) (n : Name) : Name :=
  match ρ.find? (fun p => p.1 == n) with
  | some p => p.2
  | none => n

/-! ### addSimplicesFrom / copy -/

/-- `for s in c.simplices(): t = f(s); if s != t and t in self: raise ValueError; self.addSimplex(id=t, fs=map(f, c.faces(s)))`.
Not atomic: stops at the first exception and keeps what has been added. -/
def addFromLoop (ρ : Name → Name) : C → List Name → List (Simp Name) → R (List Name)
  | d, acc, [] => (.ok acc, d)
  | d, acc, s :: rest =>
    let t := ρ s.name
    if s.name != t && d.contains t then (.error .value, d) else
    match d.addSimplex (s.faces.map ρ) t with
    | .ok d' => addFromLoop ρ d' (acc ++ [t]) rest
    | .error e => (.error e, d)

def addFrom (d src : C) (ρ : Name → Name) : R (List Name) := addFromLoop ρ d [] src.simps

def emptyC : C := { simps := [], seq := 0 }

/-- `copy()` into a new complex: `SimplicialComplex(); c.addSimplicesFrom(self)` -/
def copyNew (a : C) : R (List Name) := addFrom emptyC a id

/-- `copy(c)` into an existing complex: ValueError when a name is shared -/
def copyInto (a d : C) : R (List Name) :=
  if a.names.any d.contains then (.error .value, d) else addFrom d a id

/-! ### relabel -/

/-- `relabel(rename)` after the repair: compute the mapping, reject (ValueError) when a new name is in
use or two simplices get the same name, then rename one by one. Returns the mapping of changed names. -/
def relabel (c : C) (ρ : Name → Name) : R (List (Name × Name)) :=
  let mapping := c.names.filterMap (fun s => if ρ s = s then none else some (s, ρ s))
  let targets := mapping.map (·.2)
  if targets.any c.contains then (.error .value, c) else
  if ¬ targets.Nodup then (.error .value, c) else
  (.ok mapping, mapping.foldl (fun c p => (c.relabelSimplex p.1 p.2).getD c) c)

/-- the `while True` loop of `_createDisjointRenaming`: first `u ≥ 1` with `'{s}->{k}d{u}'` unused in both
complexes and not yet chosen -/
def freshArrow (self other : C) (used : List Name) (s : Name) (k : Nat) : Nat → Nat → Name
  | 0, j => .arrow s k j
  | fuel + 1, j =>
    let q := Name.arrow s k j
    if self.contains q || other.contains q || used.contains q then freshArrow self other used s k fuel (j + 1)
    else q

/-- `_createDisjointRenaming(c)` -/
def disjointRenaming (self other : C) : List (Name × Name) :=
  other.simps.foldl (fun ren s =>
    if self.contains s.name then
      ren ++ [(s.name, freshArrow self other (ren.map (·.2)) s.name s.order
                (self.simps.length + other.simps.length + ren.length + 1) 1)]
    else ren) []

def relabelDisjointFrom (self other : C) : R (List (Name × Name)) :=
  relabel self (renameOf (disjointRenaming self other))

/-! ### deletion wrappers -/

def deleteSimplexWithBasis (c : C) (bs : List Name) : Option C :=
  match simplexWithBasis c bs with
  | none => none
  | some s => deleteSimplex c s

/-- `for s in ss: if s in self: self.deleteSimplex(s)` -/
def deleteSimplices (c : C) : List Name → C
  | [] => c
  | s :: ss => if c.contains s then deleteSimplices ((deleteSimplex c s).getD c) ss else deleteSimplices c ss

/-! ### star as returned by `partOf` -/

/-- `(order, name)` pairs of `partOf(s)` excluding `s` itself, without repeats -/
def partOfPairs (c : C) (s : Name) : Option (List (Nat × Name)) :=
  match c.orderOf? s with
  | none => none
  | some k => some (dedupL (partOfAux c c.simps.length s k))

/-! ### chains, boundary operators, homology -/

/-- symmetric difference `bs ^= fs` -/
def symmDiff (a b : List Name) : List Name :=
  a.filter (fun x => !b.contains x) ++ b.filter (fun x => !a.contains x)

/-- `boundary(ss)`; `none` = KeyError/ValueError from `isChain(ss, fatal=True)` -/
def boundaryChain (c : C) (ss : List Name) : Option (List Name) :=
  match ss with
  | [] => some []
  | s0 :: _ =>
    match c.orderOf? s0 with
    | none => none
    | some p =>
      if ss.all (fun s => c.orderOf? s == some p) then
        some (ss.foldl (fun bs s => symmDiff bs (dedupL (c.facesOf s))) [])
      else none

/-- the order-`k` boundary operator as a matrix: rows = order-(k-1) simplices, columns = order-k simplices,
in listing order; a single zero row for `k = 0`; 0×0 above the maximum order -/
def bopMat (c : C) (k : Nat) : M2.Mat :=
  if k = 0 then M2.mk 1 (c.ofOrder 0).length (fun _ _ => false)
  else if (k : Int) > c.maxOrder then M2.mk 0 0 (fun _ _ => false)
  else
    let rows := (c.ofOrder (k - 1)).map (·.name)
    let cols := c.ofOrder k
    M2.mk rows.length cols.length (fun i j =>
      match rows[i]?, cols[j]? with
      | some r, some s => s.faces.contains r
      | _, _ => false)

/-- `smithNormalForm(k)` -/
def snfK (c : C) (k : Nat) : M2.Mat := M2.snf (bopMat c k)

/-- `Z([k])`: the labels of the rightmost `kernelDim` columns after the labelled reduction, as names -/
def Zk (c : C) (k : Nat) : List (List Name) :=
  let B := bopMat c k
  let cols := (c.ofOrder k).map (·.name)
  let n := cols.length
  let r := M2.reduceL B ((List.range n).map (fun j => [j])) 0 (min B.m B.n)
  let kd := M2.zeroCols r.1
  (r.2.drop (r.2.length - kd)).map (fun chain => chain.filterMap (fun j => cols[j]?))

/-- `bettiNumbers([k])` -/
def bettiK (c : C) (k : Nat) : Int := M2.betti (fun j => snfK c j) k

def countsOf (c : C) : List Nat :=
  (List.range (c.maxOrder + 1).toNat).map (fun k => (c.ofOrder k).length)

/-- `eulerCharacteristic()` from a list of per-order counts -/
def eulerOfCounts (counts : List Nat) : Int :=
  (counts.foldl (fun (acc : Int × Int) (n : Nat) => (acc.1 + acc.2 * (n : Int), -acc.2)) (0, 1)).1

def euler (c : C) : Int := eulerOfCounts (countsOf c)

/-- `disjoint(ss)`; `none` = KeyError for an unknown simplex -/
def disjointQ (c : C) (ss : List Name) : Option Bool :=
  if ss.all c.contains then
    some (Disj.disjointL (ss.map (fun s => (closureOf c s false false).getD [])))
  else none

/-! ### compose -/

/-- `compose(c)` into a new complex: the receiver is copied first (fresh representation, counter 0) -/
def composeNew (a b : C) : Except Err C :=
  match copyNew a with
  | (.error e, _) => .error e
  | (.ok _, d0) => composeLoop a d0 b.simps

/-- `compose(c, d)` into an existing target: `self.copy(d)` first. The loop is not atomic on the target: what
was added (and which shared simplices had their attributes merged) before an exception stays. Returns the
names whose attributes were merged. -/
def composeIntoLoop (a : C) : C → List Name → List (Simp Name) → Except Err Unit × C × List Name
  | d, merged, [] => (.ok (), d, merged)
  | d, merged, s :: rest =>
    let q := simplexWithBasis a s.basis
    if a.contains s.name then
      match q with
      | none => (.error .value, d, merged)
      | some n => if n = s.name then composeIntoLoop a d (merged ++ [s.name]) rest else (.error .value, d, merged)
    else
      match q with
      | some _ => (.error .value, d, merged)
      | none =>
        match d.addSimplex s.faces s.name with
        | .ok d' => composeIntoLoop a d' merged rest
        | .error e => (.error e, d, merged)

def composeInto (a b d : C) : Except Err Unit × C × List Name :=
  match copyInto a d with
  | (.error e, d') => (.error e, d', [])
  | (.ok _, d0) => composeIntoLoop a d0 [] b.simps

/-! ### flag complex wrappers -/

/-- `flagComplex()`: work on a copy -/
def flagOf (a : C) : Except Err C :=
  match copyNew a with
  | (.error e, _) => .error e
  | (.ok _, d0) =>
    match flagComplex d0 with
    | (.ok _, d) => .ok d
    | (.error e, _) => .error e

/-- `growFlagComplex(ss)`: `orderOf` raises KeyError for an unknown simplex before anything changes -/
def growFlagQ (c : C) (news : List Name) : Except Err Unit × C :=
  if news.all c.contains then growFlag c news else (.error .key, c)

/-- `Embedding.vietorisRipsComplex(eps)` given which pairs `(i, j)`, `i < j`, of the point list are within
`eps` (the float comparison is made by the real code and passed in) -/
def vietorisRips (pts : List Name) (close : List (Nat × Nat)) : Except Err C :=
  let c0 := pts.foldl (fun (acc : Except Err C) p =>
    match acc with
    | .error e => .error e
    | .ok c => c.addSimplex [] p) (.ok emptyC)
  match c0 with
  | .error e => .error e
  | .ok c0 =>
    let n := pts.length
    let pairs := (List.range (n - 1)).flatMap (fun i => ((List.range n).filter (fun j => i < j)).map (fun j => (i, j)))
    let c1 := pairs.foldl (fun (acc : Except Err C) ij =>
      match acc with
      | .error e => .error e
      | .ok c =>
        if close.contains ij then
          match pts[ij.1]?, pts[ij.2]? with
          | some p, some q =>
            match addSimplexWithBasis' c [p, q] none with
            | (.ok _, c') => .ok c'
            | (.error e, _) => .error e
          | _, _ => .ok c
        else .ok c) (.ok c0)
    match c1 with
    | .error e => .error e
    | .ok c1 => flagOf c1

/-! ### public `addSimplexWithBasis` including the one-point case -/

/-- `addSimplexWithBasis(bs, id)` for every length of `bs` (the one-element case is `addSimplex(id=id)`) -/
def addSimplexWithBasisQ (c : C) (bs : List Name) (id : Option Name) : R Name :=
  if idUsed c id then (.error .key, c) else
  if bs.any (fun b => c.contains b && c.orderOf? b != some 0) then (.error .value, c) else
  match bs with
  | [] =>
    -- k = -1: simplexWithBasis([]) is None; ensureBasis does nothing; a name of "dimension -1" would be
    -- generated and the recursion fails: not generated by the harness
    (.error .value, c)
  | [b] =>
    if c.contains b then (.error .key, c)       -- simplexWithBasis([b]) = b: already exists
    else addS c [] id
  | _ => addSimplexWithBasis' c bs id

/-! ### generators (generators.py) -/

/-- `k_skeleton(k, c)` -/
def kSkeleton (k : Nat) (c : C) : Except Err C :=
  let step (acc : Except Err (List Name × C)) (_ : Nat) : Except Err (List Name × C) :=
    match acc with
    | .error e => .error e
    | .ok (ss, c) =>
      match addS c [] none with
      | (.ok n, c') => .ok (ss ++ [n], c')
      | (.error e, _) => .error e
  match (List.range (k + 1)).foldl step (.ok ([], c)) with
  | .error e => .error e
  | .ok (ss, c1) =>
    (combosL 2 ss).foldl (fun (acc : Except Err C) p =>
      match acc with
      | .error e => .error e
      | .ok c =>
        match addS c p none with
        | (.ok _, c') => .ok c'
        | (.error e, _) => .error e) (.ok c1)

/-- the basis points of `k_simplex`: generated point names that avoid the requested `id` -/
def genPoints (id : Option Name) : Nat → C → Except Err (List Name × C)
  | 0, c => .ok ([], c)
  | n + 1, c =>
    let r := match id with
      | some i => newSimplexAvoid c 0 i
      | none => newSimplex c 0
    match r.2.addSimplex [] r.1 with
    | .error e => .error e
    | .ok c' =>
      match genPoints id n { c' with seq := r.2.seq } with
      | .error e => .error e
      | .ok (ps, c'') => .ok (r.1 :: ps, c'')

/-- `k_simplex(k, id, attr, c)`; returns the complex and the name of the top simplex -/
def kSimplex (k : Nat) (id : Option Name) (c : C) : Except Err (Name × C) :=
  if k = 0 then
    match addS c [] id with
    | (.ok n, c') => .ok (n, c')
    | (.error e, _) => .error e
  else
    match genPoints id (k + 1) c with
    | .error e => .error e
    | .ok (bs, c1) =>
      match addSimplexWithBasisQ c1 bs id with
      | (.ok n, c2) => .ok (n, c2)
      | (.error e, _) => .error e

/-- `k_void(k, c)`: create a (k+1)-simplex and delete the simplex just created -/
def kVoid (k : Nat) (c : C) : Except Err C :=
  let before := (c.ofOrder (k + 1)).map (·.name)
  match kSimplex (k + 1) none c with
  | .error e => .error e
  | .ok (_, d) =>
    match ((d.ofOrder (k + 1)).map (·.name)).find? (fun s => !before.contains s) with
    | none => .ok d
    | some s => .ok ((deleteSimplex d s).getD d)

/-- `ring(n, c)`; ValueError for `n ≤ 2` -/
def ring (n : Nat) (c : C) : Except Err C :=
  if n ≤ 2 then .error .value else
  let step (acc : Except Err (List Name × C)) (_ : Nat) : Except Err (List Name × C) :=
    match acc with
    | .error e => .error e
    | .ok (ss, c) =>
      match addS c [] none with
      | (.ok n, c') => .ok (ss ++ [n], c')
      | (.error e, _) => .error e
  match (List.range n).foldl step (.ok ([], c)) with
  | .error e => .error e
  | .ok (ss, c1) =>
    let edges := (List.range (n - 1)).map (fun i => (i, i + 1)) ++ [(n - 1, 0)]
    edges.foldl (fun (acc : Except Err C) ij =>
      match acc with
      | .error e => .error e
      | .ok c =>
        match ss[ij.1]?, ss[ij.2]? with
        | some p, some q =>
          match addS c [p, q] none with
          | (.ok _, c') => .ok c'
          | (.error e, _) => .error e
        | _, _ => .error .key) (.ok c1)

/-- `TriangularLattice(r, c)`: points `i*cols+j`, vertical-ish edges, diagonals, triangles, in the
constructor's order; every `addSimplexWithBasis` call has no id -/
def latticeCalls (r cl : Nat) : List (List Nat) :=
  let v (i j : Nat) : Nat := i * cl + j
  let rows2 := List.range (r - 2)
  let rows1 := List.range (r - 1)
  let cols := List.range cl
  let e1 := rows2.flatMap (fun i => cols.map (fun j => [v i j, v (i + 2) j]))
  let e2 := rows1.flatMap (fun i => cols.flatMap (fun j =>
    (if !(j == 0 && i % 2 == 0) then [[v i j, v (i + 1) (if i % 2 == 0 then j - 1 else j)]] else []) ++
    (if !(j == cl - 1 && i % 2 == 1) then [[v i j, v (i + 1) (if i % 2 == 0 then j else j + 1)]] else [])))
  let t := rows2.flatMap (fun i => cols.flatMap (fun j =>
    (if !(j == 0 && i % 2 == 0) then [[v i j, v (i + 1) (if i % 2 == 0 then j - 1 else j), v (i + 2) j]] else []) ++
    (if !(j == cl - 1 && i % 2 == 1) then [[v i j, v (i + 2) j, v (i + 1) (if i % 2 == 0 then j else j + 1)]] else [])))
  e1 ++ e2 ++ t

def lattice (r cl : Nat) : Except Err C :=
  let pts := (List.range (r * cl)).map Name.u
  let c0 := pts.foldl (fun (acc : Except Err C) p =>
    match acc with
    | .error e => .error e
    | .ok c => c.addSimplex [] p) (.ok emptyC)
  (latticeCalls r cl).foldl (fun (acc : Except Err C) bs =>
    match acc with
    | .error e => .error e
    | .ok c =>
      match addSimplexWithBasisQ c (bs.map Name.u) none with
      | (.ok _, c') => .ok c'
      | (.error e, _) => .error e) c0

/-! ### Euler integration (eulerintegrator.py) -/

/-- `levelSet(c, l)`: restrict to the points whose metric exceeds `l` -/
def levelSet (c : C) (metric : Name → Int) (l : Int) : C :=
  let bs := (c.ofOrder 0).filter (fun s => metric s.name > l) |>.map (·.name)
  (restrictBasisTo c bs).getD c

/-- `integrate(c)`: `for l in range(maxHeight): levelSet = restrict(levelSet, metric > l); a += χ(levelSet)` -/
def integrate (c : C) (metric : Name → Int) : Int :=
  let maxH := (c.names.map metric).foldl max 0
  ((List.range maxH.toNat).foldl (fun (acc : Int × C) (l : Nat) =>
    let ls := levelSet acc.2 metric (l : Int)
    (acc.1 + euler ls, ls)) (0, c)).1

/-! ### the decidable form of the well-formedness invariant (C01), evaluated by `judge` on states observed
from the implementation -/

def sortedByOrder : List (Simp Name) → Bool
  | [] => true
  | [_] => true
  | a :: b :: rest => decide (a.order ≤ b.order) && sortedByOrder (b :: rest)

def nodupB (l : List Name) : Bool :=
  match l with
  | [] => true
  | x :: xs => !xs.contains x && nodupB xs

/-- Bool version of `Inv` (names distinct; sorted by order; points: no faces, basis = itself; order k > 0:
k+1 distinct faces, all present at order k-1, basis has k+1 distinct points and is the union of the faces'
bases; no two simplices of one order share a basis) -/
def checkInv (c : C) : Bool :=
  nodupB c.names && sortedByOrder c.simps &&
  c.simps.all (fun s =>
    if s.order = 0 then s.faces.isEmpty && s.basis == [s.name]
    else
      s.faces.length == s.order + 1 && nodupB s.faces &&
      s.faces.all (fun f => c.orderOf? f == some (s.order - 1)) &&
      s.basis.length == s.order + 1 && nodupB s.basis &&
      s.basis.all (fun p => c.orderOf? p == some 0) &&
      setEqB s.basis (dedupL (s.faces.flatMap c.basisOf))) &&
  c.simps.all (fun s => c.simps.all (fun t =>
    s.name == t.name || s.order != t.order || !setEqB s.basis t.basis))

end Flat
