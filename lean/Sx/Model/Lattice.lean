/-! `TriangularLatticeEmbedding.computePositionOf` (triangularlattice.py) with exact fractions over core types.

The Python code places lattice point number `n` (row `i = n / cols`, column `j = n % cols`) of a lattice with
`rows × cols` points, embedded in a `h × w` box, at

  `x = (w / (2*cols)) * (2j  or  2j+1 for odd rows)`,   `y = h - (h / rows) * i`.

`latticeXY` computes the two coordinates as unreduced fractions `num/den`; `Frac.reduce` brings a fraction to lowest
terms and `Frac.str` prints it, so that `[x.reduce.str, y.reduce.str]` is literally the text that the driver's
`Drv.latticePos` emits (proved in `Sx/Props/LatticeEmb.lean`). Core Lean only; no imports. -/
namespace Lat

/-- a fraction `num/den`; `den = 0` is allowed as a value (its rational reading is then `0`) -/
structure Frac where
  num : Int
  den : Nat
deriving Repr, DecidableEq

/-- lowest terms: divide numerator and denominator by their gcd (`0/0` becomes `0/1`) -/
def Frac.reduce (f : Frac) : Frac :=
  let g := Nat.gcd f.num.natAbs f.den
  if g == 0 then ⟨0, 1⟩ else ⟨f.num / (g : Int), f.den / g⟩

/-- `num/den` as text -/
def Frac.str (f : Frac) : String := s!"{f.num}/{f.den}"

/-- position `(x, y)` of lattice point number `n`, as unreduced fractions:
`x = (w * (2j or 2j+1)) / (2*cols)`, `y = (h*rows - h*i) / rows` with `i = n / cols`, `j = n % cols` -/
def latticeXY (rows cols h w n : Nat) : Frac × Frac :=
  let i := n / cols
  let j := n % cols
  (⟨((w * (if i % 2 == 0 then 2 * j else 2 * j + 1) : Nat) : Int), 2 * cols⟩,
   ⟨((h * rows : Nat) : Int) - ((h * i : Nat) : Int), rows⟩)

end Lat
