namespace Disj
variable {α : Type} [DecidableEq α]
def disjAcc (acc : List α) : List (List α) → Bool
  | [] => true
  | x :: xs => if x.all (fun z => !acc.contains z) then disjAcc (acc ++ x) xs else false

/-- `disjoint` applied to the list of closures -/
def disjointL : List (List α) → Bool
  | [] => true
  | x :: xs => disjAcc x xs

end Disj
