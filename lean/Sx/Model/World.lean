import Sx.Model.FiltOps
import Sx.Model.Emb
import Sx.Model.MatRep

/-! The heap layer: Python complex objects (handles), their representation identity and the attribute
dict objects of their simplices as cells with identities, so that aliasing and independence (C08, C09) are
expressible. Every public operation of the library is lifted to `World → … → Except Err ρ × World`
("an exception does not roll the state back"). Core Lean only. -/
namespace W
open Flat

/-- an attribute dict: key ↦ value, in insertion order (keys and values are integers standing for the JSON
keys/values chosen by the harness) -/
abbrev Dict := List (Int × Int)

def Dict.set (d : Dict) (k v : Int) : Dict :=
  if d.any (fun p => p.1 == k) then d.map (fun p => if p.1 == k then (k, v) else p) else d ++ [(k, v)]

def Dict.get? (d : Dict) (k : Int) : Option Int := (d.find? (fun p => p.1 == k)).map (·.2)

/-- `for k, v in other.items(): d[k] = v` -/
def Dict.update (d other : Dict) : Dict := other.foldl (fun acc p => Dict.set acc p.1 p.2) d

/-- the filtration fields of a `Filtration` object -/
structure FExt where
  index  : Int
  births : List (Name × Int)
  keys   : List Int
deriving Repr

/-- a Python `SimplicialComplex` / `Filtration` object -/
structure Obj where
  rep   : Nat                     -- identity of its representation object
  c     : C                       -- structure
  attrs : List (Name × Nat)       -- simplex ↦ identity of its attribute dict
  filt  : Option FExt := none
deriving Repr

/-- an `Embedding` object: the handle of its complex, the explicit/cached positions, the log of
`computePositionOf` calls; `lattice = some (h, w)` for a `TriangularLatticeEmbedding` -/
structure EObj where
  cx      : String
  st      : Emb.State Name (List Int)
  lattice : Option (Nat × Nat × Nat × Nat) := none     -- rows, columns, height, width
deriving Repr

structure World where
  objs  : List (String × Obj) := []
  cells : List (Nat × Dict) := []      -- attribute dict objects by identity
  next  : Nat := 0                     -- next fresh identity (cells and representations)
  udict : List (String × Nat) := []    -- dict objects created by the script (`D3`)
  embs  : List (String × EObj) := []
  reps  : List (String × MatRep.Rep) := []   -- raw representation objects (Layer R), driven by primitive calls only
deriving Repr

def World.obj? (w : World) (h : String) : Option Obj := (w.objs.find? (fun p => p.1 == h)).map (·.2)
def World.setObj (w : World) (h : String) (o : Obj) : World :=
  if w.objs.any (fun p => p.1 == h) then { w with objs := w.objs.map (fun p => if p.1 == h then (h, o) else p) }
  else { w with objs := w.objs ++ [(h, o)] }
def World.cell? (w : World) (d : Nat) : Option Dict := (w.cells.find? (fun p => p.1 == d)).map (·.2)
def World.setCell (w : World) (d : Nat) (v : Dict) : World :=
  if w.cells.any (fun p => p.1 == d) then { w with cells := w.cells.map (fun p => if p.1 == d then (d, v) else p) }
  else { w with cells := w.cells ++ [(d, v)] }
/-- allocate a fresh dict object with the given content -/
def World.alloc (w : World) (v : Dict) : Nat × World :=
  (w.next, { w with cells := w.cells ++ [(w.next, v)], next := w.next + 1 })
def World.freshId (w : World) : Nat × World := (w.next, { w with next := w.next + 1 })

def Obj.attr? (o : Obj) (n : Name) : Option Nat := (o.attrs.find? (fun p => p.1 == n)).map (·.2)
def Obj.dictOf (w : World) (o : Obj) (n : Name) : Dict :=
  match o.attr? n with
  | some d => (w.cell? d).getD []
  | none => []

def Obj.fs (o : Obj) : Option FS := o.filt.map (fun x => { c := o.c, index := x.index, births := x.births, keys := x.keys })
def Obj.withFS (o : Obj) (f : FS) : Obj := { o with c := f.c, filt := some { index := f.index, births := f.births, keys := f.keys } }

/-- after a structural change of object `o` to `c'`: simplices that survive keep their dict object, a new
simplex gets `special n` when given and otherwise a fresh dict object with content `content n`; deleted
simplices lose their entry -/
def sync (w : World) (o : Obj) (c' : C) (special : Name → Option Nat) (content : Name → Dict) : Obj × World :=
  let r := c'.names.foldl (fun (acc : List (Name × Nat) × World) n =>
    match o.attr? n with
    | some d => (acc.1 ++ [(n, d)], acc.2)
    | none =>
      match special n with
      | some d => (acc.1 ++ [(n, d)], acc.2)
      | none => let a := acc.2.alloc (content n); (acc.1 ++ [(n, a.1)], a.2)) ([], w)
  ({ o with c := c', attrs := r.1 }, r.2)

def noSpecial : Name → Option Nat := fun _ => none
def emptyContent : Name → Dict := fun _ => []

/-- an optional `attr` argument: `none` → `dict()` is created by the callee -/
def argDict (w : World) (a : Option Nat) : Nat × World :=
  match a with
  | some d => (d, w)
  | none => w.alloc []

/-! ### constructors -/

def newCx (w : World) (h : String) : World :=
  let r := w.freshId
  r.2.setObj h { rep := r.1, c := emptyC, attrs := [] }

def newFilt (w : World) (h : String) (ind : Int) : World :=
  let r := w.freshId
  r.2.setObj h { rep := r.1, c := emptyC, attrs := [], filt := some { index := ind, births := [], keys := [ind] } }

/-! ### mutators on one object (plain complex or filtration) -/

/-- structural result on a plain complex or through the filtration overrides -/
def addFacesOp (w : World) (h : String) (fs : List Name) (id : Option Name) (attr : Option Nat) :
    Except Err Name × World :=
  match w.obj? h with
  | none => (.error .key, w)
  | some o =>
    match o.fs with
    | none =>
      match addS o.c fs id with
      | (.error e, _) => (.error e, w)
      | (.ok n, c') =>
        let a := argDict w attr
        let r := sync a.2 o c' (fun m => if m = n then some a.1 else none) emptyContent
        (.ok n, r.2.setObj h r.1)
    | some f =>
      match f.addByFaces fs id with
      | (.error e, _) => (.error e, w)
      | (.ok n, f') =>
        let a := argDict w attr
        let r := sync a.2 (o.withFS f') f'.c (fun m => if m = n then some a.1 else none) emptyContent
        (.ok n, r.2.setObj h r.1)

/-- `addSimplexWithBasis(bs, id, attr)`: the new top simplex and every basis point created by the call share
the one `attr` object; faces created on the way get their own empty dict -/
def addBasisOp (w : World) (h : String) (bs : List Name) (id : Option Name) (attr : Option Nat) :
    Except Err Name × World :=
  match w.obj? h with
  | none => (.error .key, w)
  | some o =>
    let res : Except Err Name × C × (C → Obj) :=
      match o.fs with
      | none => let r := addSimplexWithBasisQ o.c bs id; (r.1, r.2, fun _ => o)
      | some f => let r := f.addByBasis bs id; (r.1, r.2.c, fun _ => o.withFS r.2)
    match res with
    | (.error e, c', mk) =>
      -- an exception does not roll back what the call had already created (only possible for requests the
      -- library does not document, e.g. a basis with a repeated point)
      if c'.simps == o.c.simps && c'.seq == o.c.seq then (.error e, w) else
      let a := argDict w attr
      let r := sync a.2 (mk c') c' (fun m => if c'.orderOf? m == some 0 then some a.1 else none) emptyContent
      (.error e, r.2.setObj h r.1)
    | (.ok n, c', mk) =>
      let a := argDict w attr
      let r := sync a.2 (mk c') c' (fun m => if m = n || c'.orderOf? m == some 0 then some a.1 else none) emptyContent
      (.ok n, r.2.setObj h r.1)

/-- an operation that only removes simplices, or adds simplices with fresh empty dicts -/
def structOp (w : World) (h : String) (f : C → Option C) : Except Err Unit × World :=
  match w.obj? h with
  | none => (.error .key, w)
  | some o =>
    match f o.c with
    | none => (.error .key, w)
    | some c' =>
      let o' := match o.fs with
        | none => o
        | some fs => o.withFS (fs.afterDelete c')
      let r := sync w o' c' noSpecial emptyContent
      (.ok (), r.2.setObj h r.1)

def deleteOp (w : World) (h : String) (s : Name) := structOp w h (fun c => deleteSimplex c s)
def deleteBasisOp (w : World) (h : String) (bs : List Name) := structOp w h (fun c => deleteSimplexWithBasis c bs)
def deleteManyOp (w : World) (h : String) (ss : List Name) := structOp w h (fun c => some (deleteSimplices c ss))
def restrictOp (w : World) (h : String) (bs : List Name) := structOp w h (fun c => restrictBasisTo c bs)

def subdivideOp (w : World) (h : String) (s : Name) (order : List Name) : Except Err Name × World :=
  match w.obj? h with
  | none => (.error .key, w)
  | some o =>
    match subdivide o.c s order with
    | .error e => (.error e, w)
    | .ok (mid, c') =>
      -- the simplices of the star are deleted first (their dicts are gone) even if a generated name is re-used
      let cDel := (deleteSimplex o.c s).getD o.c
      let o1 := { o with attrs := o.attrs.filter (fun p => cDel.contains p.1) }
      let r := sync w o1 c' noSpecial emptyContent
      (.ok mid, r.2.setObj h r.1)

def relabelWith (w : World) (h : String) (f : C → R (List (Name × Name))) : Except Err (List (Name × Name)) × World :=
  match w.obj? h with
  | none => (.error .key, w)
  | some o =>
    match f o.c with
    | (.error e, _) => (.error e, w)
    | (.ok mapping, c') =>
      let o' := { o with c := c', attrs := o.attrs.map (fun p => (renameOf mapping p.1, p.2)) }
      (.ok mapping, w.setObj h o')

/-- `relabelSimplex(s, q)`: the single-simplex form (ValueError when `q` is in use, KeyError when `s` is unknown) -/
def relabelOneOp (w : World) (h : String) (s q : Name) : Except Err Unit × World :=
  match w.obj? h with
  | none => (.error .key, w)
  | some o =>
    match o.c.relabelSimplex s q with
    | none => (.error .value, w)
    | some c' =>
      (.ok (), w.setObj h { o with c := c', attrs := o.attrs.map (fun p => (if p.1 = s then q else p.1, p.2)) })

def relabelOp (w : World) (h : String) (ρ : List (Name × Name)) := relabelWith w h (fun c => relabel c (renameOf ρ))
def relabelDisjointOp (w : World) (h other : String) : Except Err (List (Name × Name)) × World :=
  match w.obj? other with
  | none => (.error .key, w)
  | some oo => relabelWith w h (fun c => relabelDisjointFrom c oo.c)

/-- `c[s] = attr` -/
def setAttrOp (w : World) (h : String) (s : Name) (d : Nat) : Except Err Unit × World :=
  match w.obj? h with
  | none => (.error .key, w)
  | some o =>
    -- `_attributes[s] = attr` does not check membership; the harness only sets attributes of members
    if o.c.contains s then
      (.ok (), w.setObj h { o with attrs := o.attrs.map (fun p => if p.1 = s then (s, d) else p) })
    else (.error .key, w)

/-- `c[s][k] = v`: in-place change of the dict object -/
def dictSetOp (w : World) (h : String) (s : Name) (k v : Int) : Except Err Unit × World :=
  match w.obj? h with
  | none => (.error .key, w)
  | some o =>
    match o.attr? s with
    | none => (.error .key, w)
    | some d => (.ok (), w.setCell d (Dict.set ((w.cell? d).getD []) k v))

/-! ### copy-like constructors -/

/-- `dst.addSimplicesFrom(src, rename)`: attribute dicts are copied (`copy.copy(c[s])`) -/
def addFromOp (w : World) (dst src : String) (ρ : List (Name × Name)) : Except Err (List Name) × World :=
  match w.obj? dst, w.obj? src with
  | some d, some s =>
    let r := addFrom d.c s.c (renameOf ρ)
    -- the content of a new simplex `t = ρ s0` is a copy of the source simplex's dict
    let content := fun (t : Name) =>
      match s.c.names.find? (fun n => renameOf ρ n == t) with
      | some n => s.dictOf w n
      | none => []
    let y := sync w d r.2 noSpecial content
    (r.1, y.2.setObj dst y.1)
  | _, _ => (.error .key, w)

/-- `src.copy()` into a new object `h` -/
def copyOp (w : World) (src h : String) : Except Err Unit × World :=
  match w.obj? src with
  | none => (.error .key, w)
  | some s =>
    let w1 := newCx w h
    match addFromOp w1 h src [] with
    | (.ok _, w2) => (.ok (), w2)
    | (.error e, w2) => (.error e, w2)

/-- `src.copy(tgt)` -/
def copyIntoOp (w : World) (src tgt : String) : Except Err Unit × World :=
  match w.obj? src, w.obj? tgt with
  | some s, some t =>
    if s.c.names.any t.c.contains then (.error .value, w) else
    match addFromOp w tgt src [] with
    | (.ok _, w2) => (.ok (), w2)
    | (.error e, w2) => (.error e, w2)
  | _, _ => (.error .key, w)

/-- `copy.deepcopy(src)`: the same structure (including the name counter) and a fresh copy of every dict
OBJECT: `copy.deepcopy` keeps a memo (identity of a source object ↦ its copy), so simplices that hold the very
same dict object in the source hold one common new dict object in the copy. `y.1` is that memo (source cell id
↦ fresh cell id): one fresh cell per distinct source cell id, allocated in order of first occurrence in
`s.attrs`, with the content of the source cell. Every simplex is mapped to the fresh cell of its source cell
(every cell id of `s.attrs` is a key of the memo, so the `getD` default is never used). -/
def deepcopyOp (w : World) (src h : String) : Except Err Unit × World :=
  match w.obj? src with
  | none => (.error .key, w)
  | some s =>
    let r := w.freshId
    let y := s.attrs.foldl (fun (acc : List (Nat × Nat) × World) p =>
      match (acc.1.find? (fun q => q.1 == p.2)).map (·.2) with
      | some _ => acc
      | none => let a := acc.2.alloc ((w.cell? p.2).getD []); (acc.1 ++ [(p.2, a.1)], a.2)) ([], r.2)
    let attrs := s.attrs.map (fun p => (p.1, ((y.1.find? (fun q => q.1 == p.2)).map (·.2)).getD p.2))
    (.ok (), y.2.setObj h { rep := r.1, c := s.c, attrs := attrs, filt := s.filt })

/-- shared simplices get a new dict = a's updated with b's (`d[s] = attr`) -/
def mergeAttrs (w : World) (a b : Obj) (h : String) (shared : List Name) : World :=
  shared.foldl (fun w n =>
    let merged := Dict.update (a.dictOf w n) (b.dictOf w n)
    let al := w.alloc merged
    match al.2.obj? h with
    | none => al.2
    | some d' => al.2.setObj h { d' with attrs := d'.attrs.map (fun p => if p.1 = n then (n, al.1) else p) }) w

/-- `a.compose(b)` into a new object: the name-respecting union -/
def composeOp (w : World) (ha hb h : String) : Except Err Unit × World :=
  match w.obj? ha, w.obj? hb with
  | some a, some b =>
    match composeNew a.c b.c with
    | .error e => (.error e, w)
    | .ok c' =>
      let r := w.freshId
      let o : Obj := { rep := r.1, c := emptyC, attrs := [] }
      let content := fun (n : Name) => if a.c.contains n then a.dictOf w n else b.dictOf w n
      let y := sync r.2 o c' noSpecial content
      (.ok (), mergeAttrs (y.2.setObj h y.1) a b h (b.c.names.filter a.c.contains))
  | _, _ => (.error .key, w)

/-- `a.compose(b, d)` into an existing target -/
def composeIntoOp (w : World) (ha hb ht : String) : Except Err Unit × World :=
  match w.obj? ha, w.obj? hb, w.obj? ht with
  | some a, some b, some t =>
    let r := composeInto a.c b.c t.c
    let content := fun (n : Name) => if a.c.contains n then a.dictOf w n else b.dictOf w n
    let y := sync w t r.2.1 noSpecial content
    (r.1, mergeAttrs (y.2.setObj ht y.1) a b ht r.2.2)
  | _, _, _ => (.error .key, w)

/-- a derived complex built from a copy of `src` by adding simplices with empty dicts -/
def derivedOp (w : World) (src h : String) (f : C → Except Err C) : Except Err Unit × World :=
  match w.obj? src with
  | none => (.error .key, w)
  | some s =>
    match f s.c with
    | .error e => (.error e, w)
    | .ok c' =>
      let r := w.freshId
      let o : Obj := { rep := r.1, c := emptyC, attrs := [] }
      let y := sync r.2 o c' noSpecial (fun n => s.dictOf w n)
      (.ok (), y.2.setObj h y.1)

def flagOp (w : World) (src h : String) := derivedOp w src h flagOf

/-- JSON encode + decode: a new plain complex replaying `addSimplex` for every (visible) simplex -/
def jsonOp (w : World) (src h : String) : Except Err Unit × World :=
  match w.obj? src with
  | none => (.error .key, w)
  | some s =>
    match s.fs with
    | none => derivedOp w src h (fun c => match copyNew c with | (.ok _, d) => .ok d | (.error e, _) => .error e)
    | some f => derivedOp w src h (fun _ => match f.snap with | (.ok _, d) => .ok d | (.error e, _) => .error e)

def growOp (w : World) (h : String) (ss : List Name) : Except Err Unit × World :=
  match w.obj? h with
  | none => (.error .key, w)
  | some o =>
    let r := growFlagQ o.c ss
    let y := sync w o r.2 noSpecial emptyContent
    (r.1, y.2.setObj h y.1)

/-- generators: into a new complex (`tgt = none`) or an existing one -/
def genOp (w : World) (h : String) (isNew : Bool) (f : C → Except Err C) (special : C → Name → Option Nat) :
    Except Err Unit × World :=
  let w1 := if isNew then newCx w h else w
  match w1.obj? h with
  | none => (.error .key, w)
  | some o =>
    match f o.c with
    | .error e => (.error e, w1)     -- generators are not atomic; failures are not generated by the harness
    | .ok c' =>
      let y := sync w1 o c' (special c') emptyContent
      (.ok (), y.2.setObj h y.1)

/-! ### filtration-only operations -/

def filtOp {ρ : Type} (w : World) (h : String) (f : FS → Except Err ρ × FS) : Except Err ρ × World :=
  match w.obj? h with
  | none => (.error .key, w)
  | some o =>
    match o.fs with
    | none => (.error .key, w)
    | some fs => let r := f fs; (r.1, w.setObj h (o.withFS r.2))

def snapOp (w : World) (src h : String) : Except Err Unit × World :=
  match w.obj? src with
  | none => (.error .key, w)
  | some s =>
    match s.fs with
    | none => (.error .key, w)
    | some f =>
      match f.snap with
      | (.error e, _) => (.error e, w)
      | (.ok _, c') =>
        let r := w.freshId
        let o : Obj := { rep := r.1, c := emptyC, attrs := [] }
        let y := sync r.2 o c' noSpecial (fun n => s.dictOf w n)
        (.ok (), y.2.setObj h y.1)

def fcopyOp (w : World) (src h : String) (order : List Name) : Except Err Unit × World :=
  match w.obj? src with
  | none => (.error .key, w)
  | some s =>
    match s.fs with
    | none => (.error .key, w)
    | some f =>
      match f.copyF order with
      | .error e => (.error e, w)
      | .ok g =>
        let r := w.freshId
        let o : Obj := { rep := r.1, c := emptyC, attrs := [] }
        let y := sync r.2 (o.withFS { g with c := emptyC }) g.c noSpecial (fun n => s.dictOf w n)
        (.ok (), y.2.setObj h (y.1.withFS g))

end W
