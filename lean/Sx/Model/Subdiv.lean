import Sx.Model.Delete
namespace Flat
/-- `for idx in range(len(points)): self.addSimplexWithBasis(points[:idx] + points[idx+1:] + [mid_pt])` -/
def coneLoop (mid : Name) (pts : List Name) : C → List Nat → Except Err C
  | c, [] => .ok c
  | c, i :: is =>
    match addSimplexWithBasis' c (pts.eraseIdx i ++ [mid]) none with
    | (.ok _, c') => coneLoop mid pts c' is
    | (.error e, _) => .error e

def subdivide (c : C) (s : Name) (order : List Name) : Except Err (Name × C) :=
  match c.orderOf? s with
  | none => .error .key
  | some 0 => .error .value
  | some (_ + 1) =>
    let r := newSimplex c 0
    match r.2.addSimplex [] r.1 with
    | .error e => .error e
    | .ok c1 =>
      match deleteSimplex c1 s with
      | none => .error .key
      | some c2 =>
        match coneLoop r.1 order c2 (List.range order.length) with
        | .error e => .error e
        | .ok c3 => .ok (r.1, c3)

end Flat
