import Sx.Model.Flat
namespace Flat
/-- simplex names: `u n` = user atom number n (an opaque hashable Python value), `auto d i` = the generated
name `f'{d}d{i}'`, `arrow s k u` = the name `f'{s}->{k}d{u}'` made by `_createDisjointRenaming` -/
inductive Name | u (n : Nat) | auto (d i : Nat) | arrow (base : Name) (k u : Nat)
deriving Repr, DecidableEq

def Name.str : Name → String
  | .u n => s!"u{n}"
  | .auto d i => s!"a{d}.{i}"
  | .arrow b k j => s!"w{k}.{j}.{b.str}"

abbrev C := Cx Name

/-- Python-style result: value or exception, state always returned -/
abbrev R (ρ : Type) := Except Err ρ × C

/-- newSimplex: search from seq for an unused `{d}d{i}`; fuel = #names + 1 always suffices -/
def newSimplexAux (c : C) (d : Nat) : Nat → Nat → Nat
  | 0, i => i
  | fuel + 1, i => if c.contains (.auto d i) then newSimplexAux c d fuel (i + 1) else i

def newSimplex (c : C) (d : Nat) : Name × C :=
  let i := newSimplexAux c d (c.simps.length + 1) c.seq
  (.auto d i, { c with seq := i + 1 })

/-- addSimplex with optional id (validate, allocate name, mutate) -/
def addS (c : C) (fs : List Name) (id : Option Name) : R Name :=
  match id with
  | some n => match c.addSimplex fs n with
    | .ok c' => (.ok n, c')
    | .error e => (.error e, c)
  | none =>
    let k := fs.length - 1
    let (n, c1) := newSimplex c k
    match c.addSimplex fs n with       -- validation does not depend on seq
    | .ok c' => (.ok n, { c' with seq := c1.seq })
    | .error e => (.error e, c)

def isBasis (c : C) (bs : List Name) : Except Err Bool :=
  .ok (bs.all (fun b => c.orderOf? b == some 0))

def simplexWithBasis (c : C) (bs : List Name) : Option Name :=
  if !(bs.all (fun b => c.orderOf? b == some 0)) then none else
  match bs with
  | [] => none            -- Python: k = -1; loop over simplicesOfOrder(-1)…  (handled separately)
  | [b] => some b
  | _ =>
    let k := bs.length - 1
    ((c.ofOrder k).find? (fun s => setEqB s.basis bs)).map (·.name)

/-- itertools.combinations(bs, len(bs)-1): omit the last element first -/
def dropOne : List Name → List (List Name)
  | [] => []
  | x :: xs => (dropOne xs).map (x :: ·) ++ [xs]

/-- generated name that avoids `id` (the D29 repair: `while fid == id: fid = newSimplex(...)`) -/
def newSimplexAvoid (c : C) (d : Nat) (id : Name) : Name × C :=
  let r := newSimplex c d
  if r.1 = id then newSimplex r.2 d else r

/-- add a face with a generated name avoiding `id` -/
def addFace (c : C) (fs : List Name) (id : Name) : R Name :=
  let k := fs.length - 1
  let r := newSimplexAvoid c k id
  match c.addSimplex fs r.1 with
  | .ok c' => (.ok r.1, { c' with seq := r.2.seq })
  | .error e => (.error e, c)

/-- the loop `for pfs in combinations(bs, len(bs)-1): fs.add(rec(pfs))` -/
def facetLoop (rec : C → List Name → R Name) : C → List Name → List (List Name) → Except Err (List Name) × C
  | c, acc, [] => (.ok acc, c)
  | c, acc, p :: ps =>
    match rec c p with
    | (.ok f, c') => facetLoop rec c' (if acc.contains f then acc else acc ++ [f]) ps
    | (.error e, c') => (.error e, c')

/-- `_addSimplexWithBasis(id, attr, k, bs)` with fuel `≥ bs.length` -/
def addWB (id : Name) (k : Nat) : Nat → C → List Name → R Name
  | 0, c, _ => (.error .value, c)
  | fuel + 1, c, bs =>
    match simplexWithBasis c bs with
    | some s => (.ok s, c)
    | none =>
      match facetLoop (addWB id k fuel) c [] (dropOne bs) with
      | (.error e, c') => (.error e, c')
      | (.ok fs, c') =>
        if k = bs.length - 1 then addS c' fs (some id) else addFace c' fs id

/-- create the missing basis points; all present members have already been checked to be points -/
def ensurePoints (c : C) : List Name → Except Err C
  | [] => .ok c
  | b :: bs =>
    if c.contains b then ensurePoints c bs
    else match c.addSimplex [] b with
      | .ok c' => ensurePoints c' bs
      | .error e => .error e

def idUsed (c : C) : Option Name → Bool
  | some n => c.contains n
  | none => false

/-- the requested name is itself a member of the basis (rejected: it would name two simplices) -/
def idInBasis (bs : List Name) : Option Name → Bool
  | some n => bs.contains n
  | none => false

def topName (c1 : C) (d : Nat) : Option Name → Name × C
  | some n => (n, c1)
  | none => newSimplex c1 d

/-- `addSimplexWithBasis(bs, id)` for `|bs| ≥ 2` -/
def addSimplexWithBasis' (c : C) (bs : List Name) (id : Option Name) : R Name :=
  -- validate before creating anything (D03)
  if idUsed c id then (.error .key, c) else
  if idInBasis bs id then (.error .key, c) else
  if bs.any (fun b => c.contains b && c.orderOf? b != some 0) then (.error .value, c) else
  if (simplexWithBasis c bs).isSome then (.error .key, c) else
  match ensurePoints c bs with
  | .error e => (.error e, c)
  | .ok c1 =>
    -- the top name is generated only now (D31)
    let r : Name × C := topName c1 (bs.length - 1) id
    addWB r.1 (bs.length - 1) bs.length r.2 bs

end Flat
