/-! spike: flat Layer-A state: one list of simplices sorted by order (core Lean only) -/
namespace Flat

structure Simp (α : Type) where
  name  : α
  order : Nat
  faces : List α
  basis : List α
deriving Repr, DecidableEq

structure Cx (α : Type) where
  simps : List (Simp α)
  seq   : Nat := 0
deriving Repr

variable {α : Type} [DecidableEq α]

def Cx.lookup (c : Cx α) (n : α) : Option (Simp α) := c.simps.find? (fun s => s.name == n)
def Cx.contains (c : Cx α) (n : α) : Bool := (c.lookup n).isSome
def Cx.orderOf? (c : Cx α) (n : α) : Option Nat := (c.lookup n).map (·.order)
def Cx.basisOf (c : Cx α) (n : α) : List α := ((c.lookup n).map (·.basis)).getD []
def Cx.facesOf (c : Cx α) (n : α) : List α := ((c.lookup n).map (·.faces)).getD []
def Cx.ofOrder (c : Cx α) (k : Nat) : List (Simp α) := c.simps.filter (fun s => s.order == k)
def Cx.maxOrder (c : Cx α) : Int :=
  match c.simps.getLast? with
  | none => -1
  | some s => s.order

def subsetB (a b : List α) : Bool := a.all (b.contains ·)
def setEqB (a b : List α) : Bool := subsetB a b && subsetB b a

/-- remove duplicates (Python `set` of names; order irrelevant) -/
def dedupL : List α → List α
  | [] => []
  | x :: xs => let r := dedupL xs; if r.contains x then r else x :: r

/-- the given faces in canonical (listing) order: what decoding the new boundary-matrix column yields -/
def canonFaces (c : Cx α) (k : Nat) (fs : List α) : List α :=
  ((c.ofOrder (k - 1)).map (·.name)).filter (fun n => fs.contains n)

/-- the points of the given faces in canonical (listing) order: what decoding the new basis-matrix column yields -/
def canonBasis (c : Cx α) (fs : List α) : List α :=
  ((c.ofOrder 0).map (·.name)).filter (fun p => fs.any (fun f => (c.basisOf f).contains p))

/-- insert after the last simplex of order ≤ s.order (append to that order's listing) -/
def insertSorted (s : Simp α) : List (Simp α) → List (Simp α)
  | [] => [s]
  | t :: ts => if t.order ≤ s.order then t :: insertSorted s ts else s :: t :: ts

inductive Err | key | value
deriving Repr, DecidableEq

/-- mirror of ReferenceRepresentation.addSimplex (validate, then mutate), explicit id -/
def Cx.addSimplex (c : Cx α) (fs : List α) (id : α) : Except Err (Cx α) :=
  let k := fs.length - 1
  if fs.length = 1 then .error .value else
  if c.contains id then .error .key else
  if ¬ fs.Nodup then .error .key else
  if (k : Int) > c.maxOrder + 1 then .error .value else
  if fs.isEmpty then
    .ok { c with simps := insertSorted ⟨id, 0, [], [id]⟩ c.simps }
  else
    if fs.any (fun f => !c.contains f) then .error .key else
    if fs.any (fun f => c.orderOf? f != some (k-1)) then .error .value else
    if (c.ofOrder k).any (fun s => setEqB s.faces fs) then .error .key else
    .ok { c with simps := insertSorted ⟨id, k, canonFaces c k fs, canonBasis c fs⟩ c.simps }

end Flat


