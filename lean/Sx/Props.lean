import Sx.Props.C05
import Sx.Props.Common
import Sx.Props.Copy
import Sx.Props.Euler
import Sx.Props.Relabel
import Sx.Props.Views
