import Sx.Model.Driver

/-- read operations from stdin, one per line; print one result line per operation -/
partial def loop (h : IO.FS.Stream) (out : IO.FS.Stream) (w : W.World) : IO Unit := do
  let line ← h.getLine
  if line.isEmpty then return ()
  let l := String.ofList ((line.toList.reverse.dropWhile (fun c => c == Char.ofNat 10 || c == Char.ofNat 13)).reverse)
  let (w', o) := Drv.step w l
  out.putStrLn o
  loop h out w'

def main : IO Unit := do
  let stdin ← IO.getStdin
  let stdout ← IO.getStdout
  loop stdin stdout {}
